"""Shared machinery of ./check: builds, stream execution, comparison, verdicts, evidence."""
import concurrent.futures as cf
import fcntl
import hashlib
import json
import os
import re
import subprocess
import sys
import time

VERIF = os.path.dirname(os.path.dirname(os.path.abspath(__file__)))
REPO = os.environ.get("VERIF_REPO", "/repo")
LEAN = os.path.join(VERIF, "lean")
HARNESS = os.path.join(VERIF, "harness")
BUILD = os.path.join(VERIF, "build")
# two builds of the oracle: ORACLE links the library exactly as its users build it (no build tag) and
# answers everything that needs no hook; ORACLE_HOOKS is built with -tags verif for what does (lock
# events, schedule control, registry dumps)
ORACLE = os.path.join(BUILD, "oracle-plain")
ORACLE_HOOKS = os.path.join(BUILD, "oracle")


def needs_hooks(req):
    req = strip_tz(req)
    return req.startswith("locks ") or req == "rules types" or req.startswith("meta ")


# The process environment of the real code is part of "every input": a request may carry the token
# "@tz=<zone>" in front; the oracle then answers it with time.Local set to that zone (what a process
# started with TZ=<zone> sees). The model has no environment: its answer is the same for every prefix.
# "" = the zone the check itself runs in (UTC in this sandbox). The list mixes zones west and east of
# Greenwich, zones whose offset changed sign (London 1847, Apia 1892/2011, Kiritimati 1994, Lisbon),
# zones whose daylight-saving jump is at local midnight (Sao_Paulo, Havana), and odd offsets.
TZS = ["", "America/New_York", "Europe/London", "Pacific/Apia", "Asia/Tehran", "America/Sao_Paulo",
       "Pacific/Kiritimati", "Pacific/Honolulu", "Asia/Kathmandu", "America/Havana", "Australia/Lord_Howe",
       "Europe/Lisbon"]
TZ_RUN = 32      # consecutive requests of one oracle process that share a zone


def strip_tz(req):
    """the request without its leading environment tokens (@tz=…, @procs=…)"""
    while req.startswith("@"):
        req = req.split(" ", 1)[1] if " " in req else ""
    return req


def with_tz(tz, req, procs=0):
    if req.startswith("@") or needs_hooks(req):
        return req
    if tz:
        req = "@tz=%s %s" % (tz, req)
    if procs:
        req = "@procs=%d %s" % (procs, req)
    return req


def _procs(run):
    """GOMAXPROCS of a run of requests: one run in eight on a single processor, one in eight on two"""
    return {3: 1, 6: 2}.get(run % 8, 0)


def nchunks(nreq, nworkers=None):
    return max(1, min(nworkers or NCPU, nreq // 50 + 1))


def decorate_tz(requests, groups):
    """Give every request a local zone, in runs of TZ_RUN requests as one oracle process sees them."""
    if os.environ.get("VERIF_NO_TZ"):
        return requests, groups
    L = len(TZS)
    if groups:
        gs = [[with_tz(TZS[(gi + j // TZ_RUN) % L], r, _procs(gi + j // TZ_RUN)) for j, r in enumerate(g)] for gi, g in enumerate(groups)]
        return [r for g in gs for r in g], gs
    n = nchunks(len(requests))
    return [with_tz(TZS[((i // n) // TZ_RUN + i % n) % L], r, _procs((i // n) // TZ_RUN + i % n)) for i, r in enumerate(requests)], None


ORACLE_WINDOW = 64    # requests the oracle reads at a time (harness/cmd/oracle/main.go windowSize)
EXTRACT = os.path.join(BUILD, "extract")
DRIVER = os.path.join(LEAN, ".lake", "build", "bin", "driver")
NCPU = min(16, os.cpu_count() or 4)

GOENV = dict(os.environ, GOFLAGS="-mod=mod", GOPROXY="off", GOSUMDB="off", GOTOOLCHAIN="local",
             CGO_ENABLED=os.environ.get("CGO_ENABLED", "0"))

ALLOWED_AXIOMS = {"propext", "Classical.choice", "Quot.sound"}
FORBIDDEN = re.compile(r"\b(sorry|admit|native_decide|bv_decide|implemented_by|unsafe)\b|^\s*axiom\s|maxHeartbeats\s+0")


def log(*a):
    print(*a, file=sys.stderr, flush=True)


class Lock:
    """flock so that concurrent checks share one lake project / build dir."""

    def __init__(self, name):
        os.makedirs(BUILD, exist_ok=True)
        self.path = os.path.join(BUILD, name + ".lock")

    def __enter__(self):
        self.f = open(self.path, "w")
        fcntl.flock(self.f, fcntl.LOCK_EX)
        return self

    def __exit__(self, *a):
        fcntl.flock(self.f, fcntl.LOCK_UN)
        self.f.close()


def run(cmd, cwd=None, env=None, timeout=None, input=None):
    p = subprocess.run(cmd, cwd=cwd, env=env, timeout=timeout, input=input,
                       stdout=subprocess.PIPE, stderr=subprocess.STDOUT, text=True)
    return p.returncode, p.stdout


# ------------------------------------------------------------------------------------
# builds

def build_go():
    """Rebuild oracle and extract from /repo's current working tree (hooks on)."""
    with Lock("go"):
        sumsrc = os.path.join(REPO, "go.sum")
        if os.path.exists(sumsrc):
            with open(sumsrc) as f, open(os.path.join(HARNESS, "go.sum"), "w") as g:
                g.write(f.read())
        out_all = ""
        if REPO != "/repo":
            # an isolated run against a copy of the repository (VERIF_REPO): point the harness module at it
            run(["go", "mod", "edit", "-replace", "github.com/ilius/libgostarcal=" + REPO], cwd=HARNESS, env=GOENV)
        for name in ("oracle", "extract"):
            rc, out = run(["go", "build", "-tags", "verif", "-o", os.path.join(BUILD, name), "./cmd/" + name],
                          cwd=HARNESS, env=GOENV, timeout=600)
            out_all += out
            if rc != 0:
                return False, out_all
        # the production build (no tag): the code as users of the library get it
        rc, out = run(["go", "build", "-o", ORACLE, "./cmd/oracle"], cwd=HARNESS, env=GOENV, timeout=600)
        out_all += out
        if rc != 0:
            return False, out_all
        # the hijri month table as the library holds it, for the untagged oracle's statement of the table rule
        try:
            p = subprocess.run([ORACLE_HOOKS], input="meta hijri-table\n", stdout=subprocess.PIPE, stderr=subprocess.DEVNULL, text=True, timeout=60)
            line = p.stdout.split("\n")[0].split("\t")[0]
            if line.startswith("{"):
                with open(os.path.join(BUILD, "hijri_table.json"), "w") as f:
                    f.write(line)
        except Exception as ex:   # the table dump is support for attribution only
            out_all += "hijri table dump failed: %s\n" % ex
        return True, out_all


def scan_build_constraints():
    """The checks run the library as built WITHOUT the verif tag, except where hooks are needed; that is
    only sound if the tag does nothing but ADD the recorded hook files. Any other build constraint that
    mentions the tag (a `!verif` twin of a source file, say) is reported."""
    bad = []
    for root, dirs, files in os.walk(REPO):
        dirs[:] = [d for d in dirs if not d.startswith(".") and d != "SEEDED"]
        for fn in files:
            if not fn.endswith(".go"):
                continue
            path = os.path.join(root, fn)
            try:
                head = open(path, errors="replace").read(4000)
            except OSError:
                continue
            for line in head.split("\n"):
                t = line.strip()
                if t.startswith("package "):
                    break
                if (t.startswith("//go:build") or t.startswith("// +build")) and "verif" in t:
                    ok = fn == "verif_hooks.go" and t in ("//go:build verif", "// +build verif")
                    if not ok:
                        bad.append("%s: %s" % (os.path.relpath(path, REPO), t))
    return bad


def regenerate():
    """Run the extractor: Gen/*.lean rewritten only when their content changes."""
    with Lock("lake"):
        rc, out = run([EXTRACT, "-repo", REPO, "-out", os.path.join(LEAN, "Starcal", "Gen")], timeout=300)
    return rc == 0, out


def lake_build(targets, timeout=1500):
    with Lock("lake"):
        t0 = time.time()
        try:
            rc, out = run(["lake", "build"] + targets, cwd=LEAN, timeout=timeout)
        except subprocess.TimeoutExpired:
            return False, "lake build timed out after %ds" % timeout, time.time() - t0
        return rc == 0, out, time.time() - t0


def strip_comments(src):
    src = re.sub(r"/-.*?-/", "", src, flags=re.S)
    src = re.sub(r"--.*", "", src)
    return src


def lean_sources(modules):
    """Transitive closure of Starcal.* imports starting from the given modules."""
    seen, todo = {}, list(modules)
    while todo:
        m = todo.pop()
        if m in seen:
            continue
        path = os.path.join(LEAN, *m.split(".")) + ".lean"
        if not os.path.exists(path):
            continue
        src = open(path).read()
        seen[m] = src
        for imp in re.findall(r"^import\s+(\S+)", src, flags=re.M):
            if imp.startswith("Starcal"):
                todo.append(imp)
    return seen


def audit(prop_module):
    """Forbidden-construct grep over the transitive sources and #print axioms of every theorem
    declared in the property module. Returns (ok, theorems{name: axioms}, problems)."""
    srcs = lean_sources([prop_module])
    problems = []
    for m, src in srcs.items():
        for ln in strip_comments(src).splitlines():
            if FORBIDDEN.search(ln):
                problems.append("forbidden construct in %s: %s" % (m, ln.strip()))
    src = strip_comments(srcs.get(prop_module, ""))
    ns = []
    names = []
    for ln in src.splitlines():
        mm = re.match(r"\s*namespace\s+(\S+)", ln)
        if mm:
            ns.append(mm.group(1))
            continue
        mm = re.match(r"\s*end\s+(\S+)", ln)
        if mm and ns and ns[-1] == mm.group(1):
            ns.pop()
            continue
        mm = re.match(r"\s*(?:protected\s+)?theorem\s+([^\s:({\[]+)", ln)
        if mm:
            names.append(".".join(ns + [mm.group(1)]))
    n_examples = len(re.findall(r"^\s*example\b", src, flags=re.M))
    os.makedirs(os.path.join(LEAN, ".audit"), exist_ok=True)
    apath = os.path.join(LEAN, ".audit", prop_module.split(".")[-1] + ".lean")
    with open(apath, "w") as f:
        f.write("import %s\n" % prop_module)
        for n in names:
            f.write("#print axioms %s\n" % n)
    with Lock("lake"):
        rc, out = run(["lake", "env", "lean", apath], cwd=LEAN, timeout=600)
    thms = {}
    for mm in re.finditer(r"'([^']+)' depends on axioms: \[([^\]]*)\]", out):
        thms[mm.group(1)] = [a.strip() for a in mm.group(2).split(",") if a.strip()]
    for mm in re.finditer(r"'([^']+)' does not depend on any axioms", out):
        thms[mm.group(1)] = []
    for n in names:
        if n not in thms:
            problems.append("theorem %s: no axiom report (%s)" % (n, out.strip()[:300]))
        else:
            bad = [a for a in thms[n] if a not in ALLOWED_AXIOMS]
            if bad:
                problems.append("theorem %s depends on disallowed axioms %s" % (n, bad))
    return (rc == 0 and not problems), thms, problems, n_examples


def source_ties(modules):
    """Tie theorems `translated source = hand-written model` (lean/Starcal/SrcTie/*.lean) over Gen/Src.lean, which
    the extractor regenerates from /repo on every run. Soft: a module that no longer builds is reported as
    not established (the correspondence check is then the only tie for that code, and the caller widens it)."""
    out = {"established": {}, "not_established": {}, "translated_functions": []}
    src = os.path.join(LEAN, "Starcal", "Gen", "Src.lean")
    if os.path.exists(src):
        m = re.search(r"def translated : List String := \[(.*?)\]", open(src).read())
        if m:
            out["translated_functions"] = re.findall(r'"([^"]+)"', m.group(1))
    for mod in modules:
        ok, lout, secs = lake_build([mod], timeout=900)
        if not ok:
            errs = re.findall(r"^error: (\S+?:\d+:\d+: .*)$", lout, flags=re.M)
            out["not_established"][mod] = [e[:300] for e in errs[:6]] or [lout[-600:]]
            # every file with an error, and every module lake could not build (a file that fails on a missing definition)
            out.setdefault("broken_files", [])
            out["broken_files"] = sorted(set(out["broken_files"]) | set(re.findall(r"^error: (Starcal/\S+?\.lean):\d+", lout, flags=re.M))
                                         | {m.replace(".", "/") + ".lean" for m in re.findall(r"^- (Starcal\.\S+)$", lout, flags=re.M)})
            continue
        aok, thms, problems, n_ex = audit(mod)
        if not aok:
            out["not_established"][mod] = ["audit: " + "; ".join(str(p) for p in problems[:4])]
            continue
        out["established"][mod] = {"theorems": thms, "examples": n_ex, "build_s": round(secs, 1)}
    return out


# ------------------------------------------------------------------------------------
# streams

class Mismatch:
    def __init__(self, request, impl, model):
        self.request, self.impl, self.model = request, impl, model

    def as_dict(self):
        return {"request": self.request, "impl_response": self.impl[:2000], "model_response": self.model[:2000]}


class StreamResult:
    def __init__(self, name):
        self.name = name
        self.requests = 0
        self.mismatches = []      # Mismatch
        self.props = []           # (request, "Cxx", text)
        self.more = {}            # prop -> extra count
        self.samples = []
        self.kinds = {}           # histogram of response kinds
        self.crashed = None
        self.distinct = 0
        self.weight = 0           # number of elementary evaluations (e.g. days hashed)
        self.context = {}         # request -> the other requests of its window (failures seen with concurrent callers)


def _serve(binary, reqfile, outfile):
    with open(reqfile) as fin, open(outfile, "w") as fout:
        p = subprocess.run([binary], stdin=fin, stdout=fout, stderr=subprocess.PIPE,
                           env=dict(os.environ, GOMEMLIMIT="6GiB"))
    # the oracle's last stderr line says how much it asked concurrently
    m = re.search(rb"STORM groups=(\d+) calls=(\d+) first=(\d+)", p.stderr[-400:] if p.stderr else b"")
    return (p.returncode, tuple(int(x) for x in m.groups()) if m else (0, 0, 0))


def response_kind(resp):
    t = resp.split(" ", 1)[0]
    if t in ("ok", "err", "panic", "bad-request", "unmodelled"):
        return t
    return "value"


def run_stream(name, requests, workdir, nworkers=NCPU, compare=None, weight=None, model_only=False, groups=None):
    """Feed the same request lines to the real code (oracle) and the Lean model (driver);
    compare responses line by line. `compare(req, impl, model)` may override equality."""
    res = StreamResult(name)
    res.requests = len(requests)
    if not requests:
        return res
    os.makedirs(workdir, exist_ok=True)
    n = nchunks(len(requests), nworkers)
    if groups:
        # stateful protocol: a group (header + its queries) stays together, in order
        chunks = [[] for _ in range(n)]
        for gi, g in enumerate(sorted(groups, key=len, reverse=True)):
            min(chunks, key=len).extend(g)
        chunks = [c for c in chunks if c]
    else:
        chunks = [requests[i::n] for i in range(n)]
    files = []
    for i, ch in enumerate(chunks):
        rq = os.path.join(workdir, "%s.%d.req" % (name, i))
        with open(rq, "w") as f:
            f.write("\n".join(ch) + "\n")
        files.append((rq, rq[:-4] + ".impl", rq[:-4] + ".model"))
    with cf.ThreadPoolExecutor(max_workers=NCPU) as ex:
        futs = []
        for rq, im, mo in files:
            if not model_only:
                chunk_reqs = open(rq).read().split("\n")
                binary = ORACLE_HOOKS if any(needs_hooks(r) for r in chunk_reqs) else ORACLE
                futs.append(ex.submit(_serve, binary, rq, im))
            futs.append(ex.submit(_serve, DRIVER, rq, mo))
        rcs = [f.result() for f in futs]
    res.concurrent = {"groups_asked_concurrently": sum(r[1][0] for r in rcs), "concurrent_calls": sum(r[1][1] for r in rcs),
                      "requests_asked_concurrently_first": sum(r[1][2] for r in rcs)}
    res.local_zones = {}
    for r in requests:
        zt = [t for t in r.split(" ")[:2] if t.startswith("@tz=")]
        z = zt[0][4:] if zt else "(zone of the check: UTC)"
        res.local_zones[z] = res.local_zones.get(z, 0) + 1
    seen = set()
    selfcases = []
    reasks = 0
    for (rq, im, mo), ch in zip(files, chunks):
        mo_lines = open(mo).read().split("\n")
        im_lines = open(im).read().split("\n") if not model_only else mo_lines
        if len(im_lines) < len(ch) + 0 or len(mo_lines) < len(ch):
            res.crashed = "short output for %s: impl %d model %d of %d requests" % (
                rq, len(im_lines) - 1, len(mo_lines) - 1, len(ch))
        for k, req in enumerate(ch):
            il = im_lines[k] if k < len(im_lines) else "<no output>"
            ml = mo_lines[k] if k < len(mo_lines) else "<no output>"
            parts = il.split("\t")
            iresp = parts[0]
            if any(item.startswith("!MORE ") for item in parts[1:]) and len(res.props) < 5000 and reasks < 25:
                reasks += 1
                # more failing inputs than listed: ask again for the complete list (bounded: a change
                # that breaks millions of inputs needs no complete list)
                # (a request of a group is asked again after the requests that precede it in its group)
                hist = []
                for g in (groups or []):
                    if req in g:
                        hist = g[:g.index(req)]
                        break
                _, raw = ask(ORACLE_HOOKS if any(needs_hooks(x) for x in hist + [req]) else ORACLE, hist + [req],
                             env={"ORACLE_PROP_CAP": "10000000", "ORACLE_STORM_EVERY": "0"})
                if raw and raw[-1].split("\t")[0] == iresp:
                    parts = raw[-1].split("\t")
            for item in parts[1:]:
                if item.startswith("!PROP "):
                    _, pid, text = item.split(" ", 2)
                    res.props.append((req, pid, text))
                    if "goroutines" in text and req not in res.context:
                        w0 = (k // ORACLE_WINDOW) * ORACLE_WINDOW
                        res.context[req] = [x for x in ch[w0:w0 + ORACLE_WINDOW] if x != req]
            bare = strip_tz(req)
            same = compare(bare, iresp, ml) if compare else (iresp == ml)
            if not same:
                res.mismatches.append(Mismatch(req, iresp, ml))
            elif len(selfcases) < 6 and ml not in ("unmodelled", "bad-request", "err", "") and (k % 97 == 0 or len(ch) < 97):
                selfcases.append((req, iresp, ml))
            kind = response_kind(iresp)
            res.kinds[kind] = res.kinds.get(kind, 0) + 1
            if kind not in ("err", "bad-request", "unmodelled") and bare not in seen:
                seen.add(bare)
            res.weight += weight(bare) if weight else 1
        for p in (rq, im, mo):
            try:
                os.remove(p)
            except OSError:
                pass
    res.distinct = len(seen)
    # self-test of the comparison: a deliberately wrong model answer for requests of this run must be
    # reported as a difference (a comparison that accepts anything would make the stream worthless)
    res.selftests, res.selftest_failures = 0, []
    for (req, iresp, ml) in selfcases[:6]:
        alts = [a.strip() for a in ml.split("|")]    # a model answer may list several acceptable values
        bump = lambda a: (a[:-1] + ("1" if a[-1:] != "1" else "2")) if a else "x"
        for wrong in (" | ".join(a + "~" for a in alts), " | ".join(bump(a) for a in alts)):
            if iresp in [w.strip() for w in wrong.split("|")]:
                continue
            if wrong == iresp:
                continue
            res.selftests += 1
            still_same = compare(strip_tz(req), iresp, wrong) if compare else (iresp == wrong)
            if still_same:
                res.selftest_failures.append((req, iresp, wrong))
    allreq = requests
    idxs = sorted(set([0, len(allreq) - 1, len(allreq) // 2, len(allreq) // 3, (2 * len(allreq)) // 3]))
    res.samples = [allreq[i] for i in idxs]
    return res


def ask(binary, requests, env=None):
    """Small synchronous query."""
    p = subprocess.run([binary], input="\n".join(requests) + "\n", stdout=subprocess.PIPE,
                       stderr=subprocess.DEVNULL, text=True, env=dict(os.environ, **(env or {})))
    lines = p.stdout.split("\n")
    return [l.split("\t")[0] for l in lines[:len(requests)]], lines[:len(requests)]


# ------------------------------------------------------------------------------------
# known findings

def load_known():
    path = os.path.join(VERIF, "known_findings.json")
    if not os.path.exists(path):
        return []
    return json.load(open(path))


def _tokens(text):
    toks = {}
    for t in text.split():
        if "=" in t:
            k, v = t.split("=", 1)
            toks.setdefault(k, v)
    return toks


def match_known(known, prop, text):
    """Return the open finding that describes this failing input, if any. A finding lists, per
    property, alternatives; an alternative is a dict key -> string | list of [lo, hi] ranges,
    matched against the key=value tokens of the failure text. Only status "open" suppresses."""
    toks = _tokens(text)
    for k in known:
        if k.get("status") != "open":
            continue
        for alt in k.get("match", {}).get(prop, []):
            ok = True
            for key, want in alt.items():
                got = toks.get(key)
                if got is None:
                    ok = False
                elif isinstance(want, str):
                    ok = got == want
                else:
                    try:
                        v = int(got)
                        ok = any(lo <= v <= hi for lo, hi in want)
                    except ValueError:
                        ok = False
                if not ok:
                    break
            if ok:
                return k
    return None
