"""C06 (by-name API, configuration histories, default state) and C20 (registry / metadata)."""
import itertools
from . import core
from .specs import Spec, Stream, register
from .cal import ym_blocks, refine, _weight, CFGS

TOGGLES = ["M0", "M1", "A0", "A1"]


def _names():
    resp, _ = core.ask(core.ORACLE, ["byname names"])
    return resp[0].split(",")


class _C06(Spec):
    pid = "C06"
    lean_module = "Starcal.Props.C06"
    src_ties = ["Starcal.SrcTie.All", "Starcal.SrcTie.HijriTable"]
    expected = "A->A is the identity, A->B->A returns the date, A->B->C = A->C, by-name results equal the per-calendar functions; default state and any switch history work; unknown names give an error, never a panic or nil"
    rule = ("line protocol `byname conv <history> A B C jd`: the date of day jd in A through the by-name API, then A->A, A->B, back, A->C, B->C(A->B). Streams: every ordered pair "
            "(A,B) of registered names (C cycling) over a 400-year window (every 97th day quick, every 7th thorough) in the default configuration; every toggle history of length <=4 "
            "with triples that involve hijri and jalali; seeded triples x random histories x days over [-4*10^7, 4*10^7]; unknown names in every position; and a FRESH PROCESS per "
            "request with no configuration call (history `-`). Model vs real code per line; the laws are evaluated directly on the real results.")
    assumptions = ["the registry is regenerated from /repo on every run (Gen/CalMeta.lean: source constants and running registry must agree)",
                   "dates on which one calendar fails its own round trip (hijri table seams) are attributed to C01 as the property says"]

    def streams(self, tier, rng):
        names = _names()
        reqs = []
        step = 97 if tier == "quick" else 7
        lo = 2305448  # 1600-01-01
        for i, (a, b) in enumerate(itertools.product(names, repeat=2)):
            c = names[(i * 3 + 1) % len(names)]
            for jd in range(lo + (i % step), lo + 146097, step):
                reqs.append("byname conv M1,A0 %s %s %s %d" % (a, b, c, jd))
        sts = [Stream("byname-window", reqs)]
        # every toggle history of length <= 4, on triples that depend on the switches
        hreqs = []
        trip = [("hijri", "jalali", "gregorian"), ("jalali", "hijri", "julian"), ("gregorian", "hijri", "jalali"), ("hijri", "hijri", "jalali")]
        for n in range(1, 5):
            for h in itertools.product(TOGGLES, repeat=n):
                for (a, b, c) in trip:
                    for jd in (2440588 + rng.randrange(-20000, 20000), 2456957, rng.randrange(-40_000_000, 40_000_000)):
                        hreqs.append("byname conv %s %s %s %s %d" % (",".join(h), a, b, c, jd))
        sts.append(Stream("byname-histories", hreqs))
        # configuration-history independence: whole day windows converted under one switch setting, then
        # under the other, then under the first again, IN ONE PROCESS AND IN THIS ORDER (a group stays on
        # one worker): state leaking across a switch (a stale cache) shows against the stateless model
        sw_groups = []
        windows = [(2453380, 2453520), (2459600, 2459830), (2456900, 2457010), (2121430, 2121460), (3151415, 3151440), (2459280, 2459310)]
        for (cal, t0, t1) in (("hijri", "M1,A0", "M0,A0"), ("hijri", "M0,A0", "M1,A0"), ("jalali", "M1,A0", "M1,A1"), ("jalali", "M1,A1", "M1,A0")):
            g = []
            for hist in (t0, t1, t0, t1):
                for (lo, hi) in windows:
                    for jd in range(lo, hi):
                        g.append("byname conv %s %s gregorian julian %d" % (hist, cal, jd))
                        if jd % 3 == 0:
                            g.append("byname conv %s gregorian %s %s %d" % (hist, cal, cal, jd))
                # literal well-formed dates (independent of JdTo): every day of the years next to the table
                # ends / cycle ends
                years = (1425, 1426, 1427, 1442, 1443, 1444, 1445) if cal == "hijri" else (473, 474, 475, 1399, 1400, 3294, 3295)
                for y in years:
                    for m in range(1, 13):
                        for d in range(1, 31):
                            g.append("byname convraw %s %s gregorian %d %d %d" % (hist, cal, y, m, d))
            sw_groups.append(g)
        # the SAME day asked again right after a switch (and again after switching back), day by day
        for (cal, t0, t1) in (("hijri", "M1,A0", "M0,A0"), ("jalali", "M1,A0", "M1,A1")):
            g = []
            days = list(range(2453430, 2453480)) + list(range(2459660, 2459770)) + list(range(2121440, 2121450))
            days += [rng.randrange(2453442, 2459673) for _ in range(300 if tier == "quick" else 3000)]
            for jd in days:
                for hist in (t0, t1, t0):
                    g.append("byname conv %s %s gregorian julian %d" % (hist, cal, jd))
                    g.append("byname conv %s gregorian %s julian %d" % (hist, cal, jd))
            sw_groups.append(g)
        sts.append(Stream("byname-switch-sweeps", None, groups=sw_groups))
        # question P, then question Q, for EVERY ordered pair of the days around a year end and two month ends of
        # each calendar (found by asking the real code for the dates of 420 consecutive days): an answer kept
        # from the previous call under a key that two dates share shows only for particular consecutive pairs
        pair_groups = []
        base = 2457000 + rng.randrange(0, 3000)
        for a in names:
            resp, _ = core.ask(core.ORACLE, ["byname conv M1,A0 %s %s %s %d" % (a, a, a, base + k) for k in range(420)])
            dates = [r.split(" ")[0].split("/") for r in resp]
            firsts = [k for k, d in enumerate(dates) if len(d) == 3 and d[2] == "1"]
            ystart = [k for k in firsts if dates[k][1] == "1"]
            hot = set()
            for k in ystart[:1]:
                hot.update(range(k - 9, k + 9))
            for k in [f for f in firsts if f not in ystart][:2]:
                hot.update(range(k - 3, k + 3))
            hot = sorted(h for h in hot if 0 <= h < 420)
            g = []
            others = [n for n in names if n != a]
            for pk in hot:
                for qk in hot:
                    b = others[(pk + qk) % len(others)]
                    g.append("byname conv M1,A0 %s %s %s %d" % (a, a, b, base + pk))
                    g.append("byname conv M1,A0 %s %s %s %d" % (a, a, b, base + qk))
            pair_groups.append(g)
        sts.append(Stream("byname-pairs", None, groups=pair_groups))
        rreqs = []
        n = 60000 if tier == "quick" else 600000
        for _ in range(n):
            a, b, c = rng.choice(names), rng.choice(names), rng.choice(names)
            h = ",".join(rng.choice(TOGGLES) for _ in range(rng.randint(1, 4)))
            jd = rng.randrange(-40_000_000, 40_000_001) if rng.random() < 0.7 else rng.randrange(2440000, 2470000)
            rreqs.append("byname conv %s %s %s %s %d" % (h, a, b, c, jd))
        bad = ["nosuch", "", "Gregorian", "julian ", "gregorian_prolepti", "hijri2"]
        # particular day numbers: 0 and its neighbours (a zero that might be taken for "no value"), the ends of
        # the domain, every calendar's epoch and the days around it — for every ordered pair of names
        special = [0, 1, -1, 2, -40_000_000, 40_000_000, -39_999_999, 39_999_999, 1721426, 1721425, 1721058, 1721057,
                   1948440, 1948439, 1948321, 1948320, 1724235, 1724234, 1749995, 1749994, 2440588, 2299161, 2299160, 255, 256, 65536]
        for a in names:
            for b in names:
                c = rng.choice(names)
                for jd in special:
                    rreqs.append("byname conv M1,A0 %s %s %s %d" % (a, b, c, jd))
        for u in bad:
            for a in names:
                for jd in (2440588, -1000000):
                    rreqs.append("byname conv M1,A0 %s %s %s %d" % (u, a, a, jd))
                    rreqs.append("byname conv M1,A0 %s %s %s %d" % (a, u, a, jd))
                    rreqs.append("byname conv M0,A1 %s %s %s %d" % (a, a, u, jd))
        for u in bad + ["no_such_calendar"]:
            for a in names:
                for (y, m, d) in ((2020, 2, 29), (-500, 1, 1), (1400, 12, 30)):
                    for h in ("M1,A0", "M0,A1"):
                        rreqs.append("byname convraw %s %s %s %d %d %d" % (h, u, a, y, m, d))
                        rreqs.append("byname convraw %s %s %s %d %d %d" % (h, a, u, y, m, d))
                        rreqs.append("byname convraw %s %s %s %d %d %d" % (h, u, u + "x", y, m, d))
        for a in names:
            for b in names:
                rreqs.append("byname convraw M1,A0 %s %s %d %d %d" % (a, b, rng.randrange(-3000, 3000), rng.randint(1, 12), rng.randint(1, 28)))
        rreqs = [r for r in rreqs if "  " not in r and "" not in r.split(" ")]
        sts.append(Stream("byname-random", rreqs))
        return sts

    def extra_checks(self, tier, rng, results, workdir):
        """fresh process, no configuration call made first: one oracle process per request"""
        names = _names()
        failing, broken = [], []
        n = 0
        reqs = []
        for a in names:
            for b in ("hijri", "jalali", "gregorian"):
                reqs.append("byname conv - %s %s %s %d" % (a, b, names[(n * 5 + 2) % len(names)], 2440588 + 1000 * n))
                n += 1
        # whole windows of consecutive days, each day as the FIRST call of its own process (state that is
        # set up lazily by the first call shows only there): into hijri inside and around the month
        # table, and a literal date converted into each calendar
        span = 150 if tier == "quick" else 1200
        base = 2455600 + rng.randrange(0, 2000)
        for k in range(span):
            reqs.append("byname conv - hijri jalali gregorian %d" % (base + k))
        for k in range(span // 3):
            jd = 2453300 + rng.randrange(0, 7000)
            reqs.append("byname conv - gregorian hijri jalali %d" % jd)
            reqs.append("byname conv - jalali hijri gregorian %d" % jd)
        for a in names:
            for b in names:
                reqs.append("byname convraw - %s %s %d %d %d" % (a, b, rng.choice([1390, 1400, 1430, 1440, 2011, 2015]), rng.randint(1, 12), rng.randint(1, 28)))
        reqs.append("byname conv - hijri hijri hijri 2456957")
        reqs.append("byname convraw - hijri gregorian 1440 1 1")
        reqs.append("byname convraw - no_such_calendar gregorian 2020 2 29")
        reqs.append("byname convraw - gregorian no_such_calendar 2020 2 29")
        # the model is stateless here: one driver process answers all; the real code gets a fresh
        # process per request
        mall, _ = core.ask(core.DRIVER, reqs)
        for idx, rq in enumerate(reqs):
            iresp, raw = core.ask(core.ORACLE, [rq])
            mresp = [mall[idx]]
            for item in raw[0].split("\t")[1:]:
                if item.startswith("!PROP C06 "):
                    failing.append(("byname-fresh-process", rq, "fresh-process " + item[len("!PROP C06 "):]))
            if iresp[0] != mresp[0]:
                broken.append({"kind": "broken-correspondence", "obligation": "stream byname-fresh-process: model and implementation disagree",
                               "request": rq, "impl_response": iresp[0], "model_response": mresp[0]})
        return {"failing": failing, "broken": broken,
                "coverage": {"fresh_process_requests": len(reqs)}}

    def exhaustive(self, tier):
        return False


register(_C06())


class _C20(Spec):
    pid = "C20"
    lean_module = "Starcal.Props.C20"
    src_ties = ["Starcal.SrcTie.All", "Starcal.SrcTie.HijriTable"]
    src_overflow = ["Starcal.SrcTie.NoOverflow"]
    expected = "distinct names, lookup returns the same calendar, 12 month names and abbreviations, every reported month length within [MinMonthLen, MaxMonthLen], AvgYearLen within 0.01 of the mean year length"
    rule = ("regenerated facts: Gen/CalMeta.lean and Gen/CalTables.lean are rewritten from /repo (go/ast constants = running registry) and the C20 theorems are re-proved over them; "
            "`byname meta`: model dump (from Gen) vs running registry, with names/lookup/12-names/mean-year-length evaluated on the real code; year blocks over years -6000..12000 for all 9 "
            "configurations (complete in both tiers) compare GetMonthLen with the model and with the advertised bounds on the real code.")
    assumptions = ["hijri month-table mode violates its advertised bounds at the two table seams: open known findings"]

    def streams(self, tier, rng):
        reqs = []
        for cfg in CFGS:
            reqs += ym_blocks(cfg, -6000, 12001)
        from .cal import other_instance_groups, after_abuse_groups, toggle_groups
        return [Stream("meta", ["byname meta"]), Stream("cal-years", reqs, weight=_weight, refine=refine),
                Stream("cal-other-instance", None, weight=_weight, refine=refine, groups=other_instance_groups(("ym",))),
                Stream("cal-after-ill-formed-calls", None, weight=_weight, groups=after_abuse_groups(rng, ("ym",), tier)),
                Stream("cal-after-many-switches", None, weight=_weight, groups=toggle_groups(rng, ("ym",), tier))]

    def exhaustive(self, tier):
        return True


register(_C20())
