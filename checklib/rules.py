"""C08 (rule validation exact), C09 (decoding total and type-safe; tables), C14 (date/time text forms)."""
import itertools
import re
from fractions import Fraction
from . import core
from .specs import Spec, Stream, register

ALPHA12 = ["0", "1", "9", "-", "(", ")", "]", " ", "/", ":", ".", "+"]
ALPHA10 = ["0", "1", "9", "-", "/", ":", " ", ".", "+", "e"]

# one rule type per value decoder (float has no rule type)
DECODER_TYPES = ["weekNumMode", "cycleDays", "weekDay", "year", "month", "dayTime", "cycleLen", "dayTimeRange",
                 "date", "ex_dates", "start", "duration", "weekMonth"]
ALL_TYPES = ["start", "end", "duration", "date", "ex_dates", "dayTime", "dayTimeRange", "cycleLen", "cycleDays", "cycleWeeks",
             "weekDay", "year", "ex_year", "month", "ex_month", "day", "ex_day", "weekNumMode", "weekMonth"]

RANGE_TYPES = ("year", "ex_year", "month", "ex_month", "day", "ex_day")
M64 = (1 << 64) - 1
FNV_INIT, FNV_PRIME = 14695981039346656037, 1099511628211


def hexs(s):
    return "x" + s.encode("latin-1").hex()


def intlist_str(l):
    if not l:
        return "intlist -"
    if len(l) > 64:
        h = FNV_INIT
        for v in l:
            h = ((h ^ (v & M64)) * FNV_PRIME) & M64
        return "intlist# %d %x" % (len(l), h)
    return "intlist " + ",".join(map(str, l))


def _rat(s):
    """exact value of 'a/b' or '-a/b'"""
    try:
        n, d = s.split("/")
        return Fraction(int(n), int(d))
    except Exception:
        return None


def compare_lines(req, impl, model):
    """equality, except: `unmodelled` only demands that the real code did not panic; durations are
    compared numerically (the Go float64 must be the correctly rounded value of the model's rational)"""
    if model == "unmodelled":
        return impl != "panic"
    if impl == model:
        return True
    it, mt = impl.split(" "), model.split(" ")
    if len(it) == len(mt):
        for k, (a, b) in enumerate(zip(it, mt)):
            if a == b:
                continue
            ra, rb = _rat(a), _rat(b)
            if ra is None or rb is None:
                return False
            try:
                if float(rb) != float(ra):
                    return False
                if rb == 0 and b.startswith("-") != a.startswith("-"):
                    return False
            except OverflowError:
                return False
        return True
    return False


def pick_field(rng, lo, hi):
    """(value, in_range) — in-range values, boundaries, out-of-range incl. 256k+r aliases"""
    r = rng.random()
    if r < 0.45:
        return rng.randint(lo, hi), True
    if r < 0.60:
        v = rng.choice([lo, hi, lo - 1, hi + 1])
        return v, lo <= v <= hi
    if r < 0.80:
        v = rng.randint(lo, hi) + 256 * rng.choice([1, -1, 2, -2, 3, 10, 100, 256, -256])
        return v, lo <= v <= hi
    v = rng.randint(-70000, 70000)
    return v, lo <= v <= hi


def fmt_int(rng, v, pad_ok=True):
    s = str(abs(v))
    if pad_ok and rng.random() < 0.3:
        s = "0" * rng.randint(1, 3) + s
    if v < 0:
        return "-" + s
    if rng.random() < 0.05:
        return "+" + s
    return s


def corner_field(rng, lo, hi):
    """a corner of the range: its two ends and the first value beyond the upper one"""
    v = rng.choice([lo, lo, hi, hi + 1])
    return v, lo <= v <= hi


def gen_hms(rng):
    # one time in seven is a CORNER: every field at an end of its range or just beyond it (24:00:00, 23:59:60, 00:60:00, ...):
    # "the instant after the last valid time" is where an end-of-day special case would sit
    pick = corner_field if rng.random() < 0.15 else pick_field
    h, ok1 = pick(rng, 0, 23)
    m, ok2 = pick(rng, 0, 59)
    withsec = rng.random() < 0.8
    s, ok3 = pick(rng, 0, 59) if withsec else (0, True)
    text = fmt_int(rng, h) + ":" + fmt_int(rng, m) + ((":" + fmt_int(rng, s)) if withsec else "")
    return text, (h, m, s), ok1 and ok2 and ok3


def gen_date(rng):
    y = rng.choice([rng.randint(-3000, 3000), rng.randint(-70000, 70000), 0, -1, 1, 9999, 10000, -10000])
    pick = corner_field if rng.random() < 0.15 else pick_field
    m, ok1 = pick(rng, 1, 12)
    d, ok2 = pick(rng, 1, 39)
    text = fmt_int(rng, y) + "/" + fmt_int(rng, m) + "/" + fmt_int(rng, d)
    return text, (y, m, d), ok1 and ok2


def sat(v):
    """the value a uint8 field carries after the saturating narrowing"""
    return 255 if v < 0 or v > 255 else v


def hms_str(t):
    return "%d:%d:%d" % tuple(sat(x) for x in t)


def date_str(t):
    return "%d/%d/%d" % (t[0], sat(t[1]), sat(t[2]))


def gen_ranges(rng, lo, hi, any_int=False):
    """range list text in every accepted spelling, the sorted set it covers, and whether all are in range"""
    n = rng.randint(1, 6)
    parts, cover = [], set()
    ok = True
    budget = 100000
    # wide ranges that overlap heavily: the UNION stays within 10^5 integers although the sizes add up to several times
    # that (anything that sizes, limits or allocates by the sum of the written ranges instead of by the set)
    window = None
    if any_int and rng.random() < 0.04:
        w = rng.choice([99999, 70000, 50000, rng.randint(30000, 99999)])
        lo0 = rng.choice([1, 0, -(w // 2), rng.randint(-60000, 60000 - w) if w < 120000 else 0])
        window = (lo0, lo0 + w)
        n = rng.randint(3, 6)
    for _ in range(n):
        if window is not None:
            a = rng.randint(window[0], window[0] + (window[1] - window[0]) // 4) if rng.random() < 0.7 else window[0]
            b = rng.randint(window[1] - (window[1] - window[0]) // 4, window[1]) if rng.random() < 0.7 else window[1]
            span = b - a
        elif any_int:
            a = rng.choice([rng.randint(-3000, 3000), rng.randint(-70000, 70000)])
            span = rng.choice([0, 0, 0, 1, 1, 2, 2, 3, 5, 5, 9, 50, 50, 300, rng.randint(0, min(budget, 20000)) if rng.random() < 0.3 else 7])
        else:
            a, _ = pick_field(rng, lo, hi)
            span = rng.choice([0, 0, 0, 1, 2, 3, rng.randint(0, 8)])
        if window is None:
            b = a + span
            budget -= span
        if a == b:
            sp = rng.choice(["%d" % a, "%d" % a, "%d]" % a])
            if a < 0 and rng.random() < 0.0:
                pass
        else:
            forms = []
            if b < 0:
                forms += ["-(%d-%d)" % (-a, -b), "-(%d-%d])" % (-a, -b), "%d-%d" % (a, b), "%d-%d]" % (a, b)]
            else:
                forms += ["%d-%d" % (a, b), "%d-%d]" % (a, b)]
            sp = rng.choice(forms)
        parts.append(sp)
        cover.update(range(a, b + 1))
    vals = sorted(cover)
    if not any_int:
        ok = all(lo <= v <= hi for v in vals)
    return " ".join(parts), vals, ok


def gen_value(rng, typ):
    """(text, expectation) for a value in the documented format of rule type `typ`"""
    if typ in ("start", "end"):
        dt, df, ok1 = gen_date(rng)
        ht, hf, ok2 = gen_hms(rng)
        return dt + " " + ht, ("acc:datehms %s %s" % (date_str(df), hms_str(hf))) if ok1 and ok2 else "rej"
    if typ == "date":
        dt, df, ok = gen_date(rng)
        return dt, ("acc:date " + date_str(df)) if ok else "rej"
    if typ == "ex_dates":
        ds = [gen_date(rng) for _ in range(rng.randint(1, 4))]
        ok = all(d[2] for d in ds)
        return " ".join(d[0] for d in ds), ("acc:datelist " + ",".join(date_str(d[1]) for d in ds)) if ok else "rej"
    if typ == "dayTime":
        t, f, ok = gen_hms(rng)
        return t, ("acc:hms " + hms_str(f)) if ok else "rej"
    if typ == "dayTimeRange":
        a, b = gen_hms(rng), gen_hms(rng)
        return a[0] + " " + b[0], ("acc:hmsrange %s %s" % (hms_str(a[1]), hms_str(b[1]))) if a[2] and b[2] else "rej"
    if typ == "cycleLen":
        days = rng.choice([rng.randint(0, 1000), rng.randint(0, 10 ** 6), 0, -1, -256, -rng.randint(1, 70000), 256, 65536])
        t, f, ok = gen_hms(rng)
        return fmt_int(rng, days) + " " + t, ("acc:dhms %d %s" % (days, hms_str(f))) if ok and days >= 0 else "rej"
    if typ in ("cycleDays", "cycleWeeks"):
        v = rng.choice([rng.randint(1, 400), rng.randint(-70000, 70000), 0, -1, 1, 256, -256])
        return fmt_int(rng, v), ("acc:int %d" % v) if v > 0 else "rej"
    if typ == "weekDay":
        fs = [pick_field(rng, 0, 6) for _ in range(rng.randint(1, 5))]
        return " ".join(fmt_int(rng, f[0]) for f in fs), ("acc:" + intlist_str([f[0] for f in fs])) if all(f[1] for f in fs) else "rej"
    if typ in ("month", "ex_month"):
        t, vals, ok = gen_ranges(rng, 1, 12)
        return t, ("acc:" + intlist_str(vals)) if ok else "rej"
    if typ in ("day", "ex_day"):
        t, vals, ok = gen_ranges(rng, 1, 39)
        return t, ("acc:" + intlist_str(vals)) if ok else "rej"
    if typ in ("year", "ex_year"):
        t, vals, ok = gen_ranges(rng, 0, 0, any_int=True)
        return t, "acc:" + intlist_str(vals)
    if typ == "weekNumMode":
        v = rng.choice(["odd", "even", "any", "odd", "foo", "Odd", "", "even "])
        return v, ("acc:str " + hexs(v)) if v in ("odd", "even", "any") else "rej"
    if typ == "duration":
        whole = rng.choice([rng.randint(0, 100), rng.randint(-70000, 70000), 0])
        frac = rng.choice(["", "", ".5", ".25", ".1", ".%d" % rng.randint(0, 999)])
        neg = whole < 0 or (whole == 0 and rng.random() < 0.1)
        num = ("-" if neg else "") + str(abs(whole)) + frac
        unit = rng.choice(["s", "m", "h", "d", "w"])
        secs = {"s": 1, "m": 60, "h": 3600, "d": 86400, "w": 604800}[unit]
        fr = Fraction(float(num))
        val = "%s%d/%d" % ("-" if (neg and fr == 0) else "", fr.numerator, fr.denominator)
        return num + " " + unit, ("acc:dur %s %s %d" % (val, unit, secs)) if float(num) >= 0 else "rej"
    if typ == "weekMonth":
        wi, ok1 = pick_field(rng, 0, 4)
        wd, ok2 = pick_field(rng, 0, 6)
        m, ok3 = pick_field(rng, 0, 12)
        members = [("weekIndex", wi), ("weekDay", wd), ("month", m)]
        rng.shuffle(members)
        sp = rng.choice(["", " ", "  "])
        text = "{" + ("," + sp).join('"%s":%s%d' % (k, sp, v) for k, v in members) + "}"
        return text, ("acc:wm %d %d %d" % (wi, wd, m)) if ok1 and ok2 and ok3 else "rej"
    raise KeyError(typ)


def tname(u):
    """a rule type name as a token of the line protocol: raw when it can be one, hex:<hex> otherwise"""
    if u and all(33 <= ord(c) < 127 for c in u) and not u.startswith("hex:"):
        return u
    return "hex:x" + u.encode("utf-8").hex()


def unknown_type_names():
    """names that are NOT registered but are near a registered one: every proper prefix and suffix, other letter
    cases, the separator dropped / replaced / doubled / left dangling - what a caller mistypes, and what a helper
    that tries to be helpful about an unknown name takes apart"""
    out = []
    seen = set(ALL_TYPES)

    def add(u):
        if u not in seen and len(u) <= 40:
            seen.add(u)
            out.append(u)
    for t in ALL_TYPES:
        for i in range(len(t)):
            add(t[:i])
            add(t[i:] if i else t + t)
        for v in (t.upper(), t.lower(), t.title(), t.swapcase(), t[0].upper() + t[1:], t + " ", " " + t, t + "_", "_" + t,
                  t + "s", t[:-1] + t[-1].upper()):
            add(v)
        if "_" in t:
            a, b = t.split("_", 1)
            for sep in ("", "-", " ", "__", "_-", "."):
                add(a + sep + b)
                add(a + sep + b[:1].upper() + b[1:])
            for sep in ("_", "-", " ", "__", "_-", "_ _"):
                add(a + sep)
                add(a.upper() + sep)
                add(a.title() + sep)
                add(sep + b)
    for u in ("\x00", "\n", "ex\x00", "é", "ex_é"):
        add(u)
    return out


def malform(rng, typ, text):
    """text outside the documented format: wrong separator, non-numeric field, missing / extra part, unknown unit"""
    kind = rng.randrange(6)
    if typ == "weekNumMode":
        return None
    if typ == "weekMonth":
        return rng.choice([text[1:], text[:-1], text.replace(":", "=", 1), "[" + text + "]", text.replace('"', "'"), "",
                           # an extra part after the complete object: a closing bracket of either kind, another value, text
                           text + "}", text + " }", text + "]", text + "\n]", text + "}}", text + "]x", text + "} 1", text + "x",
                           text + " 5", text + "{}", text + text, text + ",", text + '"', text + "}" + text])
    if typ == "duration":
        num = text.split(" ")[0]
        return rng.choice([num + " x", num + " days", num + "d", num, num + "  d", "abc d", num + " d d", " " + text])
    if kind == 0:
        for a, b in (("/", "-"), (":", "."), (" ", ","), ("-", "~")):
            if a in text:
                return text.replace(a, b, 1) if not (a == "/" and typ in ("year",)) else None
        return text + "x"
    if kind == 1:
        i = rng.randrange(len(text) + 1)
        return text[:i] + rng.choice("abfx_") + text[i:]
    if kind == 2:
        return text + rng.choice(["/1", ":1:1:1", " 1 1 1", "/"]) if typ not in ("weekDay", "year", "ex_year", "month", "ex_month", "day", "ex_day", "ex_dates") else text + " x"
    if kind == 3:
        parts = text.replace(" ", "/").replace(":", "/").split("/")
        return parts[0] + "z" if len(parts) > 1 or typ in ("cycleDays", "cycleWeeks") else text + "/"
    if kind == 4:
        return ""
    return text.replace("1", "one", 1) if "1" in text else text + "!"


class _RulesBase(Spec):
    def compare_default(self, req, impl, model):
        return compare_lines(req, impl, model)


class _C08(_RulesBase):
    pid = "C08"
    lean_module = "Starcal.Props.C08"
    src_ties = ["Starcal.SrcTie.Valid"]
    src_overflow = ["Starcal.SrcTie.NoOverflow2"]
    expected = "in format and in range: decodes, passes the check, carries exactly the numbers written; in format with a field out of range: never both decoded and accepted; not in the format: decode error"
    rule = ("line protocol `rules decode <type> <hex> <expectation>`: values from a grammar of each of the 19 rule types' formats, every numeric field drawn from in-range values, "
            "boundaries, out-of-range values in [-70000,70000] incl. 256k+r aliases, optional leading zeros / '+'; range lists of <=6 ranges in every spelling ('a','a]','a-b','a-b]','-(a-b)','-(a-b])') "
            "spanning <=10^5 integers; malformed texts (wrong separator, non-numeric field, missing/extra part, unknown unit); unknown rule types. The generator attaches what the property demands "
            "(acc:<value> / rej / bad) and the oracle evaluates it on the real code; the model's answer is compared line by line.")
    assumptions = ["strconv.ParseInt modelled as sign + digits without the int64 range check (a number beyond 2^63-1: `unmodelled`, totality compared only); strconv.ParseFloat modelled on plain decimals only; "
                   "encoding/json modelled on the documented flat object only (everything else `unmodelled`, compared for totality only)"]

    def streams(self, tier, rng):
        n = 12000 if tier == "quick" else 150000
        reqs = []
        for typ in ALL_TYPES:
            for _ in range(n):
                text, exp = gen_value(rng, typ)
                reqs.append("rules decode %s %s %s" % (typ, hexs(text), exp))
        sts = [Stream("rules-grammar", reqs, compare=compare_lines)]
        breqs = []
        for typ in ALL_TYPES:
            for _ in range(n // 6):
                text, _ = gen_value(rng, typ)
                bad = malform(rng, typ, text)
                if bad is None:
                    continue
                breqs.append("rules decode %s %s bad" % (typ, hexs(bad)))
        # a digit of another script, a no-break space, a byte that is no UTF-8: not in any of the formats
        for typ in ALL_TYPES:
            if typ in ("weekNumMode", "weekMonth", "duration"):
                continue
            for _ in range(n // 12):
                text, _ = gen_value(rng, typ)
                breqs.append("rules decode %s %s bad" % (typ, hexs(exotic(rng, text))))
        for u in ["nosuch", "Start", "dayTime ", "", "year2"] + unknown_type_names():
            breqs.append("rules decode %s %s bad" % (tname(u), hexs("1")))
        sts.append(Stream("rules-malformed", breqs, compare=compare_lines))
        return sts


register(_C08())


# bytes no ASCII grammar produces (written as latin-1 characters = bytes): no-break space, next-line, em space,
# digits of other scripts (Arabic-Indic, Persian, Devanagari, fullwidth — UTF-8), a byte that is no UTF-8 at all,
# a lone continuation byte, NUL, tab, newline, vertical tab
EXOTIC = ["\xc2\xa0", "\xc2\x85", "\xe2\x80\x83", "\xd9\xa3", "\xdb\xb1", "\xe0\xa5\xa7", "\xef\xbc\x91", "\xff", "\x80", "\x00", "\t", "\n", "\x0b", "_"]


def other_script_digit(rng, d):
    """UTF-8 bytes (as latin-1 characters) of the digit d in another script"""
    cp = rng.choice([0x0660, 0x06F0, 0x0966, 0xFF10, 0x09E6, 0x0E50]) + int(d)
    return chr(cp).encode("utf-8").decode("latin-1")


def exotic(rng, text):
    """a valid text with one digit written in another script, or with an exotic byte sequence put in"""
    digs = [i for i, c in enumerate(text) if c in "0123456789"]
    if digs and rng.random() < 0.6:
        i = rng.choice(digs)
        return text[:i] + other_script_digit(rng, text[i]) + text[i + 1:]
    i = rng.choice([0, len(text), rng.randrange(len(text) + 1)])
    return text[:i] + rng.choice(EXOTIC) + text[i:]


def mutate(rng, text):
    k = rng.randrange(5)
    if not text:
        return rng.choice(ALPHA12)
    i = rng.randrange(len(text))
    if k == 0:
        return text[:i] + text[i + 1:]
    if k == 1:
        return text[:i] + rng.choice(ALPHA12 + ["{", "}", '"', ",", "a", "\\", "n"] + (EXOTIC if rng.random() < 0.15 else [])) + text[i:]
    if k == 2:
        return text[:i] + text[i] + text[i:]
    if k == 3:
        j = rng.randrange(len(text))
        l = list(text)
        l[i], l[j] = l[j], l[i]
        return "".join(l)
    return text[:i] + rng.choice(ALPHA12) + text[i + 1:]


class _C09(_RulesBase):
    pid = "C09"
    lean_module = "Starcal.Props.C09"
    expected = "Decode returns an error or a rule for every string and never panics; Check of a decoded rule never panics; the requires/conflicts tables name only registered types, are consistent, orders distinct, every type usable"
    rule = ("regenerated facts: Gen/Rules.lean (RegisterRuleType/RegisterValueDecoder calls, static Go types returned by each decoder and asserted by each checker via go/types, dependency tables; "
            "cross-checked against the running registry) with the table / type-agreement obligations re-proved by `decide`. Line protocol `rules decode`: every string of length <=4 (quick) / <=5 "
            "(thorough; <=6 for the interval-list, date-list and days+time decoders) over the 12-symbol alphabet against one rule type per value decoder, grammar mutations of valid values for all 19 types, "
            "unknown type names; real code under recover(). `rules types`: running registry vs Gen, and the table clause evaluated on the running tables incl. all 2^19 subsets.")
    assumptions = _C08.assumptions + ["coverage-guided fuzzing is not part of this check (the quantifier mentions it as support); ranges spanning more than 10^6 integers are excluded as in the property"]

    def streams(self, tier, rng):
        base = 4 if tier == "quick" else 5
        reqs = []
        for typ in DECODER_TYPES:
            top = base
            if typ in ("year", "ex_dates", "cycleLen"):
                top = base + 1
            for n in range(0, top + 1):
                for t in itertools.product(ALPHA12, repeat=n):
                    reqs.append("rules decode %s %s" % (typ, hexs("".join(t))))
        sts = [Stream("rules-exhaustive", reqs, compare=compare_lines)]
        mreqs = []
        n = 4000 if tier == "quick" else 60000
        for typ in ALL_TYPES:
            for _ in range(n):
                text, _ = gen_value(rng, typ)
                for _ in range(rng.randint(1, 3)):
                    text = mutate(rng, text)
                if len(text) > 400:
                    continue
                if typ in RANGE_TYPES and re.search(r"[0-9]{6}", text):
                    continue   # spans beyond 10^6 integers are a documented resource limit, not part of the claim
                mreqs.append("rules decode %s %s" % (typ, hexs(text)))
        for u in ("nosuch", "Start", "", "float", "int", "HMS"):
            for t in ("1", "", "1/1/1", "a"):
                mreqs.append("rules decode %s %s" % (tname(u), hexs(t)))
        for u in unknown_type_names():
            for t in ("1", ""):
                mreqs.append("rules decode %s %s" % (tname(u), hexs(t)))
        # the JSON-valued rule type: every kind of JSON value where the object is expected, and inside it (null, true, a
        # string, an array, a nested object, a fraction, an exponent, a duplicate / unknown / differently-cased key),
        # with JSON white space around — plus texts that are almost JSON
        atoms = ["null", "true", "false", "0", "1", "-1", "-0", "1.5", "1e2", "1E+2", "12345678901234567890", '""', '"x"', '"1"', "[]", "[1]", "[null]",
                 "{}", '{"a":1}', "[[]]", '{"month":{}}', "nul", "nulll", "NULL", "Null", "tru", "None", "undefined", "NaN", "Infinity", "-", "+1", "01", "1.", ".5",
                 "0x10", "'x'", "{", "}", "[", "]", ",", ":", "{}{}", "{} {}", "{},", "//x", "/**/{}", "{\"month\":1,}", "{\"month\" 1}", "{month:1}"]
        keys = ["weekIndex", "weekDay", "month", "WeekIndex", "MONTH", "Month", "m\\u006fnth", "month ", "", "x"]
        jtexts = list(atoms)
        for a in atoms[:24]:
            for k in keys:
                jtexts.append('{"%s":%s}' % (k, a))
            jtexts.append('{"weekIndex":1,"weekDay":2,"month":%s}' % a)
            jtexts.append('{"month":3,"month":%s}' % a)
        wsp = ["", " ", "\n", "\t", "\r\n ", "\ufeff", "\x00", "\u00a0"]
        for t in list(jtexts):
            if rng.random() < 0.5:
                jtexts.append(rng.choice(wsp) + t + rng.choice(wsp))
        for t in atoms[:20]:
            jtexts += [w + t for w in wsp[1:]] + [t + w for w in wsp[1:]]
        for t in jtexts:
            try:
                mreqs.append("rules decode weekMonth %s" % hexs(t))
            except UnicodeEncodeError:
                pass
        mreqs.append("rules types")
        sts.append(Stream("rules-mutations", mreqs, compare=compare_lines))
        # numbers at and around the edges of the machine integer types, alone, in short lists and in short
        # ranges (never a range spanning more than a few integers), in every numeric position of every type
        ext = []
        for b in (7, 8, 15, 16, 31, 32, 62, 63, 64):
            for d in (-2, -1, 0, 1):
                ext.append(2 ** b + d)
                ext.append(-(2 ** b) + d)
        ext += [10 ** 18 - 1, 10 ** 18, 10 ** 19, -(10 ** 18), 999999, 1000000]
        ereqs = []
        for v in ext:
            sv = str(v)
            for typ in RANGE_TYPES:
                forms = [sv, "0 " + sv, sv + " " + sv, "%d-%d" % (v - 3, v) if v - 3 >= 0 else "-(%d-%d)" % (-v, -v + 3),
                         ("%d-%d]" % (v - 2, v)) if v - 2 >= 0 else "-(%d-%d])" % (-v, -v + 2), "%s %d" % (sv, v - 1)]
                for f in forms:
                    ereqs.append("rules decode %s %s" % (typ, hexs(f)))
            for typ in ("cycleDays", "cycleWeeks", "weekDay"):
                ereqs.append("rules decode %s %s" % (typ, hexs(sv)))
                ereqs.append("rules decode %s %s" % (typ, hexs("1 " + sv)))
            for typ, forms in (("date", ["%s/1/1", "1/%s/1", "1/1/%s"]), ("dayTime", ["%s:1:1", "1:%s:1", "1:1:%s", "1:%s"]),
                               ("cycleLen", ["%s 1:1:1", "1 %s:1:1", "1 1:1:%s"]), ("start", ["%s/1/1 1:1:1", "1/1/%s 1:1:1", "1/1/1 %s:1:1"]),
                               ("ex_dates", ["%s/1/1 1/1/1", "1/1/1 1/%s/1"]), ("dayTimeRange", ["%s:0:0 1:1:1", "1:1:1 0:0:%s"]),
                               ("duration", ["%s s", "%s w", "0.%s h"]),
                               ("weekMonth", ['{"weekIndex": %s, "weekDay": 1, "month": 1}', '{"month": %s}'])):
                for f in forms:
                    ereqs.append("rules decode %s %s" % (typ, hexs(f % sv)))
        # LONG texts: one byte class repeated 101 / 300 / 5000 times (longer than any internal buffer or clip
        # limit), alone and behind / in front of a valid value, for every type
        for typ in ALL_TYPES:
            val, _ = gen_value(rng, typ)
            for unit in ("\x80", "\xbf", "\xc3", "\xff", "\xc2\xa0", " ", "-", "/", ":", "0", "a", "(", ")", "]"):
                for n in (101, 300, 5000):
                    if unit == "0" and typ in RANGE_TYPES:
                        continue
                    run = unit * n
                    for text in (run, val + run, run + val, val[:1] + run + val[1:]):
                        ereqs.append("rules decode %s %s" % (typ, hexs(text)))
        sts.append(Stream("rules-extremes", ereqs, compare=compare_lines))
        return sts

    def exhaustive(self, tier):
        return True


register(_C09())


class _C14(_RulesBase):
    pid = "C14"
    lean_module = "Starcal.Props.C14"
    src_ties = ["Starcal.SrcTie.Valid"]
    src_overflow = ["Starcal.SrcTie.NoOverflow2"]
    expected = "String then Parse is the identity for in-range dates, times, days+time, date-times (negative and >4-digit years too); the parsers return an error or a value for every string, never panic; a parsed value passing its validity check carries exactly the numbers written"
    rule = ("line protocol `text`: `shms` for all 86 400 valid times (print, model vs code; parse-back on the real code); `sdate` for month 1..12 x day 1..39 x a 25-year set spanning -10^6..10^6 "
            "plus seeded years; `sdhms` days 0..10^6 sampled; `sdatehms`; parsers on every string of length <=4 (quick) / <=5 (thorough; <=6 for pdate, phms) over the 10-symbol alphabet "
            "and grammar mutations; faithfulness: written fields in [-70000,70000] incl. 256k+r aliases with the generator's statement of what was written.")
    assumptions = _C08.assumptions

    YEARS = [-1000000, -99999, -10000, -9999, -1000, -999, -100, -99, -10, -1, 0, 1, 9, 10, 99, 100, 999, 1000, 1400, 2024, 9999, 10000, 99999, 123456, 1000000]

    def streams(self, tier, rng):
        reqs = []
        for h in range(24):
            for m in range(60):
                for s in range(60):
                    reqs.append("text shms %d %d %d" % (h, m, s))
        years = list(self.YEARS) + [rng.randint(-10 ** 6, 10 ** 6) for _ in range(25)]
        for y in years:
            for mo in range(1, 13):
                for d in range(1, 40):
                    reqs.append("text sdate %d %d %d" % (y, mo, d))
        for _ in range(20000 if tier == "quick" else 200000):
            reqs.append("text sdhms %d %d %d %d" % (rng.choice([rng.randint(0, 10 ** 6), rng.randint(0, 400), 0]), rng.randrange(24), rng.randrange(60), rng.randrange(60)))
            reqs.append("text sdatehms %d %d %d %d %d %d" % (rng.choice(years), rng.randint(1, 12), rng.randint(1, 39), rng.randrange(24), rng.randrange(60), rng.randrange(60)))
        for _ in range(3000):  # field values outside the valid ranges still print and parse back (uint8 fields)
            reqs.append("text shms %d %d %d" % (rng.randrange(256), rng.randrange(256), rng.randrange(256)))
            reqs.append("text sdate %d %d %d" % (rng.randint(-10 ** 7, 10 ** 7), rng.randrange(256), rng.randrange(256)))
        sts = [Stream("text-roundtrip", reqs, compare=compare_lines)]
        base = 4 if tier == "quick" else 5
        preqs = []
        for op in ("pdate", "phms", "pdhms", "pdatehms", "phmsrange", "pdatelist", "pdur", "pintlist"):
            top = base + (1 if op in ("pdate", "phms") and tier == "thorough" else 0)
            for n in range(0, top + 1):
                for t in itertools.product(ALPHA10, repeat=n):
                    preqs.append("text %s %s" % (op, hexs("".join(t))))
        sts.append(Stream("text-exhaustive", preqs, compare=compare_lines))
        freqs = []
        n = 30000 if tier == "quick" else 300000
        for _ in range(n):
            t, f, _ = gen_hms(rng)
            freqs.append("text phms %s f:%s" % (hexs(t), hms_str(f) if all(0 <= x <= 255 for x in f) else "never-valid"))
            dt, df, _ = gen_date(rng)
            freqs.append("text pdate %s f:%s" % (hexs(dt), date_str(df) if all(0 <= x <= 255 for x in df[1:]) else "never-valid"))
            days = rng.choice([rng.randint(0, 10 ** 6), -1, -256, 256, 0])
            freqs.append("text pdhms %s f:%s" % (hexs("%d %s" % (days, t)), ("%d %s" % (days, hms_str(f))) if all(0 <= x <= 255 for x in f) else "never-valid"))
            freqs.append("text pdatehms %s f:%s" % (hexs(dt + " " + t), (date_str(df) + " " + hms_str(f)) if all(0 <= x <= 255 for x in f + df[1:]) else "never-valid"))
            t2, f2, _ = gen_hms(rng)
            freqs.append("text phmsrange %s f:%s" % (hexs(t + " " + t2), (hms_str(f) + " " + hms_str(f2)) if all(0 <= x <= 255 for x in f + f2) else "never-valid"))
            # mutations for totality
            m = mutate(rng, rng.choice([t, dt, dt + " " + t, "%d %s" % (days, t), "2.5 h", dt + " " + dt]))
            freqs.append("text %s %s" % (rng.choice(["pdate", "phms", "pdhms", "pdatehms", "phmsrange", "pdatelist", "pdur", "pintlist"]), hexs(m)))
        sts.append(Stream("text-faithful", freqs, compare=compare_lines))
        # values the types allow but no calendar / clock has (month and day 0..255), printed — and what the parsers hand back
        # next to an error — immediately before valid values are printed in the same process. The ill-formed value is chosen
        # so that it collides with the valid one under the usual packings of a date into one number (y*10000+m*100+d,
        # (y*16+m)*32+d, fields modulo 100): (y, m-1, d+100), (y-1, m+100, d), (y, m, d+100k), (y, m+16k, d), ...
        groups = []
        for _ in range(6 if tier == "quick" else 40):
            g = []
            for _ in range(60 if tier == "quick" else 200):
                y = rng.choice([rng.randint(-3000, 3000), rng.randint(1300, 2100), rng.choice(self.YEARS)])
                mo, d = rng.randint(1, 12), rng.randint(1, 31)
                h, mi, sec = rng.randrange(24), rng.randrange(60), rng.randrange(60)
                partners = [(y, mo - 1, d + 100), (y - 1, mo + 100, d), (y, mo, d + 100), (y, mo, d + 200), (y, mo + 100, d), (y, mo + 16, d),
                            (y, mo, d + 32), (y, mo + 12, d), (y + 1, mo, d), (y, mo, d), (y, 0, d), (y, mo, 0), (y - 1, mo + 12, d), (y, mo - 1, d + 31),
                            (y, mo - 1, d + 30), (y, mo + 1, 0), (y, d, mo)]
                py, pm, pd = rng.choice(partners)
                g.append("text abuse %d %d %d" % (py, pm % 256, pd % 256))
                g.append(rng.choice(["text sdate %d %d %d" % (y, mo, d), "text sdatehms %d %d %d %d %d %d" % (y, mo, d, h, mi, sec),
                                     "text shms %d %d %d" % (d % 24, mo, d), "text pdate %s" % hexs("%d/%d/%d" % (y, mo, d))]))
                if rng.random() < 0.5:
                    g.append(rng.choice(["text sdate %d %d %d" % (y, mo, d), "text shms %d %d %d" % (h, mi, sec), "text sdhms %d %d %d %d" % (d, h, mi, sec)]))
            groups.append(g)
        sts.append(Stream("text-after-ill-formed-calls", None, compare=compare_lines, groups=groups))
        return sts

    def exhaustive(self, tier):
        return True


register(_C14())
