"""C19 (Div/Mod/Divmod/BisectLeft) and C18 (time-of-day conversions)."""
import itertools
from .specs import Spec, Stream, register

I64MAX, I64MIN = (1 << 63) - 1, -(1 << 63)


class _C19(Spec):
    pid = "C19"
    lean_module = "Starcal.Props.C19"
    src_ties = ["Starcal.SrcTie.Utils", "Starcal.SrcTie.Bisect"]
    src_overflow = ["Starcal.SrcTie.NoOverflow"]
    expected = "a = b*q + r with r zero or of the sign of b and |r| < |b|; Divmod returns that pair; BisectLeft returns the first position whose element is >= key"
    rule = ("line protocol `misc divmod a b`: exhaustive a in [-600,600], b in [-40,40]\\{0}; seeded random 64-bit pairs incl. extremes (MinInt/-1 excluded); "
            "`misc bisect`: every sorted list of length <=6 over 0..5 with every key -1..6, plus seeded random sorted lists. Model vs real code per line; "
            "floor-division laws and the search specification evaluated directly on the real results.")
    assumptions = ["unbounded Int in the model: the overflowing pair MinInt / -1 is excluded as in the property",
                   "sort.Search is modelled as the binary search the Go standard library implements"]

    def streams(self, tier, rng):
        reqs = ["misc divmod %d %d" % (a, b) for a in range(-600, 601) for b in range(-40, 41) if b != 0]
        ext = [I64MAX, I64MIN, I64MAX - 1, I64MIN + 1, 0, 1, -1, 2, -2, 1 << 62, -(1 << 62), (1 << 31), -(1 << 31), 10631, -10631, 1461, 146097]
        for a in ext:
            for b in ext:
                if b != 0 and not (a == I64MIN and b == -1):
                    reqs.append("misc divmod %d %d" % (a, b))
        n = 100000 if tier == "quick" else 2000000
        for _ in range(n):
            a = rng.randrange(I64MIN, I64MAX + 1) >> rng.choice([0, 0, 8, 32, 48])
            b = rng.randrange(I64MIN, I64MAX + 1) >> rng.choice([0, 16, 32, 48, 56, 60])
            if b == 0 or (a == I64MIN and b == -1):
                continue
            reqs.append("misc divmod %d %d" % (a, b))
        sts = [Stream("divmod", reqs)]
        breqs = []
        for n_ in range(0, 7):
            for l in itertools.combinations_with_replacement(range(0, 6), n_):
                for key in range(-1, 7):
                    breqs.append("misc bisect %d %s" % (key, ",".join(map(str, l)) if l else "-"))
        for _ in range(20000):
            l = sorted(rng.randrange(-1000, 1000) for _ in range(rng.randint(0, 40)))
            key = rng.choice(l) + rng.randint(-1, 1) if l and rng.random() < 0.7 else rng.randrange(-1100, 1100)
            breqs.append("misc bisect %d %s" % (key, ",".join(map(str, l)) if l else "-"))
        for _ in range(2000):
            breqs.append("misc intmin %d %d" % (rng.randrange(-50, 50), rng.randrange(-50, 50)))
        sts.append(Stream("bisect", breqs))
        return sts

    def exhaustive(self, tier):
        return True


register(_C19())


import struct


def _bits(x):
    return struct.unpack("<Q", struct.pack("<d", x))[0]


class _C18(Spec):
    pid = "C18"
    lean_module = "Starcal.Props.C18"
    src_ties = ["Starcal.SrcTie.Tod"]
    src_overflow = ["Starcal.SrcTie.NoOverflow2"]
    expected = "total seconds = 3600h+60m+s; seconds -> h:m:s -> seconds and h:m:s -> fractional hours -> h:m:s are identities on valid times; any fractional hour in [0,24) converts to a time within one second"
    rule = ("line protocol `tod`: all 86 400 valid times of day for `total` (GetTotalSeconds + GetHmsBySeconds back), `rt` (GetFloatHour -> FloatHourToHMS, the real "
            "float code against the exact-rational model) and `secs`; `fh <bits>` for k/3600 and k/3600 +- 1e-9 for every k and seeded random doubles in [0,24): the double's "
            "exact rational value goes through the rational model; where the exact value of fh*3600+0.5 is within 1e-6 of an integer either neighbouring second is accepted. "
            "The one-second bound is evaluated exactly (math/big) on the real result. `zone jhms <instant>` in zones whose clocks change (around every change of 10 / 40 zones, "
            "plus seeded instants): the seconds GetJdAndSecondsFromEpoch returns are 3600h+60m+s of the time of day the library reports for that instant and convert back to it.")
    assumptions = ["IEEE-754 double arithmetic inside GetFloatHour / FloatHourToHMS is not modelled: the model is exact rational arithmetic (Lean has no kernel semantics for Float); "
                   "the round-trip clause has a finite domain and is compared exhaustively with the real float code on every run; the any-float clause is proved for rationals and "
                   "sampled for doubles (partial)"]

    def compare_default(self, req, impl, model):
        return impl in [m.strip() for m in model.split("|")]

    def streams(self, tier, rng):
        reqs = []
        for h in range(24):
            for m in range(60):
                for s in range(60):
                    reqs.append("tod total %d %d %d" % (h, m, s))
                    reqs.append("tod rt %d %d %d" % (h, m, s))
        reqs += ["tod secs %d" % s for s in range(86400)]
        # out-of-range field values: the functions are total, the model follows the uint8 arithmetic
        for _ in range(3000):
            reqs.append("tod total %d %d %d" % (rng.randrange(256), rng.randrange(256), rng.randrange(256)))
        sts = [Stream("tod-exhaustive", reqs)]
        freqs = []
        step = 1 if tier == "thorough" else 7
        for k in range(0, 86400, step):
            for d in (0.0, 1e-9, -1e-9):
                x = k / 3600.0 + d
                if 0 <= x < 24:
                    freqs.append("tod fh %d" % _bits(x))
        n = 100000 if tier == "quick" else 1000000
        for _ in range(n):
            x = rng.random() * 24
            if rng.random() < 0.2:
                x = (rng.randrange(86400) + rng.choice([0.5, 0.49999, 0.50001, 0.98, 0.99, 0.01])) / 3600.0
            if 0 <= x < 24:
                freqs.append("tod fh %d" % _bits(x))
        # the doubles no arithmetic sweep produces: negative zero (a member of [0,24): -0.0 == 0), the subnormals, the
        # neighbours of every whole hour and of 24, powers of two down to the smallest, values with one mantissa bit
        special = [-0.0, 0.0, 5e-324, 2.2250738585072014e-308, 2.225073858507201e-308, 1e-300, 1e-17, 1e-9, 24 - 2 ** -48, 23.999999999999996]
        for k in range(0, 1075, 1 if tier == "thorough" else 5):
            special.append(2.0 ** -k)
            special.append(24 - 2.0 ** -min(k, 48))
            special.append(-0.0 * 2.0 ** -k)
        for hr in range(0, 25):
            b = _bits(float(hr)) if hr else 0
            for db in (-2, -1, 0, 1, 2):
                if b + db >= 0:
                    special.append(struct.unpack("<d", struct.pack("<Q", b + db))[0])
        for x in special:
            if 0 <= x < 24:    # true of -0.0
                freqs.append("tod fh %d" % _bits(x))
        sts.append(Stream("tod-floats", freqs, compare=self.compare_default))
        # the observation point that takes an instant: GetJdAndSecondsFromEpoch in zones whose clocks change - around every
        # change (before, at, after, later that local day and the next), plus seeded instants
        from . import zones
        names = [z for z in zones.pick_zones("quick", rng) if zones.zone_data(z)[1]]
        rng.shuffle(names)
        groups = []
        for name in names[:10 if tier == "quick" else 40]:
            off0, tr, _ = zones.zone_data(name)
            g, seen = [zones.header(name)], set()
            trs = tr if len(tr) <= 60 or tier != "quick" else rng.sample(tr, 60)
            for t, o in trs:
                for d in (-3601, -1, 0, 1, 1799, 3599, 3600, 3601, 7200, 7201, 12 * 3600, 86399 - ((t + o) % 86400), 86400 - ((t + o) % 86400), 86400):
                    e = t + d
                    if e not in seen and -5364662400 <= e < 7258118400:
                        seen.add(e)
                        g.append("zone jhms %d" % e)
            for _ in range(300):
                g.append("zone jhms %d" % rng.randrange(-5364662400, 7258118400))
            groups.append(g)
        sts.append(Stream("tod-of-instants", None, groups=groups))
        return sts

    def exhaustive(self, tier):
        return True


register(_C18())


class _C15(Spec):
    pid = "C15"
    lean_module = "Starcal.Props.C15"
    expected = "after any operation history a set holds exactly the members a mathematical set would; every answer is the mathematical one; binary operations return new sets and leave operands unchanged; both implementations agree"
    rule = ("line protocol `set ops <impl> <history>`: one request = one whole history over three registers, answered operation by operation (collections sorted); every history is run on "
            "NewSet() and on NewThreadUnsafeSet(). Exhaustive: every history of length <=3 (quick) / <=4 (thorough) over a reduced alphabet of 2 sets x 3 values; seeded random histories of "
            "length <=60 over 3 sets and a 10-value universe (ints and strings), power set on sets of size 0..7, same-set operands included. The oracle keeps an independent mathematical "
            "reference and after EVERY step compares the answer and the full contents of all three registers of the real sets with it.")
    assumptions = ["Go map semantics modelled as duplicate-free lists; iteration order is canonicalised (sorted) on both sides",
                   "exhaustive length-5 histories over the full operation alphabet (about 10^8) are replaced by length <=3/4 exhaustive plus seeded random length <=60"]

    OPS2 = ["add:%d:%s", "rm:%d:%s", "has:%d:%s"]

    def _alphabet(self):
        vals = ["i1", "i2", "s"]     # an int, another int, the empty string
        ops = []
        for r in (0, 1):
            for v in vals:
                ops += ["add:%d:%s" % (r, v), "rm:%d:%s" % (r, v)]
            ops += ["clear:%d" % r, "card:%d" % r]
        for (d, a, b) in ((0, 0, 1), (1, 0, 1), (0, 1, 0), (0, 0, 0), (2, 0, 1)):
            for o in ("union", "inter", "diff", "sym"):
                ops.append("%s:%d:%d:%d" % (o, d, a, b))
        ops += ["clone:1:0", "clone:0:1", "eq:0:1", "sub:0:1", "sup:0:1", "slice:0", "slice:1", "slice:2", "has:0:i1,s",
                "has:0:i1,i1", "has:1:s,s,s", "has:0:i1", "str:0", "str:2"]
        return ops

    def streams(self, tier, rng):
        ops = self._alphabet()
        reqs = []
        top = 3 if tier == "quick" else 4
        import itertools as it
        for n in range(1, top + 1):
            if n == 4:
                # length 4: first two steps restricted to the mutating core to keep the count near 10^6
                core_ops = [o for o in ops if o.split(":")[0] in ("add", "union", "clone", "rm")]
                for h in it.product(core_ops[:14], core_ops[:14], ops, ops):
                    reqs.append(";".join(h))
            else:
                for h in it.product(ops, repeat=n):
                    reqs.append(";".join(h))
        sreqs = []
        for h in reqs:
            tail = ";slice:0;slice:1;slice:2;card:0;card:1"
            sreqs.append("set ops safe " + h + tail)
            sreqs.append("set ops unsafe " + h + tail)
        sts = [Stream("set-exhaustive", sreqs)]
        # the last member is the EMPTY string ("s" + nothing): a member that prints as no characters at all
        univ = ["i%d" % k for k in range(5)] + ["s" + c for c in "abcd"] + ["s"]
        rreqs = []
        n = 15000 if tier == "quick" else 200000
        for _ in range(n):
            L = rng.randint(1, 60)
            h = []
            for _ in range(L):
                k = rng.random()
                r, a, b, d = rng.randrange(3), rng.randrange(3), rng.randrange(3), rng.randrange(3)
                v = rng.choice(univ)
                if k < 0.30:
                    h.append("add:%d:%s" % (r, v))
                elif k < 0.38:
                    h.append("rm:%d:%s" % (r, v))
                elif k < 0.41:
                    h.append("clear:%d" % r)
                elif k < 0.61:
                    h.append("%s:%d:%d:%d" % (rng.choice(["union", "inter", "diff", "sym"]), d, a, b))
                elif k < 0.65:
                    h.append("clone:%d:%d" % (d, a))
                elif k < 0.75:
                    h.append("%s:%d:%d" % (rng.choice(["sub", "sup", "eq"]), a, b))
                elif k < 0.80:
                    # several arguments, repeats allowed, possibly more arguments than the set has members
                    h.append("has:%d:%s" % (r, ",".join(rng.choice(univ[:rng.choice([2, 4, 10])]) for _ in range(rng.randint(1, 5)))))
                elif k < 0.90:
                    h.append("%s:%d" % (rng.choice(["slice", "iter", "str", "card"]), r))
                elif k < 0.94:
                    h.append("cart:%d:%d" % (a, b))
                else:
                    h.append("card:%d" % r)
            if rng.random() < 0.3:
                h.append("pow:%d" % rng.randrange(3)) if True else None
            prog = ";".join(h)
            rreqs.append("set ops safe " + prog)
            rreqs.append("set ops unsafe " + prog)
        for size in range(0, 8):
            prog = ";".join("add:0:%s" % univ[i] for i in range(size)) + (";" if size else "") + "pow:0;card:0"
            rreqs.append("set ops safe " + prog)
            rreqs.append("set ops unsafe " + prog)
        sts.append(Stream("set-random", rreqs))
        # LARGE sets: grown by single Adds past every size a container might treat specially (hundreds, 1024, 2048, 4096,
        # 8192 members), then emptied by single Removes in the same / reverse / random order, membership and size asked
        # along the way (a rehash, a shrink-to-fit, a "small set" fast path on the way up or down)
        lreqs = []
        sizes = [70, 300, 1100, 1500, 2100] if tier == "quick" else [70, 300, 1100, 1500, 2100, 2600, 4200, 5000, 8300, 9000, 17000]
        for N in sizes:
            for order in ("same", "reverse", "random"):
                h = ["add:0:i%d" % k for k in range(N)] + ["card:0", "clone:1:0"]
                ks = list(range(N))
                if order == "reverse":
                    ks.reverse()
                elif order == "random":
                    rng.shuffle(ks)
                for j, k in enumerate(ks):
                    h.append("rm:0:i%d" % k)
                    if j % 7 == 0 or N - j in (N // 4, N // 4 - 1, N // 4 + 1, N // 2, N // 8, 1024, 1023, 512, 256, 255, 64, 8, 1, 0):
                        h.append("has:0:i%d" % k)
                        h.append("card:0")
                    if j % 97 == 0:
                        h.append("add:0:i%d" % k)
                        h.append("rm:0:i%d" % k)
                h += ["card:0", "slice:0", "eq:0:1", "sub:0:1", "diff:2:1:0", "card:2", "add:0:i7", "slice:0"]
                prog = ";".join(h)
                lreqs.append("set ops safe " + prog)
                lreqs.append("set ops unsafe " + prog)
        sts.append(Stream("set-large", lreqs))
        return sts

    def exhaustive(self, tier):
        return True


register(_C15())
