"""Calendar properties C01, C02, C03, C07 (C20 shares the year sweep)."""
from . import core
from .specs import Spec, Stream, register, BASE_TRUST

CFGS = ["eth", "greg", "gprol", "hij-a", "hij-t", "ind", "jal33", "jal2820", "jul"]
BLOCK = 65536
LO, HI = -40_000_000, 40_000_000


def _weight(req):
    t = req.split(" ")
    if len(t) < 5:
        return 1
    if t[1] in ("hjd", "ljd"):
        return int(t[4]) - int(t[3])
    if t[1] in ("hym", "lym"):
        return (int(t[4]) - int(t[3])) * 366
    return 1


def jd_blocks(cfg, lo, hi, block=BLOCK):
    out = []
    b = lo
    while b < hi:
        e = min(b + block, hi)
        out.append("cal hjd %s %d %d" % (cfg, b, e))
        b = e
    return out


def ym_blocks(cfg, ylo, yhi, block=256):
    out = []
    b = ylo
    while b < yhi:
        e = min(b + block, yhi)
        out.append("cal hym %s %d %d" % (cfg, b, e))
        b = e
    return out


_year_range_cache = {}


def year_range(cfg):
    """years all of whose days lie in [LO, HI], asked from the real code"""
    if cfg not in _year_range_cache:
        resp, _ = core.ask(core.ORACLE, ["cal jdto %s %d" % (cfg, LO), "cal jdto %s %d" % (cfg, HI)])
        ylo = int(resp[0].split()[0]) + 1
        yhi = int(resp[1].split()[0])   # exclusive
        _year_range_cache[cfg] = (ylo, yhi)
    return _year_range_cache[cfg]


# cycle boundaries worth visiting in the quick tier: every cfg gets blocks around these day numbers
SPECIAL_JDS = [LO, HI + 1 - BLOCK, -BLOCK // 2, 1721426 - BLOCK // 2, 1948440 - BLOCK // 2, 2299160 - BLOCK // 2,
               2440588 - BLOCK // 2, 2453442 - BLOCK // 2, 2459673 - BLOCK // 2, 2121446 - BLOCK // 2,
               1724221 - BLOCK // 2, 2305448 - BLOCK // 2]


def refine(mismatches):
    """Turn differing block hashes into the first differing single request."""
    out = []
    for mm in mismatches[:8]:
        bare = core.strip_tz(mm.request)
        tz = mm.request[:len(mm.request) - len(bare)]      # the leading environment tokens, kept on the refined request
        t = bare.split(" ")
        if t[1] not in ("hjd", "hym"):
            out.append(mm)
            continue
        lop = "ljd" if t[1] == "hjd" else "lym"
        req = tz + "cal %s %s %s %s" % (lop, t[2], t[3], t[4])
        ir, _ = core.ask(core.ORACLE, [req])
        mr, _ = core.ask(core.DRIVER, [req])
        ii, mi = ir[0].split(";"), mr[0].split(";")
        found = False
        for k in range(max(len(ii), len(mi))):
            a = ii[k] if k < len(ii) else "<none>"
            b = mi[k] if k < len(mi) else "<none>"
            if a != b:
                if lop == "ljd":
                    jd = int(t[3]) + k
                    out.append(core.Mismatch(tz + "cal jdto %s %d" % (t[2], jd), a.replace("/", " "), b.replace("/", " ")))
                else:
                    out.append(core.Mismatch(tz + "cal lym %s %s %s  (entry %d: year:leap,len:first:last per month)" % (t[2], t[3], t[4], k), a, b))
                found = True
                break
        if not found:
            out.append(mm)
    return out + mismatches[8:]


def other_instance_groups(kinds):
    """a second, independent instance of the exported hijri month-table type is loaded between two askings of
    the same blocks (5 variants: an earlier edition, one ending mid-year with a changed month, lengths swapped,
    no rows, the same table): the library's own table must not notice"""
    groups = []
    for cfg in ("hij-t", "hij-a"):
        for v in range(5):
            blocks = []
            if "jd" in kinds:
                blocks += ["cal hjd %s %d %d" % (cfg, b, b + BLOCK) for b in (2424832,)]
                blocks += ["cal jdto %s %d" % (cfg, jd) for jd in range(2453430, 2459800, 97)]
            if "ym" in kinds:
                blocks += ["cal hym %s 1280 1536" % cfg]
                blocks += ["cal mlen %s %d %d" % (cfg, y, m) for y in (1426, 1431, 1432, 1441, 1442, 1443, 1444) for m in range(1, 13)]
            groups.append(blocks + ["cal other-table %s %d" % (cfg, v)] + blocks)
    return groups


def toggle_groups(rng, kinds, tier):
    """one question asked under one mode of a configurable calendar and — after the library's configuration switch has
    been thrown n more times, every n in a window around 2^8 (thorough: and around 2^9, 2^16) — under the other mode:
    anything that tells "computed under the other mode" by a counter of switches kept in 8 or 16 bits is fooled
    exactly then. (Every request sets its configuration once more, so the window covers every way of counting.)"""
    groups = []
    ns = list(range(248, 260)) + [65536 + k for k in range(-8, 3)]
    if tier == "thorough":
        ns += list(range(504, 516)) + list(range(120, 132))
    for (ca, cb) in (("hij-t", "hij-a"), ("hij-a", "hij-t"), ("jal33", "jal2820"), ("jal2820", "jal33")):
        g = []
        for n in ns:
            for _ in range(4 if tier == "quick" else 12):
                if ca.startswith("hij"):
                    y, m = rng.randint(1427, 1442), rng.randint(1, 12)
                    jd = rng.randrange(2453800, 2459600)
                else:
                    y, m = rng.randint(-3000, 3000), rng.randint(1, 12)
                    jd = rng.randrange(-2000000, 3000000)
                qs = []
                if "ym" in kinds:
                    qs += ["cal tojd %s %d %d %d" % ("%s", y, m, rng.randint(1, 29)), "cal mlen %s %d %d" % ("%s", y, m), "cal leap %s %d" % ("%s", y)]
                if "jd" in kinds:
                    qs += ["cal jdto %s %d" % ("%s", jd)]
                q = rng.choice(qs)
                g += [q % ca, "cal toggle %s %d" % (cb, n), q % cb]
        groups.append(g)
    return groups


def after_abuse_groups(rng, kinds, tier):
    """ill-formed dates (month 0 / 13 / 14 / 100+m / 255, day 0 / 31.. / 255) around a day, by-name calls with an
    unknown name, day numbers far outside the domain — then valid questions about the days and months around it"""
    groups = []
    n = 30 if tier == "quick" else 300
    ks = sorted(set(range(-400, 401, 16)) | {-355, -354, -30, -29, -1, 0, 1, 29, 30, 354, 355, 365, 366})
    for cfg in CFGS:
        jds = [rng.randrange(2453300, 2459900) for _ in range(n // 2)] + [rng.randrange(LO + 500, HI - 500) for _ in range(n // 2)]
        jds += [2457300, 2457311, 2456957, 2459295, 2440588, 1721426, 0]
        resp, _ = core.ask(core.ORACLE, ["cal jdto %s %d" % (cfg, jd) for jd in jds])
        g = []
        for jd, r in zip(jds, resp):
            t = r.split(" ")
            g.append("cal abuse %s %d" % (cfg, jd))
            if "jd" in kinds:
                g += ["cal jdto %s %d" % (cfg, jd + k) for k in ks]
            if "ym" in kinds and len(t) == 3:
                y = int(t[0])
                for yy in (y - 1, y, y + 1):
                    if yy == 0 and cfg == "gprol":
                        continue
                    g += ["cal mlen %s %d %d" % (cfg, yy, m) for m in range(1, 13)]
                    g += ["cal tojd %s %d %d 1" % (cfg, yy, m) for m in (1, 2, 12)]
                    g.append("cal leap %s %d" % (cfg, yy))
        groups.append(g)
    return groups


class CalSpec(Spec):
    kinds = ("jd", "ym")
    ylimit = None
    # tier "wide" (a source tie is not established on this run): the day and year sweeps over the property's WHOLE
    # domain as in the thorough tier, everything else at the quick size
    supports_wide = True

    def streams(self, tier, rng):
        sts = []
        wide_cfgs = getattr(self, "wide_cfgs", None) if tier == "wide" else None
        whole_tier = tier in ("thorough", "wide")
        if tier == "wide":
            tier = "quick"
        if "jd" in self.kinds:
            reqs = []
            for cfg in CFGS:
                whole = whole_tier and (wide_cfgs is None or cfg in wide_cfgs)
                if whole:
                    reqs += jd_blocks(cfg, LO, HI + 1)   # the domain is closed: +40 000 000 itself included
                else:
                    seen = set()
                    # dense window around the historical era, every special boundary, random blocks
                    for b in jd_blocks(cfg, -4_000_000, 4_000_000):
                        seen.add(b)
                    for s in SPECIAL_JDS:
                        seen.add("cal hjd %s %d %d" % (cfg, s, s + BLOCK))
                    for _ in range(24):
                        s = rng.randrange(LO, HI - BLOCK)
                        seen.add("cal hjd %s %d %d" % (cfg, s, s + BLOCK))
                    reqs += sorted(seen)
            sts.append(Stream("cal-days", reqs, weight=_weight, refine=refine))
            # the two day blocks that hold every transition of the time-zone database (1747 .. 2106), asked
            # under each local zone of core.TZS (thorough: under every zone the oracle knows): a conversion
            # that reads the process's local zone goes wrong on single days only (a zone's offset changing
            # sign, a daylight-saving jump at local midnight)
            zs = [z for z in core.TZS if z]
            if tier == "thorough":
                from .zones import zone_names
                zs = sorted(set(zs) | set(zone_names()))
            reqs = []
            for cfg in CFGS:
                for z in zs:
                    for b in (2359296, 2424832):
                        reqs.append("@tz=%s cal hjd %s %d %d" % (z, cfg, b, b + BLOCK))
            sts.append(Stream("cal-days-zones", reqs, weight=_weight, refine=refine))
            # single conversions in RANDOM order, one process per configuration: an answer that depends on the
            # calls made before it (a memo keyed wrongly, a cache that is not cleared) differs from the
            # stateless model. Half the days come from small hot sets (table seams, cycle ends, year starts)
            # so that particular pairs of consecutive questions occur often.
            groups = []
            n = 2500 if tier == "quick" else 40000
            for cfg in CFGS:
                hot = []
                for s0 in SPECIAL_JDS:
                    hot += [s0 + k for k in range(-2, 35)]
                hot += list(range(2453440, 2453475)) + list(range(2459670, 2459765))
                g = []
                for _ in range(n):
                    r = rng.random()
                    if r < 0.35:
                        jd = rng.choice(hot)
                    elif r < 0.7:
                        jd = rng.randrange(2453300, 2459900)
                    elif r < 0.85 and g:
                        jd = int(g[-1].split()[-1]) + rng.choice([-1, 1, -29, -30, 29, 30, 354, 355, 365, 366, -354, -365, 0])
                    else:
                        jd = rng.randrange(LO, HI)
                    g.append("cal jdto %s %d" % (cfg, jd))
                # … and EVERY ordered pair of a small set of days (the start of the hijri month table, days next
                # to cycle ends, random days): question P, then question Q
                hs = list(range(2453440, 2453475)) + [s0 + k for s0 in SPECIAL_JDS[:4] for k in (-1, 0, 1)]
                hs += [rng.randrange(2453475, 2459700) for _ in range(40 if tier == "quick" else 160)]
                for pj in hs:
                    for qj in hs:
                        g.append("cal jdto %s %d" % (cfg, pj))
                        g.append("cal jdto %s %d" % (cfg, qj))
                groups.append(g)
            sts.append(Stream("cal-random-order", None, groups=groups))
        if "ym" in self.kinds:
            reqs = []
            for cfg in CFGS:
                ylo, yhi = year_range(cfg)
                if self.ylimit:
                    ylo, yhi = max(ylo, self.ylimit[0]), min(yhi, self.ylimit[1] + 1)
                whole = whole_tier and (wide_cfgs is None or cfg in wide_cfgs)
                if whole:
                    reqs += ym_blocks(cfg, ylo, yhi)
                else:
                    seen = set(ym_blocks(cfg, max(ylo, -6144), min(yhi, 12288)))
                    seen.add("cal hym %s %d %d" % (cfg, ylo, ylo + 256))
                    seen.add("cal hym %s %d %d" % (cfg, yhi - 256, yhi))
                    for _ in range(24):
                        s = rng.randrange(ylo, yhi - 256)
                        seen.add("cal hym %s %d %d" % (cfg, s, s + 256))
                    reqs += sorted(seen)
            sts.append(Stream("cal-years", reqs, weight=_weight, refine=refine))
            # the years 1024 .. 2303 of every calendar (they hold 1747 .. 2106 CE in all of them) under local zones
            zs = ["America/New_York", "Asia/Tehran", "Europe/London", "America/Sao_Paulo"]
            if tier == "thorough":
                zs = [z for z in core.TZS if z]
            reqs = []
            for cfg in CFGS:
                for z in zs:
                    for y in range(1024, 2304, 256):
                        if not self.ylimit or (self.ylimit[0] <= y and y + 256 <= self.ylimit[1] + 1):
                            reqs.append("@tz=%s cal hym %s %d %d" % (z, cfg, y, y + 256))
            if reqs:
                sts.append(Stream("cal-years-zones", reqs, weight=_weight, refine=refine))
        sts.append(Stream("cal-other-instance", None, weight=_weight, refine=refine, groups=other_instance_groups(self.kinds)))
        sts.append(Stream("cal-after-ill-formed-calls", None, weight=_weight, groups=after_abuse_groups(rng, self.kinds, tier)))
        sts.append(Stream("cal-after-many-switches", None, weight=_weight, groups=toggle_groups(rng, self.kinds, tier)))
        return sts

    def exhaustive(self, tier):
        return tier == "thorough"

    assumptions = [
        "Go int arithmetic does not wrap on the property's domain (|jd| <= 4*10^7): the model uses unbounded Int; a wrap would show as a correspondence mismatch",
        "the Gregorian calendar of the library is Go's time package; the model is the civil-from-days arithmetic, tied by the block-hash correspondence",
        "hijri float expressions ceil(29.5*(m-1)), ceil((jd+0.5-ys)/29.5) are modelled by their exact integer values (DESIGN 6.5)",
    ]


CAL_RULE = ("block-hash correspondence: for each of the 9 calendar configurations, JdTo over day-number blocks of 65536 "
            "and (IsLeap, GetMonthLen, ToJd of every day) over year blocks of 256, model vs real code; every day/date in a "
            "block is also evaluated directly against the property on the real code. thorough = the whole quantified "
            "domain [-4*10^7, 4*10^7]; quick = dense window jd -4M..4M, cycle/anchor/table boundaries, the range ends, "
            "24 seeded random blocks per configuration. History: every 8th (thorough: 2nd) day block is walked a second time in descending "
            "order and every answer compared with the first; every day is asked again after the harness has overwritten the result object; "
            "ToJd must leave the date object it is given unchanged; stream cal-random-order = single conversions in random order in one process "
            "per configuration plus every ordered pair of a hot set of days (start of the hijri table, cycle ends, random table days), against "
            "the stateless model. distinct_nontrivial counts distinct blocks; evaluations counts days.")


class _C01(CalSpec):
    pid = "C01"
    lean_module = "Starcal.Props.C01"
    src_ties = ["Starcal.SrcTie.Cal", "Starcal.SrcTie.HijriTable"]
    src_overflow = ["Starcal.SrcTie.NoOverflow"]
    kinds = ("jd", "ym")
    expected = "ToJd(JdTo(jd)) = jd for every day number, JdTo(ToJd(d)) = d for every well-formed date, all 9 configurations"
    rule = CAL_RULE


register(_C01())


class _C02(CalSpec):
    pid = "C02"
    lean_module = "Starcal.Props.C02"
    src_ties = ["Starcal.SrcTie.Cal", "Starcal.SrcTie.HijriTable"]
    src_overflow = ["Starcal.SrcTie.NoOverflow"]
    kinds = ("jd",)
    expected = "JdTo(jd+1) is the calendar successor of JdTo(jd) under the library's GetMonthLen; every produced date is well-formed"
    rule = CAL_RULE


register(_C02())


class _C03(CalSpec):
    pid = "C03"
    lean_module = "Starcal.Props.C03"
    src_ties = ["Starcal.SrcTie.Cal2", "Starcal.SrcTie.HijriTable"]
    kinds = ("jd", "ym")
    expected = "JdTo(jd) equals the date counted from the published anchor with the published leap rule and month lengths (table lengths inside the hijri table window)"
    rule = CAL_RULE


register(_C03())


class _C07(CalSpec):
    pid = "C07"
    lean_module = "Starcal.Props.C07"
    src_ties = ["Starcal.SrcTie.Cal2", "Starcal.SrcTie.HijriTable"]
    kinds = ("ym",)
    expected = "month lengths equal gaps between month starts, sum to the year length, leap iff long year"
    rule = CAL_RULE


register(_C07())
