"""C16 (race freedom / atomicity) and C17 (no deadlock) of the thread-safe set."""
import os
import re
import subprocess
from . import core
from .specs import Spec, Stream, register

ORACLE_RACE = os.path.join(core.BUILD, "oracle-race")

LOCK_ASSUME = [
    "sync.RWMutex is modelled as a writer-preferring reader/writer lock (a reader arriving after a writer announced itself waits; a re-lock by the holder blocks) that provides the memory ordering its documentation promises; the Go scheduler and memory model below it are not modelled",
    "the lock-event sequences are RECORDED from the implementation through the verif hook for every operation under every operand assignment over two sets; accesses to the sets' maps are placed between them by an abstract interpreter over the source of utils/mapset (harness/lockrec/absint.go: inlines everything that handles a thread-safe set, keeps the source paths whose lock calls are exactly the recorded events; C17 uses the recorded lock events alone)",
    "Iter is complete when its channel is drained; the consumer calls nothing on that set meanwhile",
]


def recorded_entries(kind="seqs"):
    resp, _ = core.ask(core.ORACLE_HOOKS, ["locks " + kind])
    out = {}
    if resp and not resp[0].startswith("extract-error") and resp[0] != "bad-request":
        for part in resp[0].split(";"):
            op, pat, acts = part.split(":")
            out.setdefault((op, pat), acts)
    return out, (resp[0] if resp else "")


def undisciplined(entries, op="disc1"):
    keys = sorted(entries)
    reqs = ["locks %s %s" % (op, entries[k]) for k in keys]
    resp, _ = core.ask(core.DRIVER, reqs)
    return [k for k, r in zip(keys, resp) if r != "1"]


class _C16(Spec):
    pid = "C16"
    lean_module = "Starcal.Props.C16"
    expected = "no operation touches a set's contents without holding that set's lock in the required mode on every operand; no data race; conflicting operations have disjoint lock windows"
    rule = ("regenerated facts: Gen/LockSeq.lean (per operation x operand assignment AB/BA/AA/A/B: recorded lock events aligned with the source's map accesses) with `ops_disciplined` re-proved by "
            "`decide`; `locks seqs`: the sequences compiled into the model vs a fresh recording by the oracle; direct evaluation on the real code: every ordered pair of the 18 operations "
            "(1296 runs: every ordered pair of operations on shared operands that are constructor-made, aliased, handed back by an earlier operation, or populated and then cleared) run concurrently on shared operands under the Go race detector (separate -race build of the oracle), reports attributed to utils/mapset frames.")
    assumptions = LOCK_ASSUME + ["linearizability is proved on the plain reader/writer-lock machine with data (Serial.lean) for any access semantics; that its executions include those of the writer-preferring lock is proved by refinement (Refine.lean); on the real code it is checked on seeded random concurrent histories (locks linhist)"]

    def streams(self, tier, rng):
        return [Stream("lock-sequences", ["locks seqs"])]

    def extra_checks(self, tier, rng, results, workdir):
        failing, broken, notes = [], [], []
        env = dict(core.GOENV, CGO_ENABLED="1")
        with core.Lock("go"):
            p = subprocess.run(["go", "build", "-race", "-tags", "verif", "-o", ORACLE_RACE, "./cmd/oracle"], cwd=core.HARNESS, env=env,
                               stdout=subprocess.PIPE, stderr=subprocess.STDOUT, text=True)
        if p.returncode != 0:
            notes.append("race-enabled oracle could not be built: " + p.stdout[-500:])
            return {"failing": [], "broken": [], "notes": notes}
        rounds = 1 if tier == "quick" else 6
        reports = 0
        pairs = 0
        for _ in range(rounds):
            pr = subprocess.run([ORACLE_RACE], input="locks racepairs\n", stdout=subprocess.PIPE, stderr=subprocess.PIPE, text=True,
                                env=dict(os.environ, GORACE="halt_on_error=0"), timeout=900)
            err = pr.stderr
            pairs += err.count("PAIR-DONE")
            # split into reports; the pair that was running is named by the next PAIR-DONE marker
            for m in re.finditer(r"WARNING: DATA RACE\n(.*?)\n==================", err, flags=re.S):
                body = m.group(1)
                if "utils/mapset" not in body:
                    continue
                reports += 1
                nxt = re.search(r"PAIR-DONE (.*)", err[m.end():])
                frames = re.findall(r"mapset\.\(\*threadSafeSet\)\.(\w+)|mapset\.\(\*threadUnsafeSet\)\.(\w+)", body)
                names = sorted({a or b for a, b in frames})
                failing.append(("race-detector", "locks racepairs", "data race in utils/mapset between operations touching %s while running pair %s: %s" % (
                    "/".join(names[:6]), nxt.group(1) if nxt else "?", " | ".join(l.strip() for l in body.splitlines()[:3]))))
        # seeded random concurrent histories checked for linearizability on the real code (schedule
        # perturbed through the hook); the theorem side of this clause is NOT proved (partial)
        nh = 4000 if tier == "quick" else 60000
        lin_summary = []
        for k in range(4):
            lreq = "locks linhist %d %d" % (nh // 4, rng.randrange(1 << 30))
            pl = subprocess.run([core.ORACLE_HOOKS], input=lreq + "\n", stdout=subprocess.PIPE, stderr=subprocess.PIPE, text=True)
            raw = pl.stdout.split("\n")[:1]
            resp = [raw[0].split("\t")[0]]
            lin_summary.append(resp[0])
            if pl.returncode != 0 or not resp[0]:
                # the Go runtime stops the process when it sees a map written while it is read ("fatal error:
                # concurrent map …"): some operation touched a set's contents without that set's lock
                fatal = [l for l in pl.stderr.splitlines() if l.startswith("fatal error:") or l.startswith("panic:")]
                where = [l.strip() for l in pl.stderr.splitlines() if "utils/mapset." in l][:4]
                failing.append(("linearizability", lreq, "the process running the concurrent histories died: %s; frames: %s" % (
                    "; ".join(fatal[:2]) or "exit code %d" % pl.returncode, " | ".join(where))))
            for item in raw[0].split("\t")[1:]:
                if item.startswith("!PROP C16 "):
                    failing.append(("linearizability", "locks linhist", item[len("!PROP C16 "):]))
        und = undisciplined(recorded_entries()[0], "discA1")
        for k in und:
            notes.append("recorded sequence of %s(%s) fails the access discipline" % k)
        # focused probe: the operations whose sequence is undisciplined, hammered against writers
        for (op, pat) in und[:6]:
            if failing:
                break
            pr = subprocess.run([ORACLE_RACE], input="locks racefocus %s %s\n" % (op, pat), stdout=subprocess.PIPE, stderr=subprocess.PIPE, text=True,
                                env=dict(os.environ, GORACE="halt_on_error=0"), timeout=300)
            for m in re.finditer(r"WARNING: DATA RACE\n(.*?)\n==================", pr.stderr, flags=re.S):
                body = m.group(1)
                if "utils/mapset" not in body:
                    continue
                reports += 1
                failing.append(("race-detector-focused", "locks racefocus %s %s" % (op, pat),
                                "data race in utils/mapset: %s(%s) running against Add/Remove on its operands: %s" % (op, pat, " | ".join(l.strip() for l in body.splitlines()[:12] if l.strip()))))
                break
        return {"failing": failing[:10], "broken": broken, "notes": notes,
                "coverage": {"linearizability_histories": lin_summary, "race_detector_pairs": pairs, "race_reports_in_mapset": reports, "undisciplined_entries": ["%s(%s)" % k for k in und]}}

    def exhaustive(self, tier):
        return True


register(_C16())


def swap(pat):
    return {"AB": "BA", "BA": "AB", "A": "B", "B": "A"}.get(pat, pat)


class _C17(Spec):
    pid = "C17"
    lean_module = "Starcal.Props.C17"
    expected = "every operation eventually returns under every interleaving of readers and writers: no lock is re-acquired by its holder, two-set operations (aliased or swapped operands included) cannot wait on each other in a cycle while writers are queued"
    rule = ("regenerated facts: Gen/LockSkel.lean (lock events recorded from the running code through the hook, operations by reflection over the Set interface; no reading of the source); `locks skels` model vs fresh recording; direct evaluation on the real code: `locks stress` runs every ordered pair of operations on swapped and aliased "
            "operands with a writer queued on each set under a 2 s watchdog. When a recorded sequence fails the static discipline the Lean driver searches the MODEL (explicit-state, <=4 goroutines, "
            "2 sets) for a deadlock schedule and the oracle replays it on the real code with every lock acquisition gated through the verif hook; only a deadlock reproduced on the real code is a failing input.")
    assumptions = LOCK_ASSUME

    def streams(self, tier, rng):
        return [Stream("lock-skeletons", ["locks skels"])]

    def extra_checks(self, tier, rng, results, workdir):
        failing, notes = [], []
        cov = {}
        rounds = 1 if tier == "quick" else 5
        hung = 0
        for _ in range(rounds):
            resp, raw = core.ask(core.ORACLE_HOOKS, ["locks stress"])
            cov["stress"] = resp[0]
            for item in raw[0].split("\t")[1:]:
                if item.startswith("!PROP C17 "):
                    failing.append(("lock-stress", "locks stress", item[len("!PROP C17 "):]))
        entries, rawseq = recorded_entries("skels")
        if not entries:
            notes.append("no recorded sequences: " + rawseq[:300])
        und = undisciplined(entries, "discL1") if entries else []
        cov["undisciplined_entries"] = ["%s(%s)" % k for k in und]
        replays = 0
        for (op, pat) in und[:12]:
            cands = []
            e = (op, pat)
            w = [("Add", "A"), ("Add", "B")]
            sw = (op, swap(pat))
            if sw not in entries:
                # `Op@shape`: only the operand assignments whose events differ from the base shape's are listed; the
                # swapped call on the same pair of sets behaves as the base entry says
                sw = (op.split("@")[0], swap(pat))
            cands.append([e] + w)
            if sw in entries:
                cands.append([e, sw] + w)
            cands.append([e, e] + w)
            cands.append([e, ("Add", "A")])
            cands.append([e, ("Add", "B")])
            # a lock left held shows when somebody comes after: the same operation twice in one goroutine
            for prog in cands:
                acts = "|".join(entries[k] for k in prog)
                r, _ = core.ask(core.DRIVER, ["locks dlsearch " + acts])
                if not r[0].startswith("deadlock"):
                    continue
                sched = r[0].split(" ", 1)[1] if " " in r[0] else "-"
                spec = "|".join("%s:%s" % k for k in prog)
                rr, raw = core.ask(core.ORACLE_HOOKS, ["locks replay %s %s" % (spec, sched)])
                replays += 1
                got = False
                for item in raw[0].split("\t")[1:]:
                    if item.startswith("!PROP C17 "):
                        failing.append(("model-schedule-replay", "locks replay %s %s" % (spec, sched), item[len("!PROP C17 "):]))
                        got = True
                if got:
                    break
                notes.append("model deadlock for %s with schedule %s did not reproduce on the real code: %s" % (spec, sched, rr[0]))
        cov["model_deadlocks_replayed"] = replays
        return {"failing": failing[:10], "broken": [], "notes": notes, "coverage": cov}

    def exhaustive(self, tier):
        return True


register(_C17())
