import hashlib
import json
import os
import random
import re
import shutil
import sys
import time

from . import core
from .core import log
from . import specs


def write_replay(pid, payload):
    os.makedirs(os.path.join(core.VERIF, "replays"), exist_ok=True)
    h = hashlib.sha1(json.dumps(payload, sort_keys=True).encode()).hexdigest()[:12]
    path = os.path.join(core.VERIF, "replays", "%s-%s.json" % (pid, h))
    with open(path, "w") as f:
        json.dump(payload, f, indent=1, sort_keys=True)
    return path


def repo_head():
    rc, out = core.run(["git", "-C", core.REPO, "rev-parse", "--short", "HEAD"])
    rc2, st = core.run(["git", "-C", core.REPO, "status", "--porcelain"])
    return out.strip() + ("+dirty" if st.strip() else "")


def failing_decls(lake_out):
    decls = []
    for m in re.finditer(r"^error: (\S+?):(\d+):(\d+): (.*)$", lake_out, flags=re.M):
        decls.append("%s:%s %s" % (m.group(1), m.group(2), m.group(4)[:200]))
    return decls


def main(argv):
    if len(argv) < 2:
        print(__doc__ or "usage: ./check <Cxx> quick|thorough|--replay <file>")
        return 2
    pid = argv[0]
    spec = specs.get(pid)
    if spec is None:
        print("unknown property", pid)
        return 2
    if argv[1] == "--replay":
        return replay(spec, argv[2])
    tier = argv[1]
    if tier not in ("quick", "thorough"):
        tier = os.environ.get("VERIF_TIER", "quick")
    seed = int(os.environ.get("VERIF_SEED", "0") or 0)
    return decide(spec, tier, seed)


def decide(spec, tier, seed):
    pid = spec.pid
    t0 = time.time()
    # the oracle walks every n-th day block a second time in descending order (history dependence)
    os.environ.setdefault("ORACLE_DESC_EVERY", "8" if tier == "quick" else "2")
    # ... and asks the requests of every n-th window again from several goroutines at once
    os.environ.setdefault("ORACLE_STORM_EVERY", "4" if tier == "quick" else "2")
    os.environ["ORACLE_PID"] = pid
    workdir = os.path.join(core.BUILD, "run", "%s-%d" % (pid, os.getpid()))
    os.makedirs(workdir, exist_ok=True)
    broken = []          # obligations / correspondences that no longer check
    notes = []

    ok, out = core.build_go()
    if not ok:
        broken.append({"kind": "broken-build", "obligation": "go build of the harness against /repo", "detail": out[-2000:]})
        log(out)
    tagged = core.scan_build_constraints()
    if tagged:
        broken.append({"kind": "broken-obligation",
                       "obligation": "the verif build tag only adds the recorded hook files (the library is checked as built without the tag)",
                       "detail": "build constraints mentioning the tag outside verif_hooks.go: " + "; ".join(tagged[:10])})
    gen_ok = True
    if ok:
        gen_ok, gout = core.regenerate()
        softs = re.findall(r"^extract-soft: (.*)$", gout, flags=re.M)
        if softs:
            notes.append("extract_soft_fail: some facts were no longer readable from the source in the recognised shape and "
                         "were taken from the running code instead (weaker tie, no alarm): " + " | ".join(softs)[:3000])
        if not gen_ok:
            # only the regenerated files this property's theorems depend on count for it
            failed = set(re.findall(r"^extract: (\w+)\.lean:", gout, flags=re.M))
            used = {m.split(".")[-1] for m in core.lean_sources([spec.lean_module]) if m.startswith("Starcal.Gen.")}
            relevant = sorted(failed & used) if failed else sorted(used)
            notes.append("extract reported: " + gout[-1500:])
            if relevant:
                broken.append({"kind": "broken-obligation",
                               "obligation": "regeneration of Starcal/Gen/%s.lean from /repo (cmd/extract)" % ",".join(relevant),
                               "detail": gout[-1500:]})
    # Lean: property theorems (+ regenerated obligations) and the driver
    lean_ok, lout, lake_s = core.lake_build([spec.lean_module, "driver"])
    if not lean_ok:
        decls = failing_decls(lout)
        broken.append({"kind": "broken-obligation", "obligation": "lake build %s" % spec.lean_module,
                       "failing": decls[:20], "detail": lout[-3000:]})
        # the driver may still be buildable on its own
        core.lake_build(["driver"])
    audit_ok, thms, problems, n_examples = core.audit(spec.lean_module) if lean_ok else (False, {}, ["not audited: build failed"], 0)
    if lean_ok and not audit_ok:
        broken.append({"kind": "broken-obligation", "obligation": "axiom / forbidden-construct audit of %s" % spec.lean_module,
                       "detail": problems[:20]})

    # source tie: the functions translated from today's source (Gen/Src.lean) are proved equal to the model
    ties = None
    stream_tier = tier
    if ok and lean_ok and spec.src_ties:
        ties = core.source_ties(spec.src_ties)
        if ties["not_established"]:
            notes.append("source_tie_not_established: the theorems `translated source = model` no longer check for %s; the "
                         "correspondence check is the only tie for that code on this run, so it is run at the thorough size "
                         "(for the calendars: the whole day-number domain of the property)" % ", ".join(sorted(ties["not_established"])))
            stream_tier = "wide" if getattr(spec, "supports_wide", False) else "thorough"
            # which calendar configurations the broken tie proofs are about (file names in the error lines); anything
            # else (the shared lemmas, the generated file itself) means all of them
            which = {"Julian": ["jul"], "Jalali": ["jal33", "jal2820"], "Ethiopian": ["eth"], "Proleptic": ["gprol"],
                     "Indian": ["ind"], "Hijri": ["hij-a", "hij-t"], "HijriTable": ["hij-t"]}
            cfgs, unknown = set(), False
            for f in ties.get("broken_files", []) or ["?"]:
                m = re.match(r"Starcal/SrcTie/(\w+)\.lean$", f)
                if m and m.group(1) in which:
                    cfgs.update(which[m.group(1)])
                elif m and m.group(1) in ("Cal", "Cal2", "All"):
                    pass    # they only collect the per-package theorems
                else:
                    unknown = True
            spec.wide_cfgs = None if (unknown or not cfgs) else sorted(cfgs)
        log("[%s] source ties: %d modules established, %d not" % (pid, len(ties["established"]), len(ties["not_established"])))

    # machine integers: the overflow-checked copies of the translated functions equal the model on the property's domain
    ovf = None
    if ok and lean_ok and spec.src_overflow:
        ovf = core.source_ties(spec.src_overflow)
        if ovf["not_established"]:
            notes.append("overflow_freedom_not_established: the theorems `overflow-checked translated source = model` no longer check "
                         "for %s; on this run `Go int = unbounded Int` is an idealisation of the model for that code (the "
                         "correspondence streams still run the real 64-bit arithmetic)" % ", ".join(sorted(ovf["not_established"])))
        log("[%s] overflow-freedom: %d modules established, %d not" % (pid, len(ovf["established"]), len(ovf["not_established"])))

    # correspondence + direct evaluation of the property on the real code
    rng = random.Random(seed * 1000003 + int(pid[1:]))
    results = []
    leanchecker = None
    if tier == "thorough" and lean_ok:
        with core.Lock("lake"):
            try:
                rc_lc, out_lc = core.run(["lake", "env", "leanchecker", spec.lean_module], cwd=core.LEAN, timeout=1800)
            except Exception as ex:  # timeout
                rc_lc, out_lc = 1, str(ex)
        leanchecker = "ok" if rc_lc == 0 else "FAILED: " + out_lc[-800:]
        if rc_lc != 0:
            broken.append({"kind": "broken-obligation", "obligation": "leanchecker %s" % spec.lean_module, "detail": out_lc[-1500:]})
        # the independent re-checker over the tie modules too (soft like the ties: a module it refuses counts as not established)
        for tset in (ties, ovf):
            for mod in sorted((tset or {}).get("established", {})):
                with core.Lock("lake"):
                    try:
                        rc_t, out_t = core.run(["lake", "env", "leanchecker", mod], cwd=core.LEAN, timeout=1800)
                    except Exception as ex:
                        rc_t, out_t = 1, str(ex)
                if rc_t == 0:
                    tset["established"][mod]["leanchecker"] = "ok"
                else:
                    tset["not_established"][mod] = ["leanchecker: " + out_t[-400:]]
                    del tset["established"][mod]
                    notes.append("leanchecker refused the tie module %s" % mod)
    if ok and os.path.exists(core.DRIVER):
        streams = list(spec.streams(stream_tier, rng))
        cpath = os.path.join(core.VERIF, "corpus", pid + ".txt")
        if os.path.exists(cpath):
            groups = [[l for l in blk.splitlines() if l.strip() and not l.startswith("#")] for blk in open(cpath).read().split("\n\n")]
            groups = [g for g in groups if g]
            if groups:
                from .specs import Stream
                streams.insert(0, Stream("corpus", None, compare=spec.compare_default, groups=groups))
        # one long-lived process: 20 000 requests (thorough: 300 000; each request makes several library calls) drawn with repetition from all the
        # stand-alone line requests of this property, mixed, in ONE oracle process and in this order, the
        # first few hundred asked again at the end — a call counter that wraps at 2^8 or 2^16, a cache
        # that is full, something an error path left behind for the next valid call
        pool = []
        for st in streams:
            if not getattr(st, 'groups', None) and st.weight is None and len(st.requests or []) >= 200:
                pool.append(st)
        if pool and not os.environ.get("VERIF_NO_SOAK"):
            from .specs import Stream
            cmp_of = {}
            n_soak = 20000 if tier == "quick" else 300000
            g = []
            for k in range(n_soak):
                st = pool[k % len(pool)]
                rq = st.requests[rng.randrange(len(st.requests))]
                cmp_of.setdefault(rq, st.compare)
                g.append(rq)
            g += g[:300]

            def soak_compare(req, impl, model, _c=cmp_of):
                f = _c.get(req)
                return f(req, impl, model) if f else impl == model
            streams.append(Stream("one-long-process", None, compare=soak_compare, groups=[g]))
        for st in streams:
            if not getattr(st, 'groups', None) and not os.environ.get("VERIF_NO_SHUFFLE"):
                # requests that stand alone are asked in a seeded random order (an answer must not depend on
                # what was asked before it; a table built by the first calls is first touched by arbitrary ones)
                st.requests = list(st.requests)
                rng.shuffle(st.requests)
            st.requests, st.groups = core.decorate_tz(st.requests, getattr(st, 'groups', None))
            r = core.run_stream(st.name, st.requests, workdir, compare=st.compare, weight=st.weight, groups=getattr(st, 'groups', None))
            if r.mismatches and st.refine:
                r.mismatches = st.refine(r.mismatches)
            r.meta = st
            results.append(r)
            log("[%s] stream %-14s requests=%d weight=%d mismatches=%d prop-items=%d (%.1fs)" % (
                pid, st.name, r.requests, r.weight, len(r.mismatches), len(r.props), time.time() - t0))
    elif ok:
        broken.append({"kind": "broken-build", "obligation": "lean driver executable", "detail": lout[-1500:]})

    known = core.load_known()
    failing = []      # (stream, request, text) on the real code, not known
    known_hits = {}
    for r in results:
        if r.crashed:
            broken.append({"kind": "broken-correspondence", "obligation": "stream " + r.name, "detail": r.crashed})
        if getattr(r, "selftest_failures", None):
            # the machinery itself is wrong: a deliberately wrong model answer was accepted as equal
            broken.append({"kind": "broken-machinery", "obligation": "comparison self-test of stream " + r.name,
                           "detail": "a deliberately wrong model answer was not reported as a difference: %r" % (r.selftest_failures[:2],)})
        for mm in r.mismatches[:50]:
            broken.append(dict(kind="broken-correspondence", obligation="stream %s: model and implementation disagree" % r.name, **mm.as_dict()))
        for (req, p, text) in r.props:
            if p != pid:
                continue
            k = core.match_known(known, pid, text)
            if k:
                known_hits.setdefault(k["id"], [k, 0])[1] += 1
            else:
                failing.append((r.name, req, text))
    extra = spec.extra_checks(tier, rng, results, workdir) if ok else None
    if extra:
        for e in extra.get("failing", []):
            k = core.match_known(known, pid, e[2])
            if k:
                known_hits.setdefault(k["id"], [k, 0])[1] += 1
            else:
                failing.append(e)
        broken.extend(extra.get("broken", []))
        notes.extend(extra.get("notes", []))

    for kid, (k, n) in sorted(known_hits.items()):
        print("KNOWN-FINDING: property=%s %s [%s; %d failing inputs seen in this run]" % (pid, k["what"], kid, n))

    rc = 0
    replay_path = None
    if failing:
        name, req, text = failing[0]
        # stateful streams (zone header, configuration history inside one process): the requests that
        # precede the failing one in its group are part of the replay
        prefix = None
        for r in results:
            grp = getattr(r.meta, "groups", None)
            if r.name == name and grp:
                for g in grp:
                    if req in g:
                        prefix = g[:g.index(req)]
                        break
            if r.name == name and not prefix and req in r.context:
                # seen with concurrent callers: the other requests of its window are the history
                prefix = r.context[req]
        prefix_path = None
        if prefix:
            os.makedirs(os.path.join(core.VERIF, "replays"), exist_ok=True)
            prefix_path = os.path.join(core.VERIF, "replays", "%s-prefix-%s.txt" % (pid, hashlib.sha1((req + text).encode()).hexdigest()[:12]))
            with open(prefix_path, "w") as f:
                f.write("\n".join(prefix) + "\n")
        replay_path = write_replay(pid, {
            "preceding_requests_file": prefix_path,
            "property": pid, "kind": "failing-input", "stream": name, "request": req, "observed": text,
            "expected": spec.expected, "other_failing_inputs": [f[2] for f in failing[1:20]],
            "broken": broken[:5], "seed": seed, "tier": tier, "repo_head": repo_head(),
            "how_to_replay": "./check %s --replay <this file>" % pid})
        print("VIOLATION property=%s replay=%s" % (pid, replay_path))
        rc = 1
    elif broken:
        replay_path = write_replay(pid, {
            "property": pid, "kind": broken[0]["kind"], "broken": broken[:20],
            "expected": spec.expected, "seed": seed, "tier": tier, "repo_head": repo_head(),
            "note": "the search evaluated the property directly on the real code over every request of this run and found no failing input",
            "how_to_replay": "./check %s --replay <this file>" % pid})
        print("VIOLATION property=%s replay=%s no-failing-input-found" % (pid, replay_path))
        rc = 1

    # evidence
    evaluations = sum(r.weight for r in results)
    distinct = sum(r.distinct for r in results)
    samples = []
    for r in results:
        samples.extend(r.samples[:3])
    obligations = len(thms) + n_examples + len(results) if lean_ok else max(1, len(results))
    discharged = (len([t for t in thms]) + n_examples if audit_ok else 0) + len([r for r in results if not r.mismatches and not r.crashed])
    n_tie = sum(len(v["theorems"]) + v["examples"] for v in ties["established"].values()) if ties else 0
    obligations += n_tie
    discharged += n_tie
    n_ovf = sum(len(v["theorems"]) + v["examples"] for v in ovf["established"].values()) if ovf else 0
    obligations += n_ovf
    discharged += n_ovf
    ev = {
        "property_id": pid, "tier": tier, "seed": seed, "level": "proof",
        "coverage": {
            "obligations": max(1, obligations),
            "discharged": max(0, discharged),
            "checker_cmd": "cd /verif/lean && lake build %s driver && lake env lean .audit/%s.lean  (then: /verif/check %s %s)" % (
                spec.lean_module, pid, pid, tier),
            "trusted_base": spec.trusted_base,
            "theorems": {k: v for k, v in sorted(thms.items())},
            "examples_checked": n_examples,
            "evaluations": int(evaluations),
            "distinct_nontrivial": int(distinct),
            "rule": spec.rule,
            "samples": samples[:12] or ["(no stream ran)"],
            "exhaustive": bool(spec.exhaustive(tier)),
            "streams": [{"name": r.name, "requests": r.requests, "evaluations": r.weight,
                         "mismatches": len(r.mismatches), "response_kinds": r.kinds,
                         "comparison_self_tests": getattr(r, "selftests", 0),
                         "property_failures_on_real_code": len([1 for (_, p, _) in r.props if p == pid])} for r in results],
            "traces_validated_against_impl": int(sum(r.requests for r in results)),
            "process_environment": {
                "what": "every request is answered under a local time zone (token @tz=<zone>: time.Local of the oracle process); stand-alone "
                        "requests are asked in a seeded random order; every %s-th window of 64 requests is asked again from 4 goroutines at once and "
                        "the first window of every oracle process is asked concurrently BEFORE it is asked alone; each concurrent answer must equal "
                        "the answer given alone" % os.environ.get("ORACLE_STORM_EVERY", "?"),
                "local_zones": {z: sum(getattr(r, "local_zones", {}).get(z, 0) for r in results)
                                for z in sorted({z for r in results for z in getattr(r, "local_zones", {})})} if len({z for r in results for z in getattr(r, "local_zones", {})}) <= 40
                               else {"distinct zones": len({z for r in results for z in getattr(r, "local_zones", {})})},
                "concurrent": {k: sum(getattr(r, "concurrent", {}).get(k, 0) for r in results)
                               for k in ("groups_asked_concurrently", "concurrent_calls", "requests_asked_concurrently_first")},
            },
            "source_translation": ({
                "what": "harness/cmd/extract/srcfn.go translates the integer fragment of the Go functions listed under translated_functions from "
                        "/repo's current source into Lean definitions (Gen/Src.lean, `none` = panic); the theorems listed under established prove, "
                        "for every argument in the stated domain, that each returns what the hand-written model returns, and restate the property "
                        "about the translated code itself. A module under not_established no longer checks against today's source: no alarm by "
                        "itself, the correspondence streams of this run were widened to the thorough size instead.",
                "translated_functions": ties["translated_functions"],
                "established": ties["established"], "not_established": ties["not_established"], "broken_files": ties.get("broken_files", [])} if ties else None),
            "overflow_freedom": ({
                "what": "next to every translated function f, Gen/Src.lean carries a copy f_chk in which every int / int64 +, -, *, unary - and "
                        "non-constant / goes through GoSem.chk64 (none when the exact result leaves 64 bits); the theorems under established "
                        "prove f_chk = model on the stated domain (utils.Div/Mod/Divmod: every 64-bit pair the property admits; calendars: "
                        "|jd| <= 10^9, |year| <= 10^8), so there the machine arithmetic of today's source IS the model's unbounded arithmetic. "
                        "not_established: no alarm and nothing widened; the idealisation is then stated, not discharged.",
                "established": ovf["established"], "not_established": ovf["not_established"]} if ovf else None),
            "known_findings_seen": {kid: n for kid, (k, n) in known_hits.items()},
            "broken": broken[:10],
            "notes": notes,
            "lake_build_s": round(lake_s, 1),
            "leanchecker": leanchecker,
            "repo_head": repo_head(),
        },
        "assumptions": spec.assumptions,
        "wall_s": round(time.time() - t0, 2),
        "violations": len(failing) if failing else (1 if broken else 0),
    }
    if extra and extra.get("coverage"):
        ev["coverage"].update(extra["coverage"])
    os.makedirs(os.path.join(core.VERIF, "evidence"), exist_ok=True)
    with open(os.path.join(core.VERIF, "evidence", pid + ".json"), "w") as f:
        json.dump(ev, f, indent=1, sort_keys=True)
    shutil.rmtree(workdir, ignore_errors=True)
    log("[%s] %s tier done in %.1fs: %s" % (pid, tier, time.time() - t0, "VIOLATION" if rc else "ok"))
    return rc


def replay(spec, path):
    payload = json.load(open(path))
    ok, out = core.build_go()
    if not ok:
        print("go build failed"); print(out); return 1
    req = payload.get("request")
    reqs = [req] if req else [b.get("request") for b in payload.get("broken", []) if b.get("request")]
    bad = False
    prefix = []
    if payload.get("preceding_requests_file") and os.path.exists(payload["preceding_requests_file"]):
        prefix = [l for l in open(payload["preceding_requests_file"]).read().splitlines() if l.strip()]
    os.environ["ORACLE_PID"] = spec.pid
    concurrent = "goroutines" in (payload.get("observed") or "")
    for rq in reqs:
        binary = core.ORACLE_HOOKS if any(core.needs_hooks(x) for x in prefix + [rq]) else core.ORACLE
        # a failure seen with concurrent callers depends on the schedule: ask up to 40 times
        for attempt in range(40 if concurrent else 1):
            resp_all, raw_all = core.ask(binary, prefix + [rq], env={"ORACLE_STORM_EVERY": "1"})
            resp, raw = resp_all[-1:], raw_all[-1:]
            if any(i.startswith("!PROP " + spec.pid) for i in raw[0].split("\t")[1:]):
                break
        if os.path.exists(core.DRIVER):
            m_all, _ = core.ask(core.DRIVER, prefix + [rq])
            mresp = m_all[-1:]
        else:
            mresp = ["<no driver>"]
        print("request: ", rq)
        print("impl:    ", raw[0][:3000])
        print("model:   ", mresp[0][:3000])
        items = [i for i in raw[0].split("\t")[1:] if i.startswith("!PROP " + spec.pid)]
        if items or (spec.compare_default(core.strip_tz(rq), resp[0], mresp[0]) is False):
            bad = True
    if not reqs:
        print("replay file names a broken obligation without a request:", json.dumps(payload.get("broken", [])[:3], indent=1)[:3000])
        return decide(spec, payload.get("tier", "quick"), payload.get("seed", 0))
    if bad:
        print("VIOLATION property=%s replay=%s" % (spec.pid, path))
        return 1
    print("no violation reproduced")
    return 0
