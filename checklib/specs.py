"""Per-property specifications: which Lean module carries the theorems, which streams tie the
model to the code, which direct evaluations of the property on the real code count."""
from . import core

_REGISTRY = {}


def get(pid):
    from . import cal, misc, ival, reg, rules, locks, zones  # noqa: F401  (registration side effects)
    return _REGISTRY.get(pid)


def register(spec):
    _REGISTRY[spec.pid] = spec
    return spec


class Stream:
    def __init__(self, name, requests, compare=None, weight=None, refine=None, groups=None):
        self.name, self.requests, self.compare, self.weight, self.refine = name, requests, compare, weight, refine
        self.groups = groups
        if groups is not None:
            self.requests = [r for g in groups for r in g]


BASE_TRUST = [
    "Lean 4.33.0 kernel; axioms per theorem as listed under coverage.theorems (allowed: propext, Classical.choice, Quot.sound)",
    "no sorry/admit/native_decide/bv_decide/implemented_by/unsafe/user axioms (grep over the transitive sources on every run)",
    "the correspondence check itself: /verif/harness/cmd/oracle (Go, links /repo's working tree; built WITHOUT the verif tag for every request that needs no hook, with -tags verif only for lock recording / schedule control / registry dumps), the compiled Lean driver (Lean compiler + runtime), /verif/checklib",
]


class Spec:
    pid = None
    lean_module = None
    expected = ""
    rule = ""
    trusted_base = BASE_TRUST
    assumptions = []
    # lean modules with the tie theorems `translated source = model` for the code this property is about
    src_ties = []
    # lean modules proving `overflow-checked copy of the translated source = model` on the property's domain
    # (reported; a failure widens nothing: the correspondence runs the real machine integers anyway)
    src_overflow = []

    def streams(self, tier, rng):
        return []

    def exhaustive(self, tier):
        return False

    def extra_checks(self, tier, rng, results, workdir):
        return None

    def compare_default(self, req, impl, model):
        return impl == model
