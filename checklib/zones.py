"""C10 (instant -> day number / wall clock), C11 (day intervals), C12 (occurrence sets) over the host tz database."""
from . import core
from .specs import Spec, Stream, register

J1970 = 2440588
Y1900, Y2100 = -2208988800, 4102444800
INTERESTING = ["UTC", "Asia/Tehran", "Asia/Kolkata", "Asia/Kathmandu", "America/New_York", "Europe/London", "Australia/Lord_Howe",
               "Pacific/Apia", "Africa/Casablanca", "America/Sao_Paulo", "Asia/Gaza", "America/Havana", "Pacific/Kiritimati",
               "Antarctica/Troll", "Etc/GMT+12", "Etc/GMT-14", "America/St_Johns", "Asia/Pyongyang", "Europe/Dublin", "Africa/Cairo",
               "America/Santiago", "Asia/Amman", "Atlantic/Azores", "America/Asuncion", "Pacific/Chatham", "WET", "Asia/Beirut", "America/Caracas"]

_zone_cache = {}


def zone_names():
    resp, _ = core.ask(core.ORACLE, ["zone list"])
    return [z for z in resp[0].split(",") if z]


def zone_data(name):
    if name not in _zone_cache:
        resp, _ = core.ask(core.ORACLE, ["zone export " + name])
        off0, body = resp[0].split(" ")
        tr = [] if body == "-" else [tuple(map(int, p.split(":"))) for p in body.split(",")]
        _zone_cache[name] = (int(off0), tr, body)
    return _zone_cache[name]


def pick_zones(tier, rng, n_quick=48):
    names = zone_names()
    if tier == "thorough":
        return names
    chosen = [z for z in INTERESTING if z in names]
    rest = [z for z in names if z not in chosen]
    rng.shuffle(rest)
    return chosen + rest[:max(0, n_quick - len(chosen))]


def header(name):
    off0, tr, body = zone_data(name)
    return "zone set %s %d %s" % (name, off0, body)


def off_at(off0, tr, e):
    o = off0
    for t, v in tr:
        if e < t:
            break
        o = v
    return o


def crosses_once(off0, tr, L):
    INF = 1 << 62
    ps, a, o = [], -INF, off0
    for t, v in tr:
        ps.append((a, t, o))
        a, o = t, v
    ps.append((a, INF, o))
    for i, (a, b, o) in enumerate(ps):
        lo = max(a, L - o)
        if lo >= b:
            continue
        if lo != L - o:
            return False
        return all(L - q[2] < q[0] for q in ps[i + 1:])
    return False


def day_regular(off0, tr, jd):
    return crosses_once(off0, tr, (jd - J1970) * 86400) and crosses_once(off0, tr, (jd + 1 - J1970) * 86400)


_irregular_cache = {}


def irregular_days(name):
    """days with an irregular local midnight: only days next to a boundary can be"""
    if name not in _irregular_cache:
        off0, tr, _ = zone_data(name)
        bad = set()
        prev = off0
        for t, o in tr:
            for off in (prev, o):
                d = J1970 + (t + off) // 86400
                for jd in range(d - 2, d + 3):
                    if not day_regular(off0, tr, jd):
                        bad.add(jd)
            prev = o
        _irregular_cache[name] = bad
    return _irregular_cache[name]


def other_zone_groups(rng, tier, kind):
    """the same days asked under one zone after another in ONE process: before every question the previous zone object is
    dropped, collected, and the next zone loaded at the address the previous one had (the oracle's `zone set`). A day's
    local midnight under zone B is asked right after the same day's local midnight under zone A."""
    names = [z for z in ["UTC", "Asia/Tehran", "America/New_York", "Asia/Kolkata", "Etc/GMT+8", "Europe/London", "Pacific/Apia",
                         "Australia/Lord_Howe", "Asia/Kathmandu", "Etc/GMT-14"] if z in zone_names()]
    g = []
    for _ in range(12 if tier == "quick" else 80):
        jd = rng.randrange(J1970 + 3, J1970 + 47000)
        zs = rng.sample(names, min(len(names), rng.randint(2, 4)))
        for name in zs + zs[:1]:
            off0, tr, _ = zone_data(name)
            L = (jd - J1970) * 86400
            m = L - off_at(off0, tr, L - off_at(off0, tr, L))     # the instant that reads 00:00:00 of day jd in this zone
            g.append(header(name))
            if kind == "jhms":
                g += ["zone jhms %d" % m, "zone jhms %d" % (m + rng.choice([1, 3600, 43200]))]
            elif kind == "dayiv":
                g += ["zone dayiv %d" % jd, "zone jdrange %d %d" % (m, m + 86400)]
            else:
                g += ["zone occ J:%d,%d I:%d:%d:o" % (jd, jd + 1, m - 3600, m + 90000)]
    return [g]


ZONE_ASSUME = [
    "Go's time package (time.Unix(..).In(loc) fields, Zone(), time.Date resolution) and the host IANA tz database are MODELLED: a zone is the list of period boundaries time.ZoneBounds reports between 1800 and 2200, exported by the oracle on every run; time.Date is the two-lookup algorithm the package implements",
    "GetJdByEpoch's float arithmetic floor(J1970 + (epoch+offset)/86400.0) is modelled by exact integer floor division (DESIGN 6.5)",
]


class _C10(Spec):
    pid = "C10"
    lean_module = "Starcal.Props.C10"
    expected = "the day number of an instant is that of its local civil date; float-day fraction = local time of day; offset route and calendar-field route agree; split into day + wall clock and recombine gives the same reading, and the same instant when the reading is unambiguous"
    rule = ("stateful line protocol per zone (`zone set` with the exported boundaries, then `zone jhms <instant>`): every boundary t of the zone at t-1, t, t+1 and +-1 s around the local midnights "
            "adjacent to it; UTC midnights +-1 s in 1900-2100 (every 61st day quick, every 11th thorough); seeded random instants in 1800-2200 incl. negative Unix times. quick: 48 zones (28 fixed "
            "interesting ones + seeded sample), thorough: all loadable zones. Model vs real code per line; all clauses evaluated directly on the real code against the time package.")
    assumptions = ZONE_ASSUME

    def streams(self, tier, rng):
        groups = []
        stride = 61 if tier == "quick" else 11
        for name in pick_zones(tier, rng):
            off0, tr, _ = zone_data(name)
            g = [header(name)]
            seen = set()

            def add(e):
                if e not in seen and -5364662400 <= e < 7258118400:
                    seen.add(e)
                    if len(seen) % 37 == 0:
                        # calls the property says nothing about (other exported functions, ill-formed arguments)
                        # for the days around this instant: the request that follows is answered as always
                        g.append("zone abuse %d %d" % (J1970 + e // 86400 + rng.choice([-1, 0, 0, 1]), len(seen) // 37))
                    g.append("zone jhms %d" % e)
            prev = off0
            for t, o in tr:
                for e in (t - 1, t, t + 1):
                    add(e)
                for off in (prev, o):
                    m = t - ((t + off) % 86400)
                    for mm in (m - 86400, m, m + 86400):
                        for d in (-1, 0, 1):
                            add(mm + d)
                prev = o
            first = Y1900 + (rng.randrange(stride)) * 86400
            for m in range(first, Y2100, stride * 86400):
                for d in (-1, 0, 1):
                    add(m + d)
            for _ in range(1500 if tier == "quick" else 6000):
                add(rng.randrange(-5364662400, 7258118400))
            # particular instants: zero and its neighbours, whole days around it, the 32-bit edges, the local
            # midnights of the days around the epoch in this zone
            for e0 in (0, 86400, -86400, 2 ** 31, -(2 ** 31), 2 ** 32, 946684800, -2208988800, 4102444800):
                for d in (-2, -1, 0, 1, 2):
                    add(e0 + d)
                o = off_at(off0, tr, e0)
                for d in (-1, 0, 1):
                    add(e0 - o + d)
                    add(e0 - o + 86400 + d)
            groups.append(g)
        return [Stream("zone-instants", None, groups=groups), Stream("zone-after-another-zone", None, groups=other_zone_groups(rng, tier, "jhms"))]

    def exhaustive(self, tier):
        return False


register(_C10())


class _C11(Spec):
    pid = "C11"
    lean_module = "Starcal.Props.C11"
    expected = "a day's interval has non-negative length, consecutive days abut, an instant is inside exactly when its local date is that day; the day range of a span is first through one-past-last day containing its instants"
    rule = ("stateful line protocol per zone: `zone dayiv <jd>` for every day within 3 days of every zone boundary in 1900-2100 plus every 53rd (quick) / 7th (thorough) day of 1900-2100; "
            "`zone jdrange s e` with both ends drawn on / next to local midnights and boundaries. The oracle evaluates membership at both interval ends and on both sides of every boundary within two days "
            "on the real code, and classifies every failing day as class=irregular-midnight (local midnight skipped or repeated: the open known finding) or class=regular with its own, independent "
            "implementation of the regularity predicate; the Lean driver's `midreg` must agree with it on the probed days.")
    assumptions = ZONE_ASSUME + ["days whose local midnight (or the next one) is skipped or repeated by an offset change are an OPEN KNOWN FINDING: time.Date alone cannot find the first instant of such a day"]

    def streams(self, tier, rng):
        groups = []
        stride = 53 if tier == "quick" else 7
        jd0, jd1 = J1970 + Y1900 // 86400, J1970 + Y2100 // 86400
        for name in pick_zones(tier, rng):
            off0, tr, _ = zone_data(name)
            g = [header(name)]
            days = set(range(jd0 + rng.randrange(stride), jd1, stride))
            for t, o in tr:
                if Y1900 <= t < Y2100:
                    d = J1970 + (t + o) // 86400
                    days.update(range(d - 3, d + 4))
            near = set()
            for t, o in tr:
                if Y1900 <= t < Y2100:
                    d = J1970 + (t + o) // 86400
                    near.update(range(d - 1, d + 3))
            for jd in sorted(days):
                if (jd in near and rng.random() < 0.7) or rng.random() < 0.03:
                    # first the other exported functions / ill-formed calls for the day BEFORE (or this day)
                    g.append("zone abuse %d %d" % (jd - rng.choice([1, 1, 0]), rng.randrange(2)))
                g.append("zone dayiv %d" % jd)
                if jd % 5 == 0:
                    g.append("zone midreg %d" % jd)
            marks = sorted({(jd - J1970) * 86400 - off_at(off0, tr, (jd - J1970) * 86400) for jd in rng.sample(sorted(days), min(len(days), 300))})
            for m in marks:
                for _ in range(2):
                    s = m + rng.choice([-1, 0, 1, -3600, 3600, rng.randrange(-90000, 90000)])
                    e = s + rng.choice([1, 2, 86399, 86400, 86401, rng.randrange(1, 400000)])
                    g.append("zone jdrange %d %d" % (s, e))
            groups.append(g)
        return [Stream("zone-days", None, groups=groups), Stream("zone-after-another-zone", None, groups=other_zone_groups(rng, tier, "dayiv"))]

    def exhaustive(self, tier):
        return False


register(_C11())


def _ivs(l):
    return ",".join("%d:%d:%s" % t for t in l) if l else "-"


class _C12(Spec):
    pid = "C12"
    lean_module = "Starcal.Props.C12"
    # the interval-list intersection both IntervalOccurSet.Intersection and the mixed branch go through
    src_ties = ["Starcal.SrcTie.Intersect"]
    expected = "intersection of occurrence sets = common instants / days, whatever the representations and the operand order; reported days = days containing an instant; a day set survives the trip through its interval form; first/last day bracket"
    rule = ("stateful line protocol per zone: `zone occ <A> <B>` with A, B day sets (<=12 days) or interval lists (<=8 intervals, end points on / just before / just after local midnights and inside days, "
            "both end kinds) in 1970-2100, both operand orders answered in one line, in UTC, fixed-offset, half-hour-offset and DST zones; days adjacent to an irregular local midnight are excluded by the "
            "generator (C11's finding). Model vs real code; lattice membership, day lists, trip and bracket clauses evaluated on the real code.")
    assumptions = ZONE_ASSUME + ["the thread-safe set inside JdOccurSet is modelled as a duplicate-free list (C15)"]
    ZONES = ["UTC", "Etc/GMT-5", "Etc/GMT+8", "Asia/Kolkata", "Asia/Kathmandu", "Asia/Tehran", "America/New_York", "Europe/London", "Australia/Lord_Howe", "America/St_Johns", "Pacific/Chatham", "America/Sao_Paulo"]

    def streams(self, tier, rng):
        groups = []
        names = [z for z in self.ZONES if z in zone_names()]
        n = 2500 if tier == "quick" else 30000
        for name in names:
            off0, tr, _ = zone_data(name)
            g = [header(name)]

            bad = irregular_days(name)

            def regular_day():
                for _ in range(50):
                    jd = rng.randrange(J1970, J1970 + 47482)   # 1970 .. 2100
                    if not any(j in bad for j in range(jd - 5, jd + 12)):
                        return jd
                return J1970 + 10000

            def midnight(jd):
                L = (jd - J1970) * 86400
                return L - off_at(off0, tr, L - off_at(off0, tr, L))

            def gen_set(base):
                if rng.random() < 0.5:
                    k = rng.randint(1, 12)
                    return "J:" + ",".join(str(base + rng.randrange(-3, 9)) for _ in range(k))
                ivl = []
                for _ in range(rng.randint(1, 8)):
                    d = base + rng.randrange(-3, 9)
                    a = midnight(d) + rng.choice([0, -1, 1, rng.randrange(0, 86400), 43200])
                    ln = rng.choice([0, 1, 3600, 86399, 86400, 86401, rng.randrange(0, 200000)])
                    b = a + ln
                    ivl.append((a, b, "c" if ln == 0 else rng.choice("oc")))
                return "I:" + _ivs(ivl)
            for _ in range(n):
                base = regular_day()
                if any(j in bad for j in range(base - 5, base + 12)):
                    continue
                if rng.random() < 0.12:
                    g.append("zone abuse %d %d" % (base + rng.randrange(-2, 3), 1))   # ends with refused occurrence-set calls
                g.append("zone occ %s %s" % (gen_set(base), gen_set(base)))
            groups.append(g)
        return [Stream("occurrence", None, groups=groups), Stream("zone-after-another-zone", None, groups=other_zone_groups(rng, tier, "occ"))]

    def exhaustive(self, tier):
        return False


register(_C12())
