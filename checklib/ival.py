"""Interval properties C04, C05, C13."""
import itertools
from .specs import Spec, Stream, register, BASE_TRUST

BIG = 1 << 62


def wf_intervals(lo, hi):
    out = []
    for a in range(lo, hi + 1):
        out.append((a, a, "c"))
        for b in range(a + 1, hi + 1):
            out.append((a, b, "o"))
            out.append((a, b, "c"))
    return out


def iv(t):
    return "%d:%d:%s" % t


def ivs(l):
    return ",".join(iv(t) for t in l) if l else "-"


def hexs(s):
    return "x" + s.encode().hex()


def lists_upto(ivals, n):
    for k in range(n + 1):
        for l in itertools.product(ivals, repeat=k):
            yield l


def clustered_list(rng, nmax, allow_empty=False, big=True):
    """random list with clustered end points: a few cluster centres, small offsets"""
    ncl = rng.randint(1, 5)
    scale = rng.choice([1, 1, 10, 1000, BIG // 8]) if big else 1
    centres = [rng.randrange(-scale * 4, scale * 4 + 1) for _ in range(ncl)]
    if big and rng.random() < 0.35:
        # the whole domain |x| < 2^62: positions at and beyond +-2^61, next to +-2^62, mixed with small ones
        edge = [BIG - 4, -(BIG - 4), BIG // 2, -(BIG // 2), BIG // 2 + 7, -(BIG // 2) - 7, (BIG // 4) * 3, -(BIG // 4) * 3, 0, 5]
        centres = [rng.choice(edge) + rng.randint(-3, 3) for _ in range(ncl)] + centres[:rng.randint(0, 2)]
    n = rng.randint(1, nmax)
    out = []
    for _ in range(n):
        a = rng.choice(centres) + rng.randint(-3, 3)
        b = rng.choice(centres) + rng.randint(-3, 3)
        if a > b:
            a, b = b, a
        a = max(-BIG + 1, min(BIG - 1, a))
        b = max(-BIG + 1, min(BIG - 1, b))
        if a == b:
            k = "c" if not (allow_empty and rng.random() < 0.5) else "o"
        else:
            k = rng.choice("oc")
        out.append((a, b, k))
    return out


def big_list(rng, nmax=400):
    """a LONG list (65 .. nmax intervals) in one of three shapes that small clustered lists never have: many
    disjoint pieces (the result is long too), one deep nest (every interval inside the one before), a long
    chain of pieces that touch or overlap at single end points; shuffled"""
    n = rng.choice([65, 66, 70, 100, 129, 200, 257, 300, nmax])
    shape = rng.randrange(3)
    base = rng.choice([0, -1000, 10 ** 6, -(BIG // 2)])
    out = []
    if shape == 0:
        x = base
        for _ in range(n):
            w = rng.randint(0, 4)
            out.append((x, x + w, "c" if w == 0 else rng.choice("oc")))
            x += w + rng.randint(1, 3)
    elif shape == 1:
        for i in range(n):
            out.append((base + i, base + 3 * n - i, rng.choice("oc")))
    else:
        x = base
        for _ in range(n):
            w = rng.randint(1, 5)
            out.append((x, x + w, rng.choice("oc")))
            x += w - rng.choice([0, 0, 1])
    rng.shuffle(out)
    return out


IVAL_ASSUME = [
    "sort.Sort is assumed to return a sorted permutation (the model sorts by insertion; the proof shows the sorted permutation is unique, so any correct sort gives the same list)",
    "positions are unbounded Int in the model; the property's domain |x| < 2^62 keeps int64 from wrapping and away from the MIN_INT64 sentinel (modelled as `none`)",
]


def after_abuse_groups(rng, tier, kinds):
    """ill-formed interval values and texts (a list with a nil entry, a reversed interval, what a refused parse hands back
    next to its error — printed, normalized, intersected under recover) and then, in the same process and on the same
    goroutine, valid requests: nothing such a call leaves behind (a pooled buffer, a scratch slice, a memo) may reach them"""
    groups = []
    bad_texts = ["1-2 x", "3 2-1", "1-2 3-", "5 6 7-3]", "-(1-2 4", "", " ", "1-2  3", "9-8", "1-2] 3-4] zz", "0 1 2 3 4 5 6 7 8 9 x"]
    for _ in range(6 if tier == "quick" else 40):
        g = []
        for _ in range(40 if tier == "quick" else 120):
            ls = [clustered_list(rng, 5, big=rng.random() < 0.3) for _ in range(rng.randint(1, 3))]
            g.append("ival abuse %s %s" % (hexs(rng.choice(bad_texts)), ";".join(ivs(l) for l in ls)))
            for _ in range(rng.randint(1, 4)):
                l = clustered_list(rng, 6, big=rng.random() < 0.3)
                k = rng.choice(kinds)
                if k == "text":
                    g.append(rng.choice(["ival showlist " + ivs(l), "ival show " + iv(l[0]),
                                         "ival parselist " + hexs(" ".join(_show(t) for t in l)), "ival human " + ivs(l)]))
                elif k == "norm":
                    g.append("ival norm " + ivs(l))
                else:
                    l2 = clustered_list(rng, 6, big=False)
                    g.append("ival inter " + ivs(l) + ";" + ivs(l2))
        groups.append(g)
    return groups


class _C05(Spec):
    pid = "C05"
    lean_module = "Starcal.Props.C05"
    src_ties = ["Starcal.SrcTie.Interval", "Starcal.SrcTie.Normalize"]
    src_overflow = ["Starcal.SrcTie.NoOverflow2"]
    # the comparator tie not established: the quick tier already enumerates every tie-breaking case (all lists of <=3
    # intervals over 0..6, both end kinds, every order), so no wider sweep is needed
    supports_wide = True
    expected = "Normalize keeps the denoted set, returns the unique canonical form, is idempotent, order/duplicate independent, leaves its input unmodified"
    rule = ("line protocol `ival norm`: exhaustive lists of <=3 (quick) / <=4 (thorough) well-formed intervals with end points 0..6, both end kinds, "
            "in every order; lists with empty [a,a) intervals (end points 0..4, <=3 intervals); seeded random lists of up to 60 intervals with clustered "
            "end points and |x| < 2^62. Each request: model result vs real result, and on the real code lattice membership, canonical form, idempotence, "
            "reversed / duplicated / re-sorted input, input unmodified. distinct_nontrivial = distinct requests with a non-error answer.")
    assumptions = IVAL_ASSUME

    def streams(self, tier, rng):
        if tier == "wide":
            tier = "quick"
        base = wf_intervals(0, 6)
        reqs = ["ival norm " + ivs(l) for l in lists_upto(base, 3)]
        if tier == "thorough":
            reqs += ["ival norm " + ivs(l) for l in itertools.product(base, repeat=4)]
        else:
            reqs += ["ival norm " + ivs([rng.choice(base) for _ in range(4)]) for _ in range(150000)]
        sts = [Stream("norm-exhaustive", reqs)]
        emp = wf_intervals(0, 4) + [(a, a, "o") for a in range(0, 5)]
        ereqs = ["ival norm " + ivs(l) for l in lists_upto(emp, 3) if any(t[0] == t[1] and t[2] == "o" for t in l)]
        sts.append(Stream("norm-empties", ereqs))
        n = 20000 if tier == "quick" else 300000
        rreqs = ["ival norm " + ivs(clustered_list(rng, 60, allow_empty=(i % 5 == 0))) for i in range(n)]
        sts.append(Stream("norm-random", rreqs))
        # long lists (65 .. 400 intervals): beyond every fixed-size fast path one might write
        sts.append(Stream("norm-long", ["ival norm " + ivs(big_list(rng)) for _ in range(300 if tier == "quick" else 3000)]))
        sts.append(Stream("ival-after-ill-formed-calls", None, groups=after_abuse_groups(rng, tier, ("norm",))))
        return sts

    def exhaustive(self, tier):
        return tier == "thorough"


register(_C05())


class _C04(Spec):
    pid = "C04"
    lean_module = "Starcal.Props.C04"
    src_ties = ["Starcal.SrcTie.Interval", "Starcal.SrcTie.Normalize", "Starcal.SrcTie.Intersect"]
    src_overflow = ["Starcal.SrcTie.NoOverflow2"]
    # the comparator tie not established: the quick tier already enumerates every tie-breaking case (all lists of <=3
    # intervals over 0..6, both end kinds, every order), so no wider sweep is needed
    supports_wide = True
    expected = "the intersection denotes exactly the instants in every operand, is canonical, independent of operand order / grouping / inner order; operands denote the same sets afterwards"
    rule = ("line protocol `ival inter`: all pairs of lists of <=2 intervals over end points 0..3 (quick) / 0..4 (thorough), all triples of lists of <=1 "
            "interval, seeded tuples of 1..4 lists of <=3 intervals over 0..6, seeded random tuples of 1..4 lists of up to 40 intervals with clustered end "
            "points and |x| < 2^62. Each request: model (result + operands after the call) vs real code; on the real code lattice membership of result and "
            "operands-after, canonical form, reversed / rotated operands, grouping (A∩B)∩rest.")
    assumptions = IVAL_ASSUME

    def streams(self, tier, rng):
        if tier == "wide":
            tier = "quick"
        top = 3 if tier == "quick" else 4
        small = list(lists_upto(wf_intervals(0, top), 2))
        reqs = ["ival inter %s;%s" % (ivs(a), ivs(b)) for a in small for b in small]
        ones = list(lists_upto(wf_intervals(0, top), 1))
        reqs += ["ival inter %s;%s;%s" % (ivs(a), ivs(b), ivs(c)) for a in ones for b in ones for c in ones]
        reqs += ["ival inter " + ivs(a) for a in lists_upto(wf_intervals(0, 6), 2)]
        sts = [Stream("inter-exhaustive", reqs)]
        base = wf_intervals(0, 6)
        n = 150000 if tier == "quick" else 2000000
        sreqs = []
        for _ in range(n):
            k = rng.choice([1, 2, 2, 2, 3, 3, 4])
            ops = [[rng.choice(base) for _ in range(rng.randint(0, 3))] for _ in range(k)]
            sreqs.append("ival inter " + ";".join(ivs(o) for o in ops))
        sts.append(Stream("inter-small-sampled", sreqs))
        n = 15000 if tier == "quick" else 200000
        rreqs = []
        for _ in range(n):
            k = rng.choice([1, 2, 2, 3, 4])
            big = rng.random() < 0.3
            scale_rng_state = rng.random()
            ops = []
            # operands share cluster centres so that they really overlap
            shared = clustered_list(rng, 40, big=big)
            cents = [t[0] for t in shared] + [t[1] for t in shared]
            for _ in range(k):
                m = rng.randint(1, 40)
                l = []
                for _ in range(m):
                    a = rng.choice(cents) + rng.randint(-2, 2)
                    b = rng.choice(cents) + rng.randint(-2, 2)
                    if a > b:
                        a, b = b, a
                    a = max(-BIG + 1, min(BIG - 1, a)); b = max(-BIG + 1, min(BIG - 1, b))
                    l.append((a, b, "c" if a == b else rng.choice("oc")))
                ops.append(l)
            rreqs.append("ival inter " + ";".join(ivs(o) for o in ops))
        sts.append(Stream("inter-random", rreqs))
        # long operands (65 .. 400 intervals) against short windows whose ends sit ON end points of the long one
        lreqs = []
        for _ in range(300 if tier == "quick" else 3000):
            a = big_list(rng)
            ops = [a]
            for _ in range(rng.choice([1, 1, 2, 3])):
                if rng.random() < 0.3:
                    ops.append(big_list(rng))
                else:
                    pts = sorted({t[0] for t in a} | {t[1] for t in a})
                    w = []
                    for _ in range(rng.randint(1, 4)):
                        i = rng.randrange(len(pts)); j = min(len(pts) - 1, i + rng.randint(0, 30))
                        lo, hi = pts[i] + rng.choice([0, 0, 0, -1, 1]), pts[j] + rng.choice([0, 0, 0, -1, 1])
                        if lo > hi:
                            lo, hi = hi, lo
                        w.append((lo, hi, "c" if lo == hi else rng.choice("oc")))
                    ops.append(w)
            rng.shuffle(ops)
            lreqs.append("ival inter " + ";".join(ivs(o) for o in ops))
        sts.append(Stream("inter-long", lreqs))
        sts.append(Stream("ival-after-ill-formed-calls", None, groups=after_abuse_groups(rng, tier, ("inter", "norm"))))
        return sts

    def exhaustive(self, tier):
        return True


register(_C04())


class _C13(Spec):
    pid = "C13"
    lean_module = "Starcal.Props.C13"
    src_ties = ["Starcal.SrcTie.Humanize", "Starcal.SrcTie.NumList"]
    src_overflow = ["Starcal.SrcTie.NoOverflow2"]
    expected = "Humanize keeps the set and leaves only half-open intervals and points; Extract(IntervalListByNumList(ns,k)) = ns; ParseInterval(String(i)) = i, ParseIntervalList(String(l)) = l; reversed interval text rejected"
    rule = ("line protocol: `show`/`parse` for every well-formed interval with end points in [-40,40] and seeded |x| < 2^62; `showlist`/`parselist` for all "
            "lists of <=3 intervals over -3..3 (thorough; <=2 plus samples in quick); `bynum` for every subset of [-5,5] and seeded strictly increasing lists from "
            "[-30,30] of length <=12, thresholds 0..6; `human` over lists of <=3 intervals over 0..4 and random lists; reversed texts 'b-a'.")
    assumptions = IVAL_ASSUME + ["strconv.ParseInt's int64 range check is outside the model: texts with a number beyond 2^63-1 are answered `unmodelled` by the driver and only compared for totality"]

    def compare_default(self, req, impl, model):
        if model == "unmodelled":
            return impl != "panic"
        return impl == model

    def streams(self, tier, rng):
        cmpf = self.compare_default
        wf = wf_intervals(-40, 40)
        reqs = ["ival show " + iv(t) for t in wf]
        texts = set()
        for (a, b, k) in wf:
            if a < b:
                # the four spellings of a range and the reversed text
                for s in ("%d-%d" % (a, b), "%d-%d]" % (a, b), "%d-%d" % (b, a), "%d-%d]" % (b, a)):
                    texts.add(s)
                if b < 0:
                    texts.add("-(%d-%d)" % (-a, -b)); texts.add("-(%d-%d])" % (-a, -b)); texts.add("-(%d-%d)" % (-b, -a))
            else:
                texts.add("%d" % a); texts.add("%d]" % a); texts.add("%d-%d" % (a, a))
        for _ in range(20000 if tier == "quick" else 200000):
            a = rng.randrange(-BIG + 1, BIG); b = rng.randrange(-BIG + 1, BIG)
            if rng.random() < 0.3:
                b = a + rng.randint(0, 3)
            if a > b:
                a, b = b, a
            k = "c" if a == b else rng.choice("oc")
            reqs.append("ival show " + iv((a, b, k)))
            texts.add("%d-%d" % (b, a))
        reqs += ["ival parse " + hexs(s) for s in sorted(texts)]
        sts = [Stream("ival-text", reqs, compare=cmpf)]
        small = wf_intervals(-3, 3)
        lreqs = ["ival showlist " + ivs(l) for l in lists_upto(small, 2) if l]
        if tier == "thorough":
            lreqs += ["ival showlist " + ivs(l) for l in itertools.product(small, repeat=3)]
        else:
            lreqs += ["ival showlist " + ivs([rng.choice(small) for _ in range(3)]) for _ in range(40000)]
        for _ in range(5000):
            l = clustered_list(rng, 6)
            lreqs.append("ival showlist " + ivs(l))
        # parse side of the list text, including malformed joins
        for l in lists_upto(wf_intervals(-2, 2), 2):
            if l:
                s = " ".join(_show(t) for t in l)
                lreqs.append("ival parselist " + hexs(s))
                lreqs.append("ival parseclosed " + hexs(s))
                lreqs.append("ival parselist " + hexs(s + " "))
                lreqs.append("ival parselist " + hexs(s.replace(" ", "  ")))
                # one token replaced by a reversed text, in every position
                toks = s.split(" ")
                for pos in range(len(toks)):
                    for bad in ("2-1", "2-1]", "1--1", "0--2]", "-(1-2)", "-(1-2])", "5-3"):
                        t2 = toks[:pos] + [bad] + toks[pos + 1:]
                        lreqs.append("ival parselist " + hexs(" ".join(t2)))
                        lreqs.append("ival parseclosed " + hexs(" ".join(t2)))
        sts.append(Stream("ival-list-text", lreqs, compare=cmpf))
        breqs = []
        univ = list(range(-5, 6))
        for mask in range(1 << len(univ)):
            ns = [univ[i] for i in range(len(univ)) if mask >> i & 1]
            for k in range(0, 7):
                breqs.append("ival bynum %d %s" % (k, ",".join(map(str, ns)) if ns else "-"))
        for _ in range(20000 if tier == "quick" else 300000):
            n = rng.randint(0, 12)
            if rng.random() < 0.5:
                # runs
                ns, x = [], rng.randint(-30, 10)
                while len(ns) < n and x <= 30:
                    ns.append(x)
                    x += 1 if rng.random() < 0.7 else rng.randint(2, 5)
            else:
                ns = sorted(rng.sample(range(-30, 31), n))
            breqs.append("ival bynum %d %s" % (rng.randint(0, 6), ",".join(map(str, ns)) if ns else "-"))
        sts.append(Stream("bynum", breqs))
        hreqs = ["ival human " + ivs(l) for l in lists_upto(wf_intervals(0, 4), 2)]
        hreqs += ["ival human " + ivs(clustered_list(rng, 12)) for _ in range(10000)]
        hreqs += ["ival extract " + ivs([t for t in clustered_list(rng, 6, big=False)]) for _ in range(5000)]
        hreqs += ["ival human " + ivs(big_list(rng, 300)) for _ in range(60)]
        hreqs += ["ival showlist " + ivs(sorted(big_list(rng, 300))) for _ in range(40)]
        sts.append(Stream("humanize-extract", hreqs))
        sts.append(Stream("ival-after-ill-formed-calls", None, compare=cmpf, groups=after_abuse_groups(rng, tier, ("text",))))
        return sts

    def exhaustive(self, tier):
        return True


def _show(t):
    a, b, k = t
    if a == b:
        return "%d" % a
    if a < 0 and b < 0:
        return "-(%d-%d%s)" % (-a, -b, "]" if k == "c" else "")
    return "%d-%d%s" % (a, b, "]" if k == "c" else "")


register(_C13())
