#!/bin/bash
# usage: tools/own_checks.sh [pattern]  — every seeded change (matching pattern) against its OWN property's
# quick check only; prints one line per seed. With VERIF_REPO set it works on that copy of the repository.
cd "$(dirname "$0")/.."
R="${VERIF_REPO:-/repo}"
pat="${1:-.}"
EVBAK=$(mktemp -d); cp -r evidence/. $EVBAK/
for d in seeded/C*/; do
  s=$(basename $d)
  echo "$s" | grep -q -- "$pat" || continue
  [ -f $d/meta.json ] || continue
  p=${s%%-*}
  if ! git -C "$R" diff --quiet; then echo "$s: repo dirty"; break; fi
  git -C "$R" apply "$PWD/$d/patch.diff" 2>/dev/null || { echo "$s: patch does not apply"; continue; }
  v=$(./check $p quick 2>&1 | grep -E "^VIOLATION" | head -1)
  git -C "$R" apply -R "$PWD/$d/patch.diff" 2>/dev/null; git -C "$R" checkout -- . ; git -C "$R" clean -fdq -- .
  if [ -z "$v" ]; then echo "$s: MISSED"; elif echo "$v" | grep -q "no-failing-input-found"; then echo "$s: no-failing-input-found"; else echo "$s: failing-input"; fi
done
cp -r $EVBAK/. evidence/; rm -rf $EVBAK
echo OWN-CHECKS-DONE
