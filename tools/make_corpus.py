#!/usr/bin/env python3
"""Build corpus/Cxx.txt from the seeded changes: apply each, run its property's check, keep the replay's
failing request (with the `zone set` header for the stateful zone protocol), undo. Groups are separated by
blank lines."""
import json, os, re, shutil, subprocess, sys, tempfile
sys.path.insert(0, "/verif")
V = "/verif"


def sh(c):
    return subprocess.run(c, shell=True, stdout=subprocess.PIPE, stderr=subprocess.STDOUT, text=True)


seeds = sorted(d for d in os.listdir(V + "/seeded") if os.path.exists(V + "/seeded/" + d + "/meta.json"))
# usage: tools/make_corpus.py [pattern ...] — with patterns only the seeds whose id contains one of them are run and
# their groups are ADDED to the corpus files (groups already present are kept)
PATTERNS = sys.argv[1:]
if PATTERNS:
    seeds = [d for d in seeds if any(pt in d for pt in PATTERNS)]
evbak = tempfile.mkdtemp(); shutil.copytree(V + "/evidence", evbak, dirs_exist_ok=True)
out = {}
for s in seeds:
    meta = json.load(open("%s/seeded/%s/meta.json" % (V, s)))
    p = meta["breaks_property"]
    if sh("git -C /repo apply %s/seeded/%s/patch.diff" % (V, s)).returncode:
        continue
    try:
        r = sh("cd %s && ./check %s quick" % (V, p))
        m = re.search(r"^VIOLATION .*replay=(\S+)", r.stdout, flags=re.M)
        if not m:
            print("no violation for", s); continue
        d = json.load(open(m.group(1)))
        req = d.get("request") or ""
        if not req or req.startswith("locks "):
            continue
        grp = ["# from seeded/%s" % s]
        pfx = ""
        bare = req
        while bare.startswith("@"):
            tok, _, bare = bare.partition(" ")
            pfx += tok + " "
        header = None
        if bare.startswith("zone "):
            zn = re.search(r"zone=(\S+)", d.get("observed", ""))
            if not zn:
                continue
            ex = sh("echo 'zone export %s' | %s/build/oracle 2>/dev/null" % (zn.group(1), V)).stdout.strip().split("\n")[-1]
            off0, body = ex.split(" ")
            header = pfx + "zone set %s %s %s" % (zn.group(1), off0, body)
            grp.append(header)
        # a failure that depends on the requests before it (state left over from earlier calls): keep the
        # last few of them in front, in order (for the stateful zone protocol: after the `zone set` header)
        pre = d.get("preceding_requests_file")
        if pre and os.path.exists(pre):
            lines = [l for l in open(pre).read().split("\n") if l.strip()]
            if header:
                # only what was asked since the zone was set
                k = max([i for i, l in enumerate(lines) if " zone set " in " " + l] + [-1])
                lines = lines[k + 1:]
            grp += lines[-6:]
        grp.append(req)
        out.setdefault(p, []).append("\n".join(grp))
    finally:
        sh("git -C /repo checkout -- . && git -C /repo clean -fdq -- .")
os.makedirs(V + "/corpus", exist_ok=True)
for p, groups in out.items():
    path = "%s/corpus/%s.txt" % (V, p)
    if PATTERNS and os.path.exists(path):
        old = [g for g in open(path).read().split("\n\n") if g.strip()]
        have = {g.split("\n")[0] for g in old}
        groups = old + [g for g in groups if g.split("\n")[0] not in have]
        groups = [g.rstrip("\n") for g in groups]
    open(path, "w").write("\n\n".join(groups) + "\n")
    print(p, len(groups))
shutil.copytree(evbak, V + "/evidence", dirs_exist_ok=True); shutil.rmtree(evbak)
sh("cd %s && ./check C16 quick; ./check C20 quick; ./check C09 quick" % V)
shutil.copytree(evbak, V + "/evidence", dirs_exist_ok=True) if os.path.exists(evbak) else None
