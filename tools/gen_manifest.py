#!/usr/bin/env python3
"""Regenerates /verif/MANIFEST.json from the table below (kept next to the checks so the two stay in step)."""
import json, os, subprocess
V = os.path.dirname(os.path.dirname(os.path.abspath(__file__)))

HOOK_COMMITS = [l.split()[0] for l in subprocess.run(
    ["git", "-C", "/repo", "log", "--format=%h %s", "--grep=^verif hook"], capture_output=True, text=True).stdout.splitlines()]

CAL_NOTE = ("Trusted: Lean kernel + axioms propext/Classical.choice/Quot.sound (printed per theorem in the evidence); the "
            "correspondence check (Go oracle linking /repo, compiled Lean driver, checklib). Modelled, not verified: Go's time "
            "package behind the gregorian calendar (tied by the block-hash correspondence), hijri float ceil expressions as exact "
            "integers, unbounded Int instead of int64. hijri month-table mode: theorems cover the table walk and the seam zones by "
            "kernel evaluation; the two seams are open known findings.")

TXT_NOTE = 'Trusted: Lean kernel + standard axioms; extractor + correspondence check. Modelled: strings as character lists; strconv.ParseInt as sign+digits WITHOUT the int64 range check (digit runs >18 are `unmodelled`: only totality compared); strconv.ParseFloat on plain decimals only (exact rational; the Go float64 must be its correctly rounded image); encoding/json on the documented flat object only; fmt %d/%.2d/%.4d as the padding printer. The Go parsers of date.go/hms.go have no index/slice/assertion outside a length guard, so their models have no panic branch - tied by the exhaustive short-string stream under recover().'

LOCKNOTE = "Trusted: Lean kernel + standard axioms; extractor (go/ast walk of threadsafe.go + lock events recorded through the verif hook, aligned; locks inside branches/loops make it fail loudly) and the oracle. Modelled, not verified: sync.RWMutex as a writer-preferring reader/writer lock providing the documented memory ordering; the Go scheduler, the memory model below the mutex and channel operations are outside the model. Programs are over two sets (the property's quantifier); lock ids are address order as in the repaired code."

CLAIMS = {
 "C01": dict(technique="Lean 4 theorems (Bijective per configuration, over all of Z) + exhaustive block-hash correspondence model vs code",
             text="Machine-checked proof: for each of the eight arithmetic configurations `Bijective c` (ToJd(JdTo jd)=jd, JdTo jd well-formed, JdTo(ToJd d)=d for every well-formed d, hence injective/surjective) is a Lean theorem about the executable model the driver runs; the model is tied to /repo by a correspondence that in the thorough tier enumerates the property's whole domain (80,000,001 day numbers and every year x month x day, 9 configurations) and in the quick tier a dense 8M-day window plus boundaries and seeded random blocks. The same sweep evaluates the property directly on the real code to produce replays.",
             design="7 (C01)", note=CAL_NOTE),
 "C02": dict(technique="Lean 4 theorems (Consecutive per configuration) + block-hash correspondence",
             text="Machine-checked proof: `Consecutive c` (JdTo(jd+1) = successor of JdTo(jd) under the model of GetMonthLen, incl. the -1 -> 1 step of the proleptic variant; every produced date well-formed) for every jd in Z, per configuration; tie and search as C01.",
             design="7 (C02)", note=CAL_NOTE),
 "C03": dict(technique="Lean 4 theorems (FollowsRule + uniqueness of the rule walk) against independently written rules + correspondence",
             text="Machine-checked proof: `FollowsRule c r` for independently stated rules (anchor, leap predicate, month lengths in Spec/Rules.lean) and `FollowsRule.unique`: JdTo is the unique day numbering that starts at the anchor and follows the rule; Gregorian = proleptic for years >= 1; Saka year start. The Go oracle carries a second, independent statement of each rule (year-start tables counted from the anchor) and compares the real code with it on every day of the sweep.",
             design="7 (C03)", note=CAL_NOTE),
 "C07": dict(technique="Lean 4 theorems (Coherent per configuration, derived generically from C01+C02) + year-block correspondence",
             text="Machine-checked proof: `Coherent c short`: every reported month length is the gap between consecutive month starts, the twelve lengths sum to the year length, and the year is reported leap exactly when it is the long year, for all years in Z; tie: year blocks (IsLeap, GetMonthLen, ToJd of every day) over all years of the domain.",
             design="7 (C07)", note=CAL_NOTE),
 "C04": dict(technique="Lean 4 theorems about the faithful k-ary sweep model (inter_main, inter_depends_on_sets) + exhaustive small-scope and random correspondence",
             text="Machine-checked proof: for any non-empty tuple of lists of well-formed intervals (any number of operands, any lengths, unbounded positions) the model of IntersectionOfSomeIntervalLists succeeds, returns a canonical list, and that list denotes exactly the intersection on the half-integer observation lattice; uniqueness of canonical forms gives independence of operand order, grouping, inner order and duplicates; operands-after denote the same sets. Tie: exhaustive small scopes and seeded random tuples, result and operands-after compared line by line with the real code, plus direct lattice evaluation on the real result.",
             design="7 (C04)", note="Trusted: Lean kernel + standard axioms; the correspondence check. Modelled: sort.Sort as any correct sort (sorted permutation is unique, proved), int64 positions as Int with the MIN_INT64 sentinel as `none` (domain |x|<2^62)."),
 "C05": dict(technique="Lean 4 theorems about the faithful Normalize model (norm_ok, norm_mem, norm_canonical, canonical_unique, idempotence) + exhaustive small-scope correspondence",
             text="Machine-checked proof: Normalize (points + sort by Less + stack sweep) never fails on start<=end input, preserves lattice membership (also with empty [a,a) intervals), returns the canonical form, canonical forms are unique, hence order/duplicate independence and idempotence; lists of any length. Tie: all lists of <=3 (quick) / <=4 (thorough) intervals over end points 0..6 in every order, lists with empty intervals, random lists up to 60 intervals with |x|<2^62; input immutability is checked on the real code.",
             design="7 (C05)", note="As C04."),
 "C13": dict(technique="Lean 4 theorems (humanize_mem/shape, extract_byNumList, parse/show round trips for intervals and lists, reversed text rejected) + exhaustive correspondence",
             text="Machine-checked proof of each clause on the model: Humanize keeps lattice membership and leaves only half-open intervals and points; Extract(IntervalListByNumList(ns,k)) = ns for every integer list and every threshold; ParseInterval(String(i)) = i for every well-formed interval (all signs, both end kinds) and ParseIntervalList(String(l)) = l for every non-empty list; `a-b` with b<a is rejected. Tie: exhaustive over the property's small scopes plus seeded random, model vs real code per line.",
             design="7 (C13)", note="Trusted: Lean kernel + standard axioms; the correspondence check. Modelled: strings as character lists, fmt %d as the decimal printer, strconv.ParseInt as sign + digits WITHOUT the int64 range check (texts with a digit run > 18 are answered `unmodelled` and compared for totality only), strings.Split/HasPrefix/HasSuffix/Index as list functions."),
 "C19": dict(technique="Lean 4 theorems (floor-division characterisation + uniqueness, BisectLeft specification via the sort.Search binary search) + exhaustive correspondence",
             text="Machine-checked proof: Div/Mod as written (truncate, sign test, adjust) satisfy a=b*q+r, r zero or of the sign of b, |r|<|b| for all a and b != 0, and any pair with these properties is theirs (so they are Python's // and %); BisectLeft returns the least index with a[i] >= v on sorted input. Tie: exhaustive a in [-600,600] x b in [-40,40]\\{0}, random 64-bit incl. extremes, all sorted lists <=6 over 0..5.",
             design="7 (C19)", note="Trusted: Lean kernel + standard axioms; the correspondence check. Modelled: Go / and % as Int.tdiv/Int.tmod on unbounded Int (MinInt/-1 excluded as in the property); sort.Search as the stdlib binary search."),
 "C06": dict(technique="Lean 4 theorems over the regenerated registry (invariant over all switch histories, no-panic, unknown-name error, agreement with per-calendar functions, laws from C01) + by-name correspondence incl. a fresh process per request",
             text="Machine-checked proof: `Inv` (table loaded whenever table mode is on) holds in the default state and after every toggle history (induction over the history), so no by-name call panics; an unregistered name yields `err` in every position; a successful conversion is exactly JdTo_B(ToJd_A d); identity / inverse / composition follow from C01's `Bijective` for every implementation a name can resolve to (hijri table mode excepted: seam dates belong to C01). The registry is regenerated from /repo each run. Tie: `byname conv/convraw` streams (all name pairs over a 400-year window, all toggle histories of length <=4, random triples/histories/days, unknown names in every position) and one FRESH oracle process per request for the default state.",
             design="7 (C06)", note="Trusted: Lean kernel + standard axioms; extractor (static constants = running registry) and correspondence check. Modelled: Go map assignment as later-entry-shadows fold; nil dereference as explicit `panic` result; package variables as a three-field state."),
 "C18": dict(technique="Lean 4 theorems (integer round trips over Int; fractional-hour round trip and half-second bound over exact Rat) + exhaustive 86,400-value correspondence with the real float code",
             text="Machine-checked proof of the integer clauses for all values; the float clauses are proved for the exact-rational model of GetFloatHour/FloatHourToHMS (PARTIAL: IEEE rounding is not modelled in Lean) and the finite round-trip clause is compared bit-exactly with the real float code for all 86,400 times on every run; the any-float clause is compared on k/3600, k/3600+-1e-9 and seeded random doubles via their exact rational values, and the one-second bound is evaluated exactly on the real results.",
             design="7 (C18)", note="Trusted: Lean kernel + standard axioms; correspondence check. NOT modelled: IEEE-754 rounding inside fh*3600+0.5 and h+m/60+s/3600 (the model is exact rational arithmetic; where the exact value is within 1e-6 of a rounding boundary either neighbouring second is accepted in the comparison)."),
 "C20": dict(technique="Lean 4 `decide` obligations over metadata regenerated from the source on every run + theorems for bounds and mean year length per configuration + year-block correspondence over -6000..12000",
             text="Machine-checked proof over regenerated facts: names distinct, lookup returns the entry registered under the name, run-time map keys = registered names, 12 month names and abbreviations (all `decide` over Gen/CalMeta.lean); for each arithmetic configuration every reported month length lies within the advertised bounds for ALL years, and the advertised average year length is within 0.01 day of the true mean over any span >= 1000 years (closed forms, omega); regenerated month tables equal the model's. Tie: extractor requires source constants = running registry; `byname meta` dump model vs runtime; GetMonthLen by year blocks over the property's whole year range (complete in both tiers).",
             design="7 (C20)", note="Trusted: Lean kernel + standard axioms; extractor + correspondence check. hijri month-table mode reports 28 and 31 at the table seams: open known findings (the model reproduces both by kernel evaluation)."),
 "C08": dict(technique="Lean 4 exactness theorems at the Decode+Check level over the regenerated rule registry (all integer field values at once; range lists via C05's canonical form) + grammar-generated correspondence with the generator's acc/rej/bad expectation evaluated on the real code",
             text="Machine-checked proof: for dayTime, date, cycleLen, cycleDays/cycleWeeks a value written with ANY integer fields decodes (or is a decode error for negative days), is accepted iff every field is in range, and then carries exactly the numbers written; a range list that parses as closed ranges decodes to the strictly increasing list of exactly the covered integers and is accepted iff all are in range; unknown type => error. PARTIAL: start/end, ex_dates, dayTimeRange, weekDay, duration, weekMonth are covered by the component theorems (date, h:m:s, int list, decimal) and the correspondence, not by a composed Decode-level theorem; `accepted_is_format` is not proved. Tie: 19 types x grammar values incl. every 256k+r alias class, malformed texts, unknown types.",
             design="7 (C08)", note=TXT_NOTE),
 "C09": dict(technique="Lean 4 totality theorems (decode never panics, check of a decoded value never panics, from decoder/checker type agreement) + `decide` obligations over the regenerated registry and tables (go/types static types) + exhaustive short-string correspondence under recover()",
             text="Machine-checked proof: `decode t s != panic` for every type name and string (every Go slice expression of parseInterval is an explicit panic branch of the model, shown unreachable); `decode t s = ok v -> check t v != panic` because each decoder's value type is the type its checker asserts — `decide` over the static Go types extracted with go/types on every run; tables closed, no self conflict, no conflict with a requirement, orders and names distinct, every type usable by witness. Tie: every string of length <=4/5/6 over the 12-symbol alphabet against one rule type per decoder, grammar mutations for all 19 types, unknown names; the table clause is also evaluated on the running registry incl. all 2^19 subsets.",
             design="7 (C09)", note=TXT_NOTE + " Coverage-guided fuzzing named in the quantifier is not run (support only)."),
 "C14": dict(technique="Lean 4 round-trip and faithfulness theorems for Date/HMS/DHMS/DateHMS text forms (any year, all integer field values) + exhaustive 86,400-time and short-string correspondence",
             text="Machine-checked proof: String then Parse is the identity for dates (any year incl. negative and >4 digits), times, days+time (any uint day count) and date-times with uint8 fields; `h:m:s`, `y/m/d` and `days h:m:s` written with ANY integer fields parse, pass the validity check iff every field is in range, and then carry exactly the numbers written. Totality: the models have no panic branch (see level_note); durations are compared on plain decimals. Tie: all 86,400 times, month x day x 50 years, sampled days+time and date-times, every string of length <=4/5/6 over the 10-symbol alphabet for 8 parsers, faithfulness stream with written fields in [-70000,70000].",
             design="7 (C14)", note=TXT_NOTE),
 "C15": dict(technique="Lean 4 history theorem over a register machine (invariant + per-step Hoare triple against a membership-only specification, induction over the operation list) + histories run on both implementations against the model and an independent reference",
             text="Machine-checked proof: every step of every operation history (any length, any universe with decidable equality) from the empty registers satisfies `Spec` — the answer is the mathematical one, the destination holds exactly the mathematical result, every other register (the operands) is unchanged — and `Nodup` is invariant; plus membership laws for union/intersection/difference/symmetric difference/subset/superset/equality, Cartesian product membership, power set size 2^n / soundness / completeness. Tie: whole histories over three registers, answered step by step by the model, by NewSet() and by NewThreadUnsafeSet(); exhaustive short histories over a reduced alphabet and seeded random histories of length <=60; the oracle checks all three registers against an independent reference after every step (aliasing of results and operands shows there).",
             design="7 (C15)", note="Trusted: Lean kernel + standard axioms; correspondence check. Modelled: Go maps as duplicate-free lists (iteration order canonicalised by sorting on both sides); the thread-safe set as the same data functions (its locking is C16/C17); PowerSet/CartesianProduct/String/Iter/ToSlice are observers outside the register machine's `Op` type, covered by their own lemmas and the correspondence."),
 "C16": dict(technique="Lean 4 invariant proofs over a small-step RW-lock semantics (access discipline preserved, exclusion invariant, no data race in any reachable state of any program) + `decide` over lock/access sequences regenerated from the code on every run + Go race detector on all operation pairs",
             text="Machine-checked proof (PARTIAL): every operation's recorded lock events interleaved with its map accesses satisfy the access discipline (`decide` over regenerated facts); for ANY program (any number of goroutines, any sequence of the 18 operations each, two sets incl. aliased/swapped operands) every reachable state preserves the discipline and the exclusion invariant and has no data race. NOT proved: the last step to linearizability; the runtime below sync.RWMutex is assumed, not modelled. Tie: sequences recorded through the verif hook at check time = sequences compiled into the model; direct evaluation: all 648 ordered pairs of operations on shared operands under the Go race detector (-race build of the oracle), plus a focused probe for any undisciplined operation.",
             design="7 (C16)", note=LOCKNOTE),
 "C17": dict(technique="Lean 4 deadlock-freedom and termination proofs over the same RW-lock semantics (writer preference modelled) + `decide` over recorded lock skeletons + stress on the real code + model-found deadlock schedules replayed on the real code through the hook",
             text="Machine-checked proof: the recorded lock skeleton of every operation under every operand assignment is ordered (no re-acquisition, fixed order, matched releases) — `decide` over regenerated facts; for ANY program over the two sets, in every reachable state with an unfinished goroutine some goroutine can step (writers queued or not), and every step decreases a measure, so every operation returns under every schedule. Tie: recorded sequences = model sequences; direct evaluation: every ordered pair of operations on swapped/aliased operands with queued writers under a watchdog; when a skeleton is not ordered the driver searches the model for a deadlock schedule and the oracle replays it on the real code with gated acquisitions — only a reproduced deadlock is a failing input.",
             design="7 (C17)", note=LOCKNOTE),
}

PENDING = {}
props = [json.loads(l) for l in open(os.path.join(V, "properties.jsonl"))]
checks, na = [], []
for p in props:
    pid = p["id"]
    if pid in CLAIMS:
        c = CLAIMS[pid]
        checks.append({
            "property_id": pid,
            "quick_cmd": "./check %s quick" % pid,
            "thorough_cmd": "./check %s thorough" % pid,
            "evidence_file": "evidence/%s.json" % pid,
            "replay_cmd_template": "./check %s --replay {path}" % pid,
            "engine": "starcal-lean",
            "level_claimed": {"category": "proof", "text": c["text"], "design_ref": "DESIGN.md section " + c["design"]},
            "level_note": c["note"],
            "technique": c["technique"],
        })
    else:
        na.append({"property_id": pid, "reason": PENDING.get(pid, "check not registered yet at this commit: model and theorems exist in lean/Starcal (see DESIGN.md section 10) but the correspondence stream is still being built; nothing is claimed until it runs")})

manifest = {
 "version": 1,
 "setup_cmd": "./setup.sh",
 "hooks": {"guard": "verif", "enable": "go build -tags verif (the harness module replaces github.com/ilius/libgostarcal with /repo)",
           "baseline_off_cmd": "cd /repo && GOFLAGS=-mod=mod GOPROXY=off GOSUMDB=off go test -vet=off -count=1 ./...",
           "source_commits": HOOK_COMMITS, "add_only": True},
 "engines": [{"name": "starcal-lean", "path": "lean/", "serves_properties": sorted(CLAIMS),
              "kind_free_text": "Lean 4 (core only) model + theorems, compiled driver; Go oracle in harness/; python driver ./check"}],
 "checks": checks,
 "not_applicable": na,
 "notes": "Every check: rebuilds the Go oracle against /repo's working tree (-tags verif), regenerates lean/Starcal/Gen from the source, rebuilds the property's Lean module and audits its axioms, runs the correspondence streams model vs code, evaluates the property directly on the real code for replays, applies known_findings.json.",
}
json.dump(manifest, open(os.path.join(V, "MANIFEST.json"), "w"), indent=1)
print("claimed:", sorted(CLAIMS), "not claimed:", [n["property_id"] for n in na])
