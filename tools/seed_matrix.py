#!/usr/bin/env python3
"""Apply every seeded change in /verif/seeded to /repo in turn, run all quick checks, undo it; record
which checks report it (and how) in seeded/<id>/meta.json and seeded/RESULTS.md. Evidence files are
preserved. usage: tools/seed_matrix.py [seed-id ...]"""
import concurrent.futures as cf
import glob, json, os, shutil, subprocess, sys, tempfile, time

V = os.path.dirname(os.path.dirname(os.path.abspath(__file__)))
R = os.environ.get("VERIF_REPO", "/repo")
PROPS = ["C%02d" % i for i in range(1, 21)]


def sh(cmd, **kw):
    return subprocess.run(cmd, shell=True, stdout=subprocess.PIPE, stderr=subprocess.STDOUT, text=True, **kw)


def run_check(p):
    t = time.time()
    r = sh("cd %s && ./check %s quick" % (V, p))
    kind = "ok"
    for l in r.stdout.splitlines():
        if l.startswith("VIOLATION"):
            kind = "no-failing-input-found" if l.rstrip().endswith("no-failing-input-found") else "failing-input"
            rp = l.split("replay=")[1].split()[0]
            try:
                d = json.load(open(rp))
                detail = (d.get("observed") or (d.get("broken") or [{}])[0].get("obligation", ""))[:240]
            except Exception:
                detail = ""
            return p, kind, detail, time.time() - t
    return p, kind, "", time.time() - t


def main():
    seeds = sorted(d for d in os.listdir(V + "/seeded") if os.path.exists(V + "/seeded/" + d + "/meta.json"))
    if len(sys.argv) > 1:
        seeds = [s for s in seeds if s in sys.argv[1:]]
    if sh("git -C %s diff --quiet" % R).returncode != 0:
        print("/repo dirty"); sys.exit(2)
    evbak = tempfile.mkdtemp()
    shutil.copytree(V + "/evidence", evbak, dirs_exist_ok=True)
    rows = []
    try:
        for s in seeds:
            patch = "%s/seeded/%s/patch.diff" % (V, s)
            if sh("git -C %s apply %s" % (R, patch)).returncode != 0:
                print("cannot apply", s); continue
            try:
                with cf.ThreadPoolExecutor(max_workers=5) as ex:
                    res = list(ex.map(run_check, PROPS))
            finally:
                sh("git -C %s checkout -- . && git -C %s clean -fdq -- ." % (R, R))
            meta_p = "%s/seeded/%s/meta.json" % (V, s)
            meta = json.load(open(meta_p))
            meta["detected_by"] = {p: {"verdict": k, "what": d} for p, k, d, _ in res if k != "ok"}
            meta["checks_run"] = "all 20 quick checks (tools/seed_matrix.py)"
            json.dump(meta, open(meta_p, "w"), indent=1)
            own = meta["breaks_property"]
            hit = meta["detected_by"].get(own, {}).get("verdict", "MISSED")
            others = [p + ("*" if v["verdict"] != "failing-input" else "") for p, v in meta["detected_by"].items() if p != own]
            rows.append((s, own, hit, " ".join(others)))
            print(s, own, hit, others, flush=True)
    finally:
        shutil.copytree(evbak, V + "/evidence", dirs_exist_ok=True)
        shutil.rmtree(evbak)
        # leave Gen/ and build/ as the unchanged tree produces them
        sh("cd %s && ./check C16 quick && ./check C20 quick && ./check C09 quick" % V)
        shutil.copytree(evbak, V + "/evidence", dirs_exist_ok=True) if os.path.exists(evbak) else None
    # the table is rebuilt from every seed's meta.json, so partial runs keep the other rows
    rows = []
    for sd in sorted(d for d in os.listdir(V + "/seeded") if os.path.exists(V + "/seeded/" + d + "/meta.json")):
        meta = json.load(open("%s/seeded/%s/meta.json" % (V, sd)))
        if "detected_by" not in meta or not meta.get("checks_run"):
            rows.append((sd, meta["breaks_property"], "(matrix not run yet)", ""))
            continue
        own = meta["breaks_property"]
        hit = meta["detected_by"].get(own, {}).get("verdict", "MISSED")
        others = [p + ("*" if v["verdict"] != "failing-input" else "") for p, v in meta["detected_by"].items() if p != own]
        rows.append((sd, own, hit, " ".join(others)))
    with open(V + "/seeded/RESULTS.md", "w") as f:
        f.write("# Seeded changes vs. checks\n\nEach change was produced by an independent sub-agent from the property text only, confirmed by tools/verify_seed.sh "
                "(compiles, existing suite passes, demonstration fails with it and passes without it), then applied to /repo, all 20 quick checks run, and undone "
                "(tools/seed_matrix.py). `failing-input` = VIOLATION with a concrete replay on the real code; entries marked * reported "
                "`no-failing-input-found` (broken obligation or correspondence, property not violated or no input found). Seeds named `-r2-` come from a second round "
                "in which the sub-agent was told which idea the first round had used and asked for a different function / clause.\n\n")
        f.write("| seed | breaks | own check | other checks that also report |\n|---|---|---|---|\n")
        for r in rows:
            f.write("| %s | %s | %s | %s |\n" % r)


main()
