#!/bin/bash
# usage: tools/take_seed.sh <agent worktree> <seed id> <property>  — verify a sub-agent's change independently, store it
# under seeded/<id>/, run the property's quick check against it and say what happened.
cd "$(dirname "$0")/.."
src=$1; id=$2; prop=$3
RUNPAT="${RUNPAT:-Seeded}" tools/verify_seed.sh "$src" "$id" "$prop" 2>&1 | tail -4
[ -f seeded/$id/patch.diff ] || { echo "NOT STORED"; exit 1; }
out=$(tools/try_seed.sh seeded/$id/patch.diff $prop 2>&1)
echo "$out" | grep -E "VIOLATION|done in|mismatches=[1-9]" | cut -c1-200
if echo "$out" | grep -q "^VIOLATION.*no-failing-input-found"; then echo "RESULT $id: no-failing-input-found";
elif echo "$out" | grep -q "^VIOLATION"; then echo "RESULT $id: failing-input";
else echo "RESULT $id: MISSED"; fi
