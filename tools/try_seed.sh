#!/bin/bash
# usage: tools/try_seed.sh <patch.diff> <Cxx> [<Cxx>...]   — apply a seeded change to /repo, run the
# quick checks, and undo it straight afterwards. Never leaves /repo modified.
set -u
patch=$(realpath $1); shift
cd "$(dirname "$0")/.."
R="${VERIF_REPO:-/repo}"
if ! git -C "$R" diff --quiet; then echo "/repo is dirty, refusing"; exit 2; fi
git -C "$R" apply "$patch" || { echo "patch does not apply"; exit 2; }
EVBAK=$(mktemp -d); cp -r evidence/. $EVBAK/ 2>/dev/null
trap 'git -C "$R" apply -R "$patch" 2>/dev/null; git -C "$R" checkout -- . ; git -C "$R" clean -fdq -- . ; git -C "$R" status --short; cp -r $EVBAK/. evidence/; rm -rf $EVBAK' EXIT
for p in "$@"; do
  echo "=== $p (${TIER:-quick}) with $patch"
  ./check "$p" "${TIER:-quick}" 2>&1 | grep -E "^VIOLATION|^KNOWN|mismatches=[1-9]|done in" | cut -c1-220
done
