#!/opt/veriftools/pyvenv/bin/python
import json, jsonschema, glob, sys
jsonschema.validate(json.load(open('/verif/MANIFEST.json')), json.load(open('/root/.vp/MANIFEST.schema.json')))
print('manifest valid')
s = json.load(open('/root/.vp/EVIDENCE.schema.json'))
m = json.load(open('/verif/MANIFEST.json'))
for c in m['checks']:
    f = '/verif/' + c['evidence_file']
    try:
        e = json.load(open(f)); jsonschema.validate(e, s)
        cov = e['coverage']
        print(c['property_id'], 'evidence valid', 'obl=%s/%s' % (cov.get('discharged'), cov.get('obligations')), 'viol=%s' % e.get('violations'), 'wall=%s' % e['wall_s'])
    except Exception as ex:
        print(c['property_id'], 'EVIDENCE PROBLEM', str(ex)[:200])
