#!/bin/bash
# usage: tools/run_harmless_all.sh  — every behaviour-preserving rewrite of seeded/harmless through all
# quick checks (tools/try_harmless.sh); prints one block per rewrite. With VERIF_REPO set (e.g. under
# `vp run --with-repo`, VERIF_REPO=$VP_RUN_REPO) it works on that copy of the repository.
cd "$(dirname "$0")/.."
for d in seeded/harmless/*/; do
  h=$(basename $d)
  echo "##### $h"
  tools/try_harmless.sh $d/patch.diff 2>&1 | tail -6
done
echo "ALL-HARMLESS-DONE"
