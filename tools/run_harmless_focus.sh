#!/bin/bash
# usage: tools/run_harmless_focus.sh — the behaviour-preserving rewrites of seeded/harmless, each against the checks of
# the properties its files are anchored in (a cheaper regression than tools/run_harmless_all.sh). A VIOLATION printed
# here is a false alarm to analyse. With VERIF_REPO set it works on that copy of the repository.
cd "$(dirname "$0")/.."
for d in seeded/harmless/*/; do
  h=$(basename $d)
  [ -n "${ONLY:-}" ] && ! echo " $ONLY " | grep -q " $h " && continue
  props=""
  files=$(grep "^+++ b/" $d/patch.diff)
  echo "$files" | grep -q "interval/\|utils/stack" && props="$props C04 C05 C09 C12 C13"
  echo "$files" | grep -q "utils/mapset" && props="$props C15 C16 C17"
  echo "$files" | grep -q "event/rules_lib\|date.go\|hms.go\|duration.go\|numtext.go" && props="$props C08 C09 C14 C18"
  echo "$files" | grep -q "cal_types" && props="$props C01 C03 C06 C20"
  echo "$files" | grep -q "utils/divmod.go\|utils/funcs.go" && props="$props C19 C10 C11 C18"
  echo "$files" | grep -q "occurrence" && props="$props C12 C11"
  props=$(echo $props | tr ' ' '\n' | sort -u | tr '\n' ' ')
  echo "##### $h: $props"
  tools/try_seed.sh $d/patch.diff $props 2>&1 | grep -E "^VIOLATION|done in" | cut -c1-160
done
echo "FOCUS-HARMLESS-DONE"
