#!/bin/bash
# usage: tools/verify_seed.sh <agent worktree, e.g. /tmp/mut/C07> <seed id, e.g. C07-eth-isleap> <property>
# Confirms independently, in a fresh scratch worktree of /repo HEAD: the change compiles, the whole
# existing suite passes with it, the demonstration fails with it and passes without it.
# On success stores /verif/seeded/<id>/{patch.diff,demo file,NOTES.md,meta.json}.
set -u
src=$1; id=$2; prop=$3; flags=${4:-}
export GOFLAGS=-mod=mod GOPROXY=off GOSUMDB=off GOTOOLCHAIN=local
W=/tmp/vs-$$
git -C /repo worktree add --detach $W HEAD -q || exit 2
cleanup() { git -C /repo worktree remove --force $W; }
trap cleanup EXIT
demo_rel=$(cd $src && git status --porcelain | grep '_test.go$' | awk '{print $2}' | head -1)
[ -z "$demo_rel" ] && { echo "no demo test found in $src"; exit 2; }
pkg=./$(dirname $demo_rel)/
cd $W
git apply $src/SEEDED/patch.diff || { echo "FAIL: patch does not apply"; exit 1; }
go build ./... || { echo "FAIL: build"; exit 1; }
go build -tags verif ./... || { echo "FAIL: build with hooks"; exit 1; }
suite=$(go test -vet=off -count=1 ./... 2>&1)
if echo "$suite" | grep -q "^FAIL\|^---"; then echo "FAIL: existing suite fails with the change"; echo "$suite" | grep -v "no test files" | head -20; exit 1; fi
echo "suite with change: pass"
for f in $(cd $src && git status --porcelain | grep '_test.go$' | awk '{print $2}'); do cp $src/$f $W/$f; done
with=$(go test $flags -vet=off -count=1 -run "${RUNPAT:-Seeded}" $pkg 2>&1); rc_with=$?
echo "demo with change: rc=$rc_with"
git apply -R $src/SEEDED/patch.diff
without=$(go test $flags -vet=off -count=1 -run "${RUNPAT:-Seeded}" $pkg 2>&1); rc_without=$?
echo "demo without change: rc=$rc_without"
if [ $rc_with -eq 0 ] || [ $rc_without -ne 0 ]; then echo "FAIL: demo does not discriminate"; echo "$with" | tail -5; echo "$without" | tail -5; exit 1; fi
D=/verif/seeded/$id
mkdir -p $D
cp $src/SEEDED/patch.diff $D/patch.diff
for f in $(cd $src && git status --porcelain | grep '_test.go$' | awk '{print $2}'); do cp $src/$f $D/$(basename $f).txt; done
cp $src/SEEDED/NOTES.md $D/NOTES.md
python3 - "$D" "$id" "$prop" "$demo_rel" "$pkg" "$flags" <<'PY'
import json, sys, subprocess
D, id_, prop, demo_rel, pkg, flags = sys.argv[1:]
head = subprocess.run(["git","-C","/repo","rev-parse","--short","HEAD"],capture_output=True,text=True).stdout.strip()
meta = {"id": id_, "breaks_property": prop, "base_commit": head,
        "demo": {"file": demo_rel.split("/")[-1] + ".txt", "place_at": demo_rel,
                 "run": "go test -vet=off -count=1 -run Seeded " + pkg},
        "confirmed": {"existing_suite_with_change": "pass", "demo_with_change": "fail", "demo_without_change": "pass",
                      "how": "tools/verify_seed.sh in a fresh scratch worktree of /repo HEAD"},
        "needs_to_manifest": "", "files_changed": [], "detected_by": {}}
diff = open(D + "/patch.diff").read()
meta["files_changed"] = sorted({l[6:] for l in diff.splitlines() if l.startswith("+++ b/")})
json.dump(meta, open(D + "/meta.json", "w"), indent=1)
PY
echo "stored $D"
