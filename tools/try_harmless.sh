#!/bin/bash
# usage: tools/try_harmless.sh <patch.diff>  — apply a behaviour-preserving rewrite to /repo, run ALL quick
# checks (5 at a time), list every alarm, undo. A VIOLATION here is a false alarm to analyse.
patch=$(realpath $1)
cd "$(dirname "$0")/.."
R="${VERIF_REPO:-/repo}"
if ! git -C "$R" diff --quiet; then echo "/repo dirty"; exit 2; fi
git -C "$R" apply "$patch" || { echo "patch does not apply"; exit 2; }
EVBAK=$(mktemp -d); cp -r evidence/. $EVBAK/
trap 'git -C "$R" apply -R "$patch" 2>/dev/null; git -C "$R" checkout -- . ; git -C "$R" clean -fdq -- . ; cp -r $EVBAK/. evidence/; rm -rf $EVBAK' EXIT
(cd "$R" && GOFLAGS=-mod=mod GOPROXY=off GOSUMDB=off GOTOOLCHAIN=local go build ./... && go test -vet=off -count=1 ./... 2>&1 | grep -v "no test files" | grep -v "^ok" | head -5)
printf "%s\n" C01 C02 C03 C04 C05 C06 C07 C08 C09 C10 C11 C12 C13 C14 C15 C16 C17 C18 C19 C20 | xargs -P 5 -I{} sh -c './check {} quick 2>&1 | grep -E "^VIOLATION" | sed "s/^/{} /"' 
echo "harmless run finished"
