// Package lockrec extracts, for every operation of the thread-safe set, the source-order events
// (go/ast) and the lock events recorded from the implementation through the verif hook, and
// aligns the two into one action sequence per operation and operand assignment.
package lockrec

import (
	"fmt"
	"go/ast"
	"go/parser"
	"go/token"
	"path/filepath"
	"reflect"
	"sort"
	"strings"
	"sync"

	"github.com/ilius/libgostarcal/utils/mapset"
)

// ---------------------------------------------------------------------------------
// static part: per method of *threadSafeSet, the source-order sequence of lock calls, helper
// calls, nested calls on thread-safe sets and accesses to the `.s` maps

type SEvent struct {
	kind string // lock | helper | call | access | go-begin | go-end
	name string // RLock/RUnlock/Lock/Unlock | rlockBoth/runlockBoth | method name
	ops  []string
	// for access: ops[0] = operand (recv/arg), write flag
	write bool
}

func (e SEvent) String() string {
	switch e.kind {
	case "access":
		w := "r"
		if e.write {
			w = "w"
		}
		return "acc(" + e.ops[0] + "," + w + ")"
	case "go-begin", "go-end":
		return e.kind
	}
	return e.name + "(" + strings.Join(e.ops, ",") + ")"
}

var writerMethods = map[string]bool{"Add": true, "Remove": true, "Clear": true}
var lockMethods = map[string]bool{"Lock": true, "Unlock": true, "RLock": true, "RUnlock": true}

type methodWalker struct {
	recv    string            // receiver identifier
	operand map[string]string // identifier -> "recv" | "arg"
	alias   map[string]string // local identifier holding a set's map (header or pointer) -> operand
	events  []SEvent
	defers  [][]SEvent
	methods map[string]bool // names of threadSafeSet methods
	helpers map[string]bool
	err     error
	depth   int // nesting depth of branches / loops
}

func (w *methodWalker) fail(pos token.Pos, format string, a ...any) {
	if w.err == nil {
		w.err = fmt.Errorf(format, a...)
	}
}

func (w *methodWalker) opOf(e ast.Expr) (string, bool) {
	switch x := e.(type) {
	case *ast.Ident:
		op, ok := w.operand[x.Name]
		return op, ok
	case *ast.ParenExpr:
		return w.opOf(x.X)
	case *ast.TypeAssertExpr: // other.(*threadSafeSet)
		return w.opOf(x.X)
	}
	return "", false
}

// is e the `.s` field of an operand (possibly behind & or *)? returns the operand
func (w *methodWalker) dataOf(e ast.Expr) (string, bool) {
	switch x := e.(type) {
	case *ast.SelectorExpr:
		if x.Sel.Name == "s" {
			return w.opOf(x.X)
		}
	case *ast.UnaryExpr:
		if x.Op == token.AND {
			return w.dataOf(x.X)
		}
	case *ast.StarExpr:
		return w.dataOf(x.X)
	case *ast.ParenExpr:
		return w.dataOf(x.X)
	case *ast.Ident:
		op, ok := w.alias[x.Name]
		return op, ok
	}
	return "", false
}

func (w *methodWalker) emit(e SEvent) { w.events = append(w.events, e) }

// walk an expression in evaluation order, recording accesses and calls
func (w *methodWalker) expr(e ast.Expr, write bool) {
	if e == nil {
		return
	}
	if op, ok := w.dataOf(e); ok {
		w.emit(SEvent{kind: "access", ops: []string{op}, write: write})
		return
	}
	switch x := e.(type) {
	case *ast.CallExpr:
		// lock call, helper call, nested method call, data method call, builtin delete
		if sel, ok := x.Fun.(*ast.SelectorExpr); ok {
			if op, ok := w.opOf(sel.X); ok {
				if lockMethods[sel.Sel.Name] {
					if w.depth > 0 {
						w.fail(x.Pos(), "lock call %s inside a branch or loop", sel.Sel.Name)
					}
					w.emit(SEvent{kind: "lock", name: sel.Sel.Name, ops: []string{op}})
					return
				}
				if w.methods[sel.Sel.Name] {
					ops := []string{op}
					for _, a := range x.Args {
						if aop, ok := w.opOf(a); ok {
							ops = append(ops, aop)
						} else {
							w.expr(a, false)
						}
					}
					if w.depth > 0 {
						w.fail(x.Pos(), "nested call %s inside a branch or loop", sel.Sel.Name)
					}
					w.emit(SEvent{kind: "call", name: sel.Sel.Name, ops: ops})
					return
				}
			}
			if op, ok := w.dataOf(sel.X); ok {
				// method of the unsafe set on an operand's map
				for _, a := range x.Args {
					w.expr(a, false)
				}
				w.emit(SEvent{kind: "access", ops: []string{op}, write: writerMethods[sel.Sel.Name]})
				return
			}
		}
		if id, ok := x.Fun.(*ast.Ident); ok {
			if w.helpers[id.Name] {
				var ops []string
				for _, a := range x.Args {
					op, ok := w.opOf(a)
					if !ok {
						w.fail(x.Pos(), "helper %s called with an unrecognised operand", id.Name)
					}
					ops = append(ops, op)
				}
				if w.depth > 0 {
					w.fail(x.Pos(), "helper call %s inside a branch or loop", id.Name)
				}
				w.emit(SEvent{kind: "helper", name: id.Name, ops: ops})
				return
			}
			if id.Name == "delete" && len(x.Args) >= 1 {
				w.expr(x.Args[0], true)
				for _, a := range x.Args[1:] {
					w.expr(a, false)
				}
				return
			}
		}
		w.expr(x.Fun, false)
		for _, a := range x.Args {
			w.expr(a, false)
		}
	case *ast.FuncLit:
		w.block(x.Body.List)
	case *ast.SelectorExpr:
		w.expr(x.X, write)
	case *ast.IndexExpr:
		w.expr(x.X, write)
		w.expr(x.Index, false)
	case *ast.UnaryExpr:
		w.expr(x.X, write)
	case *ast.StarExpr:
		w.expr(x.X, write)
	case *ast.ParenExpr:
		w.expr(x.X, write)
	case *ast.BinaryExpr:
		w.expr(x.X, false)
		w.expr(x.Y, false)
	case *ast.TypeAssertExpr:
		w.expr(x.X, false)
	case *ast.CompositeLit:
		for _, el := range x.Elts {
			if kv, ok := el.(*ast.KeyValueExpr); ok {
				w.expr(kv.Value, false)
			} else {
				w.expr(el, false)
			}
		}
	case *ast.KeyValueExpr:
		w.expr(x.Value, false)
	case *ast.SliceExpr:
		w.expr(x.X, false)
	}
}

func (w *methodWalker) block(stmts []ast.Stmt) {
	for _, s := range stmts {
		w.stmt(s)
	}
}

func (w *methodWalker) stmt(s ast.Stmt) {
	switch x := s.(type) {
	case *ast.ExprStmt:
		w.expr(x.X, false)
	case *ast.AssignStmt:
		for _, r := range x.Rhs {
			w.expr(r, false)
		}
		for i, l := range x.Lhs {
			// operand alias: o := other.(*threadSafeSet)
			if id, ok := l.(*ast.Ident); ok && i < len(x.Rhs) {
				if op, ok := w.opOf(x.Rhs[i]); ok {
					w.operand[id.Name] = op
					continue
				}
				if op, ok := w.dataOf(x.Rhs[i]); ok {
					// a map value or pointer copies only the header: later uses touch the same data
					w.alias[id.Name] = op
					continue
				}
				delete(w.alias, id.Name)
				continue
			}
			w.expr(l, true)
		}
	case *ast.DeclStmt:
		if gd, ok := x.Decl.(*ast.GenDecl); ok {
			for _, sp := range gd.Specs {
				if vs, ok := sp.(*ast.ValueSpec); ok {
					for i, v := range vs.Values {
						w.expr(v, false)
						if i < len(vs.Names) {
							if op, ok := w.dataOf(v); ok {
								w.alias[vs.Names[i].Name] = op
							}
						}
					}
				}
			}
		}
	case *ast.ReturnStmt:
		for _, r := range x.Results {
			w.expr(r, false)
		}
	case *ast.DeferStmt:
		saved := w.events
		w.events = nil
		w.expr(x.Call, false)
		w.defers = append(w.defers, w.events)
		w.events = saved
	case *ast.GoStmt:
		w.emit(SEvent{kind: "go-begin"})
		if fl, ok := x.Call.Fun.(*ast.FuncLit); ok {
			w.block(fl.Body.List)
		} else {
			w.expr(x.Call, false)
		}
		w.emit(SEvent{kind: "go-end"})
	case *ast.RangeStmt:
		w.expr(x.X, false)
		w.depth++
		w.block(x.Body.List)
		w.depth--
	case *ast.ForStmt:
		w.depth++
		if x.Init != nil {
			w.stmt(x.Init)
		}
		w.expr(x.Cond, false)
		w.block(x.Body.List)
		if x.Post != nil {
			w.stmt(x.Post)
		}
		w.depth--
	case *ast.IfStmt:
		if x.Init != nil {
			w.stmt(x.Init)
		}
		w.expr(x.Cond, false)
		w.depth++
		w.block(x.Body.List)
		if x.Else != nil {
			w.stmt(x.Else)
		}
		w.depth--
	case *ast.BlockStmt:
		w.block(x.List)
	case *ast.SwitchStmt:
		if x.Init != nil {
			w.stmt(x.Init)
		}
		w.expr(x.Tag, false)
		w.depth++
		for _, c := range x.Body.List {
			if cc, ok := c.(*ast.CaseClause); ok {
				w.block(cc.Body)
			}
		}
		w.depth--
	case *ast.SendStmt:
		w.expr(x.Chan, false)
		w.expr(x.Value, false)
	case *ast.IncDecStmt:
		w.expr(x.X, true)
	}
}

type StaticMethod struct {
	Name   string
	Binary bool
	Events []SEvent
}

func ExtractStatic(repo string) (map[string]*StaticMethod, error) {
	fset := token.NewFileSet()
	f, err := parser.ParseFile(fset, filepath.Join(repo, "utils/mapset/threadsafe.go"), nil, 0)
	if err != nil {
		return nil, err
	}
	methods := map[string]bool{}
	helpers := map[string]bool{}
	for _, d := range f.Decls {
		fd, ok := d.(*ast.FuncDecl)
		if !ok {
			continue
		}
		if fd.Recv != nil && len(fd.Recv.List) == 1 {
			if se, ok := fd.Recv.List[0].Type.(*ast.StarExpr); ok {
				if id, ok := se.X.(*ast.Ident); ok && id.Name == "threadSafeSet" {
					methods[fd.Name.Name] = true
				}
			}
		} else if fd.Recv == nil && fd.Type.Params != nil {
			// helper: every parameter is a *threadSafeSet
			n, all := 0, true
			for _, p := range fd.Type.Params.List {
				se, ok := p.Type.(*ast.StarExpr)
				id, ok2 := ast.Expr(nil), false
				if ok {
					id, ok2 = se.X.(*ast.Ident)
				}
				if !ok || !ok2 || id.(*ast.Ident).Name != "threadSafeSet" {
					all = false
				}
				n += len(p.Names)
			}
			if all && n == 2 {
				helpers[fd.Name.Name] = true
			}
		}
	}
	out := map[string]*StaticMethod{}
	for _, d := range f.Decls {
		fd, ok := d.(*ast.FuncDecl)
		if !ok || fd.Recv == nil || !methods[fd.Name.Name] || lockMethods[fd.Name.Name] {
			continue
		}
		w := &methodWalker{operand: map[string]string{}, alias: map[string]string{}, methods: methods, helpers: helpers}
		if len(fd.Recv.List[0].Names) == 1 {
			w.recv = fd.Recv.List[0].Names[0].Name
			w.operand[w.recv] = "recv"
		}
		binary := false
		for _, p := range fd.Type.Params.List {
			if id, ok := p.Type.(*ast.Ident); ok && id.Name == "Set" {
				for _, n := range p.Names {
					w.operand[n.Name] = "arg"
					binary = true
				}
			}
		}
		w.block(fd.Body.List)
		for i := len(w.defers) - 1; i >= 0; i-- {
			w.events = append(w.events, w.defers[i]...)
		}
		if w.err != nil {
			return nil, fmt.Errorf("%s: %v", fd.Name.Name, w.err)
		}
		out[fd.Name.Name] = &StaticMethod{Name: fd.Name.Name, Binary: binary, Events: w.events}
	}
	return out, nil
}

// ---------------------------------------------------------------------------------
// dynamic part: lock-event traces recorded through the verif hook

type DEvent struct {
	Op  string // RLock | RUnlock | Lock | Unlock
	Set int    // 0 = the set with the lower address, 1 = the other
}

func RecordTrace(method string, pattern string) ([]DEvent, error) {
	x, y := mapset.NewSet(1, 2), mapset.NewSet(2, 3)
	// lock ids by address order, as the repaired code orders its acquisitions
	px, py := reflect.ValueOf(x).Pointer(), reflect.ValueOf(y).Pointer()
	lo, hi := x, y
	if px > py {
		lo, hi = y, x
	}
	idOf := func(s any) int {
		if reflect.ValueOf(s).Pointer() == reflect.ValueOf(lo).Pointer() {
			return 0
		}
		return 1
	}
	var recv, arg mapset.Set
	switch pattern {
	case "A", "AB":
		recv, arg = lo, hi
	case "B":
		recv, arg = hi, hi
	case "BA":
		recv, arg = hi, lo
	case "AA":
		recv, arg = lo, lo
	}
	var mu sync.Mutex
	var trace []DEvent
	mapset.VerifLockHook = func(set any, op string, phase int) {
		if phase != 1 {
			return
		}
		mu.Lock()
		trace = append(trace, DEvent{op, idOf(set)})
		mu.Unlock()
	}
	defer func() { mapset.VerifLockHook = nil }()
	m := reflect.ValueOf(recv).MethodByName(method)
	if !m.IsValid() {
		return nil, fmt.Errorf("method %s not found on the thread-safe set", method)
	}
	var args []reflect.Value
	mt := m.Type()
	for i := 0; i < mt.NumIn(); i++ {
		in := mt.In(i)
		switch {
		case mt.IsVariadic() && i == mt.NumIn()-1:
			args = append(args, reflect.ValueOf(1))
		case in.Kind() == reflect.Interface && in.NumMethod() > 0:
			args = append(args, reflect.ValueOf(arg))
		default:
			args = append(args, reflect.ValueOf(any(1)).Convert(in))
		}
	}
	res := m.Call(args)
	// an operation that hands out a channel is complete once the channel is drained
	for _, r := range res {
		if r.Kind() == reflect.Chan {
			for {
				if _, ok := r.Recv(); !ok {
					break
				}
			}
		}
	}
	mu.Lock()
	defer mu.Unlock()
	return append([]DEvent{}, trace...), nil
}

// ---------------------------------------------------------------------------------
// alignment: interleave the static accesses with the recorded lock events

type Act struct {
	Kind  string // rlock runlock wlock unlock access
	Lock  int
	Write bool
}

func (a Act) Lean() string {
	if a.Kind == "access" {
		return fmt.Sprintf(".access %d %v", a.Lock, a.Write)
	}
	return fmt.Sprintf(".%s %d", a.Kind, a.Lock)
}

// protocol form: rlock0 access1w …
func (a Act) Token() string {
	if a.Kind == "access" {
		w := "r"
		if a.Write {
			w = "w"
		}
		return fmt.Sprintf("access%d%s", a.Lock, w)
	}
	return fmt.Sprintf("%s%d", a.Kind, a.Lock)
}

var dynKind = map[string]string{"RLock": "rlock", "RUnlock": "runlock", "Lock": "wlock", "Unlock": "unlock"}

type aligner struct {
	static map[string]*StaticMethod
	trace  []DEvent
	pos    int
	out    []Act
}

func (al *aligner) run(method string, lockOf map[string]int, depth int) error {
	if depth > 4 {
		return fmt.Errorf("nested calls deeper than 4")
	}
	sm, ok := al.static[method]
	if !ok {
		return fmt.Errorf("no static extraction for method %s", method)
	}
	for _, e := range sm.Events {
		switch e.kind {
		case "access":
			al.out = append(al.out, Act{"access", lockOf[e.ops[0]], e.write})
		case "lock":
			if al.pos >= len(al.trace) || al.trace[al.pos].Op != e.name || al.trace[al.pos].Set != lockOf[e.ops[0]] {
				return fmt.Errorf("%s: source has %s on %s here but the recorded trace continues with %v", method, e.name, e.ops[0], al.trace[al.pos:])
			}
			al.out = append(al.out, Act{dynKind[e.name], al.trace[al.pos].Set, false})
			al.pos++
		case "helper":
			// a helper acquires / releases each distinct operand once; take what was recorded
			want := ""
			n := 0
			distinct := map[int]bool{}
			for _, o := range e.ops {
				distinct[lockOf[o]] = true
			}
			for al.pos < len(al.trace) && n < len(distinct)+1 {
				t := al.trace[al.pos]
				if want == "" {
					want = t.Op
				}
				if t.Op != want || !distinct[t.Set] || (want != "RLock" && want != "RUnlock" && want != "Lock" && want != "Unlock") {
					break
				}
				al.out = append(al.out, Act{dynKind[t.Op], t.Set, false})
				al.pos++
				n++
			}
			if n == 0 {
				return fmt.Errorf("%s: helper %s recorded no lock event", method, e.name)
			}
		case "call":
			sub := map[string]int{"recv": lockOf[e.ops[0]]}
			if len(e.ops) > 1 {
				sub["arg"] = lockOf[e.ops[1]]
			}
			if err := al.run(e.name, sub, depth+1); err != nil {
				return err
			}
		}
	}
	return nil
}

// Entry is one operation under one operand assignment.
type Entry struct {
	Op, Pattern string
	Acts        []Act
}

// LockOf gives the lock id of receiver and argument under a pattern (A = lock 0 = lower address).
func LockOf(pattern string) map[string]int {
	switch pattern {
	case "B":
		return map[string]int{"recv": 1, "arg": 1}
	case "BA":
		return map[string]int{"recv": 1, "arg": 0}
	case "AA":
		return map[string]int{"recv": 0, "arg": 0}
	}
	return map[string]int{"recv": 0, "arg": 1}
}

// All records every operation under every operand assignment over two sets and aligns it with the source.
func All(repo string) (map[string]*StaticMethod, []Entry, error) {
	static, err := ExtractStatic(repo)
	if err != nil {
		return nil, nil, err
	}
	names := make([]string, 0, len(static))
	for n := range static {
		names = append(names, n)
	}
	sort.Strings(names)
	var out []Entry
	for _, n := range names {
		patterns := []string{"A", "B"}
		if static[n].Binary {
			patterns = []string{"AB", "BA", "AA"}
		}
		for _, p := range patterns {
			tr, err := RecordTrace(n, p)
			if err != nil {
				return nil, nil, err
			}
			al := &aligner{static: static, trace: tr}
			if err := al.run(n, LockOf(p), 0); err != nil {
				return nil, nil, fmt.Errorf("aligning %s(%s): %v", n, p, err)
			}
			if al.pos != len(tr) {
				return nil, nil, fmt.Errorf("aligning %s(%s): %d recorded lock events have no counterpart in the source: %v", n, p, len(tr)-al.pos, tr[al.pos:])
			}
			out = append(out, Entry{n, p, al.out})
		}
	}
	return static, out, nil
}
