// Package lockrec extracts, for every operation of the thread-safe set, the source-order events
// (go/ast) and the lock events recorded from the implementation through the verif hook, and
// aligns the two into one action sequence per operation and operand assignment.
package lockrec

import (
	"fmt"
	"reflect"
	"sort"
	"strings"
	"sync"

	"github.com/ilius/libgostarcal/utils/mapset"
)

// ---------------------------------------------------------------------------------
// static part: per method of *threadSafeSet, the source-order sequence of lock calls, helper
// calls, nested calls on thread-safe sets and accesses to the `.s` maps

type SEvent struct {
	kind string // lock | helper | call | access | go-begin | go-end
	name string // RLock/RUnlock/Lock/Unlock | rlockBoth/runlockBoth | method name
	ops  []string
	// for access: ops[0] = operand (recv/arg), write flag
	write bool
}

func (e SEvent) String() string {
	switch e.kind {
	case "access":
		w := "r"
		if e.write {
			w = "w"
		}
		return "acc(" + e.ops[0] + "," + w + ")"
	case "go-begin", "go-end":
		return e.kind
	}
	return e.name + "(" + strings.Join(e.ops, ",") + ")"
}

var lockMethods = map[string]bool{"Lock": true, "Unlock": true, "RLock": true, "RUnlock": true}

// conditional acquisitions and the acquisition a granted one is (the hook reports a granted try under that name)
var tryLockMethods = map[string]string{"TryLock": "Lock", "TryRLock": "RLock"}

// ---------------------------------------------------------------------------------
// dynamic part: lock-event traces recorded through the verif hook

type DEvent struct {
	Op  string // RLock | RUnlock | Lock | Unlock
	Set int    // 0 = the set the library locks first of the two (OrderedPair), 1 = the other
}

// OrderedPair returns two fresh sets (1,2) and (2,3) named by the order in which the library itself
// acquires their locks when one operation needs both: lo is the set a two-set operation locks first
// (asked of the running code through the hook, with x.Equal(y) and y.Equal(x)); if that does not
// single out one of them — the two calls disagree, or lock only one set — lo is the set with the
// lower address. Whatever global order the library uses (addresses, creation numbers, …), lock 0 is
// then "the one that comes first in it", so the recorded sequences do not depend on where the
// allocator happened to put the two sets.
func OrderedPair() (lo, hi mapset.Set) { return OrderedPairShape("base") }

// Shapes: how the two sets of a recording / replay / stress run come about and how long the argument list of a
// variadic operation is. The lock events of an operation must not depend on any of that; a shape whose recorded
// events differ from the base shape's is kept as an entry of its own (`Op@shape`) and has to pass the same
// obligations.
//
//	base        two fresh two-member sets, one argument
//	apart256    the second set is created exactly 256 thread-safe sets after the first (a creation number kept in 8 bits)
//	apart65536  ... exactly 65536 after the first (kept in 16 bits)
//	big         2500 members each, 600 arguments (anything done in batches, by size or by count)
var Shapes = []string{"base", "apart256", "apart65536", "big"}

// NArgs is the number of arguments a variadic operation is called with under a shape.
func NArgs(shape string) int {
	if shape == "big" {
		return 600
	}
	return 1
}

// BigSize is the number of members of a "big" operand of an operation (PowerSet and CartesianProduct grow too fast).
func BigSize(method string) int {
	switch method {
	case "PowerSet":
		return 10
	case "CartesianProduct":
		return 200
	}
	return 2500
}

func shapedPair(shape string, method string) (x, y mapset.Set) {
	x = mapset.NewSet(1, 2)
	switch shape {
	case "apart256":
		for i := 0; i < 255; i++ {
			mapset.NewSet()
		}
	case "apart65536":
		for i := 0; i < 65535; i++ {
			mapset.NewSet()
		}
	}
	y = mapset.NewSet(2, 3)
	if shape == "big" {
		n := BigSize(method)
		for i := 10; i < 10+n; i++ {
			x.Add(i)
			y.Add(i + n/2)
		}
	}
	return
}

func OrderedPairShape(shape string) (lo, hi mapset.Set) { return OrderedPairFor(shape, "") }

func OrderedPairFor(shape string, method string) (lo, hi mapset.Set) {
	x, y := shapedPair(shape, method)
	first := func(recv, arg mapset.Set) mapset.Set {
		var mu sync.Mutex
		var got mapset.Set
		mapset.VerifLockHook = func(set any, op string, phase int) {
			if phase != 1 || (op != "RLock" && op != "Lock") {
				return
			}
			mu.Lock()
			defer mu.Unlock()
			if got != nil {
				return
			}
			switch reflect.ValueOf(set).Pointer() {
			case reflect.ValueOf(x).Pointer():
				got = x
			case reflect.ValueOf(y).Pointer():
				got = y
			}
		}
		func() {
			defer func() { recover() }()
			recv.Equal(arg)
		}()
		mapset.VerifLockHook = nil
		return got
	}
	f1, f2 := first(x, y), first(y, x)
	switch {
	case f1 != nil && f1 == f2 && f1 == x:
		return x, y
	case f1 != nil && f1 == f2 && f1 == y:
		return y, x
	}
	if reflect.ValueOf(x).Pointer() > reflect.ValueOf(y).Pointer() {
		return y, x
	}
	return x, y
}

func RecordTrace(method string, pattern string) ([]DEvent, error) {
	return RecordTraceShape(method, pattern, "base")
}

func RecordTraceShape(method string, pattern string, shape string) ([]DEvent, error) {
	// lock ids by the library's own acquisition order (address order in the repaired code)
	lo, hi := OrderedPairFor(shape, method)
	idOf := func(s any) int {
		switch reflect.ValueOf(s).Pointer() {
		case reflect.ValueOf(lo).Pointer():
			return 0
		case reflect.ValueOf(hi).Pointer():
			return 1
		}
		return -1 // a set created inside the operation: nobody else can see it
	}
	var recv, arg mapset.Set
	switch pattern {
	case "A", "AB":
		recv, arg = lo, hi
	case "B":
		recv, arg = hi, hi
	case "BA":
		recv, arg = hi, lo
	case "AA":
		recv, arg = lo, lo
	}
	var mu sync.Mutex
	var trace []DEvent
	mapset.VerifLockHook = func(set any, op string, phase int) {
		if phase != 1 {
			return
		}
		if id := idOf(set); id >= 0 {
			mu.Lock()
			trace = append(trace, DEvent{op, id})
			mu.Unlock()
		}
	}
	defer func() { mapset.VerifLockHook = nil }()
	m := reflect.ValueOf(recv).MethodByName(method)
	if !m.IsValid() {
		return nil, fmt.Errorf("method %s not found on the thread-safe set", method)
	}
	var args []reflect.Value
	mt := m.Type()
	for i := 0; i < mt.NumIn(); i++ {
		in := mt.In(i)
		switch {
		case mt.IsVariadic() && i == mt.NumIn()-1:
			for k := 0; k < NArgs(shape); k++ {
				args = append(args, reflect.ValueOf(1+k))
			}
		case in.Kind() == reflect.Interface && in.NumMethod() > 0:
			args = append(args, reflect.ValueOf(arg))
		default:
			args = append(args, reflect.ValueOf(any(1)).Convert(in))
		}
	}
	res := m.Call(args)
	// an operation that hands out a channel is complete once the channel is drained
	for _, r := range res {
		if r.Kind() == reflect.Chan {
			for {
				if _, ok := r.Recv(); !ok {
					break
				}
			}
		}
	}
	mu.Lock()
	defer mu.Unlock()
	return append([]DEvent{}, trace...), nil
}

// ---------------------------------------------------------------------------------
// alignment: interleave the static accesses with the recorded lock events

type Act struct {
	Kind  string // rlock runlock wlock unlock access
	Lock  int
	Write bool
}

func (a Act) Lean() string {
	if a.Kind == "access" {
		return fmt.Sprintf(".access %d %v", a.Lock, a.Write)
	}
	return fmt.Sprintf(".%s %d", a.Kind, a.Lock)
}

// protocol form: rlock0 access1w …
func (a Act) Token() string {
	if a.Kind == "access" {
		w := "r"
		if a.Write {
			w = "w"
		}
		return fmt.Sprintf("access%d%s", a.Lock, w)
	}
	return fmt.Sprintf("%s%d", a.Kind, a.Lock)
}

var dynKind = map[string]string{"RLock": "rlock", "RUnlock": "runlock", "Lock": "wlock", "Unlock": "unlock"}

// Entry is one operation under one operand assignment.
type Entry struct {
	Op, Pattern string
	Acts        []Act
}

// LockOf gives the lock id of receiver and argument under a pattern (A = lock 0 = lower address).
func LockOf(pattern string) map[string]int {
	switch pattern {
	case "B":
		return map[string]int{"recv": 1, "arg": 1}
	case "BA":
		return map[string]int{"recv": 1, "arg": 0}
	case "AA":
		return map[string]int{"recv": 0, "arg": 0}
	}
	return map[string]int{"recv": 0, "arg": 1}
}

// OpNames lists the operations of the Set interface of the RUNNING code (reflection), with whether
// they take another set.
func OpNames() (names []string, binary map[string]bool) {
	t := reflect.TypeOf((*mapset.Set)(nil)).Elem()
	binary = map[string]bool{}
	for i := 0; i < t.NumMethod(); i++ {
		m := t.Method(i)
		names = append(names, m.Name)
		for k := 0; k < m.Type.NumIn(); k++ {
			if m.Type.In(k) == t {
				binary[m.Name] = true
			}
		}
	}
	sort.Strings(names)
	return
}

func patternsOf(binary bool) []string {
	if binary {
		return []string{"AB", "BA", "AA"}
	}
	return []string{"A", "B"}
}

// Skeletons records the lock events of every operation under every operand assignment over two
// sets from the running code alone (no source involved).
func Skeletons() ([]Entry, error) {
	names, binary := OpNames()
	var out []Entry
	for _, n := range names {
		for _, p := range patternsOf(binary[n]) {
			var base string
			for _, shape := range Shapes {
				tr, err := RecordTraceShape(n, p, shape)
				if err != nil {
					return nil, err
				}
				acts := make([]Act, len(tr))
				for i, t := range tr {
					acts[i] = Act{dynKind[t.Op], t.Set, false}
				}
				key := fmt.Sprint(acts)
				if shape == "base" {
					base = key
					out = append(out, Entry{n, p, acts})
				} else if key != base {
					// the lock events depend on how the sets came about / how much there is to do
					out = append(out, Entry{n + "@" + shape, p, acts})
				}
			}
		}
	}
	return out, nil
}

func pathString(p []SEvent) string {
	parts := make([]string, len(p))
	for i, e := range p {
		parts[i] = e.String()
	}
	return strings.Join(parts, " ")
}

// All walks the source of every operation (see absint.go), records every operation under every
// operand assignment over two sets, and keeps the source paths whose lock calls are exactly the
// recorded lock events: the result interleaves the recorded lock events with the accesses to the
// sets' maps found in the source. Several entries for one (operation, assignment) mean that several
// source paths fit the recorded events; each of them is kept.
func All(repo string) (map[string]string, []Entry, error) {
	in, err := LoadMapset(repo)
	if err != nil {
		return nil, nil, err
	}
	srcNames, srcBinary, err := in.Ops()
	if err != nil {
		return nil, nil, err
	}
	names, binary := OpNames()
	if strings.Join(srcNames, ",") != strings.Join(names, ",") {
		return nil, nil, fmt.Errorf("the Set interface has operations %v in the source, %v in the running code", srcNames, names)
	}
	static := map[string]string{}
	var out []Entry
	for _, n := range names {
		if binary[n] != srcBinary[n] {
			return nil, nil, fmt.Errorf("%s: source and running code disagree on whether it takes another set", n)
		}
		for _, p := range patternsOf(binary[n]) {
			var baseTr string
			for _, shape := range Shapes {
				tr, err := RecordTraceShape(n, p, shape)
				if err != nil {
					return nil, nil, err
				}
				if shape == "base" {
					baseTr = fmt.Sprint(tr)
				} else if fmt.Sprint(tr) == baseTr {
					continue
				}
				n := n
				if shape != "base" {
					n = n + "@" + shape
				}
				paths, err := in.Paths(strings.SplitN(n, "@", 2)[0], p == "AA")
				if err != nil {
					return nil, nil, fmt.Errorf("walking %s(%s): %v", n, p, err)
				}
				lockOf := LockOf(p)
				seen := map[string]bool{}
				var closest string
				matched := 0
				for _, path := range paths {
					var acts []Act
					k, ok := 0, true
					for _, e := range path {
						switch e.kind {
						case "access":
							acts = append(acts, Act{"access", lockOf[e.ops[0]], e.write})
						case "lock":
							id := lockOf[e.ops[0]]
							if k >= len(tr) || tr[k].Op != e.name || tr[k].Set != id {
								ok = false
							} else {
								acts = append(acts, Act{dynKind[e.name], id, false})
							}
							k++
						}
					}
					if !ok || k != len(tr) {
						if closest == "" {
							closest = pathString(path)
						}
						continue
					}
					matched++
					parts := make([]string, len(acts))
					for i, a := range acts {
						parts[i] = a.Token()
					}
					key := strings.Join(parts, ",")
					if !seen[key] {
						seen[key] = true
						out = append(out, Entry{n, p, acts})
						if static[n+":"+p] != "" {
							static[n+":"+p] += " | "
						}
						static[n+":"+p] += pathString(path)
					}
				}
				if matched == 0 {
					return nil, nil, fmt.Errorf("aligning %s(%s): none of the %d source paths makes the recorded lock events %v; e.g. the source path [%s]", n, p, len(paths), tr, closest)
				}
			}
		}
	}
	return static, out, nil
}
