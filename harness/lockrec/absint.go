package lockrec

// Abstract interpreter over the source of utils/mapset (go/ast + go/types): for one operation of
// the thread-safe set and one operand assignment it enumerates the execution paths through the
// operation's code — inlining the functions that handle thread-safe sets, function literals,
// method values / expressions and deferred calls — and yields, per path, the sequence of lock
// calls and of accesses to the operands' maps in execution order. Functions that only see the
// unlocked data (threadUnsafeSet methods and the like) are not inlined: a flow-insensitive
// summary says which of their parameters they read and write.
//
// What is over-approximated (soundly for "every access happens under its lock"): both arms of a
// branch whose condition is not an operand identity test are explored as separate paths; a loop
// body is taken once (and zero times when it returns or locks); a call that leaves the package
// with an operand's map is a read of that map.

import (
	"fmt"
	"go/ast"
	"go/importer"
	"go/parser"
	"go/token"
	"go/types"
	"os"
	"path/filepath"
	"sort"
	"strings"
)

type avKind int

const (
	avUnknown avKind = iota
	avSet            // a thread-safe set operand (pointer or interface)
	avMutex          // the lock of an operand
	avData           // the map of an operand (value or pointer)
	avFunc
	avFresh // a value created inside the operation, not shared
	avBool  // a condition with a known value
)

type AV struct {
	kind avKind
	op   string // recv | arg | fresh (locks of unshared sets)
	fn   *funcVal
	b    bool
}

type funcVal struct {
	decl       *ast.FuncDecl
	lit        *ast.FuncLit
	env        *env
	frame      int
	recv       *AV
	methodExpr bool
	ifaceName  string // interface method value: dispatched when called
}

// immutable environment: forks share structure
type env struct {
	obj    types.Object
	v      AV
	frame  int
	parent *env
}

func (e *env) bind(o types.Object, v AV, frame int) *env {
	return &env{obj: o, v: v, frame: frame, parent: e}
}

func (e *env) lookup(o types.Object) (AV, int, bool) {
	for c := e; c != nil; c = c.parent {
		if c.obj == o {
			return c.v, c.frame, true
		}
	}
	return AV{}, 0, false
}

type deferred struct {
	call *ast.CallExpr
	env  *env
}

type state struct {
	events   []SEvent
	env      *env
	frame    int
	defers   []deferred
	returned bool
	ret      AV
	// a panic is unwinding: every enclosing function returns at once (its deferred calls still run)
	panicking bool
	pending   bool // the panic that is suspended while a deferred call runs (recover() clears it)
}

func (s *state) clone() *state {
	c := *s
	c.events = append([]SEvent(nil), s.events...)
	c.defers = append([]deferred(nil), s.defers...)
	return &c
}

func (s *state) emit(e SEvent) { s.events = append(s.events, e) }

type res struct {
	st *state
	v  AV
}

type summary struct {
	read, write []bool // index 0 = receiver (when there is one), then parameters
	retAlias    []bool
	nrecv       int
}

type Interp struct {
	fset      *token.FileSet
	info      *types.Info
	pkg       *types.Package
	decls     map[*types.Func]*ast.FuncDecl
	tsMethods map[string]*ast.FuncDecl // methods of *threadSafeSet by name
	tuMethods map[string]*ast.FuncDecl // methods of the unlocked implementation by name
	summaries map[*ast.FuncDecl]*summary
	tsType    *types.Named
	same      bool // receiver and argument are the same set (pattern AA)
	err       error
	depth     int
	nframe    int
	budget    int
}

func (in *Interp) fail(pos token.Pos, format string, a ...any) {
	if in.err == nil {
		in.err = fmt.Errorf("%s: %s", in.fset.Position(pos), fmt.Sprintf(format, a...))
	}
}

// LoadMapset parses and type-checks utils/mapset from source (offline: source importer).
func LoadMapset(repo string) (*Interp, error) {
	dir := filepath.Join(repo, "utils", "mapset")
	fset := token.NewFileSet()
	pkgs, err := parser.ParseDir(fset, dir, func(fi os.FileInfo) bool {
		return !strings.HasSuffix(fi.Name(), "_test.go") && fi.Name() != "verif_hooks.go"
	}, 0)
	if err != nil {
		return nil, err
	}
	p, ok := pkgs["mapset"]
	if !ok {
		return nil, fmt.Errorf("package mapset not found in %s", dir)
	}
	var names []string
	for n := range p.Files {
		names = append(names, n)
	}
	sort.Strings(names)
	var files []*ast.File
	for _, n := range names {
		files = append(files, p.Files[n])
	}
	info := &types.Info{
		Types: map[ast.Expr]types.TypeAndValue{}, Defs: map[*ast.Ident]types.Object{}, Uses: map[*ast.Ident]types.Object{},
		Selections: map[*ast.SelectorExpr]*types.Selection{}, Implicits: map[ast.Node]types.Object{}, Instances: map[*ast.Ident]types.Instance{},
	}
	wd, _ := os.Getwd()
	os.Chdir(repo)
	conf := types.Config{Importer: importer.ForCompiler(fset, "source", nil), Error: func(error) {}}
	pkg, err := conf.Check("github.com/ilius/libgostarcal/utils/mapset", fset, files, info)
	os.Chdir(wd)
	if err != nil {
		return nil, fmt.Errorf("type-checking utils/mapset: %v", err)
	}
	in := &Interp{fset: fset, info: info, pkg: pkg, decls: map[*types.Func]*ast.FuncDecl{},
		tsMethods: map[string]*ast.FuncDecl{}, tuMethods: map[string]*ast.FuncDecl{}, summaries: map[*ast.FuncDecl]*summary{}}
	tsObj := pkg.Scope().Lookup("threadSafeSet")
	if tsObj == nil {
		return nil, fmt.Errorf("type threadSafeSet not found in utils/mapset")
	}
	in.tsType, _ = tsObj.Type().(*types.Named)
	if in.tsType == nil {
		return nil, fmt.Errorf("threadSafeSet is not a named type")
	}
	for _, f := range files {
		for _, d := range f.Decls {
			fd, ok := d.(*ast.FuncDecl)
			if !ok || fd.Body == nil {
				continue
			}
			obj, _ := info.Defs[fd.Name].(*types.Func)
			if obj == nil {
				continue
			}
			in.decls[obj] = fd
			if rt := in.recvNamed(obj); rt != nil {
				if rt == in.tsType {
					in.tsMethods[fd.Name.Name] = fd
				} else if rt.Obj().Name() == "threadUnsafeSet" {
					in.tuMethods[fd.Name.Name] = fd
				}
			}
		}
	}
	in.computeSummaries()
	return in, nil
}

func (in *Interp) recvNamed(f *types.Func) *types.Named {
	sig, _ := f.Type().(*types.Signature)
	if sig == nil || sig.Recv() == nil {
		return nil
	}
	t := sig.Recv().Type()
	if p, ok := t.(*types.Pointer); ok {
		t = p.Elem()
	}
	n, _ := t.(*types.Named)
	if n != nil {
		n = n.Origin()
	}
	return n
}

// Ops lists the operations of the Set interface as the source declares them, with whether they
// take another set.
func (in *Interp) Ops() (names []string, binary map[string]bool, err error) {
	obj := in.pkg.Scope().Lookup("Set")
	if obj == nil {
		return nil, nil, fmt.Errorf("interface Set not found")
	}
	it, _ := obj.Type().Underlying().(*types.Interface)
	if it == nil {
		return nil, nil, fmt.Errorf("Set is not an interface")
	}
	binary = map[string]bool{}
	for i := 0; i < it.NumMethods(); i++ {
		m := it.Method(i)
		names = append(names, m.Name())
		sig := m.Type().(*types.Signature)
		for k := 0; k < sig.Params().Len(); k++ {
			if types.Identical(sig.Params().At(k).Type(), obj.Type()) {
				binary[m.Name()] = true
			}
		}
	}
	sort.Strings(names)
	return
}

func mentions(t types.Type, n *types.Named, depth int) bool {
	if depth > 6 || t == nil {
		return false
	}
	switch x := t.(type) {
	case *types.Named:
		return x.Origin() == n
	case *types.Pointer:
		return mentions(x.Elem(), n, depth+1)
	case *types.Slice:
		return mentions(x.Elem(), n, depth+1)
	}
	return false
}

func hasLockCalls(body ast.Node) bool {
	found := false
	ast.Inspect(body, func(n ast.Node) bool {
		if ce, ok := n.(*ast.CallExpr); ok {
			if sel, ok := ce.Fun.(*ast.SelectorExpr); ok {
				if _, isTry := tryLockMethods[sel.Sel.Name]; isTry || lockMethods[sel.Sel.Name] {
					found = true
				}
			}
		}
		return !found
	})
	return found
}

// a function is walked (inlined) when it can handle a thread-safe set or calls what it is handed
func (in *Interp) shouldInline(fd *ast.FuncDecl) bool {
	obj, _ := in.info.Defs[fd.Name].(*types.Func)
	if obj == nil {
		return false
	}
	sig := obj.Type().(*types.Signature)
	if sig.Recv() != nil && mentions(sig.Recv().Type(), in.tsType, 0) {
		return true
	}
	for i := 0; i < sig.Params().Len(); i++ {
		t := sig.Params().At(i).Type()
		if mentions(t, in.tsType, 0) {
			return true
		}
		if _, ok := t.Underlying().(*types.Signature); ok {
			return true
		}
	}
	return hasLockCalls(fd.Body)
}

// ---------------------------------------------------------------------------------
// summaries of the functions that are not walked

func (in *Interp) paramObjs(fd *ast.FuncDecl) (objs []types.Object, nrecv int) {
	if fd.Recv != nil {
		for _, f := range fd.Recv.List {
			if len(f.Names) == 0 {
				objs = append(objs, nil)
			}
			for _, n := range f.Names {
				objs = append(objs, in.info.Defs[n])
			}
		}
		nrecv = len(objs)
	}
	for _, f := range fd.Type.Params.List {
		if len(f.Names) == 0 {
			objs = append(objs, nil)
		}
		for _, n := range f.Names {
			objs = append(objs, in.info.Defs[n])
		}
	}
	return
}

// pointerLike: a value of this type can share storage with what a function was handed
func pointerLike(t types.Type) bool {
	switch t.Underlying().(type) {
	case *types.Pointer, *types.Interface, *types.Map, *types.Slice, *types.Signature:
		return true
	}
	return false
}

// calleeOf: the declaration inside the package that a call expression calls, and its receiver expression
func (in *Interp) calleeOf(x *ast.CallExpr) (*ast.FuncDecl, ast.Expr) {
	switch f := unparen(x.Fun).(type) {
	case *ast.Ident:
		if fo, ok := in.info.Uses[f].(*types.Func); ok {
			return in.decls[fo.Origin()], nil
		}
	case *ast.SelectorExpr:
		if sel := in.info.Selections[f]; sel != nil && sel.Kind() == types.MethodVal {
			if fo, ok := sel.Obj().(*types.Func); ok {
				if d := in.decls[fo.Origin()]; d != nil {
					return d, f.X
				}
				return in.tuMethods[fo.Name()], f.X
			}
		}
	}
	return nil, nil
}

func (in *Interp) computeSummaries() {
	type fnInfo struct {
		fd    *ast.FuncDecl
		objs  []types.Object
		alias map[types.Object]map[int]bool
	}
	var fns []*fnInfo
	for _, fd := range in.decls {
		objs, nrecv := in.paramObjs(fd)
		s := &summary{read: make([]bool, len(objs)), write: make([]bool, len(objs)), retAlias: make([]bool, len(objs)), nrecv: nrecv}
		in.summaries[fd] = s
		fi := &fnInfo{fd: fd, objs: objs, alias: map[types.Object]map[int]bool{}}
		for i, o := range objs {
			if o != nil {
				fi.alias[o] = map[int]bool{i: true}
			}
		}
		fns = append(fns, fi)
	}
	for _, fi := range fns {
		fi := fi
		// roots of an expression: the parameters it may refer to
		var roots func(e ast.Expr) map[int]bool
		roots = func(e ast.Expr) map[int]bool {
			switch x := e.(type) {
			case *ast.Ident:
				if o := in.info.Uses[x]; o != nil {
					return fi.alias[o]
				}
				if o := in.info.Defs[x]; o != nil {
					return fi.alias[o]
				}
			case *ast.ParenExpr:
				return roots(x.X)
			case *ast.StarExpr:
				return roots(x.X)
			case *ast.UnaryExpr:
				if x.Op == token.AND {
					return roots(x.X)
				}
			case *ast.TypeAssertExpr:
				return roots(x.X)
			case *ast.CallExpr:
				if tv, ok := in.info.Types[x.Fun]; ok && tv.IsType() && len(x.Args) == 1 {
					return roots(x.Args[0])
				}
				// a function of the package that hands back a pointer-like value may hand back (part of) what it was
				// given: `o := same(other)`
				if callee, recvExpr := in.calleeOf(x); callee != nil {
					if tv, ok := in.info.Types[x]; ok && tv.Type != nil && pointerLike(tv.Type) {
						r := map[int]bool{}
						for _, a := range x.Args {
							for k := range roots(a) {
								r[k] = true
							}
						}
						if recvExpr != nil {
							for k := range roots(recvExpr) {
								r[k] = true
							}
						}
						return r
					}
				}
			case *ast.SelectorExpr:
				// a method value `x.m` keeps x
				if sel := in.info.Selections[x]; sel != nil && sel.Kind() == types.MethodVal {
					return roots(x.X)
				}
			}
			return nil
		}
		addAlias := func(o types.Object, r map[int]bool) bool {
			if o == nil || len(r) == 0 {
				return false
			}
			if fi.alias[o] == nil {
				fi.alias[o] = map[int]bool{}
			}
			ch := false
			for k := range r {
				if !fi.alias[o][k] {
					fi.alias[o][k] = true
					ch = true
				}
			}
			return ch
		}
		// local aliases, to a fixpoint
		for changed := true; changed; {
			changed = false
			ast.Inspect(fi.fd.Body, func(n ast.Node) bool {
				switch x := n.(type) {
				case *ast.AssignStmt:
					if len(x.Lhs) == len(x.Rhs) {
						for i, l := range x.Lhs {
							if id, ok := l.(*ast.Ident); ok {
								o := in.info.Defs[id]
								if o == nil {
									o = in.info.Uses[id]
								}
								if addAlias(o, roots(x.Rhs[i])) {
									changed = true
								}
							}
						}
					} else if len(x.Rhs) == 1 && len(x.Lhs) >= 1 { // v, ok := x.(T)
						if id, ok := x.Lhs[0].(*ast.Ident); ok {
							o := in.info.Defs[id]
							if o == nil {
								o = in.info.Uses[id]
							}
							if addAlias(o, roots(x.Rhs[0])) {
								changed = true
							}
						}
					}
				case *ast.ValueSpec:
					for i, id := range x.Names {
						if i < len(x.Values) {
							if addAlias(in.info.Defs[id], roots(x.Values[i])) {
								changed = true
							}
						}
					}
				case *ast.TypeSwitchStmt:
					if as, ok := x.Assign.(*ast.AssignStmt); ok && len(as.Rhs) == 1 {
						r := roots(as.Rhs[0])
						for _, c := range x.Body.List {
							if o := in.info.Implicits[c]; o != nil {
								if addAlias(o, r) {
									changed = true
								}
							}
						}
					}
				}
				return true
			})
		}
	}
	// direct effects + propagation through calls inside the package, to a fixpoint
	for changed := true; changed; {
		changed = false
		for _, fi := range fns {
			fi := fi
			s := in.summaries[fi.fd]
			var roots func(e ast.Expr) map[int]bool
			roots = func(e ast.Expr) map[int]bool {
				switch x := e.(type) {
				case *ast.Ident:
					if o := in.info.Uses[x]; o != nil {
						return fi.alias[o]
					}
				case *ast.ParenExpr:
					return roots(x.X)
				case *ast.StarExpr:
					return roots(x.X)
				case *ast.UnaryExpr:
					if x.Op == token.AND {
						return roots(x.X)
					}
				case *ast.TypeAssertExpr:
					return roots(x.X)
				case *ast.CallExpr:
					if tv, ok := in.info.Types[x.Fun]; ok && tv.IsType() && len(x.Args) == 1 {
						return roots(x.Args[0])
					}
					if callee, recvExpr := in.calleeOf(x); callee != nil {
						if tv, ok := in.info.Types[x]; ok && tv.Type != nil && pointerLike(tv.Type) {
							r := map[int]bool{}
							for _, a := range x.Args {
								for k := range roots(a) {
									r[k] = true
								}
							}
							if recvExpr != nil {
								for k := range roots(recvExpr) {
									r[k] = true
								}
							}
							return r
						}
					}
				case *ast.SelectorExpr:
					if sel := in.info.Selections[x]; sel != nil && sel.Kind() == types.MethodVal {
						return roots(x.X)
					}
				}
				return nil
			}
			mark := func(r map[int]bool, write bool) {
				for k := range r {
					if write && !s.write[k] {
						s.write[k] = true
						changed = true
					}
					if !write && !s.read[k] {
						s.read[k] = true
						changed = true
					}
				}
			}
			lvalue := func(e ast.Expr) {
				switch x := e.(type) {
				case *ast.IndexExpr:
					mark(roots(x.X), true)
				case *ast.StarExpr:
					mark(roots(x.X), true)
				}
			}
			ast.Inspect(fi.fd.Body, func(n ast.Node) bool {
				switch x := n.(type) {
				case *ast.AssignStmt:
					for _, l := range x.Lhs {
						lvalue(l)
					}
				case *ast.IncDecStmt:
					lvalue(x.X)
				case *ast.IndexExpr:
					mark(roots(x.X), false)
				case *ast.SelectorExpr:
					// a method value `x.m` (handed on as a function value): whoever calls it does to x what m does to its
					// receiver — counted where the value is made
					if sel := in.info.Selections[x]; sel != nil && sel.Kind() == types.MethodVal {
						if fo, ok := sel.Obj().(*types.Func); ok {
							callee := in.decls[fo.Origin()]
							if callee == nil {
								callee = in.tuMethods[fo.Name()]
							}
							if callee != nil {
								if cs := in.summaries[callee]; cs != nil && cs.nrecv > 0 && len(cs.read) > 0 {
									if cs.read[0] {
										mark(roots(x.X), false)
									}
									if cs.write[0] {
										mark(roots(x.X), true)
									}
								}
							}
						}
					}
				case *ast.RangeStmt:
					mark(roots(x.X), false)
				case *ast.ReturnStmt:
					for _, r := range x.Results {
						for k := range roots(r) {
							if !s.retAlias[k] {
								s.retAlias[k] = true
								changed = true
							}
						}
					}
				case *ast.CallExpr:
					if id, ok := x.Fun.(*ast.Ident); ok {
						if b, ok := in.info.Uses[id].(*types.Builtin); ok {
							switch b.Name() {
							case "delete", "clear":
								if len(x.Args) > 0 {
									mark(roots(x.Args[0]), true)
								}
							default:
								for _, a := range x.Args {
									mark(roots(a), false)
								}
							}
							return true
						}
					}
					if tv, ok := in.info.Types[x.Fun]; ok && tv.IsType() {
						return true
					}
					// callee inside the package?
					var callee *ast.FuncDecl
					var recvExpr ast.Expr
					switch f := x.Fun.(type) {
					case *ast.Ident:
						if fo, ok := in.info.Uses[f].(*types.Func); ok {
							callee = in.decls[fo]
						}
					case *ast.SelectorExpr:
						if sel := in.info.Selections[f]; sel != nil && sel.Kind() == types.MethodVal {
							recvExpr = f.X
							if fo, ok := sel.Obj().(*types.Func); ok {
								callee = in.decls[fo.Origin()]
								if callee == nil {
									// interface method: the unlocked implementation's method of that name
									callee = in.tuMethods[fo.Name()]
								}
							}
						}
					}
					if callee != nil {
						cs := in.summaries[callee]
						apply := func(idx int, e ast.Expr) {
							if idx >= len(cs.read) {
								idx = len(cs.read) - 1
							}
							if idx < 0 {
								return
							}
							r := roots(e)
							if cs.read[idx] {
								mark(r, false)
							}
							if cs.write[idx] {
								mark(r, true)
							}
						}
						off := 0
						if cs.nrecv > 0 {
							off = 1
							if recvExpr != nil {
								apply(0, recvExpr)
							}
						}
						for i, a := range x.Args {
							apply(off+i, a)
						}
					} else {
						// leaves the package (or an unknown function value): a read of what it is handed
						if recvExpr != nil {
							mark(roots(recvExpr), false)
						}
						for _, a := range x.Args {
							mark(roots(a), false)
						}
					}
				}
				return true
			})
		}
	}
}

// ---------------------------------------------------------------------------------
// evaluation

func (in *Interp) isMutexType(t types.Type) bool {
	if p, ok := t.(*types.Pointer); ok {
		t = p.Elem()
	}
	n, ok := t.(*types.Named)
	return ok && n.Obj().Pkg() != nil && n.Obj().Pkg().Path() == "sync" && (n.Obj().Name() == "RWMutex" || n.Obj().Name() == "Mutex")
}

func (in *Interp) isUnsafeSetType(t types.Type) bool {
	if p, ok := t.(*types.Pointer); ok {
		t = p.Elem()
	}
	n, ok := t.(*types.Named)
	return ok && n.Obj().Pkg() == in.pkg && n.Obj().Name() == "threadUnsafeSet"
}

func isPointer(t types.Type) bool {
	if t == nil {
		return false
	}
	_, ok := t.Underlying().(*types.Pointer)
	return ok
}

// a value-typed use of an operand's map copies its header: a read
func (in *Interp) headerRead(e ast.Expr, v AV, st *state) {
	if v.kind != avData {
		return
	}
	if tv, ok := in.info.Types[e]; ok && !isPointer(tv.Type) {
		if _, isIface := tv.Type.Underlying().(*types.Interface); !isIface {
			st.emit(SEvent{kind: "access", ops: []string{v.op}})
		}
	}
}

func (in *Interp) objOf(id *ast.Ident) types.Object {
	if o := in.info.Defs[id]; o != nil {
		return o
	}
	return in.info.Uses[id]
}

func (in *Interp) evalList(es []ast.Expr, st *state) []struct {
	st *state
	vs []AV
} {
	type item = struct {
		st *state
		vs []AV
	}
	cur := []item{{st, nil}}
	for _, e := range es {
		var next []item
		for _, c := range cur {
			for _, r := range in.eval(e, c.st) {
				next = append(next, item{r.st, append(append([]AV(nil), c.vs...), r.v)})
			}
		}
		cur = next
	}
	return cur
}

func (in *Interp) eval(e ast.Expr, st *state) []res {
	if e == nil || in.err != nil {
		return []res{{st, AV{}}}
	}
	switch x := e.(type) {
	case *ast.Ident:
		o := in.objOf(x)
		switch oo := o.(type) {
		case *types.Func:
			if fd := in.decls[oo.Origin()]; fd != nil {
				return []res{{st, AV{kind: avFunc, fn: &funcVal{decl: fd}}}}
			}
			return []res{{st, AV{}}}
		case *types.Const:
			if x.Name == "true" || x.Name == "false" {
				return []res{{st, AV{kind: avBool, b: x.Name == "true"}}}
			}
		case *types.Nil:
			return []res{{st, AV{kind: avFresh}}}
		}
		if o != nil {
			if v, _, ok := st.env.lookup(o); ok {
				return []res{{st, v}}
			}
		}
		return []res{{st, AV{}}}
	case *ast.ParenExpr:
		return in.eval(x.X, st)
	case *ast.FuncLit:
		return []res{{st, AV{kind: avFunc, fn: &funcVal{lit: x, env: st.env, frame: st.frame}}}}
	case *ast.SelectorExpr:
		sel := in.info.Selections[x]
		if sel == nil {
			return []res{{st, AV{}}} // qualified identifier
		}
		switch sel.Kind() {
		case types.FieldVal:
			var out []res
			for _, r := range in.eval(x.X, st) {
				v := AV{}
				switch r.v.kind {
				case avSet:
					if in.isMutexType(sel.Type()) {
						v = AV{kind: avMutex, op: r.v.op}
					} else {
						v = AV{kind: avData, op: r.v.op}
					}
				case avFresh:
					v = AV{kind: avFresh}
				case avData:
					v = r.v
				}
				out = append(out, res{r.st, v})
			}
			return out
		case types.MethodVal:
			var out []res
			for _, r := range in.eval(x.X, st) {
				rv := r.v
				fo, _ := sel.Obj().(*types.Func)
				fv := &funcVal{recv: &rv}
				if fo != nil {
					fv.decl = in.decls[fo.Origin()]
					if fv.decl == nil {
						fv.ifaceName = fo.Name()
					}
				}
				out = append(out, res{r.st, AV{kind: avFunc, fn: fv}})
			}
			return out
		case types.MethodExpr:
			fo, _ := sel.Obj().(*types.Func)
			fv := &funcVal{methodExpr: true}
			if fo != nil {
				fv.decl = in.decls[fo.Origin()]
				if fv.decl == nil {
					fv.ifaceName = fo.Name()
				}
			}
			return []res{{st, AV{kind: avFunc, fn: fv}}}
		}
		return []res{{st, AV{}}}
	case *ast.CallExpr:
		return in.evalCall(x, st)
	case *ast.StarExpr:
		return in.eval(x.X, st)
	case *ast.TypeAssertExpr:
		return in.eval(x.X, st)
	case *ast.UnaryExpr:
		rs := in.eval(x.X, st)
		if x.Op == token.AND {
			return rs
		}
		for i := range rs {
			if x.Op == token.NOT && rs[i].v.kind == avBool {
				rs[i].v = AV{kind: avBool, b: !rs[i].v.b}
			} else {
				rs[i].v = AV{}
			}
		}
		return rs
	case *ast.BinaryExpr:
		var out []res
		for _, l := range in.eval(x.X, st) {
			for _, r := range in.eval(x.Y, l.st) {
				v := AV{}
				switch x.Op {
				case token.EQL, token.NEQ:
					if l.v.kind == avSet && r.v.kind == avSet {
						eq := l.v.op == r.v.op || in.same
						v = AV{kind: avBool, b: eq == (x.Op == token.EQL)}
					} else if (l.v.kind == avSet && r.v.kind == avFresh) || (l.v.kind == avFresh && r.v.kind == avSet) {
						v = AV{kind: avBool, b: x.Op == token.NEQ} // an operand is not nil / not a new set
					}
				case token.LAND:
					if l.v.kind == avBool && !l.v.b {
						v = l.v
					} else if l.v.kind == avBool && r.v.kind == avBool {
						v = AV{kind: avBool, b: l.v.b && r.v.b}
					} else if r.v.kind == avBool && !r.v.b {
						v = r.v
					}
				case token.LOR:
					if l.v.kind == avBool && l.v.b {
						v = l.v
					} else if l.v.kind == avBool && r.v.kind == avBool {
						v = AV{kind: avBool, b: l.v.b || r.v.b}
					} else if r.v.kind == avBool && r.v.b {
						v = r.v
					}
				}
				out = append(out, res{r.st, v})
			}
		}
		return out
	case *ast.IndexExpr:
		var out []res
		for _, r := range in.eval(x.X, st) {
			if r.v.kind == avFunc {
				out = append(out, r) // explicit instantiation of a generic function
				continue
			}
			if r.v.kind == avData {
				r.st.emit(SEvent{kind: "access", ops: []string{r.v.op}})
			}
			for _, r2 := range in.eval(x.Index, r.st) {
				out = append(out, res{r2.st, AV{}})
			}
		}
		return out
	case *ast.IndexListExpr:
		return in.eval(x.X, st)
	case *ast.CompositeLit:
		var elts []ast.Expr
		for _, el := range x.Elts {
			if kv, ok := el.(*ast.KeyValueExpr); ok {
				elts = append(elts, kv.Value)
			} else {
				elts = append(elts, el)
			}
		}
		var out []res
		for _, it := range in.evalList(elts, st) {
			for i, v := range it.vs {
				in.headerRead(elts[i], v, it.st)
				if v.kind == avSet && !isPointer(in.info.Types[elts[i]].Type) {
					in.fail(x.Pos(), "a thread-safe operand is copied by value")
				}
			}
			out = append(out, res{it.st, AV{kind: avFresh}})
		}
		return out
	case *ast.SliceExpr:
		var out []res
		for _, r := range in.eval(x.X, st) {
			out = append(out, res{r.st, AV{}})
		}
		return out
	case *ast.KeyValueExpr:
		return in.eval(x.Value, st)
	}
	return []res{{st, AV{}}}
}

func (in *Interp) lockEvent(name string, v AV, st *state) {
	st.emit(SEvent{kind: "lock", name: name, ops: []string{v.op}})
}

func (in *Interp) evalCall(x *ast.CallExpr, st *state) []res {
	// builtins and conversions
	if id, ok := unparen(x.Fun).(*ast.Ident); ok {
		if b, ok := in.info.Uses[id].(*types.Builtin); ok {
			var out []res
			for _, it := range in.evalList(x.Args, st) {
				v := AV{}
				switch b.Name() {
				case "delete", "clear":
					if len(it.vs) > 0 && it.vs[0].kind == avData {
						it.st.emit(SEvent{kind: "access", ops: []string{it.vs[0].op}, write: true})
					}
				case "make", "new":
					v = AV{kind: avFresh}
				case "panic":
					it.st.returned = true
					it.st.panicking = true
				case "recover":
					it.st.pending = false
				default:
					for _, a := range it.vs {
						if a.kind == avData {
							it.st.emit(SEvent{kind: "access", ops: []string{a.op}})
						}
					}
				}
				out = append(out, res{it.st, v})
			}
			return out
		}
	}
	if tv, ok := in.info.Types[x.Fun]; ok && tv.IsType() {
		if len(x.Args) == 1 {
			return in.eval(x.Args[0], st)
		}
		return []res{{st, AV{}}}
	}
	// method call: x.M(args)
	if se, ok := unparen(x.Fun).(*ast.SelectorExpr); ok {
		if sel := in.info.Selections[se]; sel != nil && sel.Kind() == types.MethodVal {
			name := se.Sel.Name
			var out []res
			for _, r := range in.eval(se.X, st) {
				rv := r.v
				if lockMethods[name] && (rv.kind == avSet || rv.kind == avMutex) {
					for _, it := range in.evalList(x.Args, r.st) {
						in.lockEvent(name, rv, it.st)
						out = append(out, res{it.st, AV{}})
					}
					continue
				}
				if base, isTry := tryLockMethods[name]; isTry && (rv.kind == avSet || rv.kind == avMutex) {
					// a conditional acquisition: two paths — granted (the lock event, exactly as the hook reports a
					// successful try, and the value true) and refused (no event, the value false)
					for _, it := range in.evalList(x.Args, r.st) {
						granted := it.st.clone()
						in.lockEvent(base, rv, granted)
						out = append(out, res{granted, AV{kind: avBool, b: true}})
						out = append(out, res{it.st, AV{kind: avBool, b: false}})
					}
					continue
				}
				if _, isTry := tryLockMethods[name]; isTry && (rv.kind == avFresh || rv.kind == avUnknown) {
					recvT := in.info.Types[se.X].Type
					if mentions(recvT, in.tsType, 0) || in.isMutexType(recvT) {
						if rv.kind == avUnknown && mentions(recvT, in.tsType, 0) {
							in.fail(x.Pos(), "%s on a thread-safe set of unknown identity", name)
						}
						out = append(out, res{r.st, AV{}})
						continue
					}
				}
				if lockMethods[name] && (rv.kind == avFresh || rv.kind == avUnknown) {
					recvT := in.info.Types[se.X].Type
					if mentions(recvT, in.tsType, 0) || in.isMutexType(recvT) {
						if rv.kind == avUnknown && mentions(recvT, in.tsType, 0) {
							in.fail(x.Pos(), "%s on a thread-safe set of unknown identity", name)
						}
						// the lock of a set nobody else can see yet
						out = append(out, res{r.st, AV{}})
						continue
					}
				}
				fo, _ := sel.Obj().(*types.Func)
				var decl *ast.FuncDecl
				if fo != nil {
					decl = in.decls[fo.Origin()]
					if decl == nil && fo.Pkg() == in.pkg {
						// interface method: dispatch on what the receiver is
						switch rv.kind {
						case avSet:
							decl = in.tsMethods[name]
						default:
							decl = in.tuMethods[name]
						}
					}
				}
				for _, it := range in.evalList(x.Args, r.st) {
					out = append(out, in.callDecl(x, decl, &rv, it.vs, it.st)...)
				}
			}
			return out
		}
	}
	// a function value
	var out []res
	for _, f := range in.eval(x.Fun, st) {
		for _, it := range in.evalList(x.Args, f.st) {
			if f.v.kind != avFunc {
				out = append(out, in.callDecl(x, nil, nil, it.vs, it.st)...)
				continue
			}
			fv := f.v.fn
			args := it.vs
			recv := fv.recv
			if fv.methodExpr && len(args) > 0 {
				r0 := args[0]
				recv = &r0
				args = args[1:]
			}
			if fv.lit != nil {
				out = append(out, in.inline(x, nil, fv.lit, fv, nil, args, it.st)...)
				continue
			}
			decl := fv.decl
			if decl == nil && recv != nil && lockMethods[fv.ifaceName] && (recv.kind == avSet || recv.kind == avMutex) {
				// a lock method of the embedded mutex taken as a method value (`release := a.RUnlock`) or used as a
				// method expression: the lock event happens where the value is CALLED
				in.lockEvent(fv.ifaceName, *recv, it.st)
				out = append(out, res{it.st, AV{}})
				continue
			}
			if decl == nil && recv != nil && lockMethods[fv.ifaceName] && recv.kind == avFresh {
				out = append(out, res{it.st, AV{}}) // the lock of a set nobody else can see yet
				continue
			}
			if decl == nil && fv.ifaceName != "" && recv != nil {
				if recv.kind == avSet {
					decl = in.tsMethods[fv.ifaceName]
				} else {
					decl = in.tuMethods[fv.ifaceName]
				}
			}
			if decl != nil && recv != nil && lockMethods[decl.Name.Name] {
				in.fail(x.Pos(), "lock method used as a function value")
			}
			out = append(out, in.callDecl(x, decl, recv, args, it.st)...)
		}
	}
	return out
}

// call of a declared function (or of something unknown when decl is nil)
func (in *Interp) callDecl(x *ast.CallExpr, decl *ast.FuncDecl, recv *AV, args []AV, st *state) []res {
	if decl == nil {
		// leaves the package: reads the maps it is handed; must not be handed a thread-safe operand
		all := args
		if recv != nil {
			all = append([]AV{*recv}, args...)
		}
		for _, a := range all {
			switch a.kind {
			case avData:
				st.emit(SEvent{kind: "access", ops: []string{a.op}})
			case avSet:
				in.fail(x.Pos(), "a thread-safe operand is handed to a function outside the package or to an unknown function value")
			case avFunc:
				if a.fn.lit != nil && hasLockCalls(a.fn.lit) {
					in.fail(x.Pos(), "a locking function literal is handed to an unknown function")
				}
			}
		}
		return []res{{st, AV{}}}
	}
	handsOperand := recv != nil && (recv.kind == avSet || recv.kind == avMutex)
	for _, a := range args {
		if a.kind == avSet || a.kind == avMutex || (a.kind == avFunc && a.fn.lit != nil) {
			handsOperand = true
		}
	}
	if in.shouldInline(decl) || handsOperand {
		return in.inline(x, decl, nil, nil, recv, args, st)
	}
	s := in.summaries[decl]
	all := args
	if s.nrecv > 0 {
		r := AV{}
		if recv != nil {
			r = *recv
		}
		all = append([]AV{r}, args...)
	}
	ret := AV{kind: avFresh}
	for i, a := range all {
		idx := i
		if idx >= len(s.read) {
			idx = len(s.read) - 1
		}
		if idx < 0 {
			break
		}
		switch a.kind {
		case avData:
			if s.write[idx] {
				st.emit(SEvent{kind: "access", ops: []string{a.op}, write: true})
			} else if s.read[idx] {
				st.emit(SEvent{kind: "access", ops: []string{a.op}})
			}
			if s.retAlias[idx] {
				ret = a
			}
		case avSet:
			if s.read[idx] || s.write[idx] {
				in.fail(x.Pos(), "a thread-safe operand is handed to %s, which treats it as unlocked data", decl.Name.Name)
			}
			if s.retAlias[idx] {
				ret = a
			}
		case avFunc:
			in.fail(x.Pos(), "a function value is handed to %s, which is not walked", decl.Name.Name)
		}
	}
	return []res{{st, ret}}
}

func (in *Interp) inline(x *ast.CallExpr, decl *ast.FuncDecl, lit *ast.FuncLit, fv *funcVal, recv *AV, args []AV, st *state) []res {
	if in.depth > 12 {
		in.fail(x.Pos(), "calls nested deeper than 12 (recursion?)")
		return []res{{st, AV{}}}
	}
	in.depth++
	defer func() { in.depth-- }()
	in.nframe++
	frame := in.nframe
	var e *env
	var ftype *ast.FuncType
	var body *ast.BlockStmt
	if lit != nil {
		e, ftype, body = fv.env, lit.Type, lit.Body
	} else {
		ftype, body = decl.Type, decl.Body
		if decl.Recv != nil && recv != nil {
			for _, f := range decl.Recv.List {
				for _, n := range f.Names {
					e = e.bind(in.info.Defs[n], *recv, frame)
				}
			}
		}
	}
	i := 0
	for _, f := range ftype.Params.List {
		_, variadic := f.Type.(*ast.Ellipsis)
		for _, n := range f.Names {
			v := AV{}
			if variadic {
				from := i
				if from > len(args) {
					from = len(args)
				}
				for _, a := range args[from:] {
					if a.kind == avSet || a.kind == avData {
						in.fail(x.Pos(), "an operand is passed in a variadic position")
					}
				}
			} else if i < len(args) {
				v = args[i]
			}
			e = e.bind(in.info.Defs[n], v, frame)
			i++
		}
		if len(f.Names) == 0 {
			i++
		}
	}
	callerEnv, callerFrame, callerDefers := st.env, st.frame, st.defers
	st.env, st.frame, st.defers = e, frame, nil
	var out []res
	for _, s := range in.block(body.List, st) {
		// deferred calls, last in first out
		finals := []*state{s}
		s.returned = false
		for len(finals) > 0 && len(finals[0].defers) > 0 {
			var next []*state
			for _, f := range finals {
				d := f.defers[len(f.defers)-1]
				f.defers = f.defers[:len(f.defers)-1]
				saved := f.env
				f.env = d.env
				ret := f.ret
				outerPending := f.pending
				f.pending, f.panicking, f.returned = f.panicking, false, false
				for _, r := range in.evalCall(d.call, f) {
					r.st.env = saved
					r.st.returned = false
					r.st.ret = ret
					r.st.panicking = r.st.panicking || r.st.pending
					r.st.pending = outerPending
					next = append(next, r.st)
				}
			}
			finals = next
		}
		for _, f := range finals {
			v := f.ret
			f.ret = AV{}
			f.env, f.frame, f.defers = callerEnv, callerFrame, append([]deferred(nil), callerDefers...)
			f.returned = f.panicking // a panic that nobody recovered goes on unwinding in the caller
			out = append(out, res{f, v})
		}
	}
	in.budget -= len(out)
	if in.budget < 0 {
		in.fail(x.Pos(), "more than 4096 paths")
	}
	return out
}

// ---------------------------------------------------------------------------------
// statements

func (in *Interp) block(stmts []ast.Stmt, st *state) []*state {
	cur := []*state{st}
	for _, s := range stmts {
		var next []*state
		for _, c := range cur {
			if c.returned || in.err != nil {
				next = append(next, c)
				continue
			}
			next = append(next, in.stmt(s, c)...)
		}
		cur = next
	}
	return cur
}

func states(rs []res) []*state {
	out := make([]*state, len(rs))
	for i, r := range rs {
		out[i] = r.st
	}
	return out
}

func (in *Interp) assignTo(l ast.Expr, rhs ast.Expr, v AV, st *state) []*state {
	switch x := unparen(l).(type) {
	case *ast.Ident:
		if x.Name == "_" {
			return []*state{st}
		}
		o := in.objOf(x)
		if o == nil {
			return []*state{st}
		}
		if _, fr, ok := st.env.lookup(o); ok && fr != st.frame && (v.kind == avSet || v.kind == avData) && in.info.Defs[x] == nil {
			in.fail(l.Pos(), "a captured variable is assigned an operand")
		}
		st.env = st.env.bind(o, v, st.frame)
		return []*state{st}
	case *ast.IndexExpr:
		var out []*state
		for _, r := range in.eval(x.X, st) {
			if r.v.kind == avData {
				r.st.emit(SEvent{kind: "access", ops: []string{r.v.op}, write: true})
			}
			out = append(out, states(in.eval(x.Index, r.st))...)
		}
		return out
	case *ast.SelectorExpr:
		var out []*state
		for _, r := range in.eval(x.X, st) {
			if r.v.kind == avSet {
				if sel := in.info.Selections[x]; sel != nil && in.isMutexType(sel.Type()) {
					in.fail(l.Pos(), "the lock of an operand is overwritten")
				}
				r.st.emit(SEvent{kind: "access", ops: []string{r.v.op}, write: true})
			}
			out = append(out, r.st)
		}
		return out
	case *ast.StarExpr:
		var out []*state
		for _, r := range in.eval(x.X, st) {
			if r.v.kind == avData {
				r.st.emit(SEvent{kind: "access", ops: []string{r.v.op}, write: true})
			}
			if r.v.kind == avSet {
				in.fail(l.Pos(), "a thread-safe operand is overwritten as a whole")
			}
			out = append(out, r.st)
		}
		return out
	}
	return states(in.eval(l, st))
}

func (in *Interp) fork(st *state, alts ...func(*state) []*state) []*state {
	var out []*state
	for i, a := range alts {
		s := st
		if i+1 < len(alts) {
			s = st.clone()
		}
		out = append(out, a(s)...)
	}
	return out
}

func (in *Interp) stmt(s ast.Stmt, st *state) []*state {
	switch x := s.(type) {
	case *ast.ExprStmt:
		return states(in.eval(x.X, st))
	case *ast.AssignStmt:
		var out []*state
		if len(x.Lhs) == len(x.Rhs) {
			for _, it := range in.evalList(x.Rhs, st) {
				cur := []*state{it.st}
				for i, v := range it.vs {
					in.headerRead(x.Rhs[i], v, it.st)
				}
				for i, l := range x.Lhs {
					var next []*state
					for _, c := range cur {
						next = append(next, in.assignTo(l, x.Rhs[i], it.vs[i], c)...)
					}
					cur = next
				}
				out = append(out, cur...)
			}
			return out
		}
		for _, r := range in.eval(x.Rhs[0], st) {
			cur := []*state{r.st}
			for i, l := range x.Lhs {
				v := AV{}
				if i == 0 {
					v = r.v
				}
				var next []*state
				for _, c := range cur {
					next = append(next, in.assignTo(l, x.Rhs[0], v, c)...)
				}
				cur = next
			}
			out = append(out, cur...)
		}
		return out
	case *ast.DeclStmt:
		cur := []*state{st}
		if gd, ok := x.Decl.(*ast.GenDecl); ok {
			for _, sp := range gd.Specs {
				vs, ok := sp.(*ast.ValueSpec)
				if !ok {
					continue
				}
				for i, id := range vs.Names {
					var next []*state
					for _, c := range cur {
						if i < len(vs.Values) {
							for _, r := range in.eval(vs.Values[i], c) {
								in.headerRead(vs.Values[i], r.v, r.st)
								next = append(next, in.assignTo(id, vs.Values[i], r.v, r.st)...)
							}
						} else {
							next = append(next, in.assignTo(id, nil, AV{kind: avFresh}, c)...)
						}
					}
					cur = next
				}
			}
		}
		return cur
	case *ast.IncDecStmt:
		return in.assignTo(x.X, nil, AV{}, st)
	case *ast.ReturnStmt:
		var out []*state
		for _, it := range in.evalList(x.Results, st) {
			for i, v := range it.vs {
				in.headerRead(x.Results[i], v, it.st)
			}
			it.st.ret = AV{}
			if len(it.vs) > 0 {
				it.st.ret = it.vs[0]
			}
			it.st.returned = true
			out = append(out, it.st)
		}
		return out
	case *ast.DeferStmt:
		for _, a := range x.Call.Args {
			simple := true
			ast.Inspect(a, func(n ast.Node) bool {
				if _, ok := n.(*ast.CallExpr); ok {
					simple = false
				}
				return simple
			})
			if !simple {
				in.fail(x.Pos(), "a deferred call with a call among its arguments")
			}
		}
		st.defers = append(st.defers, deferred{x.Call, st.env})
		return []*state{st}
	case *ast.GoStmt:
		// the operation is complete when what it started is: walked in place
		out := states(in.evalCall(x.Call, st))
		for _, o := range out {
			o.returned = false
		}
		return out
	case *ast.BlockStmt:
		return in.block(x.List, st)
	case *ast.LabeledStmt:
		return in.stmt(x.Stmt, st)
	case *ast.IfStmt:
		cur := []*state{st}
		if x.Init != nil {
			cur = in.stmt(x.Init, st)
		}
		var out []*state
		for _, c := range cur {
			for _, r := range in.eval(x.Cond, c) {
				then := func(s *state) []*state { return in.block(x.Body.List, s) }
				els := func(s *state) []*state {
					if x.Else == nil {
						return []*state{s}
					}
					return in.stmt(x.Else, s)
				}
				switch {
				case r.v.kind == avBool && r.v.b:
					out = append(out, then(r.st)...)
				case r.v.kind == avBool:
					out = append(out, els(r.st)...)
				default:
					out = append(out, in.fork(r.st, then, els)...)
				}
			}
		}
		return out
	case *ast.SwitchStmt:
		cur := []*state{st}
		if x.Init != nil {
			cur = in.stmt(x.Init, st)
		}
		var out []*state
		for _, c := range cur {
			if x.Tag != nil {
				for _, r := range in.eval(x.Tag, c) {
					out = append(out, in.clauses(x.Body.List, 0, r.st, true)...)
				}
			} else {
				out = append(out, in.clauses(x.Body.List, 0, c, false)...)
			}
		}
		return out
	case *ast.TypeSwitchStmt:
		cur := []*state{st}
		if x.Init != nil {
			cur = in.stmt(x.Init, st)
		}
		var out []*state
		for _, c := range cur {
			var subj ast.Expr
			switch a := x.Assign.(type) {
			case *ast.AssignStmt:
				subj = a.Rhs[0]
			case *ast.ExprStmt:
				subj = a.X
			}
			for _, r := range in.eval(subj, c) {
				var alts []func(*state) []*state
				hasDefault := false
				// an operand's dynamic type is known: only the clause that names it can be taken
				var only *ast.CaseClause
				if r.v.kind == avSet || r.v.kind == avData {
					for _, cl := range x.Body.List {
						cc := cl.(*ast.CaseClause)
						for _, te := range cc.List {
							tv, ok := in.info.Types[te]
							if !ok || !tv.IsType() {
								continue
							}
							if r.v.kind == avSet && mentions(tv.Type, in.tsType, 0) && only == nil {
								only = cc
							}
							if r.v.kind == avData && in.isUnsafeSetType(tv.Type) && only == nil {
								only = cc
							}
						}
					}
				}
				for _, cl := range x.Body.List {
					cc := cl.(*ast.CaseClause)
					if only != nil && cc != only {
						continue
					}
					if cc.List == nil {
						hasDefault = true
					}
					v := r.v
					alts = append(alts, func(s *state) []*state {
						if o := in.info.Implicits[cc]; o != nil {
							s.env = s.env.bind(o, v, s.frame)
						}
						return in.block(cc.Body, s)
					})
				}
				if !hasDefault && only == nil {
					alts = append(alts, func(s *state) []*state { return []*state{s} })
				}
				out = append(out, in.fork(r.st, alts...)...)
			}
		}
		return out
	case *ast.SelectStmt:
		var alts []func(*state) []*state
		for _, cl := range x.Body.List {
			cc := cl.(*ast.CommClause)
			alts = append(alts, func(s *state) []*state {
				cur := []*state{s}
				if cc.Comm != nil {
					cur = in.stmt(cc.Comm, s)
				}
				var out []*state
				for _, c := range cur {
					out = append(out, in.block(cc.Body, c)...)
				}
				return out
			})
		}
		if len(alts) == 0 {
			return []*state{st}
		}
		return in.fork(st, alts...)
	case *ast.ForStmt:
		cur := []*state{st}
		if x.Init != nil {
			cur = in.stmt(x.Init, st)
		}
		var out []*state
		for _, c := range cur {
			for _, r := range in.eval(x.Cond, c) {
				out = append(out, in.loopBody(x.Body, x.Post, r.st)...)
			}
		}
		return out
	case *ast.RangeStmt:
		var out []*state
		for _, r := range in.eval(x.X, st) {
			if r.v.kind == avData {
				r.st.emit(SEvent{kind: "access", ops: []string{r.v.op}})
			}
			if r.v.kind == avSet {
				in.fail(x.Pos(), "range over a thread-safe operand")
			}
			for _, kv := range []ast.Expr{x.Key, x.Value} {
				if id, ok := kv.(*ast.Ident); ok && id.Name != "_" {
					if o := in.objOf(id); o != nil {
						r.st.env = r.st.env.bind(o, AV{}, r.st.frame)
					}
				}
			}
			out = append(out, in.loopBody(x.Body, nil, r.st)...)
		}
		return out
	case *ast.SendStmt:
		var out []*state
		for _, r := range in.eval(x.Chan, st) {
			out = append(out, states(in.eval(x.Value, r.st))...)
		}
		return out
	case *ast.BranchStmt:
		if x.Tok == token.GOTO {
			in.fail(x.Pos(), "goto")
		}
		return []*state{st}
	}
	return []*state{st}
}

// the body once; also not at all when it can return or lock
func (in *Interp) loopBody(body *ast.BlockStmt, post ast.Stmt, st *state) []*state {
	special := hasLockCalls(body)
	ast.Inspect(body, func(n ast.Node) bool {
		switch n.(type) {
		case *ast.ReturnStmt:
			special = true
		case *ast.FuncLit:
			return false
		}
		return !special
	})
	once := func(s *state) []*state {
		out := in.block(body.List, s)
		if post != nil {
			var next []*state
			for _, o := range out {
				if o.returned {
					next = append(next, o)
				} else {
					next = append(next, in.stmt(post, o)...)
				}
			}
			out = next
		}
		return out
	}
	if !special {
		return once(st)
	}
	return in.fork(st, once, func(s *state) []*state { return []*state{s} })
}

func (in *Interp) clauses(list []ast.Stmt, i int, st *state, tagged bool) []*state {
	// default clause runs when no other does
	if i >= len(list) {
		for _, cl := range list {
			if cc := cl.(*ast.CaseClause); cc.List == nil {
				return in.block(cc.Body, st)
			}
		}
		return []*state{st}
	}
	cc := list[i].(*ast.CaseClause)
	if cc.List == nil {
		return in.clauses(list, i+1, st, tagged)
	}
	var out []*state
	for _, it := range in.evalList(cc.List, st) {
		known, val := !tagged, false
		for _, v := range it.vs {
			if tagged || v.kind != avBool {
				known = false
			} else if v.b {
				val = true
			}
		}
		if known && val {
			out = append(out, in.block(cc.Body, it.st)...)
			continue
		}
		anyTrue := false
		for _, v := range it.vs {
			if !tagged && v.kind == avBool && v.b {
				anyTrue = true
			}
		}
		if anyTrue {
			out = append(out, in.block(cc.Body, it.st)...)
			continue
		}
		if known && !val {
			out = append(out, in.clauses(list, i+1, it.st, tagged)...)
			continue
		}
		out = append(out, in.fork(it.st,
			func(s *state) []*state { return in.block(cc.Body, s) },
			func(s *state) []*state { return in.clauses(list, i+1, s, tagged) })...)
	}
	return out
}

// ---------------------------------------------------------------------------------

// Paths enumerates the execution paths of one operation; same = receiver and argument are one set.
func (in *Interp) Paths(method string, same bool) ([][]SEvent, error) {
	fd := in.tsMethods[method]
	if fd == nil {
		return nil, fmt.Errorf("the thread-safe set has no method %s in the source", method)
	}
	in.same, in.err, in.depth, in.budget = same, nil, 0, 4096
	obj := in.info.Defs[fd.Name].(*types.Func)
	sig := obj.Type().(*types.Signature)
	setT := in.pkg.Scope().Lookup("Set").Type()
	var args []AV
	for i := 0; i < sig.Params().Len(); i++ {
		if types.Identical(sig.Params().At(i).Type(), setT) {
			args = append(args, AV{kind: avSet, op: "arg"})
		} else {
			args = append(args, AV{})
		}
	}
	recv := AV{kind: avSet, op: "recv"}
	st := &state{}
	call := &ast.CallExpr{Fun: fd.Name}
	rs := in.inline(call, fd, nil, nil, &recv, args, st)
	if in.err != nil {
		return nil, in.err
	}
	seen := map[string]bool{}
	var out [][]SEvent
	for _, r := range rs {
		var parts []string
		for _, e := range r.st.events {
			parts = append(parts, e.String())
		}
		k := strings.Join(parts, " ")
		if !seen[k] {
			seen[k] = true
			out = append(out, r.st.events)
		}
	}
	return out, nil
}

func unparen(e ast.Expr) ast.Expr {
	for {
		p, ok := e.(*ast.ParenExpr)
		if !ok {
			return e
		}
		e = p.X
	}
}
