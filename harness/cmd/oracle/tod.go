package main

import (
	"fmt"
	"math"
	"math/big"
	"strconv"

	lib "github.com/ilius/libgostarcal"
	"github.com/ilius/libgostarcal/utils"
)

func init() { handlers["tod"] = todHandler }

func todHandler(args []string) (string, []string) {
	var ps propSink
	switch {
	case len(args) == 2 && args[0] == "secs":
		s, err := strconv.ParseUint(args[1], 10, 64)
		if err != nil {
			return "bad-request", nil
		}
		r := utils.GetHmsBySeconds(uint(s))
		if s < 86400 {
			if !r.IsValid() || uint64(r.GetTotalSeconds()) != s {
				ps.add("C18", "seconds=%d GetHmsBySeconds=%s valid=%v total=%d", s, r.String(), r.IsValid(), r.GetTotalSeconds())
			}
		}
		return fmt.Sprintf("%d %d %d", r.Hour, r.Minute, r.Second), ps.out()
	case len(args) == 4 && (args[0] == "total" || args[0] == "rt"):
		h, e1 := strconv.Atoi(args[1])
		m, e2 := strconv.Atoi(args[2])
		s, e3 := strconv.Atoi(args[3])
		if e1 != nil || e2 != nil || e3 != nil || h < 0 || h > 255 || m < 0 || m > 255 || s < 0 || s > 255 {
			return "bad-request", nil
		}
		x := lib.HMS{Hour: uint8(h), Minute: uint8(m), Second: uint8(s)}
		if args[0] == "total" {
			t := x.GetTotalSeconds()
			if t != 3600*h+60*m+s {
				ps.add("C18", "time=%d:%d:%d GetTotalSeconds=%d", h, m, s, t)
			}
			if x.IsValid() {
				if back := utils.GetHmsBySeconds(uint(t)); back != x {
					ps.add("C18", "time=%d:%d:%d seconds=%d converts back to %s", h, m, s, t, back.String())
				}
			}
			return strconv.Itoa(t), ps.out()
		}
		r := lib.FloatHourToHMS(x.GetFloatHour())
		if x.IsValid() && *r != x {
			ps.add("C18", "time=%d:%d:%d fractional-hours=%v converts back to %s", h, m, s, x.GetFloatHour(), r.String())
		}
		fhResultKeeps(&ps, x.GetFloatHour(), r)
		return fmt.Sprintf("%d %d %d", r.Hour, r.Minute, r.Second), ps.out()
	case len(args) == 2 && args[0] == "fh":
		bits, err := strconv.ParseUint(args[1], 10, 64)
		if err != nil {
			return "bad-request", nil
		}
		fh := math.Float64frombits(bits)
		if math.IsNaN(fh) || math.IsInf(fh, 0) {
			return "bad-request", nil
		}
		r := lib.FloatHourToHMS(fh)
		if fh >= 0 && fh < 24 {
			// |seconds(result) - 3600*fh| <= 1, exactly
			exact := new(big.Rat).SetFloat64(fh)
			exact.Mul(exact, big.NewRat(3600, 1))
			diff := new(big.Rat).Sub(big.NewRat(int64(r.GetTotalSeconds()), 1), exact)
			if diff.Abs(diff).Cmp(big.NewRat(1, 1)) > 0 {
				ps.add("C18", "fractional-hour=%v (bits %d) converts to %s which is %s seconds away", fh, bits, r.String(), diff.FloatString(6))
			}
		}
		fhResultKeeps(&ps, fh, r)
		return fmt.Sprintf("%d %d %d", r.Hour, r.Minute, r.Second), ps.out()
	}
	return "bad-request", nil
}

// a result handed out earlier must not change when the function is called again, and changing a
// result must not change what the function answers next time (results share no memory)
func fhResultKeeps(ps *propSink, fh float64, r *lib.HMS) {
	saved := *r
	other := lib.FloatHourToHMS(math.Mod(math.Abs(fh)+7.25, 24))
	if *r != saved {
		ps.add("C18", "fractional-hour=%v: the result %s handed out earlier reads %s after the function was called again with another argument", fh, saved.String(), r.String())
		return
	}
	other.Hour, other.Minute, other.Second = 99, 99, 99
	r.Hour, r.Minute, r.Second = 98, 98, 98
	if again := lib.FloatHourToHMS(fh); *again != saved {
		ps.add("C18", "fractional-hour=%v: converts to %s, but after the caller changed that result the same call gives %s", fh, saved.String(), again.String())
	}
	*r = saved
}
