package main

import (
	"fmt"
	"os"
	"strconv"
	"strings"
	"sync"

	lib "github.com/ilius/libgostarcal"
	"github.com/ilius/libgostarcal/cal_types"
	"github.com/ilius/libgostarcal/cal_types/ethiopian"
	"github.com/ilius/libgostarcal/cal_types/gregorian"
	"github.com/ilius/libgostarcal/cal_types/gregorian_proleptic"
	"github.com/ilius/libgostarcal/cal_types/hijri"
	"github.com/ilius/libgostarcal/cal_types/indian_national"
	"github.com/ilius/libgostarcal/cal_types/jalali"
	"github.com/ilius/libgostarcal/cal_types/julian"
)

// ---------------------------------------------------------------------------------
// the nine configurations of the real code

type calCfg struct {
	name      string
	reg       string // the name the calendar is registered under (by-name API)
	ct        cal_types.CalType
	setup     func()
	skipYear0 bool
	short     int // the shorter of the two year lengths
	rule      *rule
}

var calCfgs = map[string]*calCfg{}

func regCfg(c *calCfg) { calCfgs[c.name] = c }

func init() {
	nop := func() {}
	regCfg(&calCfg{name: "eth", reg: "ethiopian", ct: ethiopian.New(), setup: nop, short: 365, rule: ruleEth})
	regCfg(&calCfg{name: "greg", reg: "gregorian", ct: gregorian.New(), setup: nop, short: 365, rule: ruleGreg})
	regCfg(&calCfg{name: "gprol", reg: "gregorian_proleptic", ct: gregorian_proleptic.New(), setup: nop, skipYear0: true, short: 365, rule: ruleGprol})
	regCfg(&calCfg{name: "hij-a", reg: "hijri", ct: hijri.New(), setup: func() { setMonthData(false) }, short: 354, rule: ruleHijA})
	regCfg(&calCfg{name: "hij-t", reg: "hijri", ct: hijri.New(), setup: func() { setMonthData(true) }, short: 354, rule: ruleHijA})
	regCfg(&calCfg{name: "ind", reg: "indian_national", ct: indian_national.New(), setup: nop, short: 365, rule: ruleInd})
	regCfg(&calCfg{name: "jal33", reg: "jalali", ct: jalali.New(), setup: func() { jalali.SetAlgorithm2820(false) }, short: 365, rule: ruleJal33})
	regCfg(&calCfg{name: "jal2820", reg: "jalali", ct: jalali.New(), setup: func() { jalali.SetAlgorithm2820(true) }, short: 365, rule: ruleJal2820})
	regCfg(&calCfg{name: "jul", reg: "julian", ct: julian.New(), setup: nop, short: 365, rule: ruleJul})
	handlers["cal"] = calHandler
}

// ---------------------------------------------------------------------------------
// independent statement of each calendar's published rule (C03): anchor day, leap
// predicate, month lengths. Nothing here calls the library.

func fmod(a, b int) int { // floor modulo, b > 0
	m := a % b
	if m < 0 {
		m += b
	}
	return m
}

type rule struct {
	anchorJd         int
	anchorY, anchorM int
	anchorD          int
	leap             func(y int) bool // y in the calendar's own year numbering
	mlen             func(y, m int) int
	noYear0          bool
	ys               []int // year start day numbers, index y - ruleYmin
	once             sync.Once
}

const ruleYmin, ruleYmax = -130000, 130000

// contiguous index of a year: calendars without a year 0 number ... -2, -1, 1, 2 ...
func (r *rule) idx(y int) int {
	if r.noYear0 && y < 0 {
		return y + 1
	}
	return y
}

func (r *rule) ext(i int) int {
	if r.noYear0 && i < 1 {
		return i - 1
	}
	return i
}

func (r *rule) yearLen(y int) int {
	s := 0
	for m := 1; m <= 12; m++ {
		s += r.mlen(y, m)
	}
	return s
}

func (r *rule) build() { r.once.Do(r.build1) }

func (r *rule) build1() {
	r.ys = make([]int, ruleYmax-ruleYmin+2)
	// first day of the anchor year
	s := r.anchorJd - (r.anchorD - 1)
	for m := 1; m < r.anchorM; m++ {
		s -= r.mlen(r.anchorY, m)
	}
	a := r.idx(r.anchorY)
	r.ys[a-ruleYmin] = s
	for i := a; i <= ruleYmax; i++ {
		r.ys[i+1-ruleYmin] = r.ys[i-ruleYmin] + r.yearLen(r.ext(i))
	}
	for i := a; i > ruleYmin; i-- {
		r.ys[i-1-ruleYmin] = r.ys[i-ruleYmin] - r.yearLen(r.ext(i-1))
	}
}

// date of day jd obtained by counting from the anchor with the rule
func (r *rule) date(jd int) (int, int, int) {
	r.build()
	// last year index i with ys[i] <= jd
	lo, hi := ruleYmin, ruleYmax
	for lo < hi {
		mid := lo + (hi-lo+1)/2
		if r.ys[mid-ruleYmin] <= jd {
			lo = mid
		} else {
			hi = mid - 1
		}
	}
	y := r.ext(lo)
	k := jd - r.ys[lo-ruleYmin]
	m := 1
	for m < 12 && k >= r.mlen(y, m) {
		k -= r.mlen(y, m)
		m++
	}
	return y, m, k + 1
}

func gregLeapAstro(y int) bool { return fmod(y, 4) == 0 && (fmod(y, 100) != 0 || fmod(y, 400) == 0) }

var gregLens = [13]int{0, 31, 28, 31, 30, 31, 30, 31, 31, 30, 31, 30, 31}

func gregMlen(leap func(int) bool) func(y, m int) int {
	return func(y, m int) int {
		if m == 2 && leap(y) {
			return 29
		}
		return gregLens[m]
	}
}

var ruleGreg = &rule{anchorJd: 2440588, anchorY: 1970, anchorM: 1, anchorD: 1,
	leap: gregLeapAstro, mlen: gregMlen(gregLeapAstro)}

func gprolLeap(y int) bool {
	if y < 0 {
		return gregLeapAstro(y + 1)
	}
	return gregLeapAstro(y)
}

var ruleGprol = &rule{anchorJd: 2440588, anchorY: 1970, anchorM: 1, anchorD: 1,
	leap: gprolLeap, mlen: gregMlen(gprolLeap), noYear0: true}

func julLeap(y int) bool { return fmod(y, 4) == 0 }

var ruleJul = &rule{anchorJd: 0, anchorY: -4712, anchorM: 1, anchorD: 1,
	leap: julLeap, mlen: gregMlen(julLeap)}

func ethLeap(y int) bool { return fmod(y, 4) == 3 }

var ruleEth = &rule{anchorJd: 1724221, anchorY: 1, anchorM: 1, anchorD: 1,
	leap: ethLeap, mlen: func(y, m int) int {
		if m < 12 {
			return 30
		}
		if ethLeap(y) {
			return 36
		}
		return 35
	}}

func jalMlen(leap func(int) bool) func(y, m int) int {
	return func(y, m int) int {
		if m <= 6 {
			return 31
		}
		if m <= 11 {
			return 30
		}
		if leap(y) {
			return 30
		}
		return 29
	}
}

func jal33Leap(y int) bool {
	switch fmod(y, 33) {
	case 1, 5, 9, 13, 17, 22, 26, 30:
		return true
	}
	return false
}

var ruleJal33 = &rule{anchorJd: 2459295, anchorY: 1400, anchorM: 1, anchorD: 1,
	leap: jal33Leap, mlen: jalMlen(jal33Leap)}

func jal2820Leap(y int) bool { return fmod((fmod(y-474, 2820)+512)*682, 2816) < 682 }

var ruleJal2820 = &rule{anchorJd: 2459295, anchorY: 1400, anchorM: 1, anchorD: 1,
	leap: jal2820Leap, mlen: jalMlen(jal2820Leap)}

func hijLeap(y int) bool { return fmod(11*y+14, 30) < 11 }

var ruleHijA = &rule{anchorJd: 2456957, anchorY: 1436, anchorM: 1, anchorD: 1,
	leap: hijLeap, mlen: func(y, m int) int {
		if m%2 == 1 {
			return 30
		}
		if m == 12 && hijLeap(y) {
			return 30
		}
		return 29
	}}

func indLeap(y int) bool { return gregLeapAstro(y + 78) }

// Saka year y starts on 22 March of Gregorian y+78 (21 March in a Gregorian leap year);
// the anchor below is that statement for Saka 1892 = Gregorian 1970 (22 March 1970 is
// day 2440588 + 31 + 28 + 21), and the month lengths make every other year start agree
// with it because the Saka leap years are the Gregorian ones; indRuleCheck verifies
// the statement for every year against the Gregorian rule table.
var ruleInd = &rule{anchorJd: 2440588 + 31 + 28 + 21, anchorY: 1892, anchorM: 1, anchorD: 1,
	leap: indLeap, mlen: func(y, m int) int {
		if m == 1 {
			if indLeap(y) {
				return 31
			}
			return 30
		}
		if m <= 6 {
			return 31
		}
		return 30
	}}

// ---------------------------------------------------------------------------------

func dateStr(d *lib.Date) string {
	if d == nil {
		return "nil"
	}
	return fmt.Sprintf("%d/%d/%d", d.Year, d.Month, d.Day)
}

const (
	fnvInit  = uint64(14695981039346656037)
	fnvPrime = uint64(1099511628211)
)

func mix(h uint64, v int) uint64 { return (h ^ uint64(int64(v))) * fnvPrime }

func clampLen(l int) int {
	if l < 1 {
		return 1
	}
	if l > 40 {
		return 40
	}
	return l
}

// at most propCap failing inputs per property and request are listed individually
var propCap = func() int {
	if v, err := strconv.Atoi(os.Getenv("ORACLE_PROP_CAP")); err == nil && v > 0 {
		return v
	}
	return 4
}()

type propSink struct {
	items []string
	count map[string]int
}

func (p *propSink) add(prop string, format string, a ...any) {
	if p.count == nil {
		p.count = map[string]int{}
	}
	p.count[prop]++
	if p.count[prop] <= propCap {
		p.items = append(p.items, "!PROP "+prop+" "+fmt.Sprintf(format, a...))
	}
}

func (p *propSink) out() []string {
	res := p.items
	for k, n := range p.count {
		if n > propCap {
			res = append(res, fmt.Sprintf("!MORE %s %d", k, n-propCap))
		}
	}
	return res
}

// successor of a date according to the library's own GetMonthLen (C02)
func libSucc(c *calCfg, d *lib.Date) (int, int, int) {
	y, m, dd := d.Year, int(d.Month), int(d.Day)
	if dd < int(c.ct.GetMonthLen(y, uint8(m))) {
		return y, m, dd + 1
	}
	if m < 12 {
		return y, m + 1, 1
	}
	if c.skipYear0 && y == -1 {
		return 1, 1, 1
	}
	return y + 1, 1, 1
}

// years whose length the embedded table can influence
var hijTableYears = [2]int{1424, 1446}

// hijri month-table window as the rule (C03 "inside the validity window of the
// embedded Hijri month table the table's month lengths are the rule")
func hijTableDate(jd int) (y, m, d int, ok bool) {
	loaded, startDate, startJd, endJd, rows := hijriTable()
	if !loaded || jd < startJd || jd > endJd {
		return 0, 0, 0, false
	}
	type ymLen struct{ ym, l int }
	var lens []ymLen
	for _, row := range rows {
		for mm, l := range row[1:] {
			if l > 0 {
				lens = append(lens, ymLen{row[0]*12 + mm, l})
			}
		}
	}
	// rows are in increasing (year, month) order in the source; rely on that only after checking
	for i := 1; i < len(lens); i++ {
		if lens[i].ym != lens[i-1].ym+1 {
			return 0, 0, 0, false
		}
	}
	ym := startDate[0]*12 + startDate[1] - 1
	k := jd - startJd + (startDate[2] - 1)
	for _, e := range lens {
		if e.ym < ym {
			continue
		}
		if k < e.l {
			return e.ym / 12, e.ym%12 + 1, k + 1, true
		}
		k -= e.l
		ym = e.ym + 1
	}
	// first day after the table
	return ym / 12, ym%12 + 1, k + 1, true
}

func calHandler(args []string) (string, []string) {
	if len(args) < 3 {
		return "bad-request", nil
	}
	op := args[0]
	c, ok := calCfgs[args[1]]
	if !ok {
		return "bad-request", nil
	}
	if !inStorm {
		c.setup()
	}
	nums := make([]int, len(args)-2)
	for i, a := range args[2:] {
		v, err := strconv.Atoi(a)
		if err != nil {
			return "bad-request", nil
		}
		nums[i] = v
	}
	ct := c.ct
	switch {
	case (op == "other-table" || op == "abuse") && len(nums) == 1:
		calAbuse(c, op, nums[0])
		return "ok", nil
	case op == "toggle" && len(nums) == 1:
		// the configuration switches the library exports, thrown n times (alternating, the last throw
		// leaves the other mode on), then this configuration set again: a counter of configuration
		// changes kept in 8 or 16 bits is back where it was
		if nums[0] < 0 || nums[0] > 1<<20 {
			return "bad-request", nil
		}
		for i := 0; i < nums[0]; i++ {
			on := (nums[0]-i)%2 == 0
			switch c.name {
			case "hij-a", "hij-t":
				hijri.SetUseMonthData(on)
			case "jal33", "jal2820":
				jalali.SetAlgorithm2820(on)
			default:
				c.setup()
			}
		}
		c.setup()
		return "ok", nil
	case op == "jdto" && len(nums) == 1:
		var ps propSink
		jd := nums[0]
		d := ct.JdTo(jd)
		resp := fmt.Sprintf("%d %d %d", d.Year, d.Month, d.Day)
		// the clauses that speak about this one day (C01 round trip, C02 well-formed, C03 rule)
		if back := ct.ToJd(lib.NewDate(d.Year, d.Month, d.Day)); back != jd {
			ps.add("C01", "cfg=%s jd=%d date=%s ToJd(date)=%d (single question, after the questions asked before it in this process)", c.name, jd, dateStr(d), back)
		}
		ml := int(ct.GetMonthLen(d.Year, d.Month))
		if d.Month < 1 || d.Month > 12 || d.Day < 1 || int(d.Day) > ml || (c.skipYear0 && d.Year == 0) {
			ps.add("C02", "cfg=%s jd=%d date=%s ill-formed (month length %d; single question, after the questions asked before it)", c.name, jd, dateStr(d), ml)
		}
		ry, rm, rd := c.rule.date(jd)
		if c.name == "hij-t" {
			if ty, tm, td, ok := hijTableDate(jd); ok {
				ry, rm, rd = ty, tm, td
			}
		}
		if d.Year != ry || int(d.Month) != rm || int(d.Day) != rd {
			ps.add("C03", "cfg=%s jd=%d date=%s rule-date=%d/%d/%d (single question, after the questions asked before it)", c.name, jd, dateStr(d), ry, rm, rd)
		}
		return resp, ps.out()
	case op == "tojd" && len(nums) == 3:
		return strconv.Itoa(ct.ToJd(lib.NewDate(nums[0], uint8(nums[1]), uint8(nums[2])))), nil
	case op == "leap" && len(nums) == 1:
		if ct.IsLeap(nums[0]) {
			return "1", nil
		}
		return "0", nil
	case op == "mlen" && len(nums) == 2:
		return strconv.Itoa(int(ct.GetMonthLen(nums[0], uint8(nums[1])))), nil
	case (op == "hjd" || op == "ljd") && len(nums) == 2:
		return calJdRange(c, op == "ljd", nums[0], nums[1])
	case (op == "hym" || op == "lym") && len(nums) == 2:
		return calYmRange(c, op == "lym", nums[0], nums[1])
	}
	return "bad-request", nil
}

// every how many 65536-day blocks the block is walked a second time, DESCENDING, to expose results
// that depend on the calls made before (thorough tier: every block)
func descEvery() int {
	if v, err := strconv.Atoi(os.Getenv("ORACLE_DESC_EVERY")); err == nil && v > 0 {
		return v
	}
	return 8
}

func calJdRange(c *calCfg, list bool, lo, hi int) (string, []string) {
	ct := c.ct
	h := fnvInit
	var sb strings.Builder
	var ps propSink
	var cur *lib.Date
	type ymd struct{ y, m, d int }
	second := !list && hi-lo <= 1<<16 && ((lo>>16)%descEvery() == 0)
	var asc []ymd
	if second {
		asc = make([]ymd, hi-lo)
	}
	// the property clauses on one day, given what JdTo returned for it
	checkDay := func(jd int, d *lib.Date, how string) *lib.Date {
		// a result belongs to the caller: changing it must not change what the calendar answers next
		if how == "" {
			saved := *d
			d.Year, d.Month, d.Day = d.Year+1000, 99, 99
			if again := ct.JdTo(jd); *again != saved {
				for _, p := range []string{"C01", "C03"} {
					ps.add(p, "cfg=%s jd=%d date=%s: after the caller changed that result, JdTo of the same day gives %s (results share memory)", c.name, jd, dateStr(&saved), dateStr(again))
				}
			}
			*d = saved
		}
		// C01 (day number -> date -> day number); ToJd must leave the date it is given alone
		dy, dm, dd := d.Year, d.Month, d.Day
		back := ct.ToJd(d)
		if d.Year != dy || d.Month != dm || d.Day != dd {
			ps.add("C01", "cfg=%s jd=%d date=%d/%d/%d%s: ToJd changed the date it was given to %s (the same date object now has day number %d)", c.name, jd, dy, dm, dd, how, dateStr(d), ct.ToJd(d))
			d = lib.NewDate(dy, dm, dd)
		}
		if back != jd {
			ps.add("C01", "cfg=%s jd=%d date=%s%s ToJd(date)=%d", c.name, jd, dateStr(d), how, back)
		}
		// the same round trip through the by-name functions (C01 is observed there too)
		if c.reg != "" {
			bn, err := cal_types.JdTo(jd, c.reg)
			if err != nil || bn == nil || bn.Year != dy || bn.Month != dm || bn.Day != dd {
				ps.add("C01", "cfg=%s jd=%d%s: by name, cal_types.JdTo(jd, %q) = %s, err=%v; the calendar's own JdTo gives %d/%d/%d", c.name, jd, how, c.reg, dateStr(bn), err, dy, dm, dd)
			}
			bj, err := cal_types.ToJd(lib.NewDate(dy, dm, dd), c.reg)
			if err != nil || bj != jd {
				ps.add("C01", "cfg=%s jd=%d date=%d/%d/%d%s: by name, cal_types.ToJd(date, %q) = %d, err=%v (the date is the one JdTo gave for this day)", c.name, jd, dy, dm, dd, how, c.reg, bj, err)
			}
		}
		// C02 (well-formed, successor)
		ml := int(ct.GetMonthLen(d.Year, d.Month))
		if d.Month < 1 || d.Month > 12 || d.Day < 1 || int(d.Day) > ml || (c.skipYear0 && d.Year == 0) {
			ps.add("C02", "cfg=%s jd=%d date=%s%s ill-formed (month length %d)", c.name, jd, dateStr(d), how, ml)
		}
		nx := ct.JdTo(jd + 1)
		sy, sm, sd := libSucc(c, d)
		if nx.Year != sy || int(nx.Month) != sm || int(nx.Day) != sd {
			ps.add("C02", "cfg=%s jd=%d date=%s%s next=%s expected-successor=%d/%d/%d", c.name, jd, dateStr(d), how, dateStr(nx), sy, sm, sd)
		}
		// C03 (published rule counted from the anchor)
		ry, rm, rd := c.rule.date(jd)
		if c.name == "hij-t" {
			if ty, tm, td, ok := hijTableDate(jd); ok {
				ry, rm, rd = ty, tm, td
			}
		}
		if d.Year != ry || int(d.Month) != rm || int(d.Day) != rd {
			ps.add("C03", "cfg=%s jd=%d date=%s%s rule-date=%d/%d/%d", c.name, jd, dateStr(d), how, ry, rm, rd)
		}
		return nx
	}
	for jd := lo; jd < hi; jd++ {
		func() {
			defer func() {
				if r := recover(); r != nil {
					cur = nil
					h = mix(h, -1)
					if list {
						sb.WriteString("panic;")
					}
					for _, p := range []string{"C01", "C02", "C03"} {
						ps.add(p, "cfg=%s jd=%d panic: %v", c.name, jd, r)
					}
				}
			}()
			d := cur
			if d == nil {
				d = ct.JdTo(jd)
			}
			h = mix(mix(mix(h, d.Year), int(d.Month)), int(d.Day))
			if list {
				fmt.Fprintf(&sb, "%d/%d/%d;", d.Year, d.Month, d.Day)
			}
			if second {
				asc[jd-lo] = ymd{d.Year, int(d.Month), int(d.Day)}
			}
			cur = checkDay(jd, d, "")
		}()
	}
	if second {
		// the same days again, last first: every answer must be the one given before
		for jd := hi - 1; jd >= lo; jd-- {
			func() {
				defer func() {
					if r := recover(); r != nil {
						for _, p := range []string{"C01", "C02", "C03"} {
							ps.add(p, "cfg=%s jd=%d panic when asked after jd+1: %v", c.name, jd, r)
						}
					}
				}()
				d := ct.JdTo(jd)
				a := asc[jd-lo]
				if d.Year != a.y || int(d.Month) != a.m || int(d.Day) != a.d {
					how := fmt.Sprintf(" (asked right after day %d; asked after day %d the answer was %d/%d/%d)", jd+1, jd-1, a.y, a.m, a.d)
					ct.JdTo(jd + 1)
					d = ct.JdTo(jd)
					checkDay(jd, d, how)
					ct.JdTo(jd + 1)
				}
			}()
		}
	}
	if list {
		return sb.String(), ps.out()
	}
	return strconv.FormatUint(h, 16), ps.out()
}

func calYmRange(c *calCfg, list bool, ylo, yhi int) (string, []string) {
	ct := c.ct
	h := fnvInit
	var sb strings.Builder
	var ps propSink
	minL, maxL := int(ct.MinMonthLen()), int(ct.MaxMonthLen())
	for y := ylo; y < yhi; y++ {
		if c.skipYear0 && y == 0 {
			continue
		}
		func() {
			defer func() {
				if r := recover(); r != nil {
					h = mix(h, -1)
					if list {
						sb.WriteString("panic;")
					}
					for _, p := range []string{"C01", "C03", "C07", "C20"} {
						ps.add(p, "cfg=%s year=%d panic: %v", c.name, y, r)
					}
				}
			}()
			leap := ct.IsLeap(y)
			lv := 0
			if leap {
				lv = 1
			}
			h = mix(h, lv)
			if list {
				fmt.Fprintf(&sb, "%d:%d", y, lv)
			}
			ny := y + 1
			if c.skipYear0 && ny == 0 {
				ny = 1
			}
			sum := 0
			first := make([]int, 14)
			for m := 1; m <= 12; m++ {
				l := int(ct.GetMonthLen(y, uint8(m)))
				sum += l
				h = mix(h, l)
				n := clampLen(l)
				var j1, jn int
				for d := 1; d <= n; d++ {
					date := lib.NewDate(y, uint8(m), uint8(d))
					jd := ct.ToJd(date)
					if date.Year != y || int(date.Month) != m || int(date.Day) != d {
						ps.add("C01", "cfg=%s year=%d month=%d day=%d: ToJd changed the date it was given to %s (the same date object now has day number %d)", c.name, y, m, d, dateStr(date), ct.ToJd(date))
					}
					h = mix(h, jd)
					if d == 1 {
						j1 = jd
					}
					jn = jd
					// C01 (date -> day number -> date) on well-formed dates
					if d <= l {
						if back := ct.JdTo(jd); back.Year != y || int(back.Month) != m || int(back.Day) != d {
							ps.add("C01", "cfg=%s year=%d month=%d day=%d ToJd=%d JdTo(ToJd)=%s", c.name, y, m, d, jd, dateStr(back))
						}
					}
				}
				first[m] = j1
				if list {
					fmt.Fprintf(&sb, ",%d:%d:%d", l, j1, jn)
				}
				// C20 month length bounds
				if l < minL || l > maxL {
					ps.add("C20", "cfg=%s year=%d month=%d length=%d outside advertised [%d,%d]", c.name, y, m, l, minL, maxL)
				}
				// C03 month lengths follow the rule (outside the hijri table window)
				if c.name != "hij-t" {
					if rl := c.rule.mlen(y, m); rl != l {
						ps.add("C03", "cfg=%s year=%d month=%d length=%d rule-length=%d", c.name, y, m, l, rl)
					}
				}
			}
			first[13] = ct.ToJd(lib.NewDate(ny, 1, 1))
			// C07
			for m := 1; m <= 12; m++ {
				l := int(ct.GetMonthLen(y, uint8(m)))
				if gap := first[m+1] - first[m]; gap != l {
					ps.add("C07", "cfg=%s year=%d month=%d length=%d gap-to-next-month-start=%d", c.name, y, m, l, gap)
				}
			}
			ylen := first[13] - first[1]
			if sum != ylen {
				ps.add("C07", "cfg=%s year=%d sum-of-month-lengths=%d year-length=%d", c.name, y, sum, ylen)
			}
			if c.name == "hij-t" && y >= hijTableYears[0] && y <= hijTableYears[1] {
				// table years: the leap flag keeps the arithmetic meaning (checked against the rule below)
			} else if ylen != c.short && ylen != c.short+1 {
				ps.add("C07", "cfg=%s year=%d year-length=%d not in {%d,%d}", c.name, y, ylen, c.short, c.short+1)
			} else if leap != (ylen == c.short+1) {
				ps.add("C07", "cfg=%s year=%d IsLeap=%v year-length=%d", c.name, y, leap, ylen)
			}
			if c.rule.leap(y) != leap {
				ps.add("C03", "cfg=%s year=%d IsLeap=%v rule=%v", c.name, y, leap, !leap)
			}
			if list {
				sb.WriteString(";")
			}
		}()
	}
	if list {
		return sb.String(), ps.out()
	}
	return strconv.FormatUint(h, 16), ps.out()
}
