package main

import (
	"fmt"
	"strconv"
	"time"

	lib "github.com/ilius/libgostarcal"
	"github.com/ilius/libgostarcal/cal_types"
	"github.com/ilius/libgostarcal/cal_types/hijri"
	"github.com/ilius/libgostarcal/interval"
	"github.com/ilius/libgostarcal/occurrence"
	"github.com/ilius/libgostarcal/utils"
	"github.com/ilius/libgostarcal/utils/mapset"
)

// "Abuse" requests: calls the properties say nothing about — ill-formed arguments (a month 13, a day 131,
// a reversed interval, a list with a nil entry, a value a parser returned TOGETHER WITH an error), other
// exported functions of the same packages, a second instance of an exported type. Each runs under
// recover and is answered "ok" whatever happens (the model answers "ok" too). The point is what comes
// AFTER them in the same process: the valid requests that follow must be answered as always, so
// nothing such a call leaves behind (a poisoned cache entry, a dirty pooled buffer, a table of the
// package overwritten through another instance) may reach them.

func quietly(f func()) {
	defer func() { recover() }()
	f()
}

// the table the library ships, as an independent value (an "earlier edition" in several variants)
func otherMonthData(variant int) *hijri.MonthData {
	loaded, startDate, startJd, _, rows := hijriTable()
	if !loaded || len(rows) < 8 {
		return nil
	}
	cp := func(rs [][]int) [][]int {
		out := make([][]int, len(rs))
		for i, r := range rs {
			out[i] = append([]int{}, r...)
		}
		return out
	}
	md := &hijri.MonthData{StartDate: startDate, StartJd: startJd}
	switch variant % 5 {
	case 0: // the first six years only
		md.MonthLen = cp(rows[:6])
	case 1: // ends in the middle of a later year, and one month of that year has another length
		rs := cp(rows[:len(rows)-2])
		last := rs[len(rs)-1]
		if len(last) > 8 {
			last = last[:8]
			last[7] = 59 - last[7]
			rs[len(rs)-1] = last
		}
		md.MonthLen = rs
	case 2: // the same rows, every length swapped 29 <-> 30
		rs := cp(rows)
		for _, r := range rs {
			for i := 1; i < len(r); i++ {
				if r[i] > 0 {
					r[i] = 59 - r[i]
				}
			}
		}
		md.MonthLen = rs
	case 3: // no rows at all
		md.MonthLen = [][]int{}
	case 4: // the very same table once more
		md.MonthLen = cp(rows)
	}
	return md
}

func calAbuse(c *calCfg, op string, n int) {
	ct := c.ct
	switch op {
	case "other-table":
		// a SECOND instance of the exported month-table type, loaded and used on its own: never handed to
		// the library, so the library's own table must not notice
		if md := otherMonthData(n); md != nil {
			quietly(func() { md.Load() })
			quietly(func() { md.GetDateFromJd(md.StartJd + 40) })
			quietly(func() { md.GetJdFromDate(lib.NewDate(md.StartDate[0]+1, 3, 2)) })
			quietly(func() { md.GetDateFromJd(md.EndJd) })
		}
	case "abuse":
		// ill-formed dates around the date of day n (the type allows month and day 0..255)
		var y int
		var m, d uint8
		quietly(func() { dt := ct.JdTo(n); y, m, d = dt.Year, dt.Month, dt.Day })
		for _, yy := range []int{y - 1, y, y + 1} {
			for _, mm := range []uint8{0, 13, 14, 100 + m, 255} {
				quietly(func() { ct.ToJd(lib.NewDate(yy, mm, 1)) })
				quietly(func() { ct.ToJd(lib.NewDate(yy, mm, d)) })
				quietly(func() { ct.GetMonthLen(yy, mm) })
			}
			for _, dd := range []uint8{0, 31, 32, 100 + d, 200 + d%50, 255} {
				quietly(func() { ct.ToJd(lib.NewDate(yy, m, dd)) })
				quietly(func() { ct.ToJd(lib.NewDate(yy, 12, dd)) })
			}
		}
		quietly(func() { ct.JdTo(n + 4000000000) })
		quietly(func() { ct.JdTo(-n - 4000000000) })
		quietly(func() { ct.IsLeap(y + 1<<40) })
		quietly(func() { cal_types.Convert(lib.NewDate(y, 13, d), ct.Name(), "gregorian") })
		quietly(func() { cal_types.Convert(lib.NewDate(y, m, d), "no such calendar", ct.Name()) })
	}
}

func textAbuse(y, m, d int) {
	defer func() {
		// the LAST calls before the valid requests that follow: the value (y, m, d) itself, printed — the
		// fields are whatever the request says, 0..255
		dt := lib.NewDate(y, uint8(m), uint8(d))
		quietly(func() { _ = (&lib.DateHMS{Date: dt, HMS: lib.NewHMS(uint8(d), uint8(m), uint8(d))}).String() })
		quietly(func() { _ = lib.NewHMS(uint8(d), uint8(m), uint8(d)).String() })
		quietly(func() { _ = dt.String() })
	}()
	// values the types allow but no calendar has, printed; what the parsers return together with an error, printed
	for _, dt := range []*lib.Date{
		lib.NewDate(y, uint8(m+100), uint8(d)), lib.NewDate(y, uint8(m), uint8(d+100)), lib.NewDate(y, uint8(m-1), uint8(d+100)),
		lib.NewDate(y-1, uint8(m+100), uint8(d)), lib.NewDate(y, uint8(m+200), uint8(d)), lib.NewDate(y, 0, uint8(d)), lib.NewDate(y, uint8(m), 0),
		lib.NewDate(y, 255, 255),
	} {
		dt := dt
		quietly(func() { _ = dt.String() })
		quietly(func() { _ = fmt.Sprintf("%v", dt) })
		quietly(func() { _ = (&lib.DateHMS{Date: dt, HMS: lib.NewHMS(uint8(d+100), uint8(m+100), 61)}).String() })
		quietly(func() { dt.IsValid() })
	}
	for _, h := range []*lib.HMS{lib.NewHMS(uint8(d+100), uint8(m), 0), lib.NewHMS(24, 60, 60), lib.NewHMS(uint8(d), uint8(m+100), 100), lib.NewHMS(255, 255, 255)} {
		h := h
		quietly(func() { _ = h.String() })
		quietly(func() { h.GetTotalSeconds() })
		quietly(func() { h.GetFloatHour() })
		quietly(func() { h.IsValid() })
	}
	for _, txt := range []string{
		fmt.Sprintf("%d/0/%d", y, d+100), fmt.Sprintf("%d/%d/%d", y, m+100, d), fmt.Sprintf("%d/%d", y, m), "x", "",
		fmt.Sprintf("%d:%d:%d", d+100, m, 0), fmt.Sprintf("%d/%d/%d %d:61", y, m, d+100, d), fmt.Sprintf("%d %d:%d", y, 99, 99),
	} {
		txt := txt
		quietly(func() { v, err := lib.ParseDate(txt); _ = fmt.Sprintf("%v %v", v, err) })
		quietly(func() { v, err := lib.ParseHMS(txt); _ = fmt.Sprintf("%v %v", v, err) })
		quietly(func() { v, err := lib.ParseDateHMS(txt); _ = fmt.Sprintf("%v %v", v, err) })
		quietly(func() { v, err := lib.ParseDHMS(txt); _ = fmt.Sprintf("%v %v", v, err) })
		quietly(func() { v, err := utils.ParseDuration(txt); _ = fmt.Sprintf("%v %v", v, err) })
	}
}

func ivalAbuse(text string, lists []interval.IntervalList) {
	// what a refused parse hands back next to its error, printed the way a log line would
	quietly(func() { v, err := interval.ParseIntervalList(text); _ = fmt.Sprintf("%v %v", v, err) })
	quietly(func() { v, err := interval.ParseClosedIntervalList(text); _ = fmt.Sprintf("%v %v", v, err) })
	quietly(func() { v, err := interval.ParseInterval(text); _ = fmt.Sprintf("%v %v", v, err) })
	quietly(func() { v, err := interval.ParseIntervalList(text); _ = v.String(); _ = err })
	quietly(func() { v, _ := interval.ParseIntervalList(text); v.Normalize() })
	quietly(func() { v, _ := interval.ParseIntervalList(text); v.Humanize() })
	// ill-formed lists: a reversed interval, a nil entry — alone and as one operand next to valid ones
	for _, l := range lists {
		l := l
		rev := cloneIvs(l)
		if len(rev) > 0 {
			k := len(rev) / 2
			rev[k] = &interval.Interval{Start: rev[k].End + 3600, End: rev[k].Start, ClosedEnd: rev[k].ClosedEnd}
		} else {
			rev = interval.IntervalList{{Start: 5, End: 3}}
		}
		withNil := append(cloneIvs(l), nil)
		for _, bad := range []interval.IntervalList{rev, withNil} {
			bad := bad
			quietly(func() { bad.Normalize() })
			quietly(func() { _ = bad.String() })
			quietly(func() { bad.Humanize() })
			// Extract lists every integer an interval covers: only for lists that cover few (its cost on a span of
			// 10^18 is a resource question the properties say nothing about)
			if spanOf(bad) < 100000 {
				quietly(func() { bad.Extract() })
			}
			quietly(func() { interval.IntersectionOfSomeIntervalLists(cloneIvs(l), bad) })
			quietly(func() { interval.IntersectionOfSomeIntervalLists(bad, cloneIvs(l)) })
			quietly(func() { cloneIvs(l).Intersection(bad) })
			quietly(func() { interval.IntersectionOfSomeIntervalLists(cloneIvs(l), cloneIvs(l), bad) })
		}
	}
}

// spanOf: the number of integers the intervals of a list cover at most (saturating)
func spanOf(l interval.IntervalList) int64 {
	var n int64
	for _, iv := range l {
		if iv == nil {
			continue
		}
		d := iv.End - iv.Start
		if iv.End < iv.Start {
			d = iv.Start - iv.End
		}
		if d < 0 || d > 1<<40 || n > 1<<40 {
			return 1 << 41
		}
		n += d + 1
	}
	return n
}

func zoneAbuse(loc *time.Location, jd int, variant int) {
	if variant%2 == 0 {
		defer func() {
			// the LAST call before the valid requests that follow: the offset of the civil date of day jd
			quietly(func() { utils.GetUtcOffsetByGDate(*gregCal.JdTo(jd), loc) })
		}()
	}
	// the other exported functions of the package, for the days around jd in this zone
	for k := -2; k <= 2; k++ {
		var g *lib.Date
		quietly(func() { g = gregCal.JdTo(jd + k) })
		if g == nil {
			continue
		}
		quietly(func() { utils.GetUtcOffsetByGDate(*g, loc) })
		quietly(func() { utils.GetEpochByGDate(g, loc) })
		quietly(func() { utils.GetUtcOffsetByEpoch(utils.GetEpochByJd(jd+k, loc)+43200, loc) })
		quietly(func() { utils.GetFloatJdByEpoch(utils.GetEpochByJd(jd+k, loc)+1, loc) })
		quietly(func() { utils.GetJdAndSecondsFromEpoch(utils.GetEpochByJd(jd+k, loc)-1, loc) })
	}
	quietly(func() { utils.GetUtcOffsetCurrent(loc) })
	quietly(func() { utils.GetCurrentDate("gregorian") })
	quietly(func() { utils.GetCurrentDate("no such calendar") })
	// ill-formed arguments: an HMS no clock shows, a reversed span, a nil zone
	quietly(func() { utils.GetEpochByJhms(jd, lib.HMS{Hour: 25, Minute: 61, Second: 61}, loc) })
	quietly(func() {
		utils.GetJdRangeFromEpochRange(utils.GetEpochByJd(jd+1, loc), utils.GetEpochByJd(jd, loc), loc)
	})
	quietly(func() { utils.GetEpochByJd(jd, nil) })
	quietly(func() { utils.GetJdByEpoch(0, nil) })
	quietly(func() { interval.IntervalByJd(jd, nil) })
	// occurrence sets with a reversed interval: refused — and nothing of them may stay behind
	var day *interval.Interval
	quietly(func() { day = interval.IntervalByJd(jd, loc) })
	if day != nil {
		ev := zoneEvent{loc: loc}
		good := occurrence.IntervalOccurSet{Event: ev, List: interval.IntervalList{{Start: day.Start - 86400, End: day.End + 86400}}}
		bad := occurrence.IntervalOccurSet{Event: ev, List: interval.IntervalList{{Start: day.Start + 3600, End: day.Start}}}
		set := mapset.NewSet()
		set.Add(jd - 1)
		set.Add(jd + 5)
		jds := occurrence.JdOccurSet{Event: ev, JdSet: set}
		quietly(func() { good.Intersection(bad) })
		quietly(func() { bad.Intersection(good) })
		quietly(func() { bad.Intersection(jds) })
		quietly(func() { jds.Intersection(bad) })
		quietly(func() { bad.GetDaysJdList() })
		quietly(func() { bad.Len() })
		quietly(func() { bad.GetStartJd() })
		quietly(func() { occurrence.IntervalOccurSet{Event: ev}.GetStartJd() })
	}
}

func atoiDef(s string, def int) int {
	if v, err := strconv.Atoi(s); err == nil {
		return v
	}
	return def
}
