package main

import (
	"fmt"
	"math/big"
	"reflect"
	"regexp"
	"sort"
	"strconv"
	"strings"

	lib "github.com/ilius/libgostarcal"
	"github.com/ilius/libgostarcal/event/rules_lib"
	"github.com/ilius/libgostarcal/utils"
)

func init() {
	handlers["rules"] = rulesHandler
	handlers["text"] = textHandler
}

func showDateV(d *lib.Date) string {
	if d == nil {
		return "nil"
	}
	return fmt.Sprintf("%d/%d/%d", d.Year, d.Month, d.Day)
}

func showHMSv(x *lib.HMS) string {
	if x == nil {
		return "nil"
	}
	return fmt.Sprintf("%d:%d:%d", x.Hour, x.Minute, x.Second)
}

func showIntList(l []int) string {
	if len(l) == 0 {
		return "intlist -"
	}
	if len(l) > 64 {
		h := fnvInit
		for _, v := range l {
			h = mix(h, v)
		}
		return fmt.Sprintf("intlist# %d %x", len(l), h)
	}
	parts := make([]string, len(l))
	for i, v := range l {
		parts[i] = strconv.Itoa(v)
	}
	return "intlist " + strings.Join(parts, ",")
}

// exact value of a float64 as num/den in lowest terms with a power-of-ten-free form is not
// needed: the check compares floats numerically; print the exact rational
func showFloatExact(f float64) string {
	r := new(big.Rat).SetFloat64(f)
	if r == nil {
		return fmt.Sprintf("nonfinite:%v", f)
	}
	s := r.String()
	if f == 0 && 1/f < 0 {
		s = "-" + s
	}
	return s
}

var plainDecimal = regexp.MustCompile(`^[+-]?([0-9]+(\.[0-9]*)?|\.[0-9]+)$`)

// the count of a duration written as a plain decimal must be the float64 nearest to the number written
// (computed here with exact rationals, independently of strconv)
func durationFaithful(text string, got float64) string {
	parts := strings.Split(text, " ")
	if len(parts) != 2 || !plainDecimal.MatchString(parts[0]) || len(parts[0]) > 60 {
		return ""
	}
	r, ok := new(big.Rat).SetString(parts[0])
	if !ok {
		return ""
	}
	want, _ := r.Float64()
	if want != got {
		return fmt.Sprintf("carries the count %s, the number written is %s (nearest float64 %s)", showFloatExact(got), parts[0], showFloatExact(want))
	}
	return ""
}

func showValue(v any) string {
	switch x := v.(type) {
	case string:
		return "str " + tohex(x)
	case int:
		return "int " + strconv.Itoa(x)
	case []int:
		return showIntList(x)
	case *lib.HMS:
		return "hms " + showHMSv(x)
	case *lib.DHMS:
		if x == nil {
			return "dhms nil"
		}
		return fmt.Sprintf("dhms %d %s", x.Days, showHMSv(&x.HMS))
	case *lib.HMSRange:
		if x == nil {
			return "hmsrange nil"
		}
		return "hmsrange " + showHMSv(x.Start) + " " + showHMSv(x.End)
	case *lib.Date:
		return "date " + showDateV(x)
	case []*lib.Date:
		if len(x) == 0 {
			return "datelist -"
		}
		parts := make([]string, len(x))
		for i, d := range x {
			parts[i] = showDateV(d)
		}
		return "datelist " + strings.Join(parts, ",")
	case *lib.DateHMS:
		if x == nil {
			return "datehms nil"
		}
		return "datehms " + showDateV(x.Date) + " " + showHMSv(x.HMS)
	case utils.Duration:
		return fmt.Sprintf("dur %s %s %d", showFloatExact(x.Value), x.UnitString, x.UnitSeconds)
	case rules_lib.WeekMonth:
		return fmt.Sprintf("wm %d %d %d", x.WeekIndex, x.WeekDay, x.Month)
	case float64:
		return "float " + showFloatExact(x)
	}
	return fmt.Sprintf("other %T", v)
}

// Decode and Check under recover(): (response, decode panicked, check panicked)
func decodeAndCheck(typ, value string) (resp string, decPanic, chkPanic bool, sharedMem string) {
	var rule rules_lib.EventRule
	var err error
	func() {
		defer func() {
			if r := recover(); r != nil {
				decPanic = true
			}
		}()
		rule, err = rules_lib.EventRuleModel{Type: typ, Value: value}.Decode()
	}()
	if decPanic {
		return "panic", true, false, ""
	}
	if err != nil {
		return "err", false, false, ""
	}
	chk := ""
	func() {
		defer func() {
			if r := recover(); r != nil {
				chkPanic = true
				chk = "panic"
			}
		}()
		if rule.Check() {
			chk = "1"
		} else {
			chk = "0"
		}
	}()
	val := "unprintable"
	func() {
		defer func() { recover() }()
		val = showValue(rule.Value)
	}()
	// the decoded value belongs to the caller: after the caller has overwritten it, decoding the same
	// text again must give the same value (decoders hand out no shared memory)
	func() {
		defer func() { recover() }()
		scribble(reflect.ValueOf(rule.Value), 0)
		again, err2 := rules_lib.EventRuleModel{Type: typ, Value: value}.Decode()
		if err2 != nil {
			sharedMem = fmt.Sprintf("decodes to %s, but decoding the same text again after the caller changed that value fails: %v", val, err2)
		} else if v2 := showValue(again.Value); v2 != val {
			sharedMem = fmt.Sprintf("decodes to %s, but after the caller changed that value the same text decodes to %s", val, v2)
		}
	}()
	return "ok " + val + " check=" + chk, false, chkPanic, sharedMem
}

// overwrite everything reachable from a decoded value that the caller can write to
func scribble(v reflect.Value, depth int) {
	if depth > 4 || !v.IsValid() {
		return
	}
	switch v.Kind() {
	case reflect.Interface, reflect.Ptr:
		if !v.IsNil() {
			scribble(v.Elem(), depth+1)
		}
	case reflect.Struct:
		for i := 0; i < v.NumField(); i++ {
			scribble(v.Field(i), depth+1)
		}
	case reflect.Slice:
		for i := 0; i < v.Len(); i++ {
			scribble(v.Index(i), depth+1)
		}
	case reflect.Int, reflect.Int8, reflect.Int16, reflect.Int32, reflect.Int64:
		if v.CanSet() {
			v.SetInt(v.Int() + 77)
		}
	case reflect.Uint, reflect.Uint8, reflect.Uint16, reflect.Uint32, reflect.Uint64:
		if v.CanSet() {
			v.SetUint((v.Uint() + 77) % 200)
		}
	case reflect.Float32, reflect.Float64:
		if v.CanSet() {
			v.SetFloat(v.Float() + 77)
		}
	case reflect.String:
		if v.CanSet() {
			v.SetString(v.String() + "~")
		}
	}
}

func rulesHandler(args []string) (string, []string) {
	var ps propSink
	switch {
	case len(args) >= 3 && args[0] == "decode":
		typ := args[1]
		// a type name that cannot be a token of the line protocol (empty, blanks, control bytes) comes as hex:<hex>;
		// such a name is never a registered one, so the model answers it as an unknown type
		if strings.HasPrefix(typ, "hex:") {
			t, ok := unhex(typ[4:])
			if !ok {
				return "bad-request", nil
			}
			typ = t
		}
		value, ok := unhex(args[2])
		if !ok {
			return "bad-request", nil
		}
		resp, dp, cp, sharedMem := decodeAndCheck(typ, value)
		if dp {
			ps.add("C09", "type=%s value=%q Decode panics", typ, value)
		}
		if cp {
			ps.add("C09", "type=%s value=%q decodes but Check panics", typ, value)
		}
		if sharedMem != "" {
			ps.add("C08", "type=%s value=%q %s", typ, value, sharedMem)
		}
		if typ == "duration" && strings.HasPrefix(resp, "ok dur ") {
			if x, err := utils.ParseDuration(value); err == nil {
				if msg := durationFaithful(value, x.Value); msg != "" {
					ps.add("C08", "type=duration value=%q %s", value, msg)
				}
			}
		}
		// the generator's expectation about this value (C08): acc:<value> | rej | bad
		if len(args) >= 4 {
			exp := strings.Join(args[3:], " ")
			switch {
			case strings.HasPrefix(exp, "acc:"):
				want := "ok " + exp[4:] + " check=1"
				if resp != want {
					ps.add("C08", "type=%s value=%q is in format and in range but gives %q instead of %q", typ, value, resp, want)
				}
			case exp == "rej":
				if strings.HasPrefix(resp, "ok ") && strings.HasSuffix(resp, "check=1") {
					ps.add("C08", "type=%s value=%q has a field out of range but is decoded and accepted: %s", typ, value, resp)
				}
			case exp == "bad":
				if resp != "err" {
					ps.add("C08", "type=%s value=%q is not in the documented format but gives %q instead of a decode error", typ, value, resp)
				}
			}
		}
		return resp, ps.out()
	case len(args) == 1 && args[0] == "types":
		var parts []string
		list := ruleTypeList()
		if list == nil {
			return "needs-hooks", nil
		}
		sort.Slice(list, func(i, j int) bool { return list[i].Name < list[j].Name })
		for _, t := range list {
			// the decoder's name is not recoverable from the function value; the static
			// extraction carries it and the driver prints it, so only name/order/checker are compared
			parts = append(parts, fmt.Sprintf("%s:%d:%s", t.Name, t.Order, map[bool]string{true: "1", false: "0"}[t.ValueChecker != nil]))
		}
		checkRuleTables(&ps)
		return strings.Join(parts, ","), ps.out()
	}
	return "bad-request", nil
}

// the table clause of C09 on the running registry
func checkRuleTables(ps *propSink) {
	reg := map[string]int{}
	orders := map[int]string{}
	for _, t := range ruleTypeList() {
		reg[t.Name] = t.Order
		if o, dup := orders[t.Order]; dup {
			ps.add("C09", "rule types %s and %s share order %d", o, t.Name, t.Order)
		}
		orders[t.Order] = t.Name
	}
	for name, tbl := range map[string]map[string][]string{"RulesRequire": rules_lib.RulesRequire, "RulesConflictWith": rules_lib.RulesConflictWith} {
		for k, vs := range tbl {
			if _, ok := reg[k]; !ok {
				ps.add("C09", "%s names the unregistered rule type %q", name, k)
			}
			for _, v := range vs {
				if _, ok := reg[v]; !ok {
					ps.add("C09", "%s[%s] names the unregistered rule type %q", name, k, v)
				}
			}
		}
	}
	for k, vs := range rules_lib.RulesConflictWith {
		for _, v := range vs {
			if v == k {
				ps.add("C09", "rule type %s conflicts with itself", k)
			}
			for _, r := range rules_lib.RulesRequire[k] {
				if r == v {
					ps.add("C09", "rule type %s both requires and conflicts with %s", k, v)
				}
			}
		}
	}
	// every type can appear in at least one rule set satisfying both tables: all 2^n subsets
	names := make([]string, 0, len(reg))
	for n := range reg {
		names = append(names, n)
	}
	sort.Strings(names)
	n := len(names)
	if n > 22 {
		return
	}
	idx := map[string]int{}
	for i, nm := range names {
		idx[nm] = i
	}
	reqMask := make([]uint32, n)
	conMask := make([]uint32, n)
	for k, vs := range rules_lib.RulesRequire {
		if i, ok := idx[k]; ok {
			for _, v := range vs {
				if j, ok := idx[v]; ok {
					reqMask[i] |= 1 << uint(j)
				} else {
					reqMask[i] |= 1 << 31 // unsatisfiable
				}
			}
		}
	}
	for k, vs := range rules_lib.RulesConflictWith {
		if i, ok := idx[k]; ok {
			for _, v := range vs {
				if j, ok := idx[v]; ok {
					conMask[i] |= 1 << uint(j)
				}
			}
		}
	}
	usable := make([]bool, n)
	for s := uint32(1); s < 1<<uint(n); s++ {
		ok := true
		for i := 0; i < n && ok; i++ {
			if s>>uint(i)&1 == 1 {
				ok = s&reqMask[i] == reqMask[i] && s&conMask[i] == 0
			}
		}
		if ok {
			for i := 0; i < n; i++ {
				if s>>uint(i)&1 == 1 {
					usable[i] = true
				}
			}
		}
	}
	for i, u := range usable {
		if !u {
			ps.add("C09", "rule type %s cannot appear in any rule set that satisfies both tables", names[i])
		}
	}
}

// ---------------------------------------------------------------------------------
// date / time text forms (C14)

func textHandler(args []string) (string, []string) {
	if len(args) == 4 && args[0] == "abuse" {
		textAbuse(atoiDef(args[1], 2000), atoiDef(args[2], 1), atoiDef(args[3], 1))
		return "ok", nil
	}
	var ps propSink
	b01 := func(b bool) string {
		if b {
			return "1"
		}
		return "0"
	}
	atoi := func(ss []string) ([]int, bool) {
		out := make([]int, len(ss))
		for i, s := range ss {
			v, err := strconv.Atoi(s)
			if err != nil {
				return nil, false
			}
			out[i] = v
		}
		return out, true
	}
	u8 := func(vs ...int) bool {
		for _, v := range vs {
			if v < 0 || v > 255 {
				return false
			}
		}
		return true
	}
	if len(args) >= 2 && strings.HasPrefix(args[0], "p") {
		s, ok := unhex(args[1])
		if !ok {
			return "bad-request", nil
		}
		// expectation of the generator for faithfulness: "f:<fields as printed below>" means these
		// are the numbers written; a parsed value that passes its validity check must carry them
		expect := ""
		if len(args) >= 3 && strings.HasPrefix(args[2], "f:") {
			expect = strings.Join(args[2:], " ")[2:]
		}
		resp := ""
		valid := false
		func() {
			defer func() {
				if r := recover(); r != nil {
					resp = "panic"
					ps.add("C14", "parser=%s text=%q panics: %v", args[0], s, r)
				}
			}()
			switch args[0] {
			case "pdate":
				d, err := lib.ParseDate(s)
				if err != nil {
					resp = "err"
					return
				}
				valid = d.IsValid()
				resp = "ok " + showDateV(d) + " valid=" + b01(valid)
				saved := *d
				d.Year, d.Month, d.Day = d.Year+77, 99, 99
				if d2, e2 := lib.ParseDate(s); e2 != nil || *d2 != saved {
					ps.add("C14", "parser=pdate text=%q parses to %s, but after the caller changed that result the same text parses to %s err=%v", s, showDateV(&saved), showDateV(d2), e2)
				}
				*d = saved
			case "phms":
				x, err := lib.ParseHMS(s)
				if err != nil {
					resp = "err"
					return
				}
				valid = x.IsValid()
				resp = "ok " + showHMSv(x) + " valid=" + b01(valid)
				saved := *x
				x.Hour, x.Minute, x.Second = 97, 98, 99
				if x2, e2 := lib.ParseHMS(s); e2 != nil || *x2 != saved {
					ps.add("C14", "parser=phms text=%q parses to %s, but after the caller changed that result the same text parses to %s err=%v", s, showHMSv(&saved), showHMSv(x2), e2)
				}
				*x = saved
			case "pdhms":
				x, err := lib.ParseDHMS(s)
				if err != nil {
					resp = "err"
					return
				}
				valid = x.IsValid()
				resp = fmt.Sprintf("ok %d %s valid=%s", x.Days, showHMSv(&x.HMS), b01(valid))
			case "pdatehms":
				x, err := lib.ParseDateHMS(s)
				if err != nil {
					resp = "err"
					return
				}
				valid = x.IsValid()
				resp = "ok " + showDateV(x.Date) + " " + showHMSv(x.HMS) + " valid=" + b01(valid)
				if x.Date != nil && x.HMS != nil {
					sd, sh := *x.Date, *x.HMS
					x.Date.Year, x.Date.Month, x.Date.Day = x.Date.Year+77, 99, 99
					x.HMS.Hour, x.HMS.Minute, x.HMS.Second = 97, 98, 99
					if x2, e2 := lib.ParseDateHMS(s); e2 != nil || x2.Date == nil || x2.HMS == nil || *x2.Date != sd || *x2.HMS != sh {
						ps.add("C14", "parser=pdatehms text=%q parses to %s %s, but after the caller changed that result the same text parses differently (err=%v)", s, showDateV(&sd), showHMSv(&sh), e2)
					}
					*x.Date, *x.HMS = sd, sh
				}
			case "phmsrange":
				x, err := lib.ParseHMSRange(s)
				if err != nil {
					resp = "err"
					return
				}
				valid = x.IsValid()
				resp = "ok " + showHMSv(x.Start) + " " + showHMSv(x.End) + " valid=" + b01(valid)
				if x.Start != nil && x.End != nil {
					if x.Start == x.End {
						ps.add("C14", "parser=phmsrange text=%q: start and end of the range are the same object", s)
					}
					ss, se := *x.Start, *x.End
					x.Start.Hour, x.Start.Minute, x.Start.Second = 97, 98, 99
					x.End.Hour, x.End.Minute, x.End.Second = 96, 95, 94
					if x2, e2 := lib.ParseHMSRange(s); e2 != nil || x2.Start == nil || x2.End == nil || *x2.Start != ss || *x2.End != se {
						ps.add("C14", "parser=phmsrange text=%q parses to %s %s, but after the caller changed that result the same text parses differently (err=%v)", s, showHMSv(&ss), showHMSv(&se), e2)
					}
					*x.Start, *x.End = ss, se
				}
			case "pdatelist":
				l, err := lib.ParseDateList(s)
				if err != nil {
					resp = "err"
					return
				}
				parts := make([]string, len(l))
				for i, d := range l {
					parts[i] = showDateV(d)
				}
				resp = "ok " + strings.Join(parts, ",")
				if len(l) == 0 {
					resp = "ok -"
				}
			case "pintlist":
				l, err := utils.ParseIntList(s)
				if err != nil {
					resp = "err"
					return
				}
				resp = "ok " + strings.TrimPrefix(showIntList(l), "intlist ")
			case "pdur":
				x, err := utils.ParseDuration(s)
				if err != nil {
					resp = "err"
					return
				}
				valid = x.IsValid()
				resp = fmt.Sprintf("ok %s %s %d valid=%s", showFloatExact(x.Value), x.UnitString, x.UnitSeconds, b01(valid))
				if msg := durationFaithful(s, x.Value); msg != "" {
					ps.add("C14", "parser=pdur text=%q %s", s, msg)
					ps.add("C08", "type=duration value=%q %s", s, msg)
				}
			default:
				resp = "bad-request"
			}
		}()
		if expect != "" && valid && strings.HasPrefix(resp, "ok ") {
			got := strings.TrimSuffix(strings.TrimPrefix(resp, "ok "), " valid=1")
			if got != expect {
				ps.add("C14", "parser=%s text=%q passes its validity check but carries %q, written %q", args[0], s, got, expect)
			}
		}
		return resp, ps.out()
	}
	nums, ok := atoi(args[1:])
	if !ok {
		return "bad-request", nil
	}
	switch {
	case args[0] == "sdate" && len(nums) == 3 && u8(nums[1], nums[2]):
		d := lib.NewDate(nums[0], uint8(nums[1]), uint8(nums[2]))
		s := d.String()
		back, err := lib.ParseDate(s)
		if err != nil || *back != *d {
			ps.add("C14", "date=%s prints as %q which parses to %s err=%v", showDateV(d), s, showDateV(back), err)
		}
		return "ok " + tohex(s), ps.out()
	case args[0] == "shms" && len(nums) == 3 && u8(nums...):
		x := lib.HMS{Hour: uint8(nums[0]), Minute: uint8(nums[1]), Second: uint8(nums[2])}
		s := x.String()
		back, err := lib.ParseHMS(s)
		if err != nil || *back != x {
			ps.add("C14", "time=%s prints as %q which parses to %s err=%v", showHMSv(&x), s, showHMSv(back), err)
		}
		return "ok " + tohex(s), ps.out()
	case args[0] == "sdhms" && len(nums) == 4 && u8(nums[1:]...) && nums[0] >= 0:
		x := lib.DHMS{HMS: lib.HMS{Hour: uint8(nums[1]), Minute: uint8(nums[2]), Second: uint8(nums[3])}, Days: uint(nums[0])}
		s := x.String()
		back, err := lib.ParseDHMS(s)
		if err != nil || *back != x {
			ps.add("C14", "days+time=%d %s prints as %q which does not parse back (err=%v)", x.Days, showHMSv(&x.HMS), s, err)
		}
		return "ok " + tohex(s), ps.out()
	case args[0] == "sdatehms" && len(nums) == 6 && u8(nums[1:]...):
		x := lib.DateHMS{Date: lib.NewDate(nums[0], uint8(nums[1]), uint8(nums[2])), HMS: lib.NewHMS(uint8(nums[3]), uint8(nums[4]), uint8(nums[5]))}
		s := x.String()
		back, err := lib.ParseDateHMS(s)
		if err != nil || *back.Date != *x.Date || *back.HMS != *x.HMS {
			ps.add("C14", "datetime=%s %s prints as %q which does not parse back (err=%v)", showDateV(x.Date), showHMSv(x.HMS), s, err)
		}
		return "ok " + tohex(s), ps.out()
	}
	return "bad-request", nil
}
