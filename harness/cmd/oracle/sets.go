package main

import (
	"fmt"
	"github.com/ilius/libgostarcal/utils"
	"sort"
	"strconv"
	"strings"

	"github.com/ilius/libgostarcal/utils/mapset"
)

func init() { handlers["set"] = setHandler }

// element tokens: i<int> is a Go int, s<text> a Go string
func elemOf(tok string) any {
	if strings.HasPrefix(tok, "i") {
		if v, err := strconv.Atoi(tok[1:]); err == nil {
			return v
		}
	}
	return strings.TrimPrefix(tok, "s")
}

func tokOf(e any) string {
	switch v := e.(type) {
	case int:
		return "i" + strconv.Itoa(v)
	case string:
		return "s" + v
	}
	return fmt.Sprintf("?%v", e)
}

func showTokSet(toks []string) string {
	sort.Strings(toks)
	return "{" + strings.Join(toks, ",") + "}"
}

func setToks(s mapset.Set) []string {
	var toks []string
	for _, e := range s.ToSlice() {
		toks = append(toks, tokOf(e))
	}
	return toks
}

// the mathematical reference: a set of tokens
type refSet map[string]bool

func (r refSet) clone() refSet {
	c := refSet{}
	for k := range r {
		c[k] = true
	}
	return c
}

func (r refSet) show() string {
	var t []string
	for k := range r {
		t = append(t, k)
	}
	return showTokSet(t)
}

func setHandler(args []string) (string, []string) {
	if len(args) != 3 || args[0] != "ops" {
		return "bad-request", nil
	}
	var ps propSink
	newSet := mapset.NewSet
	if args[1] == "unsafe" {
		newSet = func(...any) mapset.Set { return mapset.NewThreadUnsafeSet() }
	}
	regs := []mapset.Set{newSet(), newSet(), newSet()}
	ref := []refSet{{}, {}, {}}
	var outs []string
	ops := strings.Split(args[2], ";")
	reg := func(t string) int {
		v, _ := strconv.Atoi(t)
		if v < 0 || v > 2 {
			return 0
		}
		return v
	}
	fail := func(k int, op string, format string, a ...any) {
		ps.add("C15", "impl=%s history=%s step=%d op=%s: %s", args[1], strings.Join(ops[:k+1], ";"), k, op, fmt.Sprintf(format, a...))
	}
	for k, op := range ops {
		t := strings.Split(op, ":")
		out := "bad-op"
		want := ""
		switch {
		case t[0] == "add" && len(t) == 3:
			r := reg(t[1])
			want = b2s(!ref[r][t[2]])
			ref[r][t[2]] = true
			out = b2s(regs[r].Add(elemOf(t[2])))
		case t[0] == "rm" && len(t) == 3:
			r := reg(t[1])
			delete(ref[r], t[2])
			regs[r].Remove(elemOf(t[2]))
			out, want = "-", "-"
		case t[0] == "clear" && len(t) == 2:
			r := reg(t[1])
			ref[r] = refSet{}
			regs[r].Clear()
			out, want = "-", "-"
		case t[0] == "has" && len(t) == 3:
			r := reg(t[1])
			var es []any
			all := true
			for _, v := range strings.Split(t[2], ",") {
				es = append(es, elemOf(v))
				all = all && ref[r][v]
			}
			want = b2s(all)
			out = b2s(regs[r].Contains(es...))
		case t[0] == "card" && len(t) == 2:
			r := reg(t[1])
			want = strconv.Itoa(len(ref[r]))
			out = strconv.Itoa(regs[r].Cardinality())
		case (t[0] == "union" || t[0] == "inter" || t[0] == "diff" || t[0] == "sym") && len(t) == 4:
			d, a, b := reg(t[1]), reg(t[2]), reg(t[3])
			res := refSet{}
			for x := range ref[a] {
				inB := ref[b][x]
				if (t[0] == "union") || (t[0] == "inter" && inB) || (t[0] == "diff" && !inB) || (t[0] == "sym" && !inB) {
					res[x] = true
				}
			}
			for x := range ref[b] {
				if t[0] == "union" || (t[0] == "sym" && !ref[a][x]) {
					res[x] = true
				}
			}
			var got mapset.Set
			switch t[0] {
			case "union":
				got = regs[a].Union(regs[b])
			case "inter":
				got = regs[a].Intersect(regs[b])
			case "diff":
				got = regs[a].Difference(regs[b])
			default:
				got = regs[a].SymmetricDifference(regs[b])
			}
			ref[d] = res
			regs[d] = got
			out, want = "-", "-"
		case t[0] == "clone" && len(t) == 3:
			d, a := reg(t[1]), reg(t[2])
			ref[d] = ref[a].clone()
			regs[d] = regs[a].Clone()
			out, want = "-", "-"
		case (t[0] == "sub" || t[0] == "sup" || t[0] == "eq") && len(t) == 3:
			a, b := reg(t[1]), reg(t[2])
			sub := func(x, y refSet) bool {
				for e := range x {
					if !y[e] {
						return false
					}
				}
				return true
			}
			switch t[0] {
			case "sub":
				want = b2s(sub(ref[a], ref[b]))
				out = b2s(regs[a].IsSubset(regs[b]))
			case "sup":
				want = b2s(sub(ref[b], ref[a]))
				out = b2s(regs[a].IsSuperset(regs[b]))
			default:
				want = b2s(sub(ref[a], ref[b]) && sub(ref[b], ref[a]))
				out = b2s(regs[a].Equal(regs[b]))
			}
		case (t[0] == "slice" || t[0] == "iter" || t[0] == "str") && len(t) == 2:
			r := reg(t[1])
			want = ref[r].show()
			switch t[0] {
			case "slice":
				out = showTokSet(setToks(regs[r]))
			case "iter":
				var toks []string
				for e := range regs[r].Iter() {
					toks = append(toks, tokOf(e))
				}
				out = showTokSet(toks)
			default:
				s := regs[r].String()
				if !strings.HasPrefix(s, "Set{") || !strings.HasSuffix(s, "}") {
					out = "unparsable:" + s
					break
				}
				body := s[4 : len(s)-1]
				var toks []string
				// "Set{}" is both the empty set and the set whose only member is the empty string
				if body != "" || ref[r]["s"] {
					// %v of an element: recover the token through the reference universe
					for _, p := range strings.Split(body, ", ") {
						tok := "?" + p
						for cand := range ref[r] {
							if fmt.Sprintf("%v", elemOf(cand)) == p {
								tok = cand
							}
						}
						toks = append(toks, tok)
					}
				}
				out = showTokSet(toks)
			}
		case t[0] == "cart" && len(t) == 3:
			a, b := reg(t[1]), reg(t[2])
			var w []string
			for x := range ref[a] {
				for y := range ref[b] {
					w = append(w, "("+x+"|"+y+")")
				}
			}
			want = showTokSet(w)
			cp := regs[a].CartesianProduct(regs[b])
			var toks []string
			for _, e := range cp.ToSlice() {
				// orderedPair is unexported: read it through its String form "(first, second)"
				s := fmt.Sprintf("%v", e)
				s = strings.TrimSuffix(strings.TrimPrefix(s, "("), ")")
				p := strings.SplitN(s, ", ", 2)
				if len(p) != 2 {
					toks = append(toks, "?"+s)
					continue
				}
				find := func(txt string, from refSet) string {
					for cand := range from {
						if fmt.Sprintf("%v", elemOf(cand)) == txt {
							return cand
						}
					}
					return "?" + txt
				}
				toks = append(toks, "("+find(p[0], ref[a])+"|"+find(p[1], ref[b])+")")
			}
			out = showTokSet(toks)
			if cp.Cardinality() != len(ref[a])*len(ref[b]) {
				fail(k, op, "Cartesian product has %d members, expected %d", cp.Cardinality(), len(ref[a])*len(ref[b]))
			}
		case t[0] == "pow" && len(t) == 2:
			r := reg(t[1])
			var elems []string
			for x := range ref[r] {
				elems = append(elems, x)
			}
			sort.Strings(elems)
			var w []string
			for m := 0; m < 1<<uint(len(elems)); m++ {
				var sub []string
				for i, e := range elems {
					if m>>uint(i)&1 == 1 {
						sub = append(sub, e)
					}
				}
				w = append(w, showTokSet(sub))
			}
			want = showTokSet(w)
			pw := regs[r].PowerSet()
			var toks []string
			for _, e := range pw.ToSlice() {
				if sub, ok := e.(mapset.Set); ok {
					toks = append(toks, showTokSet(setToks(sub)))
				} else {
					toks = append(toks, fmt.Sprintf("?%T", e))
				}
			}
			out = showTokSet(toks)
		}
		outs = append(outs, out)
		if want != "" && out != want {
			fail(k, op, "answered %s, a mathematical set gives %s", out, want)
		}
		// after every step every register must hold exactly the reference members (operands unchanged,
		// results are new sets) and size, listing and membership must agree with each other
		// (long histories over large sets: the complete comparison every 64th step and at the end; in between the
		// sizes — a lost or a phantom member changes a size)
		if len(ops) > 400 && k%64 != 0 && k < len(ops)-12 {
			for r := 0; r < 3; r++ {
				if regs[r].Cardinality() != len(ref[r]) {
					fail(k, op, "afterwards set %d has size %d, a mathematical set has %d members", r, regs[r].Cardinality(), len(ref[r]))
					ref[r] = refSet{}
					for _, tk := range setToks(regs[r]) {
						ref[r][tk] = true
					}
				}
			}
			continue
		}
		for r := 0; r < 3; r++ {
			intListAgrees(regs[r], func(format string, a ...any) { fail(k, op, format, a...) })
			if got := showTokSet(setToks(regs[r])); got != ref[r].show() || regs[r].Cardinality() != len(ref[r]) {
				fail(k, op, "afterwards set %d holds %s (size %d), a mathematical set holds %s", r, got, regs[r].Cardinality(), ref[r].show())
				// resynchronise the reference so that one defect is reported once
				ref[r] = refSet{}
				for _, tk := range setToks(regs[r]) {
					ref[r][tk] = true
				}
			}
		}
	}
	return strings.Join(outs, ";"), ps.out()
}

// utils.IntListBySet lists the members of a set of ints: same members, each once
func intListAgrees(set mapset.Set, fail func(format string, a ...any)) {
	members := set.ToSlice()
	want := map[int]bool{}
	for _, e := range members {
		v, ok := e.(int)
		if !ok {
			return // only defined on sets of ints
		}
		want[v] = true
	}
	defer func() {
		if r := recover(); r != nil {
			fail("IntListBySet panics on a set of ints: %v", r)
		}
	}()
	got := utils.IntListBySet(set)
	seen := map[int]bool{}
	for _, v := range got {
		if !want[v] || seen[v] {
			fail("IntListBySet lists %v for a set holding %v", got, members)
			return
		}
		seen[v] = true
	}
	if len(got) != len(want) {
		fail("IntListBySet lists %v for a set holding %v", got, members)
	}
}

func b2s(b bool) string {
	if b {
		return "1"
	}
	return "0"
}
