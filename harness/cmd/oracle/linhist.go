//go:build verif

package main

import (
	"fmt"
	"math/rand"
	"runtime"
	"sort"
	"strconv"
	"strings"
	"sync"
	"sync/atomic"
	"time"

	"github.com/ilius/libgostarcal/utils/mapset"
)

// Concurrent histories of the thread-safe set checked for linearizability (C16, last clause):
// 2-4 goroutines x <= 4 operations on <= 2 sets over a 5-value universe; every completed history
// must equal running the same operations one at a time in an order consistent with real time.
// The schedule is perturbed through the verif hook (yields / short sleeps around lock events).

const linNV = 5 // values 0..4; value 4 is also the filler of long argument lists

type linOp struct {
	g          int
	kind       string // add rm has has2 card slice clear union inter diff eq sub sup sym clone iter str pow cart
	s, t       int    // set index, second operand
	v          int
	w, n       int // has2: Contains(v, 4 x n, w)
	res        string
	start, end int64
}

func (o linOp) String() string {
	if o.kind == "has2" {
		return fmt.Sprintf("g%d:Contains(s%d: v%d, %d times v4, v%d)=%s@[%d,%d]", o.g, o.s, o.v, o.n, o.w, o.res, o.start, o.end)
	}
	return fmt.Sprintf("g%d:%s(s%d,t%d,v%d)=%s@[%d,%d]", o.g, o.kind, o.s, o.t, o.v, o.res, o.start, o.end)
}

func maskStr(m uint8) string {
	var p []string
	for v := 0; v < linNV; v++ {
		if m>>uint(v)&1 == 1 {
			p = append(p, strconv.Itoa(v))
		}
	}
	return "{" + strings.Join(p, ",") + "}"
}

// sequential specification on bitmask sets: new state and the result the operation must report
func seqApply(st [2]uint8, o linOp) ([2]uint8, string) {
	a, b := st[o.s], st[o.t]
	bit := uint8(1) << uint(o.v)
	switch o.kind {
	case "add":
		r := "1"
		if a&bit != 0 {
			r = "0"
		}
		st[o.s] = a | bit
		return st, r
	case "rm":
		st[o.s] = a &^ bit
		return st, "-"
	case "clear":
		st[o.s] = 0
		return st, "-"
	case "has":
		if a&bit != 0 {
			return st, "1"
		}
		return st, "0"
	case "has2":
		ok := a&bit != 0 && a&(uint8(1)<<uint(o.w)) != 0 && (o.n == 0 || a&(1<<4) != 0)
		if ok {
			return st, "1"
		}
		return st, "0"
	case "card":
		n := 0
		for v := 0; v < linNV; v++ {
			n += int(a >> uint(v) & 1)
		}
		return st, strconv.Itoa(n)
	case "slice":
		return st, maskStr(a)
	case "union":
		return st, maskStr(a | b)
	case "inter":
		return st, maskStr(a & b)
	case "diff":
		return st, maskStr(a &^ b)
	case "eq":
		if a == b {
			return st, "1"
		}
		return st, "0"
	case "sub":
		if a&^b == 0 {
			return st, "1"
		}
		return st, "0"
	case "sup":
		if b&^a == 0 {
			return st, "1"
		}
		return st, "0"
	case "sym":
		return st, maskStr(a ^ b)
	case "clone", "iter", "str":
		return st, maskStr(a)
	case "pow":
		return st, strconv.Itoa(1 << uint(popcount(a)))
	case "cart":
		return st, strconv.Itoa(popcount(a) * popcount(b))
	}
	return st, "?"
}

func popcount(m uint8) int {
	n := 0
	for v := 0; v < linNV; v++ {
		n += int(m >> uint(v) & 1)
	}
	return n
}

func setMaskStr(s mapset.Set) string {
	var m uint8
	for _, e := range s.ToSlice() {
		if v, ok := e.(int); ok && v >= 0 && v < linNV {
			m |= 1 << uint(v)
		}
	}
	return maskStr(m)
}

func runRealOp(sets [2]mapset.Set, o *linOp) {
	a, b := sets[o.s], sets[o.t]
	switch o.kind {
	case "add":
		o.res = b2s(a.Add(o.v))
	case "rm":
		a.Remove(o.v)
		o.res = "-"
	case "clear":
		a.Clear()
		o.res = "-"
	case "has":
		o.res = b2s(a.Contains(o.v))
	case "has2":
		args := make([]any, 0, o.n+2)
		args = append(args, o.v)
		for k := 0; k < o.n; k++ {
			args = append(args, 4)
		}
		args = append(args, o.w)
		o.res = b2s(a.Contains(args...))
	case "card":
		o.res = strconv.Itoa(a.Cardinality())
	case "slice":
		o.res = setMaskStr(a)
	case "union":
		o.res = setMaskStr(a.Union(b))
	case "inter":
		o.res = setMaskStr(a.Intersect(b))
	case "diff":
		o.res = setMaskStr(a.Difference(b))
	case "eq":
		o.res = b2s(a.Equal(b))
	case "sub":
		o.res = b2s(a.IsSubset(b))
	case "sup":
		o.res = b2s(a.IsSuperset(b))
	case "sym":
		o.res = setMaskStr(a.SymmetricDifference(b))
	case "clone":
		o.res = setMaskStr(a.Clone())
	case "iter":
		var m uint8
		for e := range a.Iter() {
			if o.n > 0 {
				// a consumer that is not waiting when the next member is ready
				time.Sleep(time.Duration(o.n) * time.Microsecond)
			}
			if v, ok := e.(int); ok && v >= 0 && v < linNV {
				m |= 1 << uint(v)
			}
		}
		o.res = maskStr(m)
	case "str":
		// the printed form lists the members; read them back
		var m uint8
		txt := a.String()
		for v := 0; v < linNV; v++ {
			if strings.Contains(txt, strconv.Itoa(v)) {
				m |= 1 << uint(v)
			}
		}
		o.res = maskStr(m)
	case "pow":
		o.res = strconv.Itoa(a.PowerSet().Cardinality())
	case "cart":
		o.res = strconv.Itoa(a.CartesianProduct(b).Cardinality())
	}
}

// is there an order of the operations, consistent with real time, that the sequential spec accepts?
func linearizable(init [2]uint8, ops []linOp) bool {
	n := len(ops)
	type key struct {
		done uint32
		st   [2]uint8
	}
	seen := map[key]bool{}
	var rec func(done uint32, st [2]uint8) bool
	rec = func(done uint32, st [2]uint8) bool {
		if done == uint32(1)<<uint(n)-1 {
			return true
		}
		k := key{done, st}
		if seen[k] {
			return false
		}
		seen[k] = true
		for i := 0; i < n; i++ {
			if done>>uint(i)&1 == 1 {
				continue
			}
			// i may go next only if no other pending operation finished before i started
			ok := true
			for j := 0; j < n && ok; j++ {
				if j != i && done>>uint(j)&1 == 0 && ops[j].end < ops[i].start {
					ok = false
				}
			}
			if !ok {
				continue
			}
			st2, want := seqApply(st, ops[i])
			if want == ops[i].res && rec(done|1<<uint(i), st2) {
				return true
			}
		}
		return false
	}
	return rec(0, init)
}

// all 18 operations of the interface (writers weighted up)
var linKinds = []string{"add", "add", "add", "add", "rm", "rm", "rm", "has", "has", "has2", "has2", "card", "slice", "clear", "union", "inter", "diff", "eq", "sub",
	"sup", "sym", "sym", "clone", "iter", "str", "pow", "cart"}

func linHistories(ps *propSink, count int, seed int64) string {
	rng := rand.New(rand.NewSource(seed))
	var hookRnd atomic.Uint64
	hookRnd.Store(uint64(seed)*2654435761 + 1)
	mapset.VerifLockHook = func(set any, op string, phase int) {
		x := hookRnd.Add(0x9E3779B97F4A7C15)
		x ^= x >> 29
		switch {
		case x%11 == 0:
			time.Sleep(time.Duration(x%40) * time.Microsecond)
		case x%3 == 0:
			runtime.Gosched()
		}
	}
	defer func() { mapset.VerifLockHook = nil }()
	bad := 0
	for h := 0; h < count; h++ {
		sets := [2]mapset.Set{mapset.NewSet(), mapset.NewSet()}
		var init [2]uint8
		for s := 0; s < 2; s++ {
			for v := 0; v < linNV; v++ {
				if rng.Intn(3) == 0 || (v == 4 && rng.Intn(4) != 0) {
					sets[s].Add(v)
					init[s] |= 1 << uint(v)
				}
			}
		}
		// a set is a set however it came about: half of the sets are not what the constructor returned but
		// what an earlier operation handed back (a clone, a union with nothing, …) — same members
		for s := 0; s < 2; s++ {
			switch rng.Intn(10) {
			case 0, 1:
				sets[s] = sets[s].Clone()
			case 2:
				sets[s] = sets[s].Union(mapset.NewSet())
			case 3:
				sets[s] = sets[s].Intersect(sets[s].Clone())
			case 4:
				sets[s] = sets[s].Difference(mapset.NewSet())
			case 5:
				sets[s] = sets[s].SymmetricDifference(mapset.NewSet())
			}
		}
		ng := 2 + rng.Intn(3)
		progs := make([][]linOp, ng)
		// contention helps: most operations of one history use the same value and the same set
		hotV, hotS := rng.Intn(4), rng.Intn(2)
		for g := range progs {
			for k := 0; k < 1+rng.Intn(4); k++ {
				o := linOp{g: g, kind: linKinds[rng.Intn(len(linKinds))], s: hotS, t: rng.Intn(2), v: hotV}
				if rng.Intn(4) == 0 {
					o.s = rng.Intn(2)
				}
				if rng.Intn(4) == 0 {
					o.v = rng.Intn(4)
				}
				if o.kind == "iter" || o.kind == "slice" || o.kind == "str" || o.kind == "clone" {
					o.n = []int{0, 0, 5, 30, 200}[rng.Intn(5)] // only Iter has a consumer to be slow
				}
				if o.kind == "has2" {
					// a long argument list: the deciding values at its two ends, value 4 in between
					o.w = rng.Intn(4)
					o.n = []int{0, 1, 255, 256, 300, 1100, 20000}[rng.Intn(7)]
				}
				progs[g] = append(progs[g], o)
			}
		}
		// a reader that takes its time over a set of several members meets a writer that changes two of them
		for g := range progs {
			for _, o := range progs[g] {
				if (o.kind == "iter" || o.kind == "slice" || o.kind == "clone" || o.kind == "str") && rng.Intn(2) == 0 {
					for v := 0; v < linNV; v++ {
						if rng.Intn(2) == 0 && init[o.s]>>uint(v)&1 == 0 {
							sets[o.s].Add(v)
							init[o.s] |= 1 << uint(v)
						}
					}
					g2 := (g + 1) % ng
					v1, v2 := rng.Intn(linNV), rng.Intn(linNV)
					k1, k2 := []string{"rm", "add"}[rng.Intn(2)], []string{"rm", "add"}[rng.Intn(2)]
					progs[g2] = []linOp{{g: g2, kind: k1, s: o.s, t: o.s, v: v1}, {g: g2, kind: k2, s: o.s, t: o.s, v: v2}}
					if rng.Intn(2) == 0 {
						progs[g2] = append(progs[g2], linOp{g: g2, kind: "rm", s: o.s, t: o.s, v: rng.Intn(linNV)})
					}
					break
				}
			}
		}
		// a reader with a long list meets a writer that takes its first value away and puts its last one in
		for g := range progs {
			for _, o := range progs[g] {
				if o.kind == "has2" && o.v != o.w && rng.Intn(2) == 0 {
					g2 := (g + 1) % ng
					progs[g2] = []linOp{{g: g2, kind: "rm", s: o.s, t: o.s, v: o.v}, {g: g2, kind: "add", s: o.s, t: o.s, v: o.w}}
					if rng.Intn(2) == 0 {
						progs[g2] = []linOp{{g: g2, kind: "add", s: o.s, t: o.s, v: o.w}, {g: g2, kind: "rm", s: o.s, t: o.s, v: o.v}}
					}
					break
				}
			}
		}
		var clock atomic.Int64
		var wg sync.WaitGroup
		startGate := make(chan struct{})
		for g := range progs {
			wg.Add(1)
			go func(g int) {
				defer wg.Done()
				<-startGate
				for k := range progs[g] {
					o := &progs[g][k]
					o.start = clock.Add(1)
					runRealOp(sets, o)
					o.end = clock.Add(1)
				}
			}(g)
		}
		close(startGate)
		done := make(chan struct{})
		go func() { wg.Wait(); close(done) }()
		select {
		case <-done:
		case <-time.After(25 * time.Second):
			ps.add("C17", "concurrent history %d (seed %d) did not complete within 25 s", h, seed)
			return fmt.Sprintf("histories=%d nonlinearizable=%d (stopped: hang)", h, bad)
		}
		var all []linOp
		for _, p := range progs {
			all = append(all, p...)
		}
		sort.Slice(all, func(i, j int) bool { return all[i].start < all[j].start })
		if !linearizable(init, all) {
			bad++
			parts := make([]string, len(all))
			for i, o := range all {
				parts[i] = o.String()
			}
			ps.add("C16", "history not linearizable: initial A=%s B=%s; operations (goroutine:op(set,second,value)=result@[invoke,return]): %s", maskStr(init[0]), maskStr(init[1]), strings.Join(parts, " "))
			if bad >= 3 {
				return fmt.Sprintf("histories=%d nonlinearizable=%d (stopped early)", h+1, bad)
			}
		}
	}
	return fmt.Sprintf("histories=%d nonlinearizable=%d", count, bad)
}
