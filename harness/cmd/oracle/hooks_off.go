//go:build !verif

package main

import (
	"encoding/json"
	"os"
	"path/filepath"
	"sync"

	"github.com/ilius/libgostarcal/event/rules_lib"
)

// The oracle built WITHOUT the library's verification hooks: the library exactly as its users build
// it. What needs a hook (lock events, schedule control, registry dumps) is answered `needs-hooks`
// here and asked of the tagged build instead. The hijri month table (used only to state the table's
// own rule and to attribute seam days) is read from the dump the tagged build wrote next to this
// executable.

const hooksBuilt = false

type hijriTableDump struct {
	Loaded    bool
	StartDate [3]int
	StartJd   int
	EndJd     int
	Rows      [][]int
}

var hijriDump *hijriTableDump
var hijriDumpOnce sync.Once

func hijriTable() (loaded bool, startDate [3]int, startJd, endJd int, rows [][]int) {
	hijriDumpOnce.Do(func() {
		hijriDump = &hijriTableDump{}
		exe, _ := os.Executable()
		if b, err := os.ReadFile(filepath.Join(filepath.Dir(exe), "hijri_table.json")); err == nil {
			json.Unmarshal(b, hijriDump)
		}
	})
	d := hijriDump
	return d.Loaded, d.StartDate, d.StartJd, d.EndJd, d.Rows
}

func ruleTypeList() []*rules_lib.EventRuleType { return nil }

func init() {
	handlers["locks"] = func(args []string) (string, []string) { return "needs-hooks", nil }
}
