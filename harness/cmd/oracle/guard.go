package main

import (
	"fmt"

	"github.com/ilius/libgostarcal/interval"
)

// Every slice handed to the library has spare capacity (as a caller's slice that is the front part
// of a longer one has): the elements behind its end hold canaries, and a call that writes there —
// `append(arg, x)` used as scratch — has changed memory that belongs to the caller.
const spareN = 4

type guards struct{ checks []func() string }

func (g *guards) report(pid, req string) []string {
	var out []string
	for _, c := range g.checks {
		if msg := c(); msg != "" {
			out = append(out, fmt.Sprintf("!PROP %s request=%q %s", pid, req, msg))
			break
		}
	}
	return out
}

const canaryInt = 0x5EED0000

func spareInts(g *guards, l []int) []int {
	b := make([]int, len(l), len(l)+spareN)
	copy(b, l)
	full := b[:cap(b)]
	for i := len(l); i < len(full); i++ {
		full[i] = canaryInt + i
	}
	n := len(l)
	g.checks = append(g.checks, func() string {
		for i := n; i < len(full); i++ {
			if full[i] != canaryInt+i {
				return fmt.Sprintf("the call wrote %d into the caller's array behind the end of the %d-element list it was given (spare capacity is the caller's memory)", full[i], n)
			}
		}
		return ""
	})
	return b
}

func spareInts64(g *guards, l []int64) []int64 {
	b := make([]int64, len(l), len(l)+spareN)
	copy(b, l)
	full := b[:cap(b)]
	for i := len(l); i < len(full); i++ {
		full[i] = canaryInt + int64(i)
	}
	n := len(l)
	g.checks = append(g.checks, func() string {
		for i := n; i < len(full); i++ {
			if full[i] != canaryInt+int64(i) {
				return fmt.Sprintf("the call wrote %d into the caller's array behind the end of the %d-element list it was given (spare capacity is the caller's memory)", full[i], n)
			}
		}
		return ""
	})
	return b
}

func spareIvs(g *guards, l interval.IntervalList) interval.IntervalList {
	b := make(interval.IntervalList, len(l), len(l)+spareN)
	copy(b, l)
	full := b[:cap(b)]
	canaries := make([]*interval.Interval, len(full))
	for i := len(l); i < len(full); i++ {
		canaries[i] = &interval.Interval{Start: canaryInt + int64(i), End: canaryInt + int64(i) + 1}
		full[i] = canaries[i]
	}
	n := len(l)
	g.checks = append(g.checks, func() string {
		for i := n; i < len(full); i++ {
			if full[i] != canaries[i] || full[i].Start != canaryInt+int64(i) || full[i].End != canaryInt+int64(i)+1 {
				return fmt.Sprintf("the call changed the caller's array behind the end of the %d-interval list it was given (spare capacity is the caller's memory)", n)
			}
		}
		return ""
	})
	return b
}
