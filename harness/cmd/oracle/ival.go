package main

import (
	"encoding/hex"
	"fmt"
	"sort"
	"strconv"
	"strings"

	"github.com/ilius/libgostarcal/interval"
)

func init() { handlers["ival"] = ivalHandler }

// ---------------------------------------------------------------------------------
// protocol encoding

func parseIv(s string) (*interval.Interval, bool) {
	p := strings.Split(s, ":")
	if len(p) != 3 {
		return nil, false
	}
	a, e1 := strconv.ParseInt(p[0], 10, 64)
	b, e2 := strconv.ParseInt(p[1], 10, 64)
	if e1 != nil || e2 != nil || (p[2] != "c" && p[2] != "o") {
		return nil, false
	}
	return &interval.Interval{Start: a, End: b, ClosedEnd: p[2] == "c"}, true
}

func parseIvs(s string) (interval.IntervalList, bool) {
	if s == "-" {
		return interval.IntervalList{}, true
	}
	parts := strings.Split(s, ",")
	l := make(interval.IntervalList, len(parts))
	for i, p := range parts {
		iv, ok := parseIv(p)
		if !ok {
			return nil, false
		}
		l[i] = iv
	}
	return l, true
}

func showIv(i *interval.Interval) string {
	k := "o"
	if i.ClosedEnd {
		k = "c"
	}
	return fmt.Sprintf("%d:%d:%s", i.Start, i.End, k)
}

func showIvs(l interval.IntervalList) string {
	if len(l) == 0 {
		return "-"
	}
	parts := make([]string, len(l))
	for i, iv := range l {
		parts[i] = showIv(iv)
	}
	return strings.Join(parts, ",")
}

func unhex(s string) (string, bool) {
	if !strings.HasPrefix(s, "x") {
		return "", false
	}
	b, err := hex.DecodeString(s[1:])
	if err != nil {
		return "", false
	}
	return string(b), true
}

func tohex(s string) string { return "x" + hex.EncodeToString([]byte(s)) }

func parseInts64(s string) ([]int64, bool) {
	if s == "-" {
		return []int64{}, true
	}
	parts := strings.Split(s, ",")
	l := make([]int64, len(parts))
	for i, p := range parts {
		v, err := strconv.ParseInt(p, 10, 64)
		if err != nil {
			return nil, false
		}
		l[i] = v
	}
	return l, true
}

func showInts64(l []int64) string {
	if len(l) == 0 {
		return "-"
	}
	parts := make([]string, len(l))
	for i, v := range l {
		parts[i] = strconv.FormatInt(v, 10)
	}
	return strings.Join(parts, ",")
}

func cloneIvs(l interval.IntervalList) interval.IntervalList {
	c := make(interval.IntervalList, len(l))
	for i, iv := range l {
		x := *iv
		c[i] = &x
	}
	return c
}

func equalIvs(a, b interval.IntervalList) bool {
	if len(a) != len(b) {
		return false
	}
	for i := range a {
		if *a[i] != *b[i] {
			return false
		}
	}
	return true
}

// ---------------------------------------------------------------------------------
// the observation lattice of the properties: an instant is a position p or a half-way
// point p±1/2; kind -1 = p-1/2, 0 = p, +1 = p+1/2

type lpt struct {
	pos  int64
	kind int
}

func memI(x lpt, i *interval.Interval) bool {
	switch x.kind {
	case 0:
		return i.Start <= x.pos && (x.pos < i.End || (i.ClosedEnd && x.pos == i.End))
	case 1:
		return i.Start <= x.pos && x.pos < i.End
	default:
		return i.Start < x.pos && x.pos <= i.End
	}
}

func memL(x lpt, l interval.IntervalList) bool {
	for _, i := range l {
		if memI(x, i) {
			return true
		}
	}
	return false
}

// every lattice point at or next to an end point of any of the lists
func lattice(lists ...interval.IntervalList) []lpt {
	seen := map[int64]bool{}
	var pts []lpt
	for _, l := range lists {
		for _, i := range l {
			for _, p := range []int64{i.Start, i.End} {
				if !seen[p] {
					seen[p] = true
					pts = append(pts, lpt{p, -1}, lpt{p, 0}, lpt{p, 1})
				}
			}
		}
	}
	return pts
}

func wfI(i *interval.Interval) bool {
	return i.Start < i.End || (i.Start == i.End && i.ClosedEnd)
}

func wfL(l interval.IntervalList) bool {
	for _, i := range l {
		if !wfI(i) {
			return false
		}
	}
	return true
}

// canonical form: sorted, pairwise disjoint, non-adjacent, no empty interval
func canonicalProblem(l interval.IntervalList) string {
	for k, i := range l {
		if !wfI(i) {
			return "empty or reversed interval " + showIv(i)
		}
		if k > 0 && !(l[k-1].End < i.Start) {
			return "intervals " + showIv(l[k-1]) + " and " + showIv(i) + " overlap, touch or are out of order"
		}
	}
	return ""
}

func revIvs(l interval.IntervalList) interval.IntervalList {
	c := cloneIvs(l)
	for i, j := 0, len(c)-1; i < j; i, j = i+1, j-1 {
		c[i], c[j] = c[j], c[i]
	}
	return c
}

// ---------------------------------------------------------------------------------

func ivalHandler(args []string) (string, []string) {
	var g guards
	resp, props := ivalHandler1(args, &g)
	pid := "C13"
	if len(args) > 0 && args[0] == "norm" {
		pid = "C05"
	} else if len(args) > 0 && args[0] == "inter" {
		pid = "C04"
	}
	return resp, append(props, g.report(pid, "ival "+strings.Join(args, " "))...)
}

func ivalHandler1(args []string, g *guards) (string, []string) {
	if len(args) < 2 {
		return "bad-request", nil
	}
	var ps propSink
	switch args[0] {
	case "abuse":
		// ival abuse <hex text> <list>[;<list>…]
		text, ok := unhex(args[1])
		if !ok || len(args) != 3 {
			return "bad-request", nil
		}
		var lists []interval.IntervalList
		for _, s := range strings.Split(args[2], ";") {
			if l, ok := parseIvs(s); ok {
				lists = append(lists, l)
			}
		}
		ivalAbuse(text, lists)
		return "ok", nil
	case "norm":
		l, ok := parseIvs(args[1])
		if !ok {
			return "bad-request", nil
		}
		l = spareIvs(g, l)
		orig := cloneIvs(l)
		r, err := l.Normalize()
		if err != nil {
			if wfAllowEmpty(orig) {
				ps.add("C05", "list=%s Normalize returned an error: %v", args[1], err)
			}
			return "err", ps.out()
		}
		checkNormalize(&ps, args[1], orig, l, r)
		return "ok " + showIvs(r), ps.out()
	case "inter":
		var lists []interval.IntervalList
		for _, s := range strings.Split(args[1], ";") {
			l, ok := parseIvs(s)
			if !ok {
				return "bad-request", nil
			}
			lists = append(lists, spareIvs(g, l))
		}
		orig := make([]interval.IntervalList, len(lists))
		for i, l := range lists {
			orig[i] = cloneIvs(l)
		}
		r, err := interval.IntersectionOfSomeIntervalLists(lists...)
		if err != nil {
			allWF := true
			for _, l := range orig {
				allWF = allWF && wfL(l)
			}
			if allWF {
				ps.add("C04", "operands=%s intersection returned an error: %v", args[1], err)
			}
			return "err", ps.out()
		}
		checkIntersection(&ps, args[1], orig, lists, r)
		if len(orig) == 2 {
			// the two-operand METHOD is the same function
			if rm, err := cloneIvs(orig[0]).Intersection(cloneIvs(orig[1])); err != nil || !equalIvs(rm, r) {
				ps.add("C04", "operands=%s IntersectionOfSomeIntervalLists gives %s but the method A.Intersection(B) gives %s err=%v", args[1], showIvs(r), showIvs(rm), err)
			}
		}
		after := make([]string, len(lists))
		for i, l := range lists {
			after[i] = showIvs(l)
		}
		return "ok " + showIvs(r) + " " + strings.Join(after, ";"), ps.out()
	case "human":
		l, ok := parseIvs(args[1])
		if !ok {
			return "bad-request", nil
		}
		l = spareIvs(g, l)
		orig := cloneIvs(l)
		r := l.Humanize()
		if !equalIvs(orig, l) {
			ps.add("C13", "list=%s Humanize changed the list it was given to %s", args[1], showIvs(l))
		} else if r2 := l.Humanize(); !equalIvs(r2, r) {
			ps.add("C13", "list=%s Humanize gives %s the first time and %s the second time", args[1], showIvs(r), showIvs(r2))
		}
		for _, x := range lattice(orig, r) {
			if memL(x, orig) != memL(x, r) {
				ps.add("C13", "list=%s Humanize changes membership at pos=%d kind=%d result=%s", args[1], x.pos, x.kind, showIvs(r))
				break
			}
		}
		for _, i := range r {
			if i.ClosedEnd && i.End > i.Start {
				ps.add("C13", "list=%s Humanize leaves the closed interval %s", args[1], showIv(i))
				break
			}
		}
		return "ok " + showIvs(r), ps.out()
	case "extract":
		l, ok := parseIvs(args[1])
		if !ok {
			return "bad-request", nil
		}
		l = spareIvs(g, l)
		return "ok " + showInts64(l.Extract()), nil
	case "bynum":
		if len(args) != 3 {
			return "bad-request", nil
		}
		k, err := strconv.Atoi(args[1])
		ns, ok := parseInts64(args[2])
		if err != nil || !ok {
			return "bad-request", nil
		}
		in := append([]int64{}, ns...)
		ns = spareInts64(g, ns)
		r := interval.IntervalListByNumList(ns, k)
		inc := true
		for i := 1; i < len(in); i++ {
			inc = inc && in[i-1] < in[i]
		}
		if inc {
			back := r.Extract()
			if showInts64(back) != showInts64(in) {
				ps.add("C13", "nums=%s threshold=%d grouped=%s expands to %s", args[2], k, showIvs(r), showInts64(back))
			}
		}
		return "ok " + showIvs(r), ps.out()
	case "show":
		i, ok := parseIv(args[1])
		if !ok {
			return "bad-request", nil
		}
		s := i.String()
		if wfI(i) {
			back, err := interval.ParseInterval(s)
			if err != nil || *back != *i {
				ps.add("C13", "interval=%s prints as %q which parses to %v err=%v", args[1], s, back, err)
			}
		}
		return "ok " + tohex(s), ps.out()
	case "showlist":
		l, ok := parseIvs(args[1])
		if !ok {
			return "bad-request", nil
		}
		l = spareIvs(g, l)
		s := l.String()
		if wfL(l) && len(l) > 0 {
			back, err := interval.ParseIntervalList(s)
			if err != nil || !equalIvs(back, l) {
				ps.add("C13", "list=%s prints as %q which parses to %s err=%v", args[1], s, showIvs(back), err)
			}
		}
		return "ok " + tohex(s), ps.out()
	case "parse":
		s, ok := unhex(args[1])
		if !ok {
			return "bad-request", nil
		}
		i, err := interval.ParseInterval(s)
		if err != nil {
			return "err", nil
		}
		if i.End < i.Start {
			ps.add("C13", "text=%q accepted although its end is before its start: %s", s, showIv(i))
		}
		return "ok " + showIv(i), ps.out()
	case "parselist", "parseclosed":
		s, ok := unhex(args[1])
		if !ok {
			return "bad-request", nil
		}
		var l interval.IntervalList
		var err error
		if args[0] == "parselist" {
			l, err = interval.ParseIntervalList(s)
		} else {
			l, err = interval.ParseClosedIntervalList(s)
		}
		if err != nil {
			return "err", nil
		}
		// "an interval text whose end is before its start is rejected" — also inside a list
		for _, i := range l {
			if i != nil && i.Start > i.End {
				ps.add("C13", "text=%q is accepted by %s with the interval %s whose end is before its start", s, args[0], showIv(i))
				break
			}
		}
		// and every interval of an accepted list is what the single-interval parser makes of its token
		if toks := strings.Split(s, " "); len(toks) == len(l) {
			for k, tok := range toks {
				one, e1 := interval.ParseInterval(tok)
				if e1 != nil {
					ps.add("C13", "text=%q is accepted by %s although its token %q is rejected on its own", s, args[0], tok)
					break
				}
				if args[0] == "parselist" && l[k] != nil && *one != *l[k] {
					ps.add("C13", "text=%q: token %q is %s on its own but %s inside the list", s, tok, showIv(one), showIv(l[k]))
					break
				}
			}
		}
		return "ok " + showIvs(l), ps.out()
	}
	return "bad-request", nil
}

// well-formed except that empty [a,a) intervals are allowed (C05 set-preservation clause)
func wfAllowEmpty(l interval.IntervalList) bool {
	for _, i := range l {
		if i.Start > i.End {
			return false
		}
	}
	return true
}

func checkNormalize(ps *propSink, req string, orig, after, r interval.IntervalList) {
	if !wfAllowEmpty(orig) {
		return
	}
	if !equalIvs(orig, after) {
		ps.add("C05", "list=%s Normalize modified its input: now %s", req, showIvs(after))
	}
	for _, x := range lattice(orig, r) {
		if memL(x, orig) != memL(x, r) {
			ps.add("C05", "list=%s result=%s membership differs at pos=%d kind=%d (input %v, result %v)", req, showIvs(r), x.pos, x.kind, memL(x, orig), memL(x, r))
			break
		}
	}
	if !wfL(orig) {
		return
	}
	if p := canonicalProblem(r); p != "" {
		ps.add("C05", "list=%s result=%s not canonical: %s", req, showIvs(r), p)
	}
	if r2, err := cloneIvs(r).Normalize(); err != nil || !equalIvs(r2, r) {
		ps.add("C05", "list=%s result=%s is not a fixed point: normalizing again gives %s err=%v", req, showIvs(r), showIvs(r2), err)
	}
	// the result depends only on the denoted set: reversed input, duplicated input
	if r3, err := revIvs(orig).Normalize(); err != nil || !equalIvs(r3, r) {
		ps.add("C05", "list=%s result=%s but the reversed list gives %s err=%v", req, showIvs(r), showIvs(r3), err)
	}
	dup := append(cloneIvs(orig), cloneIvs(orig)...)
	if r4, err := dup.Normalize(); err != nil || !equalIvs(r4, r) {
		ps.add("C05", "list=%s result=%s but the list written twice gives %s err=%v", req, showIvs(r), showIvs(r4), err)
	}
	// duplicates that are the SAME object (aliased elements), next to each other and apart
	c := cloneIvs(orig)
	adj := make(interval.IntervalList, 0, 2*len(c))
	for _, e := range c {
		adj = append(adj, e, e)
	}
	if r6, err := adj.Normalize(); err != nil || !equalIvs(r6, r) {
		ps.add("C05", "list=%s result=%s but with every interval listed twice in a row as the same object (aliased) gives %s err=%v", req, showIvs(r), showIvs(r6), err)
	}
	c2 := cloneIvs(orig)
	apart := append(append(interval.IntervalList{}, c2...), c2...)
	if r7, err := apart.Normalize(); err != nil || !equalIvs(r7, r) {
		ps.add("C05", "list=%s result=%s but the list followed by the same objects again (aliased) gives %s err=%v", req, showIvs(r), showIvs(r7), err)
	}
	sorted := cloneIvs(orig)
	sort.SliceStable(sorted, func(i, j int) bool {
		if sorted[i].End != sorted[j].End {
			return sorted[i].End > sorted[j].End
		}
		return sorted[i].ClosedEnd && !sorted[j].ClosedEnd
	})
	if r5, err := sorted.Normalize(); err != nil || !equalIvs(r5, r) {
		ps.add("C05", "list=%s result=%s but the list sorted by descending end gives %s err=%v", req, showIvs(r), showIvs(r5), err)
	}
}

func checkIntersection(ps *propSink, req string, orig, after []interval.IntervalList, r interval.IntervalList) {
	for _, l := range orig {
		if !wfL(l) {
			return
		}
	}
	all := append(append([]interval.IntervalList{}, orig...), r)
	all = append(all, after...)
	for _, x := range lattice(all...) {
		in := true
		for _, l := range orig {
			in = in && memL(x, l)
		}
		if in != memL(x, r) {
			ps.add("C04", "operands=%s result=%s membership differs at pos=%d kind=%d (all operands %v, result %v)", req, showIvs(r), x.pos, x.kind, in, memL(x, r))
			break
		}
	}
	if p := canonicalProblem(r); p != "" {
		ps.add("C04", "operands=%s result=%s not canonical: %s", req, showIvs(r), p)
	}
	for k := range orig {
		for _, x := range lattice(orig[k], after[k]) {
			if memL(x, orig[k]) != memL(x, after[k]) {
				ps.add("C04", "operands=%s operand %d denotes a different set after the call: %s", req, k, showIvs(after[k]))
				break
			}
		}
	}
	// operand order, order inside operands
	n := len(orig)
	rev := make([]interval.IntervalList, n)
	for k := range orig {
		rev[n-1-k] = revIvs(orig[k])
	}
	if r2, err := interval.IntersectionOfSomeIntervalLists(rev...); err != nil || !equalIvs(r2, r) {
		ps.add("C04", "operands=%s result=%s but with operands and their contents reversed %s err=%v", req, showIvs(r), showIvs(r2), err)
	}
	if n >= 2 {
		rot := make([]interval.IntervalList, n)
		for k := range orig {
			rot[(k+1)%n] = cloneIvs(orig[k])
		}
		if r3, err := interval.IntersectionOfSomeIntervalLists(rot...); err != nil || !equalIvs(r3, r) {
			ps.add("C04", "operands=%s result=%s but with operands rotated %s err=%v", req, showIvs(r), showIvs(r3), err)
		}
	}
	// aliased operands: the first operand passed once more as the very same list, and an operand whose
	// intervals are each listed twice in a row as the same object
	{
		cl := make([]interval.IntervalList, n, n+1)
		for k := range orig {
			cl[k] = cloneIvs(orig[k])
		}
		cl = append(cl, cl[0])
		if r4, err := interval.IntersectionOfSomeIntervalLists(cl...); err != nil || !equalIvs(r4, r) {
			ps.add("C04", "operands=%s result=%s but with the first operand passed once more as the same list (aliased) %s err=%v", req, showIvs(r), showIvs(r4), err)
		}
		cl2 := make([]interval.IntervalList, n)
		for k := range orig {
			cl2[k] = cloneIvs(orig[k])
		}
		adj := make(interval.IntervalList, 0, 2*len(cl2[0]))
		for _, e := range cl2[0] {
			adj = append(adj, e, e)
		}
		cl2[0] = adj
		if r5, err := interval.IntersectionOfSomeIntervalLists(cl2...); err != nil || !equalIvs(r5, r) {
			ps.add("C04", "operands=%s result=%s but with every interval of the first operand listed twice in a row as the same object %s err=%v", req, showIvs(r), showIvs(r5), err)
		}
	}
	// grouping: ((A ∩ B) ∩ rest)
	if n >= 3 {
		ab, err := interval.IntersectionOfSomeIntervalLists(cloneIvs(orig[0]), cloneIvs(orig[1]))
		if err == nil {
			rest := []interval.IntervalList{ab}
			for _, l := range orig[2:] {
				rest = append(rest, cloneIvs(l))
			}
			r4, err2 := interval.IntersectionOfSomeIntervalLists(rest...)
			if err2 != nil || !equalIvs(r4, r) {
				ps.add("C04", "operands=%s result=%s but grouped as (A∩B)∩rest %s err=%v", req, showIvs(r), showIvs(r4), err2)
			}
		} else {
			ps.add("C04", "operands=%s intersection of the first two operands returned an error: %v", req, err)
		}
	}
}
