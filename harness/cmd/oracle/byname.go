package main

import (
	"fmt"
	"math"
	"strconv"
	"strings"

	lib "github.com/ilius/libgostarcal"
	"github.com/ilius/libgostarcal/cal_types"
	"github.com/ilius/libgostarcal/cal_types/hijri"
	"github.com/ilius/libgostarcal/cal_types/jalali"
	_ "github.com/ilius/libgostarcal/cal_types/registry"
)

func init() {
	handlers["byname"] = byNameHandler
}

func applyToggle(t string) bool {
	switch t {
	case "M0":
		setMonthData(false)
	case "M1":
		setMonthData(true)
	case "A0":
		jalali.SetAlgorithm2820(false)
	case "A1":
		jalali.SetAlgorithm2820(true)
	default:
		return false
	}
	return true
}

func showDate(d *lib.Date) string {
	if d == nil {
		return "nil"
	}
	return fmt.Sprintf("%d/%d/%d", d.Year, d.Month, d.Day)
}

// one by-name conversion with panic and "nil with no error" made visible
func convByName(d *lib.Date, from, to string) (res *lib.Date, out string) {
	defer func() {
		if r := recover(); r != nil {
			res, out = nil, "panic"
		}
	}()
	// the names are handed over the way a caller that has them as bytes does: string(bytes) at the call
	// site. For short names that do not escape, the compiler puts the text into a temporary of the frame,
	// so consecutive calls pass DIFFERENT names at the SAME address — a name is its text, not its address.
	fb, tb := []byte(from), []byte(to)
	r, err := cal_types.Convert(d, string(fb), string(tb))
	if err != nil {
		if r != nil {
			return nil, "err+value"
		}
		return nil, "err"
	}
	if r == nil {
		return nil, "nil-no-error"
	}
	return r, showDate(r)
}

func sameDate(a, b *lib.Date) bool { return a != nil && b != nil && *a == *b }

func byNameHandler(args []string) (string, []string) {
	var ps propSink
	switch {
	case len(args) == 1 && args[0] == "names":
		names := make([]string, len(cal_types.CalTypesList))
		for i, ct := range cal_types.CalTypesList {
			names[i] = ct.Name()
		}
		return strings.Join(names, ","), nil
	case len(args) == 1 && args[0] == "meta":
		return metaDump(&ps), ps.out()
	case len(args) == 7 && args[0] == "convraw":
		// Convert / ToJd / JdTo by name on a literal date: unknown names in either position
		hist, a, b := args[1], args[2], args[3]
		y, e1 := strconv.Atoi(args[4])
		m, e2 := strconv.Atoi(args[5])
		dd, e3 := strconv.Atoi(args[6])
		if e1 != nil || e2 != nil || e3 != nil || m < 0 || m > 255 || dd < 0 || dd > 255 {
			return "bad-request", nil
		}
		if hist != "-" {
			setMonthData(true)
			jalali.SetAlgorithm2820(false)
			for _, t := range strings.Split(hist, ",") {
				if !applyToggle(t) {
					return "bad-request", nil
				}
			}
		}
		d := lib.NewDate(y, uint8(m), uint8(dd))
		ab, sab := convByName(d, a, b)
		sback := sab
		if ab != nil {
			var back *lib.Date
			back, sback = convByName(ab, b, a)
			// inverse law on a literal well-formed date (not derived from JdTo, so a day that JdTo
			// no longer produces is still exercised)
			if ctA := registeredAs(a); ctA != nil && registeredAs(b) != nil && m >= 1 && m <= 12 && dd >= 1 {
				wf := func() (ok bool) {
					defer func() { recover() }()
					return dd <= int(ctA.GetMonthLen(y, uint8(m)))
				}()
				if wf && !hijriTableSeam(ctA, ctA.ToJd(d)) && !hijriTableSeam(registeredAs(b), ctA.ToJd(d)) && !sameDate(back, d) {
					ps.add("C06", "history=%s from=%s to=%s date=%d/%d/%d converts to %s and back to %s", hist, a, b, y, m, dd, sab, sback)
				}
			}
		}
		stj := func() (out string) {
			defer func() {
				if r := recover(); r != nil {
					out = "panic"
				}
			}()
			ab := []byte(a)
			v, err := cal_types.ToJd(d, string(ab))
			if err != nil {
				return "err"
			}
			return strconv.Itoa(v)
		}()
		_, ka := cal_types.CalTypesMap[a]
		_, kb := cal_types.CalTypesMap[b]
		tag := fmt.Sprintf("history=%s from=%s to=%s date=%d/%d/%d", hist, a, b, y, m, dd)
		if sab == "panic" || sab == "nil-no-error" || sab == "err+value" || stj == "panic" {
			ps.add("C06", "%s by-name call gave Convert=%s ToJd=%s", tag, sab, stj)
		}
		if (!ka || !kb) && sab != "err" {
			ps.add("C06", "%s unknown calendar name did not yield an error: Convert=%s", tag, sab)
		}
		if !ka && stj != "err" {
			ps.add("C06", "%s unknown calendar name did not yield an error: ToJd=%s", tag, stj)
		}
		return sab + " " + stj + " " + sback, ps.out()
	case len(args) == 6 && args[0] == "conv":
		hist, a, b, c := args[1], args[2], args[3], args[4]
		jd, err := strconv.Atoi(args[5])
		if err != nil {
			return "bad-request", nil
		}
		if hist != "-" {
			// back to the default configuration, then the requested switches
			setMonthData(true)
			jalali.SetAlgorithm2820(false)
			for _, t := range strings.Split(hist, ",") {
				if !applyToggle(t) {
					return "bad-request", nil
				}
			}
		}
		tag := fmt.Sprintf("history=%s from=%s to=%s third=%s jd=%d", hist, a, b, c, jd)
		// the date of day jd in calendar A, through the by-name API
		var d *lib.Date
		first := func() (out string) {
			defer func() {
				if r := recover(); r != nil {
					out = "panic"
				}
			}()
			ab := []byte(a)
			x, err := cal_types.JdTo(jd, string(ab))
			if err != nil {
				if x != nil {
					return "err+value"
				}
				return "err"
			}
			if x == nil {
				return "nil-no-error"
			}
			d = x
			return ""
		}()
		if first != "" {
			if first != "err" {
				ps.add("C06", "%s JdTo by name: %s", tag, first)
			} else if _, known := cal_types.CalTypesMap[a]; known {
				ps.add("C06", "%s JdTo by name fails for a registered name", tag)
			}
			return first, ps.out()
		}
		viaJd := func() (out string) {
			defer func() {
				if r := recover(); r != nil {
					out = "panic"
				}
			}()
			ab := []byte(a)
			v, err := cal_types.ToJd(d, string(ab))
			if err != nil {
				return "err"
			}
			return strconv.Itoa(v)
		}()
		dSaved := *d
		aa, saa := convByName(d, a, a)
		ab, sab := convByName(d, a, b)
		if *d != dSaved {
			ps.add("C06", "%s date=%s: Convert changed the date it was given to %s", tag, showDate(&dSaved), showDate(d))
			*d = dSaved
		}
		if ab != nil {
			// the result belongs to the caller: changing it must not change the next answer
			abSaved := *ab
			ab.Year, ab.Month, ab.Day = ab.Year+1000, 99, 99
			if ab2, sab2 := convByName(d, a, b); ab2 == nil || *ab2 != abSaved {
				ps.add("C06", "%s date=%s A->B gives %s, but after the caller changed that result the same conversion gives %s (results share memory)", tag, showDate(d), showDate(&abSaved), sab2)
			}
			*ab = abSaved
		}
		var back, bc *lib.Date
		sback, sbc := sab, sab
		if ab != nil {
			back, sback = convByName(ab, b, a)
			bc, sbc = convByName(ab, b, c)
		}
		ac, sac := convByName(d, a, c)
		for _, s := range []string{viaJd, saa, sab, sback, sac, sbc} {
			if s == "panic" || s == "nil-no-error" || s == "err+value" {
				ps.add("C06", "%s by-name call gave %s", tag, s)
			}
		}
		_, kb := cal_types.CalTypesMap[b]
		_, kc := cal_types.CalTypesMap[c]
		if (!kb && sab != "err") || (!kc && sac != "err") {
			ps.add("C06", "%s unknown calendar name did not yield an error (A->B %s, A->C %s)", tag, sab, sac)
		}
		if kb && kc && ab != nil && ac != nil {
			// the per-calendar objects: the entries REGISTERED under these names (registration list),
			// not whatever the name map currently resolves to
			ctA, ctB := registeredAs(a), registeredAs(b)
			if ctA == nil || ctB == nil {
				ctA, _ = cal_types.GetCalType(a)
				ctB, _ = cal_types.GetCalType(b)
			}
			// dates on which a single calendar fails its own round trip belong to C01: on the unchanged
			// tree those are exactly the two seams of the hijri month table (open known findings). The
			// attribution is by that explicit window, NOT by re-running the calendar in this process —
			// a by-name defect that depends on the configuration history must not excuse itself.
			okA := !(hijriTableSeam(ctA, jd))
			okB := !(hijriTableSeam(ctB, jd))
			if viaJd != strconv.Itoa(ctA.ToJd(d)) || !sameDate(ab, ctB.JdTo(ctA.ToJd(d))) {
				ps.add("C06", "%s by-name result %s differs from the per-calendar functions %s", tag, sab, showDate(ctB.JdTo(ctA.ToJd(d))))
			}
			if okA && okB {
				if !sameDate(aa, d) {
					ps.add("C06", "%s date=%s A->A gives %s", tag, showDate(d), saa)
				}
				if !sameDate(back, d) {
					ps.add("C06", "%s date=%s A->B=%s and back gives %s", tag, showDate(d), sab, sback)
				}
				if !sameDate(bc, ac) {
					ps.add("C06", "%s date=%s A->B->C=%s but A->C=%s", tag, showDate(d), sbc, sac)
				}
			}
		}
		return fmt.Sprintf("%s %s %s %s %s %s %s", showDate(d), viaJd, saa, sab, sback, sac, sbc), ps.out()
	}
	return "bad-request", nil
}

// is ct hijri in month-table mode and jd inside one of the table's seam windows?
func hijriTableSeam(ct cal_types.CalType, jd int) bool {
	if !strings.Contains(fmt.Sprintf("%T", ct), "hijri") {
		return false
	}
	loaded, _, startJd, endJd, _ := hijriTable()
	if !loaded || !curMonthData {
		return false
	}
	return (jd >= startJd-31 && jd <= startJd+31) || (jd >= endJd-1 && jd <= endJd+150)
}

// the calendar whose own Name() is n, from the registration list
func registeredAs(n string) cal_types.CalType {
	var found cal_types.CalType
	for _, ct := range cal_types.CalTypesList {
		if ct.Name() == n {
			found = ct
		}
	}
	return found
}

// registry / metadata coherence (C20), evaluated on the running registry
func metaDump(ps *propSink) string {
	var parts []string
	seen := map[string]int{}
	for i, ct := range cal_types.CalTypesList {
		name := ct.Name()
		if j, dup := seen[name]; dup {
			ps.add("C20", "calendars #%d and #%d are both named %q", j, i, name)
		}
		seen[name] = i
		got, err := cal_types.GetCalType(name)
		if err != nil || got == nil {
			ps.add("C20", "name=%s lookup of a registered name fails: %v", name, err)
		} else if fmt.Sprintf("%T|%s|%d", got, got.Desc(), got.Epoch()) != fmt.Sprintf("%T|%s|%d", ct, ct.Desc(), ct.Epoch()) ||
			*got.JdTo(2440588) != *ct.JdTo(2440588) {
			ps.add("C20", "name=%s lookup returns a different calendar (%T %s) than the one registered under it (%T %s)", name, got, got.Desc(), ct, ct.Desc())
		}
		if len(ct.MonthNames()) != 12 || len(ct.MonthNamesAb()) != 12 {
			ps.add("C20", "name=%s has %d month names and %d abbreviations", name, len(ct.MonthNames()), len(ct.MonthNamesAb()))
		}
		avg := ct.AvgYearLen()
		num, den := decimalOf(avg)
		parts = append(parts, fmt.Sprintf("%s|%s|%d|%d|%d|%s/%s|%d|%d", name, ct.Desc(), ct.Epoch(), ct.MinMonthLen(), ct.MaxMonthLen(), num, den, len(ct.MonthNames()), len(ct.MonthNamesAb())))
	}
	if len(cal_types.CalTypesMap) != len(cal_types.CalTypesList) {
		ps.add("C20", "%d calendars registered but %d names in the map", len(cal_types.CalTypesList), len(cal_types.CalTypesMap))
	}
	// advertised average year length vs the true mean over years -6000 .. 12000, every configuration
	for _, cfgName := range []string{"eth", "greg", "gprol", "hij-a", "hij-t", "ind", "jal33", "jal2820", "jul"} {
		c := calCfgs[cfgName]
		c.setup()
		years := 18000.0
		if c.skipYear0 {
			years = 17999.0
		}
		mean := float64(c.ct.ToJd(lib.NewDate(12000, 1, 1))-c.ct.ToJd(lib.NewDate(-6000, 1, 1))) / years
		if math.Abs(mean-c.ct.AvgYearLen()) > 0.01 {
			ps.add("C20", "cfg=%s advertised AvgYearLen=%v but the mean year length over -6000..12000 is %.6f", cfgName, c.ct.AvgYearLen(), mean)
		}
	}
	setMonthData(true)
	jalali.SetAlgorithm2820(false)
	return strings.Join(parts, ";")
}

// shortest decimal of a float64 as an exact fraction num/den (den a power of ten)
func decimalOf(f float64) (string, string) {
	s := strconv.FormatFloat(f, 'f', -1, 64)
	p := strings.SplitN(s, ".", 2)
	if len(p) == 1 {
		return p[0], "1"
	}
	num := strings.TrimLeft(p[0]+p[1], "0")
	if num == "" {
		num = "0"
	}
	return num, "1" + strings.Repeat("0", len(p[1]))
}

// the month-table switch as this process last set it (the library's default is on)
var curMonthData = true

func setMonthData(on bool) {
	hijri.SetUseMonthData(on)
	curMonthData = on
}
