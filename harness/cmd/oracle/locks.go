//go:build verif

package main

import (
	"bytes"
	"fmt"
	"os"
	"reflect"
	"runtime"
	"strconv"
	"strings"
	"sync"
	"sync/atomic"
	"time"

	"github.com/ilius/libgostarcal/utils/mapset"
	"verif/harness/lockrec"
)

func init() { handlers["locks"] = locksHandler }

var repoRoot = func() string {
	if v := os.Getenv("VERIF_REPO"); v != "" {
		return v
	}
	return "/repo"
}()

func goid() int64 {
	var buf [64]byte
	n := runtime.Stack(buf[:], false)
	f := bytes.Fields(buf[:n])
	if len(f) >= 2 {
		id, _ := strconv.ParseInt(string(f[1]), 10, 64)
		return id
	}
	return -1
}

// two sets for the stress and race runs (which of them is called A does not matter there; the hook is
// left alone: goroutines of an earlier run may still be reading it)
func twoSets() (a, b mapset.Set) {
	x, y := mapset.NewSet(1, 2), mapset.NewSet(2, 3)
	if reflect.ValueOf(x).Pointer() > reflect.ValueOf(y).Pointer() {
		return y, x
	}
	return x, y
}

func operands(pattern string, a, b mapset.Set) (recv, arg mapset.Set) {
	switch pattern {
	case "B":
		return b, b
	case "BA":
		return b, a
	case "AA":
		return a, a
	}
	return a, b
}

// call method `name` on recv with arg, draining a returned channel
func callOp(name string, recv, arg mapset.Set, val int) { callOpM(name, recv, arg, val, false) }

// with useResult, a set handed back by the operation is written to and read straight away: a result
// that shares storage with an operand then touches that operand's contents under the wrong lock
func callOpM(name string, recv, arg mapset.Set, val int, useResult bool) {
	m := reflect.ValueOf(recv).MethodByName(name)
	if !m.IsValid() {
		return
	}
	mt := m.Type()
	var args []reflect.Value
	for i := 0; i < mt.NumIn(); i++ {
		in := mt.In(i)
		switch {
		case mt.IsVariadic() && i == mt.NumIn()-1:
			args = append(args, reflect.ValueOf(val))
		case in.Kind() == reflect.Interface && in.NumMethod() > 0:
			args = append(args, reflect.ValueOf(arg))
		default:
			args = append(args, reflect.ValueOf(any(val)).Convert(in))
		}
	}
	for _, r := range m.Call(args) {
		if r.Kind() == reflect.Chan {
			for {
				if _, ok := r.Recv(); !ok {
					break
				}
			}
		}
		if useResult && r.Kind() == reflect.Interface && !r.IsNil() {
			if res, ok := r.Interface().(mapset.Set); ok && res != recv && res != arg {
				res.Add(7000 + val)
				res.Remove(val)
				res.Contains(val + 1)
			}
		}
	}
}

func locksHandler(args []string) (string, []string) {
	var ps propSink
	switch {
	case len(args) == 1 && (args[0] == "seqs" || args[0] == "skels"):
		var entries []lockrec.Entry
		var err error
		if args[0] == "seqs" {
			_, entries, err = lockrec.All(repoRoot)
		} else {
			// lock events alone, from the running code (no reading of the source)
			entries, err = lockrec.Skeletons()
		}
		if err != nil {
			return "extract-error " + strings.ReplaceAll(err.Error(), "\n", " "), nil
		}
		parts := make([]string, len(entries))
		for i, e := range entries {
			toks := make([]string, len(e.Acts))
			for k, a := range e.Acts {
				toks[k] = a.Token()
			}
			body := strings.Join(toks, ",")
			if body == "" {
				body = "-"
			}
			parts[i] = e.Op + ":" + e.Pattern + ":" + body
		}
		return strings.Join(parts, ";"), nil
	case len(args) == 3 && args[0] == "replay":
		return replaySchedule(&ps, args[1], args[2]), ps.out()
	case len(args) >= 1 && args[0] == "stress":
		return stressPairs(&ps), ps.out()
	case len(args) >= 1 && args[0] == "racepairs":
		return racePairs(), nil
	case len(args) == 3 && args[0] == "linhist":
		n, e1 := strconv.Atoi(args[1])
		seed, e2 := strconv.ParseInt(args[2], 10, 64)
		if e1 != nil || e2 != nil {
			return "bad-request", nil
		}
		return linHistories(&ps, n, seed), ps.out()
	case len(args) == 3 && args[0] == "racefocus":
		return raceFocus(args[1], args[2]), nil
	}
	return "bad-request", nil
}

// ---------------------------------------------------------------------------------
// replay of a model schedule on the real code: every lock ACQUISITION of every goroutine is gated
// through the verif hook; the schedule decides the order in which acquisitions are let through

type gate struct {
	grant   chan struct{}
	arrived chan struct{}
	done    chan struct{}
}

func replaySchedule(ps *propSink, progSpec, schedSpec string) string {
	entries, err := lockrec.Skeletons()
	if err != nil {
		return "extract-error"
	}
	byKey := map[string]lockrec.Entry{}
	for _, e := range entries {
		byKey[e.Op+":"+e.Pattern] = e
	}
	specs := strings.Split(progSpec, "|")
	type thread struct {
		op, pattern string
		acts        []lockrec.Act
		pc          int
		announced   bool
	}
	threads := make([]*thread, len(specs))
	shape := "base" // `Op@shape:pattern`: the pair of sets is made the way that shape says
	for i, s := range specs {
		p := strings.Split(s, ":")
		e, ok := byKey[s]
		if len(p) != 2 || !ok {
			return "bad-request"
		}
		opName := p[0]
		if k := strings.Index(opName, "@"); k >= 0 {
			shape = opName[k+1:]
			opName = opName[:k]
		}
		threads[i] = &thread{op: opName, pattern: p[1], acts: e.Acts}
	}
	var sched []int
	if schedSpec != "-" {
		for _, s := range strings.Split(schedSpec, ",") {
			v, err := strconv.Atoi(s)
			if err != nil || v < 0 || v >= len(threads) {
				return "bad-request"
			}
			sched = append(sched, v)
		}
	}
	a, b := lockrec.OrderedPairShape(shape) // lock 0 = the set the library locks first, as in the recorded sequences
	var mu sync.Mutex
	gidToThread := map[int64]int{}
	parentOf := map[int]int{} // goroutines spawned by an operation inherit its thread (Iter)
	_ = parentOf
	pendingGrant := make([]chan struct{}, len(threads))
	acquired := make([]chan struct{}, len(threads))
	for i := range threads {
		pendingGrant[i] = make(chan struct{}, 64)
		acquired[i] = make(chan struct{}, 64)
	}
	var freeRun atomic.Bool
	curThread := func() int {
		mu.Lock()
		defer mu.Unlock()
		if t, ok := gidToThread[goid()]; ok {
			return t
		}
		return -1
	}
	// Iter runs its locking in a spawned goroutine: attribute unknown goroutines to the only
	// thread whose operation spawns one, if there is exactly one such thread
	spawner := -1
	for i, t := range threads {
		if t.op == "Iter" {
			if spawner == -1 {
				spawner = i
			} else {
				spawner = -2
			}
		}
	}
	mapset.VerifLockHook = func(set any, op string, phase int) {
		t := curThread()
		if t < 0 && spawner >= 0 {
			t = spawner
		}
		if t < 0 {
			return
		}
		if (op == "Lock" || op == "RLock") && phase == 0 && !freeRun.Load() {
			<-pendingGrant[t]
		}
		if (op == "Lock" || op == "RLock") && phase == 1 {
			select {
			case acquired[t] <- struct{}{}:
			default:
			}
		}
	}
	defer func() { mapset.VerifLockHook = nil }()
	finished := make([]chan struct{}, len(threads))
	for i, t := range threads {
		finished[i] = make(chan struct{})
		go func(i int, t *thread) {
			mu.Lock()
			gidToThread[goid()] = i
			mu.Unlock()
			recv, arg := operands(t.pattern, a, b)
			callOp(t.op, recv, arg, 7)
			close(finished[i])
		}(i, t)
	}
	diverged := ""
	waitAcq := func(t int) bool {
		select {
		case <-acquired[t]:
			return true
		case <-time.After(400 * time.Millisecond):
			return false
		}
	}
	for _, ti := range sched {
		t := threads[ti]
		// skip actions that have no gated real event
		for t.pc < len(t.acts) && (t.acts[t.pc].Kind == "access" || t.acts[t.pc].Kind == "runlock" || t.acts[t.pc].Kind == "unlock") {
			t.pc++
		}
		if t.pc >= len(t.acts) {
			continue
		}
		switch t.acts[t.pc].Kind {
		case "rlock":
			pendingGrant[ti] <- struct{}{}
			if !waitAcq(ti) && diverged == "" {
				diverged = fmt.Sprintf("thread %d: the model lets RLock through here but the real code blocks", ti)
			}
			t.pc++
		case "wlock":
			if !t.announced {
				pendingGrant[ti] <- struct{}{}
				t.announced = true
				time.Sleep(40 * time.Millisecond) // let it reach the mutex and queue
			} else {
				if !waitAcq(ti) && diverged == "" {
					diverged = fmt.Sprintf("thread %d: the model lets Lock through here but the real code blocks", ti)
				}
				t.pc++
			}
		}
	}
	// the schedule is exhausted: open every gate and see whether everybody returns
	freeRun.Store(true)
	for i := range threads {
		for k := 0; k < 32; k++ {
			select {
			case pendingGrant[i] <- struct{}{}:
			default:
			}
		}
	}
	deadline := time.After(1500 * time.Millisecond)
	stuck := []string{}
	for i := range threads {
		select {
		case <-finished[i]:
		case <-deadline:
			stuck = append(stuck, fmt.Sprintf("%d:%s(%s)", i, threads[i].op, threads[i].pattern))
			deadline = time.After(10 * time.Millisecond)
		}
	}
	if len(stuck) > 0 {
		ps.add("C17", "program=%s schedule=%s: goroutines %s never return on the real code (blocked for 1.5 s after the schedule)", progSpec, schedSpec, strings.Join(stuck, " "))
		return "deadlock " + strings.Join(stuck, " ")
	}
	if diverged != "" {
		return "completed diverged: " + diverged
	}
	return "completed"
}

// ---------------------------------------------------------------------------------
// stress without the model: every ordered pair of operations on swapped / aliased operands with a
// slow reader inside each set and writers queued on each set, the sets an operation hands back used
// straight away; a watchdog reports goroutines that never return

func stressPairs(ps *propSink) string {
	names, binary := lockrec.OpNames()
	runs, hung := 0, 0
	for _, shape := range []string{"base", "apart256", "apart65536"} {
		for _, n1 := range names {
			for _, n2 := range names {
				if shape != "base" && !(binary[n1] && binary[n2]) {
					continue // how far apart two sets were created matters to operations that take both
				}
				for _, pat := range [][2]string{{"AB", "BA"}, {"AA", "AB"}} {
					a, b := lockrec.OrderedPairShape(shape)
					var wg sync.WaitGroup
					done := make(chan struct{})
					body := func(f func()) {
						wg.Add(1)
						go func() { defer wg.Done(); f() }()
					}
					// a slow reader on each set: it is inside the set (read lock held) while the operations start
					for _, s := range []mapset.Set{a, b} {
						s := s
						body(func() {
							ch := s.Iter()
							time.Sleep(150 * time.Microsecond)
							for range ch {
							}
						})
					}
					for k := 0; k < 6; k++ {
						k := k
						// a set handed back by an operation is a set like any other: it is written to and read
						// straight away (callOpM useResult), and that must return too
						body(func() { r, g := operands(pat[0], a, b); callOpM(n1, r, g, k, true) })
						body(func() { a.Add(100 + k) })
						body(func() { r, g := operands(pat[1], a, b); callOpM(n2, r, g, k, true) })
						body(func() { b.Add(100 + k) })
					}
					go func() { wg.Wait(); close(done) }()
					runs++
					select {
					case <-done:
						continue
					case <-time.After(2 * time.Second):
					}
					// not back after 2 s: a deadlock never ends, a machine that is merely busy does — give it
					// another 20 s before calling it a hang
					select {
					case <-done:
					case <-time.After(20 * time.Second):
						hung++
						ps.add("C17", "program=%s(%s)||%s(%s)||Add(A)||Add(B) x6 on a pair of sets of shape %s: some goroutine never returns on the real code (22 s watchdog)", n1, pat[0], n2, pat[1], shape)
						if hung >= 3 {
							return fmt.Sprintf("runs=%d hung=%d (stopped early)", runs, hung)
						}
					}
				}
			}
		}
	}
	return fmt.Sprintf("runs=%d hung=%d", runs, hung)
}

// ---------------------------------------------------------------------------------
// under the race detector (oracle-race binary): every operation against writers on its operands;
// the detector prints its reports to stderr, the check reads them

func racePairs() string {
	names, _ := lockrec.OpNames()
	pairs := 0
	for _, n1 := range names {
		for _, n2 := range names {
			// "ab": both operands are sets that an earlier operation handed back, not constructor-made ones
			// "cc": both operands were populated and then cleared — whatever Clear leaves to be done lazily is
			// done by the pair itself, possibly by two readers at once
			for _, pat := range []string{"AB", "AA", "ab", "cc"} {
				racePair(n1, n2, pat)
				pairs++
				fmt.Fprintf(os.Stderr, "PAIR-DONE %s(%s) %s\n", n1, pat, n2)
			}
		}
	}
	return fmt.Sprintf("pairs=%d", pairs)
}

func racePair(n1, n2, pat string) {
	a, b := twoSets()
	for k := 0; k < 3; k++ {
		a.Add(1000 + k)
		b.Add(2000 + k)
	}
	if pat == "ab" {
		a, b = a.Clone(), b.Union(mapset.NewSet())
		pat = "AB"
	}
	if pat == "cc" {
		a.Clear()
		b.Clear()
		pat = "AB"
	}
	var wg sync.WaitGroup
	run := func(f func(i int)) {
		wg.Add(1)
		go func() {
			defer wg.Done()
			for i := 0; i < 12; i++ {
				f(i % 3)
			}
		}()
	}
	run(func(i int) { r, g := operands(pat, a, b); callOpM(n1, r, g, i, true) })
	run(func(i int) {
		// swapped operands; with aliased operands the second goroutine works on the SAME set
		r, g := operands(pat, b, a)
		if pat == "AA" {
			r, g = operands(pat, a, b)
		}
		callOpM(n2, r, g, i+50, true)
	})
	done := make(chan struct{})
	go func() { wg.Wait(); close(done) }()
	select {
	case <-done:
	case <-time.After(5 * time.Second):
	}
}

// one operation hammered against writers on both of its operands (under the race detector)
func raceFocus(op, pat string) string {
	a, b := twoSets()
	var wg sync.WaitGroup
	stop := make(chan struct{})
	spin := func(f func(i int)) {
		wg.Add(1)
		go func() {
			defer wg.Done()
			for i := 0; ; i++ {
				select {
				case <-stop:
					return
				default:
				}
				f(i % 5)
			}
		}()
	}
	spin(func(i int) { r, g := operands(pat, a, b); callOpM(op, r, g, i, true) })
	spin(func(i int) { a.Add(10 + i); a.Remove(10 + i) })
	spin(func(i int) { b.Add(20 + i); b.Remove(20 + i) })
	time.Sleep(1500 * time.Millisecond)
	close(stop)
	done := make(chan struct{})
	go func() { wg.Wait(); close(done) }()
	select {
	case <-done:
	case <-time.After(3 * time.Second):
	}
	return "done"
}
