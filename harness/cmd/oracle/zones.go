package main

import (
	"fmt"
	"math"
	"os"
	"path/filepath"
	"reflect"
	"runtime"
	"sort"
	"strconv"
	"strings"
	"time"

	lib "github.com/ilius/libgostarcal"
	"github.com/ilius/libgostarcal/cal_types/gregorian"
	"github.com/ilius/libgostarcal/interval"
	"github.com/ilius/libgostarcal/occurrence"
	"github.com/ilius/libgostarcal/utils"
	"github.com/ilius/libgostarcal/utils/mapset"
)

func init() { handlers["zone"] = zoneHandler }

const (
	zoneScanLo = -5364662400 // 1800-01-01
	zoneScanHi = 7258118400  // 2200-01-01
	j1970      = 2440588
)

type zoneState struct {
	name  string
	loc   *time.Location
	off0  int
	trans [][2]int64 // (instant, offset from that instant on): period boundaries as Go reports them
}

var curZone *zoneState

// period boundaries of a location between 1800 and 2200, as time.ZoneBounds reports them
func exportZone(loc *time.Location) (int, [][2]int64) {
	t := int64(zoneScanLo)
	_, off0 := time.Unix(t, 0).In(loc).Zone()
	var tr [][2]int64
	for t < zoneScanHi {
		_, end := time.Unix(t, 0).In(loc).ZoneBounds()
		if end.IsZero() {
			break
		}
		e := end.Unix()
		if e <= t { // defensive: never loop in place
			t += 86400
			continue
		}
		if e >= zoneScanHi {
			break
		}
		_, o := time.Unix(e, 0).In(loc).Zone()
		tr = append(tr, [2]int64{e, int64(o)})
		t = e
	}
	return off0, tr
}

func zoneNames() []string {
	root := os.Getenv("ZONEINFO")
	if root == "" {
		root = "/usr/share/zoneinfo"
	}
	var names []string
	filepath.Walk(root, func(p string, fi os.FileInfo, err error) error {
		if err != nil || fi.IsDir() {
			return nil
		}
		rel, _ := filepath.Rel(root, p)
		if strings.HasPrefix(rel, "posix/") || strings.HasPrefix(rel, "right/") || strings.Contains(rel, ".") || strings.HasPrefix(rel, "+") {
			return nil
		}
		if _, err := time.LoadLocation(rel); err == nil {
			names = append(names, rel)
		}
		return nil
	})
	sort.Strings(names)
	return names
}

func (z *zoneState) offAt(e int64) int64 {
	o := int64(z.off0)
	for _, t := range z.trans {
		if e < t[0] {
			break
		}
		o = t[1]
	}
	return o
}

// does local time cross the reading L exactly once, with an instant that shows L? (C11's hypothesis;
// evaluated on the exported boundaries, independently of the Lean driver's version)
func (z *zoneState) crossesOnce(L int64) bool {
	const inf = int64(1) << 62
	type period struct{ a, b, o int64 }
	var ps []period
	a, o := -inf, int64(z.off0)
	for _, t := range z.trans {
		ps = append(ps, period{a, t[0], o})
		a, o = t[0], t[1]
	}
	ps = append(ps, period{a, inf, o})
	for i, p := range ps {
		lo := L - p.o
		if lo < p.a {
			lo = p.a
		}
		if lo >= p.b {
			continue
		}
		if lo != L-p.o {
			return false // the reading is skipped
		}
		for _, q := range ps[i+1:] {
			if L-q.o >= q.a {
				return false // a later period starts at or below L again: the reading repeats
			}
		}
		return true
	}
	return false
}

func (z *zoneState) dayRegular(jd int) bool {
	return z.crossesOnce(int64(jd-j1970)*86400) && z.crossesOnce(int64(jd+1-j1970)*86400)
}

var gregCal = gregorian.New()

type zoneEvent struct {
	utils.NilEvent
	loc *time.Location
}

func (e zoneEvent) Location() *time.Location { return e.loc }

var zoneHeaders, zoneAddrReused int

func zoneHandler(args []string) (string, []string) {
	var ps propSink
	if len(args) == 0 {
		return "bad-request", nil
	}
	switch args[0] {
	case "list":
		return strings.Join(zoneNames(), ","), nil
	case "export":
		if len(args) != 2 {
			return "bad-request", nil
		}
		loc, err := time.LoadLocation(args[1])
		if err != nil {
			return "err", nil
		}
		off0, tr := exportZone(loc)
		parts := make([]string, len(tr))
		for i, t := range tr {
			parts[i] = fmt.Sprintf("%d:%d", t[0], t[1])
		}
		body := strings.Join(parts, ",")
		if body == "" {
			body = "-"
		}
		return fmt.Sprintf("%d %s", off0, body), nil
	case "set":
		if len(args) != 4 {
			return "bad-request", nil
		}
		// The zone object of the previous header is dropped and collected BEFORE the new one is loaded, and the
		// new one is loaded until the allocator hands out the address the old one had (or 300 tries are used up):
		// whatever the library remembers about "the zone at this address" is now about another zone.
		var prevAddr uintptr
		if curZone != nil && curZone.loc != nil {
			prevAddr = reflect.ValueOf(curZone.loc).Pointer()
		}
		curZone = nil
		runtime.GC()
		var loc *time.Location
		var err error
		var keep []*time.Location
		for try := 0; try < 300; try++ {
			loc, err = time.LoadLocation(args[1])
			if err != nil {
				return "err", nil
			}
			if prevAddr == 0 || reflect.ValueOf(loc).Pointer() == prevAddr {
				if prevAddr != 0 {
					zoneAddrReused++
				}
				break
			}
			keep = append(keep, loc)
		}
		_ = keep
		zoneHeaders++
		off0, _ := strconv.Atoi(args[2])
		z := &zoneState{name: args[1], loc: loc, off0: off0}
		if args[3] != "-" {
			for _, p := range strings.Split(args[3], ",") {
				q := strings.Split(p, ":")
				a, _ := strconv.ParseInt(q[0], 10, 64)
				b, _ := strconv.ParseInt(q[1], 10, 64)
				z.trans = append(z.trans, [2]int64{a, b})
			}
		}
		curZone = z
		return "ok", nil
	}
	z := curZone
	if z == nil {
		return "bad-request", nil
	}
	nums := make([]int64, 0, 4)
	if args[0] != "occ" {
		for _, a := range args[1:] {
			v, err := strconv.ParseInt(a, 10, 64)
			if err != nil {
				return "bad-request", nil
			}
			nums = append(nums, v)
		}
	}
	loc := z.loc
	tag := "zone=" + z.name
	switch {
	case args[0] == "jdby" && len(nums) == 1:
		return strconv.Itoa(utils.GetJdByEpoch(nums[0], loc)), nil
	case args[0] == "jhms" && len(nums) == 1:
		e := nums[0]
		jd, hms := utils.GetJhmsByEpoch(e, loc)
		jd2 := utils.GetJdByEpoch(e, loc)
		fj := utils.GetFloatJdByEpoch(e, loc)
		off := utils.GetUtcOffsetByEpoch(e, loc)
		t := time.Unix(e, 0).In(loc)
		// C10: the day number is that of the local civil date; the two routes agree; the fraction is the time of day
		local := gregCal.ToJd(lib.NewDate(t.Year(), uint8(t.Month()), uint8(t.Day())))
		if jd2 != local {
			ps.add("C10", "%s instant=%d GetJdByEpoch=%d but the local date %04d-%02d-%02d is day %d", tag, e, jd2, t.Year(), t.Month(), t.Day(), local)
		}
		if jd != jd2 {
			ps.add("C10", "%s instant=%d GetJhmsByEpoch gives day %d, GetJdByEpoch gives %d", tag, e, jd, jd2)
		}
		sod := t.Hour()*3600 + t.Minute()*60 + t.Second()
		frac := fj - math.Floor(fj)
		if math.Abs(frac*86400-float64(sod)) > 0.01 {
			ps.add("C10", "%s instant=%d fractional part of the float day number is %.6f of a day, local time of day is %d s", tag, e, frac, sod)
		}
		if hms.GetTotalSeconds() != sod {
			ps.add("C10", "%s instant=%d GetJhmsByEpoch time %s but local wall clock is %02d:%02d:%02d", tag, e, hms.String(), t.Hour(), t.Minute(), t.Second())
		}
		jd3, secs := utils.GetJdAndSecondsFromEpoch(e, loc)
		if jd3 != jd || secs != sod {
			ps.add("C10", "%s instant=%d GetJdAndSecondsFromEpoch=(%d,%d) differs from (%d,%d)", tag, e, jd3, secs, jd, sod)
		}
		// C18 at this observation point: the seconds are 3600h+60m+s of the time of day the library itself reports for
		// the instant, and converting them back gives that time of day
		if want := 3600*int(hms.Hour) + 60*int(hms.Minute) + int(hms.Second); secs != want {
			ps.add("C18", "%s instant=%d GetJdAndSecondsFromEpoch gives %d seconds, the time of day GetJhmsByEpoch gives is %s = %d seconds", tag, e, secs, hms.String(), want)
		} else if secs >= 0 {
			if back := utils.GetHmsBySeconds(uint(secs)); back != hms {
				ps.add("C18", "%s instant=%d seconds=%d convert back to %s, the time of day was %s", tag, e, secs, back.String(), hms.String())
			}
		}
		// split into day number + wall clock and recombine
		back := utils.GetEpochByJhms(jd, hms, loc)
		tb := time.Unix(back, 0).In(loc)
		if tb.Year() != t.Year() || tb.YearDay() != t.YearDay() || tb.Hour() != t.Hour() || tb.Minute() != t.Minute() || tb.Second() != t.Second() {
			ps.add("C10", "%s instant=%d splits to day %d %s, recombines to instant %d which reads %s", tag, e, jd, hms.String(), back, tb.Format("2006-01-02 15:04:05"))
		}
		if back != e {
			// same instant is demanded only when the reading is unambiguous in the zone
			L := e + z.offAt(e)
			amb := false
			for _, tr := range z.trans {
				if tr[0] > e-200000 && tr[0] < e+200000 {
					prev := z.offAt(tr[0] - 1)
					if (tr[0]+prev > L && tr[0]+tr[1] <= L) || (tr[0]+prev <= L && tr[0]+tr[1] > L) {
						// L lies in the overlap / gap of this transition
						if tr[1] < prev {
							amb = true
						}
					}
				}
			}
			if !amb {
				ps.add("C10", "%s instant=%d has an unambiguous wall-clock reading but recombines to %d", tag, e, back)
			}
		}
		return fmt.Sprintf("%d %d %d %d %d %d", jd, hms.Hour, hms.Minute, hms.Second, sod, off), ps.out()
	case args[0] == "epochby" && len(nums) == 4:
		hms := lib.HMS{Hour: uint8(nums[1]), Minute: uint8(nums[2]), Second: uint8(nums[3])}
		return strconv.FormatInt(utils.GetEpochByJhms(int(nums[0]), hms, loc), 10), nil
	case args[0] == "dayiv" && len(nums) == 1:
		jd := int(nums[0])
		iv := interval.IntervalByJd(jd, loc)
		next := interval.IntervalByJd(jd+1, loc)
		// the interval handed out for day jd must still be what it was after the next question, and must
		// not change what the function answers when the caller changes it
		if iv != nil && next != nil {
			saved := *iv
			next.Start, next.End = next.Start+7, next.End-7
			if again := interval.IntervalByJd(jd, loc); again == nil || *again != saved || *iv != saved {
				ps.add("C11", "%s op=dayiv-stability jd=%d the interval of the day is [%d,%d) at first, later [%d,%d) (results share memory or depend on earlier questions)", tag, jd, saved.Start, saved.End, iv.Start, iv.End)
			}
			next = interval.IntervalByJd(jd+1, loc)
		}
		class := "class=regular"
		if !z.dayRegular(jd) {
			class = "class=irregular-midnight"
		}
		// the two functions the interval is made of, called directly
		if iv != nil {
			e1 := utils.GetEpochByJd(jd, loc)
			e2 := utils.GetEpochByGDate(gregCal.JdTo(jd), loc)
			e3 := utils.GetEpochByJd(jd+1, loc)
			if e1 != iv.Start || e2 != iv.Start || e3 != iv.End {
				ps.add("C11", "%s op=dayiv-parts jd=%d IntervalByJd gives [%d,%d) but GetEpochByJd(jd)=%d GetEpochByGDate(date of jd)=%d GetEpochByJd(jd+1)=%d", tag, jd, iv.Start, iv.End, e1, e2, e3)
			}
		}
		if iv.End < iv.Start {
			ps.add("C11", "%s op=dayiv jd=%d %s interval [%d,%d) has negative length", tag, jd, class, iv.Start, iv.End)
		}
		if iv.End != next.Start {
			ps.add("C11", "%s op=dayiv jd=%d %s interval ends at %d but the next day's starts at %d", tag, jd, class, iv.End, next.Start)
		}
		// an instant lies inside exactly when its local date is that day: both ends, and both sides of
		// every boundary of the zone within two days
		probe := []int64{iv.Start - 1, iv.Start, iv.End - 1, iv.End}
		for _, tr := range z.trans {
			if tr[0] > iv.Start-2*86400 && tr[0] < iv.End+2*86400 {
				probe = append(probe, tr[0]-1, tr[0])
			}
		}
		for _, e := range probe {
			in := iv.Start <= e && e < iv.End
			is := utils.GetJdByEpoch(e, loc) == jd
			if in != is {
				ps.add("C11", "%s op=dayiv jd=%d %s instant=%d inside-interval=%v but local-date-is-that-day=%v (interval [%d,%d))", tag, jd, class, e, in, is, iv.Start, iv.End)
				break
			}
		}
		return fmt.Sprintf("%d %d", iv.Start, iv.End), ps.out()
	case args[0] == "jdrange" && len(nums) == 2:
		s, e := nums[0], nums[1]
		a, b := utils.GetJdRangeFromEpochRange(s, e, loc)
		if s < e {
			// first through one-past-the-last day that contain any instant of [s, e): local dates only
			// move backwards at irregular midnights, which are attributed to the known finding
			first, last := utils.GetJdByEpoch(s, loc), utils.GetJdByEpoch(s, loc)
			cands := []int64{s, e - 1}
			for _, tr := range z.trans {
				if tr[0] > s && tr[0] < e {
					cands = append(cands, tr[0]-1, tr[0])
				}
			}
			for _, c := range cands {
				if c >= s && c < e {
					j := localDay(c, loc)
					if j < first {
						first = j
					}
					if j > last {
						last = j
					}
				}
			}
			if a != first || b != last+1 {
				class := "class=regular"
				for j := first - 1; j <= last+1; j++ {
					if !z.dayRegular(j) {
						class = "class=irregular-midnight"
					}
				}
				// does the local DATE move backwards somewhere inside the span (clocks set back across a
				// midnight)? only then can the first or last instant fail to show the first or last day
				sort.Slice(cands, func(i, j int) bool { return cands[i] < cands[j] })
				order := "date-order=monotone"
				prev := localDay(s, loc)
				for _, c := range cands {
					if c >= s && c < e {
						j := localDay(c, loc)
						if j < prev {
							order = "date-order=backwards"
						}
						prev = j
					}
				}
				ps.add("C11", "%s op=jdrange span=[%d,%d) %s %s reported day range [%d,%d) but the days containing its instants are [%d,%d)", tag, s, e, class, order, a, b, first, last+1)
			}
		}
		return fmt.Sprintf("%d %d", a, b), ps.out()
	case args[0] == "midreg" && len(nums) == 1:
		if z.dayRegular(int(nums[0])) {
			return "1", nil
		}
		return "0", nil
	case args[0] == "abuse" && len(nums) == 2:
		zoneAbuse(z.loc, int(nums[0]), int(nums[1]))
		return "ok", nil
	case args[0] == "occ" && len(args) == 3:
		return occRequest(&ps, z, args[1], args[2]), ps.out()
	}
	return "bad-request", nil
}

// day number of the local civil date of an instant, straight from the time package
func localDay(e int64, loc *time.Location) int {
	t := time.Unix(e, 0).In(loc)
	return gregCal.ToJd(lib.NewDate(t.Year(), uint8(t.Month()), uint8(t.Day())))
}

// ---------------------------------------------------------------------------------
// occurrence sets (C12)

func parseOcc(s string, ev utils.Event) (occurrence.OccurSet, []int, interval.IntervalList, bool) {
	switch {
	case strings.HasPrefix(s, "J:"):
		l, ok := parseIntsStd(s[2:])
		if !ok {
			return nil, nil, nil, false
		}
		set := mapset.NewSet()
		for _, v := range l {
			set.Add(v)
		}
		return occurrence.JdOccurSet{Event: ev, JdSet: set}, l, nil, true
	case strings.HasPrefix(s, "I:"):
		l, ok := parseIvs(s[2:])
		if !ok {
			return nil, nil, nil, false
		}
		return occurrence.IntervalOccurSet{Event: ev, List: l}, nil, l, true
	}
	return nil, nil, nil, false
}

func sortedInts(l []int) []int {
	c := append([]int{}, l...)
	sort.Ints(c)
	out := c[:0]
	for i, v := range c {
		if i == 0 || v != c[i-1] {
			out = append(out, v)
		}
	}
	return out
}

func showIntsStd(l []int) string {
	if len(l) == 0 {
		return "-"
	}
	p := make([]string, len(l))
	for i, v := range l {
		p[i] = strconv.Itoa(v)
	}
	return strings.Join(p, ",")
}

func showOcc(o occurrence.OccurSet) string {
	kind := ""
	switch x := o.(type) {
	case occurrence.JdOccurSet:
		kind = "J:" + showIntsStd(sortedInts(x.GetDaysJdList()))
	case occurrence.IntervalOccurSet:
		kind = "I:" + showIvs(x.List)
	}
	return kind + " days=" + showIntsStd(sortedInts(o.GetDaysJdList()))
}

func startEnd(o occurrence.OccurSet) (s string) {
	defer func() {
		if r := recover(); r != nil {
			s = "-"
		}
	}()
	if o.Len() == 0 {
		return "-"
	}
	return fmt.Sprintf("%d %d", o.GetStartJd(), o.GetEndJd())
}

func occRequest(ps *propSink, z *zoneState, sa, sb string) string {
	ev := zoneEvent{loc: z.loc}
	a, _, _, ok1 := parseOcc(sa, ev)
	b, _, _, ok2 := parseOcc(sb, ev)
	if !ok1 || !ok2 {
		return "bad-request"
	}
	tag := fmt.Sprintf("zone=%s A=%s B=%s", z.name, sa, sb)
	one := func(p, q occurrence.OccurSet) (string, occurrence.OccurSet) {
		r, err := p.Intersection(q)
		if err != nil {
			return "err", nil
		}
		return showOcc(r), r
	}
	// what the operands denote is fixed BEFORE anything is intersected: an operation that rewrites an operand's
	// storage must not thereby change what its own result is compared with
	copyIvs := func(l interval.IntervalList) interval.IntervalList {
		c := make(interval.IntervalList, len(l))
		for i, iv := range l {
			v := *iv
			c[i] = &v
		}
		return c
	}
	la, lb := copyIvs(a.GetEpochIntervalList()), copyIvs(b.GetEpochIntervalList())
	showA, showB := showOcc(a), showOcc(b)
	ab, rab := one(a, b)
	ba, rba := one(b, a)
	// the operands still denote the sets they were built as (else a later intersection with one of them is not the
	// intersection of that set)
	if now := showOcc(a); now != showA {
		ps.add("C12", "%s after A∩B and B∩A operand A reads %s: an intersection changed its operand, so the next intersection with A is not with the set A was built as", tag, now)
	}
	if now := showOcc(b); now != showB {
		ps.add("C12", "%s after A∩B and B∩A operand B reads %s: an intersection changed its operand, so the next intersection with B is not with the set B was built as", tag, now)
	}
	// the set of instants common to both, on the observation lattice, through the interval forms
	if rab != nil && rba != nil {
		lab, lba := rab.GetEpochIntervalList(), rba.GetEpochIntervalList()
		for _, x := range lattice(la, lb, lab, lba) {
			want := memL(x, la) && memL(x, lb)
			if memL(x, lab) != want || memL(x, lba) != want {
				ps.add("C12", "%s membership of instant pos=%d kind=%d: A %v, B %v, A∩B %v, B∩A %v", tag, x.pos, x.kind, memL(x, la), memL(x, lb), memL(x, lab), memL(x, lba))
				break
			}
		}
	}
	// day-set with day-set is plain set intersection
	if ja, ok := a.(occurrence.JdOccurSet); ok {
		if jb, ok := b.(occurrence.JdOccurSet); ok && rab != nil {
			want := []int{}
			for _, v := range sortedInts(ja.GetDaysJdList()) {
				if jb.JdSet.Contains(v) {
					want = append(want, v)
				}
			}
			if got := sortedInts(rab.GetDaysJdList()); showIntsStd(got) != showIntsStd(want) {
				ps.add("C12", "%s day-set ∩ day-set = %s, expected %s", tag, showIntsStd(got), showIntsStd(want))
			}
		}
	}
	// the days reported are exactly the days containing at least one instant; first/last bracket them
	for _, o := range []occurrence.OccurSet{a, b, rab} {
		if o == nil || o.Len() == 0 {
			continue
		}
		days := sortedInts(o.GetDaysJdList())
		// Len is the number of members of the representation: days of a day set, intervals of a list
		switch x := o.(type) {
		case occurrence.JdOccurSet:
			if x.Len() != len(days) {
				ps.add("C12", "%s set %s: Len=%d but it reports %d days", tag, showOcc(o), x.Len(), len(days))
			}
		case occurrence.IntervalOccurSet:
			if x.Len() != len(x.GetEpochIntervalList()) {
				ps.add("C12", "%s set %s: Len=%d but it holds %d intervals", tag, showOcc(o), x.Len(), len(x.GetEpochIntervalList()))
			}
		}
		want := map[int]bool{}
		for _, iv := range o.GetEpochIntervalList() {
			last := iv.End - 1
			if iv.ClosedEnd {
				last = iv.End
			}
			if last < iv.Start {
				continue
			}
			cands := []int64{iv.Start, last}
			for _, tr := range z.trans {
				if tr[0] > iv.Start && tr[0] <= last {
					cands = append(cands, tr[0]-1, tr[0])
				}
			}
			lo, hi := localDay(iv.Start, z.loc), localDay(iv.Start, z.loc)
			for _, c := range cands {
				j := localDay(c, z.loc)
				if j < lo {
					lo = j
				}
				if j > hi {
					hi = j
				}
			}
			for j := lo; j <= hi; j++ {
				want[j] = true
			}
		}
		wl := []int{}
		for j := range want {
			wl = append(wl, j)
		}
		wl = sortedInts(wl)
		if _, isJd := o.(occurrence.JdOccurSet); isJd {
			// a day set survives the trip through its interval form unchanged
			trip := occurrence.IntervalOccurSet{Event: ev, List: o.GetEpochIntervalList()}
			if got := sortedInts(trip.GetDaysJdList()); showIntsStd(got) != showIntsStd(days) {
				ps.add("C12", "%s day set %s becomes %s after the trip through its interval form", tag, showIntsStd(days), showIntsStd(got))
			}
		} else if showIntsStd(days) != showIntsStd(wl) {
			ps.add("C12", "%s set %s reports days %s but the days containing its instants are %s", tag, showOcc(o), showIntsStd(days), showIntsStd(wl))
		}
		if len(days) > 0 {
			se := startEnd(o)
			var s, e int
			fmt.Sscanf(se, "%d %d", &s, &e)
			if se == "-" || s > days[0] || e < days[len(days)-1] {
				ps.add("C12", "%s set %s reports first/last day %s which do not bracket its days %s", tag, showOcc(o), se, showIntsStd(days))
			}
		}
	}
	return fmt.Sprintf("%s | %s | %s %s | %s %s", ab, ba, showOcc(a), startEnd(a), showOcc(b), startEnd(b))
}
