// Command oracle runs the real libgostarcal code (from /repo's working tree, via the
// replace directive, built with -tags verif) on protocol requests read from stdin, one
// response line per request. A response may be followed by a TAB and one or more
// "!PROP <Cxx> <what>" items: direct evaluations of a property on the real code that
// failed for an input covered by the request (the "search" of DESIGN.md section 4).
//
// Two things about the process the library runs in are varied here, because a property that
// holds "for every input" has to hold whatever the caller's process looks like:
//
//   - local time zone: a request may start with the token "@tz=<zone>"; the request is then
//     answered with time.Local set to that zone (what a process started with TZ=<zone> sees);
//   - processors: "@procs=<n>" answers the request with GOMAXPROCS set to n;
//   - the collector: every 16th window is followed by two garbage collections;
//   - concurrent callers: requests are read in windows; the requests of some windows are asked
//     again from several goroutines at the same time, and every answer must be the one the same
//     request got when it was asked alone. The first window of a process is asked concurrently
//     BEFORE it is asked alone (a lazily built table is then first touched by several callers).
package main

import (
	"bufio"
	"fmt"
	"io"
	"log"
	"os"
	"runtime"
	"strconv"
	"strings"
	"sync"
	"sync/atomic"
	"time"
	_ "time/tzdata"
)

type handler func(args []string) (resp string, props []string)

var handlers = map[string]handler{}

func safeCall(h handler, args []string) (resp string, props []string) {
	defer func() {
		if r := recover(); r != nil {
			resp = "panic"
			props = nil
		}
	}()
	return h(args)
}

type job struct {
	line  string
	tz    string
	procs int // GOMAXPROCS for this request (0 = as the process started)
	toks  []string
	resp  string
	props []string
	extra []string
	ctx   int // number of zone headers answered before this request
}

var startLocal = time.Local
var curTZ = ""
var tzCache = map[string]*time.Location{}

var startProcs = runtime.GOMAXPROCS(0)
var curProcs = 0

// setEnv makes the process look as the request's leading tokens say: local zone, GOMAXPROCS
func setEnv(j *job) bool {
	if j.procs != curProcs {
		n := j.procs
		if n <= 0 {
			n = startProcs
		}
		runtime.GOMAXPROCS(n)
		curProcs = j.procs
	}
	return setTZ(j.tz)
}

// setTZ makes the process's local zone the named one ("" = the zone the process started in)
func setTZ(name string) bool {
	if name == curTZ {
		return true
	}
	if name == "" {
		time.Local = startLocal
		curTZ = ""
		return true
	}
	loc, ok := tzCache[name]
	if !ok {
		l, err := time.LoadLocation(name)
		if err != nil {
			return false
		}
		loc = l
		tzCache[name] = loc
	}
	time.Local = loc
	curTZ = name
	return true
}

func parseJob(line string) *job {
	j := &job{line: line}
	toks := strings.Split(line, " ")
	for len(toks) > 0 && strings.HasPrefix(toks[0], "@") {
		switch {
		case strings.HasPrefix(toks[0], "@tz="):
			j.tz = toks[0][4:]
		case strings.HasPrefix(toks[0], "@procs="):
			j.procs, _ = strconv.Atoi(toks[0][7:])
		}
		toks = toks[1:]
	}
	j.toks = toks
	return j
}

// answer one request on the calling goroutine (time.Local already set)
func answer(toks []string) (string, []string) {
	if len(toks) == 0 {
		return "bad-request", nil
	}
	h, ok := handlers[toks[0]]
	if !ok {
		return "bad-request", nil
	}
	return safeCall(h, toks[1:])
}

// stormKey: requests with the same key may be asked at the same time from several goroutines —
// they are answered by functions the library offers as plain functions of their arguments, and
// they need the same process-wide configuration (calendar configuration, local zone, zone header).
// "" = never asked concurrently (requests that change or depend on process state of the harness).
func stormKey(j *job) string {
	k := stormKey1(j)
	if k == "" {
		return ""
	}
	return fmt.Sprintf("%d|%s", j.procs, k)
}

func stormKey1(j *job) string {
	t := j.toks
	if len(t) < 2 || t[1] == "abuse" || t[1] == "other-table" || t[1] == "reuse" || t[1] == "toggle" {
		return "" // calls the properties say nothing about: made alone, what matters is what follows them
	}
	switch t[0] {
	case "ival", "tod", "text", "misc":
		return j.tz + "|" + t[0]
	case "set":
		if t[1] != "ops" { // "set ops …": one line builds its own sets from nothing
			return ""
		}
		return j.tz + "|set"
	case "rules":
		if t[1] == "types" {
			return ""
		}
		return j.tz + "|rules"
	case "cal":
		if len(t) < 3 {
			return ""
		}
		return j.tz + "|cal|" + t[2]
	case "zone":
		if t[1] == "set" || t[1] == "export" || t[1] == "list" {
			return ""
		}
		return fmt.Sprintf("%s|zone|%d", j.tz, j.ctx)
	}
	return ""
}

func envInt(name string, def int) int {
	if v, err := strconv.Atoi(os.Getenv(name)); err == nil && v >= 0 {
		return v
	}
	return def
}

var (
	stormEvery = envInt("ORACLE_STORM_EVERY", 4) // every n-th window is asked again concurrently; 0 = never
	stormG     = envInt("ORACLE_STORM_G", 4)
	stormPid   = func() string {
		if v := os.Getenv("ORACLE_PID"); v != "" {
			return v
		}
		return "C00"
	}()
)

// inStorm: several goroutines are asking at the moment. Handlers then leave the process-wide
// configuration alone (it was set for the whole group by stormPrepare, on one goroutine:
// configuration switches are not what is asked concurrently).
var inStorm bool

func stormPrepare(j *job) bool {
	switch j.toks[0] {
	case "cal":
		c, ok := calCfgs[j.toks[2]]
		if !ok {
			return false
		}
		c.setup()
	case "zone":
		return j.ctx == zoneEpoch // the zone header of these requests is still the current one
	}
	return true
}

// number of zone headers answered so far
var zoneEpoch int

type stormAns struct {
	resp  string
	props []string
}

// ask the jobs of one key again, from stormG goroutines at once. heavy = the window took long when
// asked alone: every request is then asked once more (by one of the goroutines); otherwise every
// goroutine asks every request, each starting at a different place, again and again for a third of a
// millisecond (calls that take nanoseconds would otherwise hardly ever overlap). Each goroutine keeps
// its answers to itself while the others are running: no lock of the harness orders the calls.
func stormGroup(js []*job, heavy bool) [][]stormAns {
	g := stormG
	if g < 2 {
		g = 2
	}
	local := make([][][]stormAns, g)
	calls := make([]int, g)
	var wg sync.WaitGroup
	var barrier atomic.Int64
	start := make(chan struct{})
	for w := 0; w < g; w++ {
		wg.Add(1)
		local[w] = make([][]stormAns, len(js))
		go func(w int) {
			defer wg.Done()
			mine := local[w]
			<-start
			n := len(js)
			t0 := time.Now()
			for pass := 0; pass < 200; pass++ {
				for k := 0; k < n; k++ {
					i := (k + w*n/g) % n
					if heavy && i%g != w {
						continue
					}
					r, p := answer(js[i].toks)
					calls[w]++
					if l := len(mine[i]); l > 0 && mine[i][l-1].resp == r && len(p) == 0 && len(mine[i][l-1].props) == 0 {
						continue // the same answer as last time
					}
					if len(mine[i]) < 8 {
						mine[i] = append(mine[i], stormAns{r, p})
					}
				}
				if heavy {
					break
				}
				// a third of a millisecond AND at least three passes: on a loaded machine a goroutine can spend the
				// whole time slice waiting for a processor, and one pass each, one after the other, overlaps with nothing
				if time.Since(t0) > 300*time.Microsecond && pass >= 2 {
					break
				}
				// start the next pass together (bounded wait: nobody hangs if a goroutine has left the loop)
				arrived := barrier.Add(1)
				target := (arrived + int64(g) - 1) / int64(g) * int64(g)
				for spin := 0; barrier.Load() < target && spin < 2000; spin++ {
					runtime.Gosched()
				}
			}
		}(w)
	}
	inStorm = true
	close(start)
	wg.Wait()
	inStorm = false
	res := make([][]stormAns, len(js))
	for w := 0; w < g; w++ {
		for i := range js {
			res[i] = append(res[i], local[w][i]...)
		}
		stormCalls += calls[w]
	}
	stormGroups++
	return res
}

func propTexts(props []string) map[string]bool {
	m := map[string]bool{}
	for _, p := range props {
		if strings.HasPrefix(p, "!PROP ") {
			m[p] = true
		}
	}
	return m
}

// compare the concurrent answers with the answers given alone
func stormCompare(js []*job, res [][]stormAns, order string) {
	for i, j := range js {
		alone := propTexts(j.props)
		for _, a := range res[i] {
			if a.resp != j.resp {
				if len(j.extra) < 2 {
					j.extra = append(j.extra, fmt.Sprintf("!PROP %s concurrent-callers: the request answered %q when %d goroutines were asking the %d requests of its window at the same time, %q when asked alone (%s)",
						stormPid, a.resp, stormG, len(js), j.resp, order))
				}
				continue
			}
			for _, p := range a.props {
				if strings.HasPrefix(p, "!PROP ") && !alone[p] && len(j.extra) < 2 {
					j.extra = append(j.extra, p+fmt.Sprintf(" [only when %d goroutines were asking the requests of its window at the same time; %s]", stormG, order))
				}
			}
		}
	}
}

func storm(win []*job, heavy bool, order string) {
	groups := map[string][]*job{}
	var keys []string
	for _, j := range win {
		k := stormKey(j)
		if k == "" {
			continue
		}
		if _, ok := groups[k]; !ok {
			keys = append(keys, k)
		}
		groups[k] = append(groups[k], j)
	}
	for _, k := range keys {
		js := groups[k]
		if !setEnv(js[0]) || !stormPrepare(js[0]) {
			continue
		}
		if order == "concurrent first" {
			// the answers alone are not known yet: keep the concurrent ones, compare afterwards.
			// One call per request is what matters here (who touches a lazily built table first).
			if len(js) > 16 {
				js = js[:16]
			}
			for i, r := range stormGroup(js, true) {
				pending[js[i]] = r
			}
			stormFirst += len(js)
			continue
		}
		if len(js) == 1 {
			js = []*job{js[0], js[0]} // one request: asked by several goroutines at once all the same
			res := stormGroup(js, false)
			stormCompare(js[:1], [][]stormAns{append(res[0], res[1]...)}, order)
			continue
		}
		stormCompare(js, stormGroup(js, heavy), order)
	}
}

var pending = map[*job][]stormAns{}

// what the concurrent part of this process amounted to (reported on stderr at the end)
var stormGroups, stormCalls, stormFirst int

const windowSize = 64

func main() {
	log.SetOutput(io.Discard) // the library logs configuration switches
	in := bufio.NewReaderSize(os.Stdin, 1<<20)
	out := bufio.NewWriterSize(os.Stdout, 1<<20)
	defer out.Flush()
	eof := false
	for wi := 0; !eof; wi++ {
		var win []*job
		for len(win) < windowSize {
			line, err := in.ReadString('\n')
			if len(line) == 0 && err != nil {
				eof = true
				break
			}
			win = append(win, parseJob(strings.TrimRight(line, "\r\n")))
			if err != nil {
				eof = true
				break
			}
		}
		if len(win) == 0 {
			break
		}
		// a window that sets up process state of the harness (zone header, registry or table switches)
		// keeps its order: such windows are asked concurrently only after they were asked alone
		if wi == 0 && stormEvery > 0 {
			stateful := false
			for _, j := range win {
				if stormKey(j) == "" {
					stateful = true
				}
			}
			if !stateful {
				storm(win, false, "concurrent first")
			}
		}
		t0 := time.Now()
		for _, j := range win {
			if !setEnv(j) {
				j.resp = "bad-request"
				continue
			}
			j.ctx = zoneEpoch
			j.resp, j.props = answer(j.toks)
			if len(j.toks) > 1 && j.toks[0] == "zone" && j.toks[1] == "set" {
				zoneEpoch++
			}
		}
		heavy := time.Since(t0) > 30*time.Millisecond
		if len(pending) > 0 {
			for _, j := range win {
				if r, ok := pending[j]; ok {
					stormCompare([]*job{j}, [][]stormAns{r}, "asked concurrently as the first calls of the process, then alone")
				}
			}
			pending = map[*job][]stormAns{}
		}
		if wi%16 == 7 {
			// a garbage collection now and then: what a pool or a finalizer hands out afterwards must
			// not matter (two in a row empty a sync.Pool's victim cache too)
			runtime.GC()
			runtime.GC()
		}
		if stormEvery > 0 && wi%stormEvery == stormEvery-1 {
			storm(win, heavy, "asked alone first, then concurrently")
		}
		for _, j := range win {
			props := append(j.props, j.extra...)
			if len(props) > 0 {
				fmt.Fprintf(out, "%s\t%s\n", j.resp, strings.Join(props, "\t"))
			} else {
				fmt.Fprintln(out, j.resp)
			}
		}
		out.Flush()
	}
	fmt.Fprintf(os.Stderr, "STORM groups=%d calls=%d first=%d\n", stormGroups, stormCalls, stormFirst)
}
