// Command oracle runs the real libgostarcal code (from /repo's working tree, via the
// replace directive, built with -tags verif) on protocol requests read from stdin, one
// response line per request. A response may be followed by a TAB and one or more
// "!PROP <Cxx> <what>" items: direct evaluations of a property on the real code that
// failed for an input covered by the request (the "search" of DESIGN.md section 4).
package main

import (
	"bufio"
	"fmt"
	"io"
	"log"
	"os"
	"strings"
)

type handler func(args []string) (resp string, props []string)

var handlers = map[string]handler{}

func safeCall(h handler, args []string) (resp string, props []string) {
	defer func() {
		if r := recover(); r != nil {
			resp = "panic"
			props = nil
		}
	}()
	return h(args)
}

func main() {
	log.SetOutput(io.Discard) // the library logs configuration switches
	in := bufio.NewReaderSize(os.Stdin, 1<<20)
	out := bufio.NewWriterSize(os.Stdout, 1<<20)
	defer out.Flush()
	for {
		line, err := in.ReadString('\n')
		if len(line) == 0 && err != nil {
			break
		}
		line = strings.TrimRight(line, "\r\n")
		toks := strings.Split(line, " ")
		h, ok := handlers[toks[0]]
		var resp string
		var props []string
		if !ok {
			resp = "bad-request"
		} else {
			resp, props = safeCall(h, toks[1:])
		}
		if len(props) > 0 {
			fmt.Fprintf(out, "%s\t%s\n", resp, strings.Join(props, "\t"))
		} else {
			fmt.Fprintln(out, resp)
		}
		if err != nil {
			break
		}
	}
}
