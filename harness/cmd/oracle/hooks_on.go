//go:build verif

package main

import (
	"encoding/json"
	"fmt"

	"github.com/ilius/libgostarcal/cal_types/hijri"
	"github.com/ilius/libgostarcal/event/rules_lib"
)

// This file exists only in the build WITH the library's verification hooks (-tags verif): lock
// recording, schedule control and registry dumps need them. Everything else is answered by the oracle
// built WITHOUT the tag, i.e. against the library exactly as its users build it.

const hooksBuilt = true

func hijriTable() (loaded bool, startDate [3]int, startJd, endJd int, rows [][]int) {
	hijri.SetUseMonthData(true)
	l, _, sd, sj, ej, r := hijri.VerifMonthData()
	hijri.SetUseMonthData(curMonthData)
	return l, sd, sj, ej, r
}

func ruleTypeList() []*rules_lib.EventRuleType { return rules_lib.VerifRuleTypes() }

type hijriTableDump struct {
	Loaded    bool
	StartDate [3]int
	StartJd   int
	EndJd     int
	Rows      [][]int
}

func init() {
	// `meta hijri-table`: the month table as the library holds it, for the untagged oracle
	handlers["meta"] = func(args []string) (string, []string) {
		if len(args) == 1 && args[0] == "hijri-table" {
			l, sd, sj, ej, r := hijriTable()
			b, err := json.Marshal(hijriTableDump{l, sd, sj, ej, r})
			if err != nil {
				return "error " + err.Error(), nil
			}
			return string(b), nil
		}
		return "bad-request", nil
	}
	_ = fmt.Sprintf
}
