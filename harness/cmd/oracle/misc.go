package main

import (
	"fmt"
	"math"
	"math/big"
	"strconv"
	"strings"

	"github.com/ilius/libgostarcal/utils"
)

func init() { handlers["misc"] = miscHandler }

func parseIntsStd(s string) ([]int, bool) {
	if s == "-" {
		return []int{}, true
	}
	parts := strings.Split(s, ",")
	l := make([]int, len(parts))
	for i, p := range parts {
		v, err := strconv.Atoi(p)
		if err != nil {
			return nil, false
		}
		l[i] = v
	}
	return l, true
}

func iabs(x int) uint64 {
	if x < 0 {
		return uint64(-(x + 1)) + 1
	}
	return uint64(x)
}

func miscHandler(args []string) (string, []string) {
	var ps propSink
	switch {
	case len(args) == 3 && args[0] == "divmod":
		a, e1 := strconv.Atoi(args[1])
		b, e2 := strconv.Atoi(args[2])
		if e1 != nil || e2 != nil || b == 0 || (a == math.MinInt && b == -1) {
			return "bad-request", nil
		}
		q, r := utils.Div(a, b), utils.Mod(a, b)
		q2, r2 := utils.Divmod(a, b)
		if q != q2 || r != r2 {
			ps.add("C19", "a=%d b=%d Div,Mod=(%d,%d) but Divmod=(%d,%d)", a, b, q, r, q2, r2)
		}
		// a = b*q + r checked without overflow: r and a-r have |.| small enough on the domain,
		// and b*q is compared through division
		okSign := r == 0 || ((r > 0) == (b > 0))
		okMag := iabs(r) < iabs(b)
		// a = b*q + r over the integers (math/big: the product may leave int64)
		bq := new(big.Int).Mul(big.NewInt(int64(b)), big.NewInt(int64(q)))
		okEq := bq.Add(bq, big.NewInt(int64(r))).Cmp(big.NewInt(int64(a))) == 0
		if !(okSign && okMag && okEq) {
			ps.add("C19", "a=%d b=%d q=%d r=%d is not floor division (sign ok %v, |r|<|b| %v, a=b*q+r %v)", a, b, q, r, okSign, okMag, okEq)
		}
		return fmt.Sprintf("%d %d", q, r), ps.out()
	case len(args) == 3 && args[0] == "bisect":
		v, e1 := strconv.Atoi(args[1])
		l, ok := parseIntsStd(args[2])
		if e1 != nil || !ok {
			return "bad-request", nil
		}
		var g guards
		given := append([]int{}, l...)
		l = spareInts(&g, l)
		idx := utils.BisectLeft(l, v)
		for _, it := range g.report("C19", "misc "+strings.Join(args, " ")) {
			ps.items = append(ps.items, it)
		}
		for i := range given {
			if l[i] != given[i] {
				ps.add("C19", "list=%s key=%d BisectLeft changed the list it was given (element %d is now %d)", args[2], v, i, l[i])
				break
			}
		}
		sorted := true
		for i := 1; i < len(l); i++ {
			sorted = sorted && l[i-1] <= l[i]
		}
		if sorted {
			want := len(l)
			for i, x := range l {
				if x >= v {
					want = i
					break
				}
			}
			if idx != want {
				ps.add("C19", "list=%s key=%d BisectLeft=%d but the first position with element >= key is %d", args[2], v, idx, want)
			}
		}
		return strconv.Itoa(idx), ps.out()
	case len(args) == 3 && args[0] == "intmin":
		a, e1 := strconv.Atoi(args[1])
		b, e2 := strconv.Atoi(args[2])
		if e1 != nil || e2 != nil {
			return "bad-request", nil
		}
		return strconv.Itoa(utils.IntMin(a, b)), nil
	}
	return "bad-request", nil
}
