// Command extract regenerates lean/Starcal/Gen/*.lean from /repo's current source.
package main

import (
	"flag"
	"fmt"
	"os"
	"path/filepath"
)

var repo = flag.String("repo", "/repo", "repository root")
var outDir = flag.String("out", "", "output directory (lean/Starcal/Gen)")

// writeIfChanged keeps lake's cache valid when nothing changed.
func writeIfChanged(name, content string) {
	path := filepath.Join(*outDir, name)
	old, err := os.ReadFile(path)
	if err == nil && string(old) == content {
		return
	}
	if err := os.WriteFile(path, []byte(content), 0o644); err != nil {
		fmt.Fprintln(os.Stderr, "extract:", err)
		os.Exit(1)
	}
}

func main() {
	flag.Parse()
	if *outDir == "" {
		fmt.Fprintln(os.Stderr, "extract: -out required")
		os.Exit(2)
	}
	os.MkdirAll(*outDir, 0o755)
	failed := false
	for _, g := range generators {
		content, err := g.fn()
		if err != nil {
			fmt.Fprintf(os.Stderr, "extract: %s: %v\n", g.file, err)
			failed = true
			continue
		}
		writeIfChanged(g.file, content)
	}
	if failed {
		os.Exit(1)
	}
}

type generator struct {
	file string
	fn   func() (string, error)
}

var generators []generator
