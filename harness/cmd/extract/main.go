// Command extract regenerates lean/Starcal/Gen/*.lean from /repo's current source.
package main

import (
	"flag"
	"fmt"
	"os"
	"path/filepath"
)

var repo = flag.String("repo", "/repo", "repository root")
var outDir = flag.String("out", "", "output directory (lean/Starcal/Gen)")

// writeIfChanged keeps lake's cache valid when nothing changed.
func writeIfChanged(name, content string) {
	path := filepath.Join(*outDir, name)
	old, err := os.ReadFile(path)
	if err == nil && string(old) == content {
		return
	}
	if err := os.WriteFile(path, []byte(content), 0o644); err != nil {
		fmt.Fprintln(os.Stderr, "extract:", err)
		os.Exit(1)
	}
}

func main() {
	flag.Parse()
	if *outDir == "" {
		fmt.Fprintln(os.Stderr, "extract: -out required")
		os.Exit(2)
	}
	os.MkdirAll(*outDir, 0o755)
	failed := false
	for _, g := range generators {
		content, err := runGenerator(g)
		if err != nil {
			fmt.Fprintf(os.Stderr, "extract: %s: %v\n", g.file, err)
			if g.file == "Src.lean" {
				// soft obligation: no stale translation may stay behind (the tie theorems would be checked against
				// yesterday's source); the ties then simply do not build and the checks widen their correspondence
				os.Remove(filepath.Join(*outDir, g.file))
				fmt.Fprintf(os.Stderr, "extract-soft: src: the source translator failed: %v\n", err)
				continue
			}
			failed = true
			continue
		}
		writeIfChanged(g.file, content)
	}
	if failed {
		os.Exit(1)
	}
}

// a generator that panics (a construct nobody thought of) fails like one that returns an error
func runGenerator(g generator) (content string, err error) {
	defer func() {
		if r := recover(); r != nil {
			err = fmt.Errorf("generator panicked: %v", r)
		}
	}()
	return g.fn()
}

type generator struct {
	file string
	fn   func() (string, error)
}

var generators []generator
