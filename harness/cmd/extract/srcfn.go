package main

// Source translator: the integer fragment of Go -> Lean definitions (Gen/Src/<Pkg>.lean).
//
// Every function listed in srcUnits is read from /repo's current source (go/ast + go/types, source
// importer, offline) and emitted as a Lean definition `<pkg>_<Func> : ... -> Option R`, where `none`
// stands for a run-time panic (index out of range, division by zero, loop fuel exhausted). The emitted
// code is a *shallow embedding*: Go int/int64 -> Int (unbounded; wrap-around is not modelled), uintN ->
// Int reduced modulo 2^N after every arithmetic operation and conversion, bool -> Bool, `/` and `%` ->
// Int.tdiv / Int.tmod (truncation, as in Go), package-level tables -> List Int literals, package-level
// mutable scalars -> extra leading parameters (or fixed to a value for a specialised copy), float64 -> Rat with
// exact rational arithmetic (IEEE rounding is NOT modelled; math.Ceil / math.Floor / int(f) are the exact
// ones), *lib.Date / lib.HMS -> the structures of GoSem.lean,
// `if` -> if-then-else with the rest of the block duplicated into both arms, `for cond {}` ->
// GoSem.whileFuel. Anything else (floats, closures, switch, goto, break/continue, strings, maps,
// pointers other than the two structs) makes the *function* untranslatable: it is left out of the
// file with a comment, a line `extract-soft: src: ...` is printed, and the tie theorems that mention it
// are reported as not established (no alarm: the correspondence check is then the only tie for it).
//
// The hand-written theorems of lean/Starcal/SrcTie/*.lean prove, for every argument in the stated
// domain, that each translated function returns `some` of what the hand-written model returns.

import (
	"fmt"
	"go/ast"
	"go/constant"
	"go/importer"
	"go/parser"
	"go/token"
	"go/types"
	"os"
	"path/filepath"
	"regexp"
	"sort"
	"strings"
)

type srcUnit struct {
	dir   string   // directory under the repository root
	path  string   // import path
	lean  string   // Lean module name under Gen/Src
	pre   string   // prefix of the Lean definitions
	funcs []string // functions / methods (by name) to translate, in any order
	// package-level bool variables fixed to a value for a specialised copy: name -> value
	fix map[string]bool
}

const modPath = "github.com/ilius/libgostarcal"

var srcUnits = []srcUnit{
	{dir: "utils", path: modPath + "/utils", lean: "Utils", pre: "utils",
		funcs: []string{"Mod", "Div", "Divmod", "IntMin", "GetHmsBySeconds", "MonthListIsValid", "DayListIsValid", "WeekDayListIsValid",
			"bisectLeftRange", "BisectLeft"}},
	{dir: ".", path: modPath, lean: "Lib", pre: "lib",
		funcs: []string{"GetTotalSeconds", "GetFloatHour", "FloatHourToHMS", "toUint8", "HMS.IsValid", "Date.IsValid",
			"DHMS.IsValid", "HMSRange.IsValid", "DateHMS.IsValid"}},
	{dir: "interval", path: modPath + "/interval", lean: "Interval", pre: "interval",
		funcs: []string{"Less", "GetPointList", "GetIntervalList", "Normalize", "Humanize", "Extract", "IntervalListByNumList",
			"intersectionOfSomeIntervalLists_endPoint", "IntersectionOfSomeIntervalLists", "Intersection"}},
	{dir: "utils/stack", path: modPath + "/utils/stack", lean: "Stack", pre: "stack",
		funcs: []string{"Push", "Pop"}},
	{dir: "event/rules_lib", path: modPath + "/event/rules_lib", lean: "Rules", pre: "rules",
		funcs: []string{"WeekMonth.IsValid"}},
	{dir: "cal_types/julian", path: modPath + "/cal_types/julian", lean: "Julian", pre: "julian",
		funcs: []string{"IsLeap", "getYearDays", "getMonthDayFromYdays", "ToJd", "JdTo", "GetMonthLen"}},
	{dir: "cal_types/jalali", path: modPath + "/cal_types/jalali", lean: "Jalali", pre: "jalali",
		funcs: []string{"IsLeap", "getMonthDayFromYdays", "ToJd", "JdTo", "GetMonthLen"}},
	{dir: "cal_types/ethiopian", path: modPath + "/cal_types/ethiopian", lean: "Ethiopian", pre: "ethiopian",
		funcs: []string{"IsLeap", "ToJd", "JdTo", "GetMonthLen"}},
	{dir: "cal_types/gregorian_proleptic", path: modPath + "/cal_types/gregorian_proleptic", lean: "Proleptic", pre: "gprol",
		funcs: []string{"IsLeap", "ToJd", "JdTo", "GetMonthLen"}},
	{dir: "cal_types/indian_national", path: modPath + "/cal_types/indian_national", lean: "Indian", pre: "indian",
		funcs: []string{"IsLeap", "ToJd", "JdTo", "GetMonthLen"}},
	{dir: "cal_types/hijri", path: modPath + "/cal_types/hijri", lean: "Hijri", pre: "hijri",
		funcs: []string{"IsLeap", "ToJd", "JdTo", "GetMonthLen", "MonthData.GetDateFromJd", "MonthData.GetJdFromDate"}, fix: map[string]bool{"useMonthData": false}},
	// the same package with the month table on: the calendar functions go through the table first
	{dir: "cal_types/hijri", path: modPath + "/cal_types/hijri", lean: "HijriT", pre: "hijriT",
		funcs: []string{"IsLeap", "MonthData.GetJdFromDate", "MonthData.GetDateFromJd", "ToJd", "JdTo", "GetMonthLen"}, fix: map[string]bool{"useMonthData": true}},
}

// functions the translator does not read but maps to a definition of lean/Starcal/SrcExt.lean
// (hand-written, tied to the code by the correspondence check only): qualified Go name -> Lean name
var srcExternals = map[string]string{
	"sort.Search": "SrcExt.sort_Search",
	modPath + "/cal_types/gregorian.calTypeImp.IsLeap": "SrcExt.gregorian_IsLeap",
	modPath + "/cal_types/gregorian.calTypeImp.ToJd":   "SrcExt.gregorian_ToJd",
	modPath + "/cal_types/gregorian.calTypeImp.JdTo":   "SrcExt.gregorian_JdTo",
	modPath + ".NewDate":                               "SrcExt.lib_NewDate",
	modPath + ".NewHMS":                                "SrcExt.lib_NewHMS",
}

var srcStructs = map[string]string{
	modPath + ".Date": "GoSem.Date",
	modPath + ".HMS":  "GoSem.HMS",
}

func init() {
	generators = append(generators, generator{"Src.lean", genSrc})
}

// structures of the translated packages themselves (all fields integers or booleans) are emitted as Lean structures
var srcOwnStructs = map[string]string{} // qualified Go name -> Lean structure text
var srcOwnStructOrder []string
var srcOwnStructNames = map[string]string{}

func ownStruct(n *types.Named, pre string) (string, bool) {
	st, ok := n.Underlying().(*types.Struct)
	if !ok || n.Obj().Pkg() == nil {
		return "", false
	}
	q := n.Obj().Pkg().Path() + "." + n.Obj().Name()
	name := pre + "_" + n.Obj().Name()
	if _, done := srcOwnStructs[q]; done {
		return srcOwnStructNames[q], true // one Lean structure per Go type, whichever unit met it first
	}
	srcOwnStructNames[q] = name
	var fields []string
	for i := 0; i < st.NumFields(); i++ {
		f := st.Field(i)
		switch {
		case isInt(f.Type()):
			fields = append(fields, "  "+f.Name()+" : Int")
		case isBool(f.Type()):
			fields = append(fields, "  "+f.Name()+" : Bool")
		default:
			// a field that is (a pointer to) one of the structures of GoSem.lean (also when embedded): pointers are
			// values in the translation, so a nil field is outside the fragment (a use of it would be a nil dereference)
			{
				ft := f.Type()
				if pf, ok := ft.(*types.Pointer); ok {
					ft = pf.Elem()
				}
				if fn, ok := ft.(*types.Named); ok && fn.Obj().Pkg() != nil {
					if ls, ok := srcStructs[fn.Obj().Pkg().Path()+"."+fn.Obj().Name()]; ok {
						fields = append(fields, "  "+f.Name()+" : "+ls)
						continue
					}
				}
			}
			if ar, ok := f.Type().Underlying().(*types.Array); ok && isInt(ar.Elem()) {
				fields = append(fields, "  "+f.Name()+" : List Int") // [N]int: a list of N integers
				continue
			}
			if mp, ok := f.Type().Underlying().(*types.Map); ok && isInt(mp.Key()) && isInt(mp.Elem()) {
				fields = append(fields, "  "+f.Name()+" : List (Int × Int)") // map[int]int: an association list (GoSem.mapGet)
				continue
			}
			// a slice of integers, or of (pointers to) another structure of the same package
			sl, ok := f.Type().Underlying().(*types.Slice)
			if !ok {
				return "", false
			}
			if in, ok := sl.Elem().Underlying().(*types.Slice); ok && isInt(in.Elem()) {
				fields = append(fields, "  "+f.Name()+" : List (List Int)")
				continue
			}
			el := sl.Elem()
			if pe, ok := el.(*types.Pointer); ok {
				el = pe.Elem()
			}
			if isInt(el) {
				fields = append(fields, "  "+f.Name()+" : List Int")
			} else if en, ok := el.(*types.Named); ok && en.Obj().Pkg() == n.Obj().Pkg() && en != n {
				es, ok := ownStruct(en, pre)
				if !ok {
					return "", false
				}
				fields = append(fields, "  "+f.Name()+" : List "+es)
			} else {
				return "", false
			}
		}
	}
	srcOwnStructs[q] = "structure " + name + " where\n" + strings.Join(fields, "\n") + "\nderiving DecidableEq, Repr\n"
	srcOwnStructOrder = append(srcOwnStructOrder, q)
	return name, true
}

// declsByObj: the declaration(s) of a function object of this package
func (sp *srcPkg) declsByObj(fn *types.Func) []*ast.FuncDecl {
	var out []*ast.FuncDecl
	for _, f := range sp.files {
		for _, d := range f.Decls {
			if fd, ok := d.(*ast.FuncDecl); ok && sp.info.Defs[fd.Name] == fn.Origin() {
				out = append(out, fd)
			}
		}
	}
	return out
}

type untranslatable struct{ msg string }

func bail(format string, a ...interface{}) { panic(untranslatable{fmt.Sprintf(format, a...)}) }

type srcPkg struct {
	unit  srcUnit
	fset  *token.FileSet
	files []*ast.File
	info  *types.Info
	pkg   *types.Package
	decls map[string]*ast.FuncDecl
	// package-level variables: tables (name -> literal values) and scalars that become parameters
	tables  map[types.Object][]string
	scalars map[types.Object]string // Lean type
	written map[types.Object]bool
	// method names declared on several receiver types: listed as `Recv.Name` in srcUnit.funcs
	ambiguous map[string]bool
}

func loadSrcPkg(u srcUnit) (*srcPkg, error) {
	dir := filepath.Join(*repo, u.dir)
	fset := token.NewFileSet()
	pkgs, err := parser.ParseDir(fset, dir, func(fi os.FileInfo) bool {
		return !strings.HasSuffix(fi.Name(), "_test.go") && fi.Name() != "verif_hooks.go"
	}, 0)
	if err != nil {
		return nil, err
	}
	var p *ast.Package
	for n, q := range pkgs {
		if n != "main" && !strings.HasSuffix(n, "_test") {
			p = q
		}
	}
	if p == nil {
		return nil, fmt.Errorf("no package in %s", dir)
	}
	var names []string
	for n := range p.Files {
		names = append(names, n)
	}
	sort.Strings(names)
	var files []*ast.File
	for _, n := range names {
		files = append(files, p.Files[n])
	}
	info := &types.Info{Types: map[ast.Expr]types.TypeAndValue{}, Defs: map[*ast.Ident]types.Object{},
		Uses: map[*ast.Ident]types.Object{}, Selections: map[*ast.SelectorExpr]*types.Selection{}}
	wd, _ := os.Getwd()
	os.Chdir(*repo)
	conf := types.Config{Importer: importer.ForCompiler(fset, "source", nil), Error: func(error) {}}
	tp, err := conf.Check(u.path, fset, files, info)
	os.Chdir(wd)
	if err != nil {
		return nil, fmt.Errorf("type-checking %s: %v", u.path, err)
	}
	sp := &srcPkg{unit: u, fset: fset, files: files, info: info, pkg: tp, decls: map[string]*ast.FuncDecl{},
		tables: map[types.Object][]string{}, scalars: map[types.Object]string{}, written: map[types.Object]bool{}, ambiguous: map[string]bool{}}
	for _, f := range files {
		for _, d := range f.Decls {
			if fd, ok := d.(*ast.FuncDecl); ok && fd.Body != nil {
				if _, dup := sp.decls[fd.Name.Name]; dup {
					sp.ambiguous[fd.Name.Name] = true
				}
				sp.decls[fd.Name.Name] = fd
				if fd.Recv != nil && len(fd.Recv.List) == 1 {
					rt := fd.Recv.List[0].Type
					if st, ok := rt.(*ast.StarExpr); ok {
						rt = st.X
					}
					if id, ok := rt.(*ast.Ident); ok {
						sp.decls[id.Name+"."+fd.Name.Name] = fd
					}
				}
			}
		}
	}
	// which package-level variables are assigned anywhere in the package (other than their declaration)
	for _, f := range files {
		ast.Inspect(f, func(n ast.Node) bool {
			mark := func(e ast.Expr) {
				for {
					switch x := e.(type) {
					case *ast.IndexExpr:
						e = x.X
						continue
					case *ast.ParenExpr:
						e = x.X
						continue
					case *ast.StarExpr:
						e = x.X
						continue
					}
					break
				}
				if id, ok := e.(*ast.Ident); ok {
					if o := info.Uses[id]; o != nil && o.Parent() == tp.Scope() {
						sp.written[o] = true
					}
				}
			}
			switch x := n.(type) {
			case *ast.AssignStmt:
				if x.Tok != token.DEFINE {
					for _, l := range x.Lhs {
						mark(l)
					}
				}
			case *ast.IncDecStmt:
				mark(x.X)
			case *ast.UnaryExpr:
				if x.Op == token.AND {
					mark(x.X)
				}
			}
			return true
		})
	}
	// package-level variable declarations
	for _, f := range files {
		for _, d := range f.Decls {
			gd, ok := d.(*ast.GenDecl)
			if !ok || gd.Tok != token.VAR {
				continue
			}
			for _, s := range gd.Specs {
				vs := s.(*ast.ValueSpec)
				for i, id := range vs.Names {
					o := info.Defs[id]
					if o == nil {
						continue
					}
					switch t := o.Type().Underlying().(type) {
					case *types.Slice:
						if b, ok := t.Elem().Underlying().(*types.Basic); ok && b.Info()&types.IsInteger != 0 && i < len(vs.Values) {
							if cl, ok := vs.Values[i].(*ast.CompositeLit); ok && !sp.written[o] {
								var vals []string
								good := true
								for _, e := range cl.Elts {
									tv := info.Types[e]
									if tv.Value == nil || tv.Value.Kind() != constant.Int {
										good = false
										break
									}
									vals = append(vals, tv.Value.ExactString())
								}
								if good {
									sp.tables[o] = vals
								}
							}
						}
					case *types.Basic:
						if t.Kind() == types.Bool {
							sp.scalars[o] = "Bool"
						} else if t.Info()&types.IsInteger != 0 {
							sp.scalars[o] = "Int"
						}
					case *types.Pointer:
						// a package-level pointer to one of the package's own structures (hijri's monthData): a parameter
						// of the functions that read it, like the scalars (assumed non-nil: the library sets it in init)
						if n, ok := t.Elem().(*types.Named); ok && n.Obj().Pkg() == tp {
							if ls, ok := ownStruct(n, u.pre); ok {
								sp.scalars[o] = ls
							}
						}
					}
				}
			}
		}
	}
	return sp, nil
}

// ---- translation of one function ---------------------------------------------------------------

type fnTrans struct {
	sp        *srcPkg
	all       map[string]*srcPkg // import path -> package
	names     map[types.Object]string
	used      map[string]int
	globals   map[types.Object]bool // package scalars read (become parameters)
	calls     map[string]bool       // Lean names of translated functions called
	tmp       int
	inRange   bool           // translating the body of a `for _, v := range` loop: `return e` is `pure (some e)`
	chk       bool           // the overflow-checked copy: every int / int64 addition, subtraction, multiplication, negation is GoSem.chk64
	inFold    string         // translating the body of a range loop with state: the state pattern (`continue` / falling off the end is `pure (Flow.next pat)`, `return e` is `pure (Flow.ret e)`)
	errRes    bool           // the function returns (T, error): the Lean result is `Option T` inside the panic monad, `none` = an error was returned
	resType   string         // Lean type of the function's result
	inWhile   bool           // translating the body of a `for cond { … }` loop that breaks or returns
	nilRes    bool           // the function returns a pointer and `return nil` occurs: the Lean result is `Option T`
	nilVars   map[types.Object]bool // local pointers bound to the result of such a function: `Option T` values (x != nil is x.isSome, using x dereferences it)
	inCallArg bool           // translating an argument of a call: &v is the value v
	knownNonNil map[types.Object]bool // error variables inside the then-branch of `if err != nil`
	errOnly   bool           // the function's only result is an error: the Lean result is Bool (true = an error was returned)
	inout     []types.Object // pointer-to-structure parameters the body writes through: their final values are returned too
	// local slices this function made itself (`make`), or got from a call: writing to them in place cannot be seen
	// through another name — for a call result, provided the slices handed to that call are not used afterwards
	owned    map[types.Object]bool
	mayAlias map[types.Object][]types.Object
}

// withInout: a function that writes through pointer parameters returns their final values next to its result
func (t *fnTrans) withInout(rv string) string {
	if len(t.inout) == 0 {
		return rv
	}
	parts := []string{rv}
	for _, o := range t.inout {
		parts = append(parts, t.nameOf(o))
	}
	return "(" + strings.Join(parts, ", ") + ")"
}

// flowRet: `return v` inside a loop body; in the body of a `for cond { … }` loop with `break` the two ways of leaving
// the loop early share the constructor: Sum.inl = the function returns, Sum.inr = break with the state
func (t *fnTrans) flowRet(rv string) string {
	if t.inWhile {
		return "pure (GoSem.Flow.ret (Sum.inl " + rv + "))"
	}
	return "pure (GoSem.Flow.ret " + rv + ")"
}

func (t *fnTrans) isInout(o types.Object) bool {
	for _, p := range t.inout {
		if p == o {
			return true
		}
	}
	return false
}

// usesAny: do the statements mention one of the objects?
func (t *fnTrans) usesAny(list []ast.Stmt, objs []types.Object) bool {
	found := false
	for _, s := range list {
		ast.Inspect(s, func(n ast.Node) bool {
			if id, ok := n.(*ast.Ident); ok {
				for _, o := range objs {
					if t.sp.info.Uses[id] == o {
						found = true
					}
				}
			}
			return true
		})
	}
	return found
}

// noteOwner records where a freshly bound local slice came from
func (t *fnTrans) noteOwner(o types.Object, rhs ast.Expr) {
	if o == nil {
		return
	}
	if u, ok := rhs.(*ast.UnaryExpr); ok && u.Op == token.AND {
		rhs = u.X
	}
	if _, ok := rhs.(*ast.CompositeLit); ok {
		t.owned[o] = true // a structure made here
		return
	}
	if _, ok := o.Type().Underlying().(*types.Slice); !ok {
		return
	}
	wasOwned := map[types.Object]bool{}
	wasAlias := map[types.Object][]types.Object{}
	for k, v := range t.owned {
		wasOwned[k] = v
	}
	for k, v := range t.mayAlias {
		wasAlias[k] = v
	}
	delete(t.owned, o)
	delete(t.mayAlias, o)
	c, ok := rhs.(*ast.CallExpr)
	if !ok {
		return
	}
	if id, ok := c.Fun.(*ast.Ident); ok && id.Name == "make" {
		t.owned[o] = true
		return
	}
	if id, ok := c.Fun.(*ast.Ident); ok && id.Name == "append" && len(c.Args) > 0 {
		// append(x, …): the result is as much this function's own as x was (the appended elements are copied)
		if first, ok := c.Args[0].(*ast.Ident); ok {
			fo := t.sp.info.Uses[first]
			if wasOwned[fo] {
				t.owned[o] = true
				t.mayAlias[o] = wasAlias[fo]
			}
		}
		return
	}
	var handed []types.Object
	ast.Inspect(c, func(n ast.Node) bool {
		if id, ok := n.(*ast.Ident); ok {
			if u, ok := t.sp.info.Uses[id].(*types.Var); ok {
				if _, isSl := u.Type().Underlying().(*types.Slice); isSl {
					handed = append(handed, u)
				}
			}
		}
		return true
	})
	t.owned[o] = true
	t.mayAlias[o] = handed
}

// arith: the result of an integer operation of type ty — reduced for uintN, range-checked in the checked copy
func (t *fnTrans) arith(ty types.Type, s string) lexpr {
	if uintBits(ty) == 0 && t.chk {
		return lexpr{"(GoSem.chk64 " + s + ")", true}
	}
	return lexpr{wrap(ty, s), false}
}

var leanKeywords = map[string]bool{"end": true, "from": true, "at": true, "do": true, "then": true, "else": true, "if": true,
	"fun": true, "let": true, "in": true, "open": true, "by": true, "have": true, "show": true, "match": true, "with": true,
	"where": true, "deriving": true, "instance": true, "class": true, "structure": true, "def": true, "theorem": true,
	"local": true, "prefix": true, "mut": true, "return": true, "for": true, "unless": true, "try": true, "catch": true,
	"finally": true, "break": true, "continue": true, "some": true, "none": true, "pure": true, "Type": true, "Prop": true,
	"Sort": true, "infix": true, "notation": true, "macro": true, "syntax": true, "import": true, "namespace": true,
	"section": true, "variable": true, "universe": true, "example": true, "abbrev": true, "axiom": true, "using": true,
	"calc": true, "nomatch": true, "exact": true, "this": true, "true": true, "false": true, "decide": true}

func (t *fnTrans) nameOf(o types.Object) string {
	if n, ok := t.names[o]; ok {
		return n
	}
	base := o.Name()
	if base == "_" {
		t.tmp++
		base = fmt.Sprintf("_u%d", t.tmp)
	}
	if leanKeywords[base] {
		base += "_"
	}
	n := base
	if c := t.used[base]; c > 0 {
		n = fmt.Sprintf("%s_%d", base, c)
	}
	t.used[base]++
	t.names[o] = n
	return n
}

// integer width of a basic type: 0 = unbounded (int, int64 and friends are modelled without wrap-around)
func uintBits(ty types.Type) int {
	b, ok := ty.Underlying().(*types.Basic)
	if !ok {
		return 0
	}
	switch b.Kind() {
	case types.Uint8:
		return 8
	case types.Uint16:
		return 16
	case types.Uint32:
		return 32
	case types.Uint, types.Uint64, types.Uintptr:
		return 64
	}
	return 0
}

func isInt(ty types.Type) bool {
	b, ok := ty.Underlying().(*types.Basic)
	return ok && b.Info()&types.IsInteger != 0
}

func isFloat(ty types.Type) bool {
	b, ok := ty.Underlying().(*types.Basic)
	return ok && b.Info()&types.IsFloat != 0
}

func isBool(ty types.Type) bool {
	b, ok := ty.Underlying().(*types.Basic)
	return ok && b.Info()&types.IsBoolean != 0
}

func wrap(ty types.Type, s string) string {
	switch uintBits(ty) {
	case 8:
		return "(GoSem.u8 " + s + ")"
	case 16:
		return "(GoSem.u16 " + s + ")"
	case 32:
		return "(GoSem.u32 " + s + ")"
	case 64:
		return "(GoSem.u64 " + s + ")"
	}
	return s
}

func (t *fnTrans) leanType(ty types.Type) string {
	if p, ok := ty.(*types.Pointer); ok {
		ty = p.Elem()
	}
	if n, ok := ty.(*types.Named); ok && n.Obj().Pkg() != nil {
		if s, ok := srcStructs[n.Obj().Pkg().Path()+"."+n.Obj().Name()]; ok {
			return s
		}
		if n.Obj().Pkg() == t.sp.pkg {
			if s, ok := ownStruct(n, t.sp.unit.pre); ok {
				return s
			}
		}
	}
	if sl, ok := ty.Underlying().(*types.Slice); ok {
		el := sl.Elem()
		if pe, ok := el.(*types.Pointer); ok {
			el = pe.Elem() // []*T: the structures are values in the translation (bail on nil / aliasing uses elsewhere)
		}
		if n, ok := el.(*types.Named); ok && n.Obj().Pkg() == t.sp.pkg {
			if s, ok := ownStruct(n, t.sp.unit.pre); ok {
				return "(List " + s + ")"
			}
		}
	}
	if isInt(ty) {
		return "Int"
	}
	if isBool(ty) {
		return "Bool"
	}
	if isErrorType(ty) {
		return "Bool" // an error value: true = non-nil (the error itself is not modelled)
	}
	if isFloat(ty) {
		return "Rat"
	}
	if sl, ok := ty.Underlying().(*types.Slice); ok {
		if _, inner := sl.Elem().Underlying().(*types.Slice); inner {
			return "(List " + t.leanType(sl.Elem()) + ")"
		}
	}
	if s, ok := ty.Underlying().(*types.Slice); ok && isInt(s.Elem()) {
		return "(List Int)"
	}
	bail("type %s is outside the fragment", ty)
	return ""
}

// zero value of an element type
func (t *fnTrans) zero(ty types.Type) string {
	switch {
	case isInt(ty):
		return "0"
	case isBool(ty):
		return "false"
	case isErrorType(ty):
		return "false"
	}
	if _, ok := ty.Underlying().(*types.Slice); ok {
		return "([] : " + t.leanType(ty) + ")"
	}
	if pt, ok := ty.(*types.Pointer); ok {
		ty = pt.Elem()
	}
	if n, ok := ty.(*types.Named); ok {
		if st, ok := n.Underlying().(*types.Struct); ok {
			lt := t.leanType(ty)
			var parts []string
			for i := 0; i < st.NumFields(); i++ {
				parts = append(parts, st.Field(i).Name()+" := "+t.zero(st.Field(i).Type()))
			}
			return "({ " + strings.Join(parts, ", ") + " } : " + lt + ")"
		}
	}
	bail("zero value of %s", ty)
	return ""
}

func isErrorType(ty types.Type) bool {
	return ty != nil && types.Identical(ty, types.Universe.Lookup("error").Type())
}

// an expression: Lean text, and whether it is effectful (type Option _) or pure
type lexpr struct {
	s   string
	eff bool
}

func lit(v constant.Value) string {
	s := v.ExactString()
	if strings.HasPrefix(s, "-") {
		return "(" + s + ")"
	}
	return s
}

// pure form of an expression inside a do block: effectful ones are bound with the nested-action arrow
func (t *fnTrans) val(e ast.Expr) string {
	x := t.expr(e)
	if x.eff {
		return "(← " + x.s + ")"
	}
	return x.s
}

func (t *fnTrans) expr(e ast.Expr) lexpr {
	info := t.sp.info
	tv, known := info.Types[e]
	if known && tv.Value != nil {
		switch tv.Value.Kind() {
		case constant.Int:
			if tv.Type != nil && isFloat(tv.Type) {
				return lexpr{"(" + lit(tv.Value) + " : Rat)", false}
			}
			return lexpr{lit(tv.Value), false}
		case constant.Bool:
			if constant.BoolVal(tv.Value) {
				return lexpr{"true", false}
			}
			return lexpr{"false", false}
		case constant.Float:
			// a float constant is an exact rational (29.5 = 59/2); float64 arithmetic is translated as exact
			// rational arithmetic: IEEE rounding is NOT modelled
			num, den := constant.Num(tv.Value), constant.Denom(tv.Value)
			if num.Kind() != constant.Int || den.Kind() != constant.Int {
				bail("float constant %s is not a ratio of integers", tv.Value)
			}
			return lexpr{"((" + lit(num) + " : Rat) / " + lit(den) + ")", false}
		default:
			bail("constant %s of kind %v", tv.Value, tv.Value.Kind())
		}
	}
	switch x := e.(type) {
	case *ast.ParenExpr:
		return t.expr(x.X)
	case *ast.Ident:
		o := info.Uses[x]
		if o == nil {
			o = info.Defs[x]
		}
		if o == nil {
			bail("identifier %s", x.Name)
		}
		if o.Parent() == t.sp.pkg.Scope() {
			if _, ok := t.sp.tables[o]; ok {
				return lexpr{t.sp.unit.pre + "_" + o.Name(), false}
			}
			if v, ok := t.sp.unit.fix[o.Name()]; ok {
				if v {
					return lexpr{"true", false}
				}
				return lexpr{"false", false}
			}
			if _, ok := t.sp.scalars[o]; ok {
				t.globals[o] = true
				return lexpr{o.Name(), false}
			}
			bail("package-level variable %s", o.Name())
		}
		if _, isNil := o.(*types.Nil); isNil && known {
			if _, ok := tv.Type.Underlying().(*types.Slice); ok {
				return lexpr{"([] : " + t.leanType(tv.Type) + ")", false}
			}
		}
		if _, ok := o.(*types.Var); !ok {
			bail("identifier %s is not a variable", x.Name)
		}
		if t.nilVars[o] {
			return lexpr{t.nameOf(o), true} // using a nil-able pointer dereferences it: `none` (a panic) when nil
		}
		return lexpr{t.nameOf(o), false}
	case *ast.UnaryExpr:
		switch x.Op {
		case token.SUB:
			return t.arith(tv.Type, "(-"+t.val(x.X)+")")
		case token.ADD:
			return t.expr(x.X)
		case token.NOT:
			return lexpr{"(!" + t.val(x.X) + ")", false}
		case token.AND:
			// &T{...} of a known structure: the structures are values in the translation
			if cl, ok := x.X.(*ast.CompositeLit); ok {
				return t.expr(cl)
			}
			// &v of a local structure handed to a call (the call site checks what the callee does with it)
			if id, ok := x.X.(*ast.Ident); ok && t.inCallArg {
				_ = t.leanType(info.Types[id].Type)
				return t.expr(id)
			}
		}
		bail("unary operator %s", x.Op)
	case *ast.BinaryExpr:
		switch x.Op {
		case token.LAND, token.LOR:
			l, r := t.expr(x.X), t.expr(x.Y)
			op := " && "
			short := "false"
			if x.Op == token.LOR {
				op = " || "
				short = "true"
			}
			if !r.eff && !strings.Contains(r.s, "(← ") {
				ls := l.s
				if l.eff {
					ls = "(← " + l.s + ")"
				}
				return lexpr{"(" + ls + op + r.s + ")", false}
			}
			// the right operand can panic: it is evaluated only when the left one does not decide
			ls := l.s
			if l.eff {
				ls = "(← " + l.s + ")"
			}
			rs := r.s
			if !r.eff {
				rs = "pure " + r.s
			}
			if x.Op == token.LAND {
				return lexpr{"(do if " + ls + " then " + rs + " else pure " + short + ")", true}
			}
			return lexpr{"(do if " + ls + " then pure " + short + " else " + rs + ")", true}
		}
		if x.Op == token.EQL || x.Op == token.NEQ {
			if id, ok := x.X.(*ast.Ident); ok && t.nilVars[info.Uses[id]] {
				if y, ok := x.Y.(*ast.Ident); ok && y.Name == "nil" {
					if x.Op == token.NEQ {
						return lexpr{"(" + t.nameOf(info.Uses[id]) + ").isSome", false}
					}
					return lexpr{"(" + t.nameOf(info.Uses[id]) + ").isNone", false}
				}
			}
		}
		lt := info.Types[x.X].Type
		if isErrorType(lt) && (x.Op == token.EQL || x.Op == token.NEQ) {
			// err != nil / err == nil: an error value is the Boolean "non-nil"
			var other ast.Expr = x.Y
			side := x.X
			if id, ok := x.X.(*ast.Ident); ok && id.Name == "nil" {
				other, side = x.X, x.Y
			}
			if id, ok := other.(*ast.Ident); !ok || id.Name != "nil" {
				bail("comparison of two error values")
			}
			if x.Op == token.NEQ {
				return lexpr{t.val(side), false}
			}
			return lexpr{"(!" + t.val(side) + ")", false}
		}
		if isFloat(lt) {
			a, b := t.val(x.X), t.val(x.Y)
			switch x.Op {
			case token.ADD:
				return lexpr{"(" + a + " + " + b + ")", false}
			case token.SUB:
				return lexpr{"(" + a + " - " + b + ")", false}
			case token.MUL:
				return lexpr{"(" + a + " * " + b + ")", false}
			case token.QUO:
				if rv := info.Types[x.Y]; rv.Value == nil || constant.Sign(rv.Value) == 0 {
					bail("float division by a non-constant")
				}
				return lexpr{"(" + a + " / " + b + ")", false}
			case token.LSS:
				return lexpr{"(decide (" + a + " < " + b + "))", false}
			case token.LEQ:
				return lexpr{"(decide (" + a + " ≤ " + b + "))", false}
			case token.GTR:
				return lexpr{"(decide (" + a + " > " + b + "))", false}
			case token.GEQ:
				return lexpr{"(decide (" + a + " ≥ " + b + "))", false}
			}
			bail("operator %s on floats", x.Op)
		}
		if !(isInt(lt) || (isBool(lt) && (x.Op == token.EQL || x.Op == token.NEQ))) {
			bail("operator %s on %s", x.Op, lt)
		}
		a, b := t.val(x.X), t.val(x.Y)
		switch x.Op {
		case token.ADD:
			return t.arith(tv.Type, "("+a+" + "+b+")")
		case token.SUB:
			return t.arith(tv.Type, "("+a+" - "+b+")")
		case token.MUL:
			return t.arith(tv.Type, "("+a+" * "+b+")")
		case token.QUO, token.REM:
			fn := "Int.tdiv"
			if x.Op == token.REM {
				fn = "Int.tmod"
			}
			if rv := info.Types[x.Y]; rv.Value != nil && rv.Value.Kind() == constant.Int && constant.Sign(rv.Value) != 0 {
				if t.chk && x.Op == token.QUO && rv.Value.ExactString() == "-1" {
					return lexpr{"(GoSem.chk64 (" + fn + " " + a + " " + b + "))", true}
				}
				return lexpr{"(" + fn + " " + a + " " + b + ")", false}
			}
			g := "GoSem.quo"
			if x.Op == token.REM {
				g = "GoSem.rem"
			} else if t.chk && uintBits(tv.Type) == 0 {
				g = "GoSem.quo64" // MinInt / -1 does not fit
			}
			return lexpr{"(" + g + " " + a + " " + b + ")", true}
		case token.EQL:
			if isBool(lt) {
				return lexpr{"(" + a + " == " + b + ")", false}
			}
			return lexpr{"(decide (" + a + " = " + b + "))", false}
		case token.NEQ:
			if isBool(lt) {
				return lexpr{"(" + a + " != " + b + ")", false}
			}
			return lexpr{"(decide (" + a + " ≠ " + b + "))", false}
		case token.LSS:
			return lexpr{"(decide (" + a + " < " + b + "))", false}
		case token.LEQ:
			return lexpr{"(decide (" + a + " ≤ " + b + "))", false}
		case token.GTR:
			return lexpr{"(decide (" + a + " > " + b + "))", false}
		case token.GEQ:
			return lexpr{"(decide (" + a + " ≥ " + b + "))", false}
		}
		bail("binary operator %s", x.Op)
	case *ast.SelectorExpr:
		if sel, ok := info.Selections[x]; ok && sel.Kind() == types.FieldVal {
			_ = t.leanType(sel.Recv()) // must be one of the known structures
			return lexpr{"(" + t.val(x.X) + ")." + sel.Obj().Name(), false}
		}
		bail("selector %s", x.Sel.Name)
	case *ast.IndexExpr:
		if ar, ok := info.Types[x.X].Type.Underlying().(*types.Array); ok && isInt(ar.Elem()) {
			return lexpr{"(GoSem.idx " + t.val(x.X) + " " + t.val(x.Index) + ")", true}
		}
		if mp, ok := info.Types[x.X].Type.Underlying().(*types.Map); ok && isInt(mp.Key()) && isInt(mp.Elem()) {
			// m[k]: the zero value when the key is absent
			return lexpr{"(GoSem.mapGet " + t.val(x.X) + " " + t.val(x.Index) + ")", false}
		}
		xt := info.Types[x.X].Type
		if s, ok := xt.Underlying().(*types.Slice); ok && !isInt(s.Elem()) {
			_ = t.leanType(xt) // a slice of one of the package's own structures, or outside the fragment
			return lexpr{"(GoSem.idxA " + t.val(x.X) + " " + t.val(x.Index) + ")", true}
		}
		if s, ok := xt.Underlying().(*types.Slice); !ok || !isInt(s.Elem()) {
			bail("index into %s", xt)
		}
		return lexpr{"(GoSem.idx " + t.val(x.X) + " " + t.val(x.Index) + ")", true}
	case *ast.FuncLit:
		// a closure handed to an external (sort.Search): parameters of integer type, one result, a body in the
		// fragment; what it captures are the enclosing function's immutable bindings (values in the translation)
		if !t.inCallArg {
			bail("function literal outside a call")
		}
		var ps []string
		for _, f := range x.Type.Params.List {
			lt := t.leanType(info.Types[f.Type].Type)
			for _, id := range f.Names {
				ps = append(ps, "("+t.nameOf(info.Defs[id])+" : "+lt+")")
			}
		}
		if x.Type.Results == nil || len(x.Type.Results.List) != 1 {
			bail("function literal with other than one result")
		}
		rlt := t.leanType(info.Types[x.Type.Results.List[0].Type].Type)
		set := map[types.Object]bool{}
		t.assigned(x.Body.List, map[types.Object]bool{}, set)
		if len(set) > 0 {
			bail("function literal that assigns a captured variable")
		}
		savedArg, savedFold, savedErr, savedOnly, savedInout, savedRes := t.inCallArg, t.inFold, t.errRes, t.errOnly, t.inout, t.resType
		t.inCallArg, t.inFold, t.errRes, t.errOnly, t.inout, t.resType = false, "", false, false, nil, rlt
		body := t.stmts(x.Body.List, "", 3, 1)
		t.inCallArg, t.inFold, t.errRes, t.errOnly, t.inout, t.resType = savedArg, savedFold, savedErr, savedOnly, savedInout, savedRes
		return lexpr{"(fun " + strings.Join(ps, " ") + " => (do\n" + body + "      : Option " + rlt + "))", false}
	case *ast.SliceExpr:
		if x.Slice3 {
			bail("slice expression with three indices")
		}
		_ = t.leanType(info.Types[x.X].Type)
		if x.Low != nil && x.High != nil {
			// s[lo:hi] (only up to the length: Go allows hi up to the capacity)
			return lexpr{"(GoSem.sliceA " + t.val(x.X) + " " + t.val(x.Low) + " " + t.val(x.High) + ")", true}
		}
		if x.High != nil {
			// s[:n]: Go allows n up to cap(s); the translation only up to len(s) (`none` beyond)
			return lexpr{"(GoSem.takeA " + t.val(x.X) + " " + t.val(x.High) + ")", true}
		}
		if x.Low != nil {
			return lexpr{"(GoSem.dropA " + t.val(x.X) + " " + t.val(x.Low) + ")", true}
		}
		return t.expr(x.X)
	case *ast.CompositeLit:
		lt := t.leanType(tv.Type)
		st, ok := tv.Type.Underlying().(*types.Struct)
		if !ok {
			bail("composite literal of %s", tv.Type)
		}
		var parts []string
		given := map[string]bool{}
		for i, el := range x.Elts {
			if kv, ok := el.(*ast.KeyValueExpr); ok {
				parts = append(parts, kv.Key.(*ast.Ident).Name+" := "+t.val(kv.Value))
				given[kv.Key.(*ast.Ident).Name] = true
			} else {
				parts = append(parts, st.Field(i).Name()+" := "+t.val(el))
				given[st.Field(i).Name()] = true
			}
		}
		// omitted fields of a keyed literal hold their zero values
		for i := 0; i < st.NumFields(); i++ {
			if !given[st.Field(i).Name()] {
				parts = append(parts, st.Field(i).Name()+" := "+t.zero(st.Field(i).Type()))
			}
		}
		return lexpr{"({ " + strings.Join(parts, ", ") + " } : " + lt + ")", false}
	case *ast.CallExpr:
		// conversion
		if ftv, ok := info.Types[x.Fun]; ok && ftv.IsType() {
			if len(x.Args) == 1 && isFloat(ftv.Type) && isInt(info.Types[x.Args[0]].Type) {
				return lexpr{"((" + t.val(x.Args[0]) + " : Int) : Rat)", false}
			}
			if len(x.Args) == 1 && isInt(ftv.Type) && isFloat(info.Types[x.Args[0]].Type) {
				// int(f): truncation toward zero
				return lexpr{wrap(ftv.Type, "(GoSem.ftoi "+t.val(x.Args[0])+")"), false}
			}
			if len(x.Args) != 1 || !isInt(ftv.Type) || !isInt(info.Types[x.Args[0]].Type) {
				bail("conversion to %s", ftv.Type)
			}
			return lexpr{wrap(ftv.Type, t.val(x.Args[0])), false}
		}
		if id, ok := x.Fun.(*ast.Ident); ok {
			if _, isB := info.Uses[id].(*types.Builtin); isB {
				switch id.Name {
				case "append":
					if len(x.Args) == 2 && x.Ellipsis.IsValid() {
						_ = t.leanType(tv.Type)
						return lexpr{"(" + t.val(x.Args[0]) + " ++ " + t.val(x.Args[1]) + ")", false}
					}
					if len(x.Args) != 2 || x.Ellipsis.IsValid() {
						bail("append with other than one element")
					}
					_ = t.leanType(tv.Type)
					return lexpr{"(" + t.val(x.Args[0]) + " ++ [" + t.val(x.Args[1]) + "])", false}
				case "make":
					lt := t.leanType(tv.Type)
					sl, ok := tv.Type.Underlying().(*types.Slice)
					if !ok || len(x.Args) < 2 {
						bail("make of %s", tv.Type)
					}
					lv := info.Types[x.Args[1]]
					if len(x.Args) == 3 {
						if lv.Value == nil || lv.Value.ExactString() != "0" {
							bail("make with a length and a capacity")
						}
						// make(T, 0, c): the empty slice; a negative capacity panics
						return lexpr{"(GoSem.mkCap (α := " + strings.TrimSuffix(strings.TrimPrefix(lt, "(List "), ")") + ") " + t.val(x.Args[2]) + ")", true}
					}
					return lexpr{"(GoSem.mkLen " + t.val(x.Args[1]) + " " + t.zero(sl.Elem()) + ")", true}
				}
			}
		}
		// builtin len of a table
		if id, ok := x.Fun.(*ast.Ident); ok && id.Name == "len" {
			if _, isB := info.Uses[id].(*types.Builtin); isB {
				return lexpr{"((" + t.val(x.Args[0]) + ").length : Int)", false}
			}
		}
		var fobj types.Object
		switch f := x.Fun.(type) {
		case *ast.Ident:
			fobj = info.Uses[f]
		case *ast.SelectorExpr:
			if sel, ok := info.Selections[f]; ok {
				fobj = sel.Obj() // method
			} else {
				fobj = info.Uses[f.Sel] // qualified identifier
			}
		}
		fn, ok := fobj.(*types.Func)
		if !ok || fn.Pkg() == nil {
			bail("call of %v", x.Fun)
		}
		if fn.Pkg().Path() == "math" && (fn.Name() == "Ceil" || fn.Name() == "Floor") && len(x.Args) == 1 {
			f := "Rat.ceil"
			if fn.Name() == "Floor" {
				f = "Rat.floor"
			}
			return lexpr{"((" + f + " " + t.val(x.Args[0]) + " : Int) : Rat)", false}
		}
		qual := fn.Pkg().Path() + "."
		sig := fn.Type().(*types.Signature)
		if sig.Recv() != nil {
			rt := sig.Recv().Type()
			if p, ok := rt.(*types.Pointer); ok {
				rt = p.Elem()
			}
			if n, ok := rt.(*types.Named); ok {
				qual += n.Obj().Name() + "."
			}
		}
		qual += fn.Name()
		var args []string
		// a value receiver of a known structure is the first argument
		if sig.Recv() != nil {
			if se, ok := x.Fun.(*ast.SelectorExpr); ok {
				rt := sig.Recv().Type()
				if p, ok := rt.(*types.Pointer); ok {
					rt = p.Elem()
				}
				if n, ok := rt.(*types.Named); ok {
					if _, ok := srcStructs[n.Obj().Pkg().Path()+"."+n.Obj().Name()]; ok {
						args = append(args, t.val(se.X))
					} else if _, isSlice := n.Underlying().(*types.Slice); isSlice {
						args = append(args, t.val(se.X))
					} else if st, isSt := n.Underlying().(*types.Struct); isSt && st.NumFields() > 0 {
						args = append(args, t.val(se.X))
					}
				}
			}
		}
		t.inCallArg = true
		nfixed := sig.Params().Len()
		if sig.Variadic() && !x.Ellipsis.IsValid() {
			nfixed--
		}
		var spread []string
		for i, a := range x.Args {
			if sig.Variadic() && !x.Ellipsis.IsValid() && i >= nfixed {
				spread = append(spread, t.val(a))
				continue
			}
			args = append(args, t.val(a))
		}
		if sig.Variadic() && !x.Ellipsis.IsValid() {
			// f(a, b) for f(xs ...T): the compiler makes the slice
			args = append(args, "["+strings.Join(spread, ", ")+"]")
		}
		t.inCallArg = false
		if ext, ok := srcExternals[qual]; ok {
			return lexpr{"(" + ext + " " + strings.Join(args, " ") + ")", true}
		}
		tp, ok := t.all[fn.Pkg().Path()]
		if fn.Pkg().Path() == t.sp.unit.path {
			tp, ok = t.sp, true // a second specialised copy of the same package calls its own copies
		}
		if !ok {
			bail("call of %s (package not translated)", qual)
		}
		listed := ""
		recvName := ""
		if sig.Recv() != nil {
			rt := sig.Recv().Type()
			if p, ok := rt.(*types.Pointer); ok {
				rt = p.Elem()
			}
			if n, ok := rt.(*types.Named); ok {
				recvName = n.Obj().Name()
			}
		}
		for _, n := range tp.unit.funcs {
			if n == fn.Name() || (recvName != "" && n == recvName+"."+fn.Name()) {
				listed = n
			}
		}
		if listed == "" {
			bail("call of %s (not in the list of translated functions)", qual)
		}
		ln := tp.unit.pre + "_" + strings.ReplaceAll(listed, ".", "_")
		if t.chk {
			ln += "_chk"
		}
		t.calls[ln] = true
		return lexpr{"(" + ln + "@GLOBALS@ " + strings.Join(args, " ") + ")", true}
	}
	bail("expression %T", e)
	return lexpr{}
}

// assigned collects the local variables (declared outside `inside`) that the statements assign
func (t *fnTrans) assigned(stmts []ast.Stmt, declaredInside map[types.Object]bool, out map[types.Object]bool) {
	info := t.sp.info
	var walk func(s ast.Stmt)
	walk = func(s ast.Stmt) {
		switch x := s.(type) {
		case *ast.AssignStmt:
			for _, r := range x.Rhs {
				for _, o := range t.inoutArgs(r) {
					if !declaredInside[o] {
						out[o] = true
					}
				}
			}
			for _, l := range x.Lhs {
				if ix, ok := l.(*ast.IndexExpr); ok {
					l = ix.X // xs[i] = v rebinds xs in the translation
				}
				if se, ok := l.(*ast.SelectorExpr); ok {
					l = se.X // v.f = e rebinds the structure v
				}
				id, ok := l.(*ast.Ident)
				if !ok {
					bail("assignment to %T", l)
				}
				if d := info.Defs[id]; d != nil {
					declaredInside[d] = true
				} else if u := info.Uses[id]; u != nil && !declaredInside[u] {
					out[u] = true
				}
			}
		case *ast.IncDecStmt:
			if id, ok := x.X.(*ast.Ident); ok {
				if u := info.Uses[id]; u != nil && !declaredInside[u] {
					out[u] = true
				}
			}
		case *ast.ExprStmt:
			for _, o := range t.inoutArgs(x.X) {
				if !declaredInside[o] {
					out[o] = true
				}
			}
			// an in-place operation (srcMutExternals) rebinds its receiver
			if c, ok := x.X.(*ast.CallExpr); ok {
				if se, ok := c.Fun.(*ast.SelectorExpr); ok {
					if id, ok := se.X.(*ast.Ident); ok {
						if u, ok := info.Uses[id].(*types.Var); ok && !declaredInside[u] {
							if _, isSl := u.Type().Underlying().(*types.Slice); isSl {
								out[u] = true
							}
						}
					}
				}
			}
		case *ast.DeclStmt:
			for _, sp := range x.Decl.(*ast.GenDecl).Specs {
				for _, id := range sp.(*ast.ValueSpec).Names {
					declaredInside[info.Defs[id]] = true
				}
			}
		case *ast.IfStmt:
			if x.Init != nil {
				walk(x.Init)
			}
			for _, b := range x.Body.List {
				walk(b)
			}
			if x.Else != nil {
				walk(x.Else)
			}
		case *ast.BlockStmt:
			for _, b := range x.List {
				walk(b)
			}
		case *ast.ForStmt:
			if x.Init != nil {
				walk(x.Init)
			}
			if x.Post != nil {
				walk(x.Post)
			}
			for _, b := range x.Body.List {
				walk(b)
			}
		case *ast.RangeStmt:
			for _, e := range []ast.Expr{x.Key, x.Value} {
				if id, ok := e.(*ast.Ident); ok && x.Tok == token.DEFINE {
					if d := info.Defs[id]; d != nil {
						declaredInside[d] = true
					}
				}
			}
			for _, b := range x.Body.List {
				walk(b)
			}
		}
	}
	for _, s := range stmts {
		walk(s)
	}
}

func ind(n int) string { return strings.Repeat("  ", n) }

var bareInt = regexp.MustCompile(`^\(?-?[0-9]+\)?$`)

// typedLit: a bare integer literal bound by `let` would be elaborated as a natural number (truncated subtraction!):
// give it its type
func typedLit(v string) string {
	if bareInt.MatchString(v) {
		return "(" + v + " : Int)"
	}
	return v
}

// stmts translates a statement list followed by the continuation `k` (Lean text of a do-block tail,
// "" = falling off the end is an error).
func (t *fnTrans) stmts(list []ast.Stmt, k string, depth int, nres int) string {
	info := t.sp.info
	if len(list) == 0 {
		if k == "" {
			bail("control reaches the end of a function that returns a value")
		}
		return ind(depth) + k + "\n"
	}
	s, rest := list[0], list[1:]
	bindOne := func(o types.Object, rhs ast.Expr, ty types.Type) string {
		x := t.expr(rhs)
		v := x.s
		if ty != nil {
			// implicit conversion of an untyped constant never changes the value; a typed operand is already wrapped
			_ = ty
		}
		n := t.nameOf(o)
		if x.eff {
			return ind(depth) + "let " + n + " ← " + v + "\n"
		}
		return ind(depth) + "let " + n + " := " + typedLit(v) + "\n"
	}
	lhsObj := func(e ast.Expr) types.Object {
		id, ok := e.(*ast.Ident)
		if !ok {
			bail("assignment to %T", e)
		}
		if d := info.Defs[id]; d != nil {
			return d
		}
		if u := info.Uses[id]; u != nil {
			if u.Parent() == t.sp.pkg.Scope() {
				bail("assignment to the package-level variable %s", id.Name)
			}
			return u
		}
		if id.Name == "_" {
			return types.NewVar(token.NoPos, nil, "_", nil)
		}
		bail("assignment to %s", id.Name)
		return nil
	}
	switch x := s.(type) {
	case *ast.ReturnStmt:
		if len(x.Results) == 0 {
			bail("bare return")
		}
		if t.inRange {
			if len(x.Results) != 1 {
				bail("multi-value return inside a range loop")
			}
			return ind(depth) + "pure (some " + t.val(x.Results[0]) + ")\n"
		}
		if t.errOnly {
			if len(x.Results) != 1 {
				bail("return shape in a function whose only result is an error")
			}
			rv := "true"
			if id, ok := x.Results[0].(*ast.Ident); ok && id.Name == "nil" {
				rv = "false"
			} else if id, ok := x.Results[0].(*ast.Ident); ok && isErrorType(info.Types[id].Type) {
				rv = t.val(id)
			} else if c, ok := x.Results[0].(*ast.CallExpr); !ok || !isErrorCtor(info, c) {
				bail("error result that is neither nil nor a fresh error")
			}
			rv = t.withInout(rv)
			if t.inFold != "" {
				return ind(depth) + t.flowRet(rv) + "\n"
			}
			return ind(depth) + "pure " + rv + "\n"
		}
		if t.errRes {
			// (T, error): `return v, nil` is `some v`, `return _, err` is `none` (the error value itself is not modelled)
			if len(x.Results) == 1 {
				// return f(...) of a translated function with the same (T, error) shape
				if c, ok := x.Results[0].(*ast.CallExpr); ok {
					if tup, ok := info.Types[c].Type.(*types.Tuple); ok && tup.Len() == 2 {
						r := t.expr(c)
						if t.inFold != "" {
							return ind(depth) + t.flowRet("(← "+r.s+")") + "\n"
						}
						return ind(depth) + r.s + "\n"
					}
				}
			}
			if len(x.Results) != 2 {
				bail("return shape in a function with an error result")
			}
			rv := "none"
			if len(t.inout) > 0 {
				bail("a function that writes through a pointer parameter and returns (T, error)")
			}
			if id, ok := x.Results[1].(*ast.Ident); ok && id.Name == "nil" {
				rv = "(some " + t.val(x.Results[0]) + ")"
			} else if id, ok := x.Results[1].(*ast.Ident); ok && isErrorType(info.Types[id].Type) {
				// return v, err with an error variable: an error iff it is non-nil
				first := "none"
				if fid, ok := x.Results[0].(*ast.Ident); !ok || fid.Name != "nil" {
					first = "(some " + t.val(x.Results[0]) + ")"
				}
				rv = "(if " + t.val(id) + " then none else " + first + ")"
				if first == "none" {
					// `return nil, err`: with err == nil Go returns (nil, nil); the translation has no value for that
					rv = "none"
					if !t.knownNonNil[info.Uses[id]] {
						bail("return nil, err where err is not known to be non-nil")
					}
				}
			} else if c, ok := x.Results[1].(*ast.CallExpr); !ok || !isErrorCtor(info, c) {
				bail("error result that is neither nil nor a fresh error")
			}
			if t.inFold != "" {
				return ind(depth) + t.flowRet(rv) + "\n"
			}
			return ind(depth) + "pure " + rv + "\n"
		}
		if t.nilRes && len(x.Results) == 1 {
			rv := ""
			if id, ok := x.Results[0].(*ast.Ident); ok && id.Name == "nil" {
				rv = "none"
			} else {
				rv = "(some " + t.val(x.Results[0]) + ")"
			}
			if t.inFold != "" {
				return ind(depth) + t.flowRet(rv) + "\n"
			}
			return ind(depth) + "pure " + rv + "\n"
		}
		if len(x.Results) == 1 {
			r := t.expr(x.Results[0])
			if t.inFold != "" {
				return ind(depth) + t.flowRet(t.val(x.Results[0])) + "\n"
			}
			if r.eff {
				return ind(depth) + r.s + "\n"
			}
			return ind(depth) + "pure " + r.s + "\n"
		}
		var parts []string
		for _, r := range x.Results {
			parts = append(parts, t.val(r))
		}
		if t.inFold != "" {
			return ind(depth) + t.flowRet("("+strings.Join(parts, ", ")+")") + "\n"
		}
		return ind(depth) + "pure (" + strings.Join(parts, ", ") + ")\n"
	case *ast.BranchStmt:
		if x.Tok == token.CONTINUE && x.Label == nil && t.inFold != "" {
			return ind(depth) + "pure (GoSem.Flow.next " + t.inFold + ")\n"
		}
		if x.Tok == token.BREAK && x.Label == nil && t.inWhile && t.inFold != "" {
			return ind(depth) + "pure (GoSem.Flow.ret (Sum.inr " + t.inFold + "))\n"
		}
		bail("%s statement", x.Tok)
	case *ast.AssignStmt:
		switch x.Tok {
		case token.DEFINE, token.ASSIGN:
			// v.f = e  /  v.f[i] = e on a local structure (or an in-out parameter): the structure is rebound
			if len(x.Lhs) == 1 && len(x.Rhs) == 1 && x.Tok == token.ASSIGN {
				l := x.Lhs[0]
				var index ast.Expr
				if ix, ok := l.(*ast.IndexExpr); ok {
					if _, isSel := ix.X.(*ast.SelectorExpr); isSel {
						l, index = ix.X, ix.Index
					}
				}
				if se, ok := l.(*ast.SelectorExpr); ok {
					sel, isField := info.Selections[se]
					rid, isId := se.X.(*ast.Ident)
					if !isField || sel.Kind() != types.FieldVal || !isId {
						bail("assignment to a field of something that is not a local structure")
					}
					ro := info.Uses[rid]
					if !t.owned[ro] && !t.isInout(ro) {
						bail("assignment to a field of a structure the function neither made nor was handed for writing")
					}
					rn := t.nameOf(ro)
					fld := sel.Obj().Name()
					v := t.val(x.Rhs[0])
					if index != nil {
						v = "(← GoSem.setA (" + rn + ")." + fld + " " + t.val(index) + " " + v + ")"
					}
					return ind(depth) + "let " + rn + " := { " + rn + " with " + fld + " := " + v + " }\n" + t.stmts(rest, k, depth, nres)
				}
			}
			// v, ok := m[k]
			if len(x.Lhs) == 2 && len(x.Rhs) == 1 {
				if ix, ok := x.Rhs[0].(*ast.IndexExpr); ok {
					if mp, ok := info.Types[ix.X].Type.Underlying().(*types.Map); ok && isInt(mp.Key()) && isInt(mp.Elem()) {
						vn, on := t.nameOf(lhsObj(x.Lhs[0])), t.nameOf(lhsObj(x.Lhs[1]))
						return ind(depth) + "let (" + vn + ", " + on + ") := GoSem.mapGet2 " + t.val(ix.X) + " " + t.val(ix.Index) + "\n" + t.stmts(rest, k, depth, nres)
					}
				}
			}
			// x, err = f(...) of a translated (T, error) function: err is the Boolean "an error was returned"
			if len(x.Lhs) == 2 && len(x.Rhs) == 1 && isErrorType(info.Types[x.Lhs[1]].Type) {
				if c, ok := x.Rhs[0].(*ast.CallExpr); ok {
					if tup, ok := info.Types[c].Type.(*types.Tuple); ok && tup.Len() == 2 && len(t.inoutArgs(c)) == 0 {
						r := t.expr(c)
						t.tmp++
						tn := fmt.Sprintf("_t%d", t.tmp)
						vn, en := t.nameOf(lhsObj(x.Lhs[0])), t.nameOf(lhsObj(x.Lhs[1]))
						out := ind(depth) + "let " + tn + " ← " + r.s + "\n"
						out += ind(depth) + "let (" + vn + ", " + en + ") := (match " + tn + " with | some _v => (_v, false) | none => (" + t.zero(tup.At(0).Type()) + ", true))\n"
						return out + t.stmts(rest, k, depth, nres)
					}
				}
			}
			// r := f(p, &q) where f writes through some of its pointer parameters: those arguments are rebound
			if len(x.Lhs) == 1 && len(x.Rhs) == 1 {
				if io := t.inoutArgs(x.Rhs[0]); len(io) > 0 {
					r := t.expr(x.Rhs[0])
					ns := []string{t.nameOf(lhsObj(x.Lhs[0]))}
					for _, o := range io {
						if !t.owned[o] && !t.isInout(o) {
							bail("a structure the function neither made nor was handed for writing is passed on for writing")
						}
						ns = append(ns, t.nameOf(o))
					}
					return ind(depth) + "let (" + strings.Join(ns, ", ") + ") ← " + r.s + "\n" + t.stmts(rest, k, depth, nres)
				}
			}
			if len(x.Lhs) == len(x.Rhs) {
				if len(x.Lhs) > 1 {
					// parallel assignment: evaluate all right-hand sides first
					var tmps []string
					out := ""
					for _, r := range x.Rhs {
						t.tmp++
						tn := fmt.Sprintf("_t%d", t.tmp)
						tmps = append(tmps, tn)
						rx := t.expr(r)
						if rx.eff {
							out += ind(depth) + "let " + tn + " ← " + rx.s + "\n"
						} else {
							out += ind(depth) + "let " + tn + " := " + typedLit(rx.s) + "\n"
						}
					}
					for i, l := range x.Lhs {
						out += ind(depth) + "let " + t.nameOf(lhsObj(l)) + " := " + tmps[i] + "\n"
					}
					return out + t.stmts(rest, k, depth, nres)
				}
				if ix, ok := x.Lhs[0].(*ast.IndexExpr); ok && x.Tok == token.ASSIGN {
					// xs[i] = v on a local slice: the slice is a value in the translation (aliasing is outside the fragment:
					// the function must own the slice - checked by `ownedSlices`)
					id, ok := ix.X.(*ast.Ident)
					if !ok || !t.owned[info.Uses[id]] || t.usesAny(rest, t.mayAlias[info.Uses[id]]) {
						bail("assignment to an element of a slice the function did not make itself")
					}
					n := t.nameOf(info.Uses[id])
					return ind(depth) + "let " + n + " ← GoSem.setA " + n + " " + t.val(ix.Index) + " " + t.val(x.Rhs[0]) + "\n" + t.stmts(rest, k, depth, nres)
				}
				// evaluate the right-hand side BEFORE the left name is (re)bound
				rhs := x.Rhs[0]
				var x0 lexpr
				if id, ok := rhs.(*ast.Ident); ok && id.Name == "nil" {
					// s = nil: the empty slice (the translation does not distinguish nil from empty: len, range, append agree)
					lt := info.Types[x.Lhs[0]].Type
					if _, isSl := lt.Underlying().(*types.Slice); !isSl {
						bail("nil assigned to %s", lt)
					}
					x0 = lexpr{"([] : " + t.leanType(lt) + ")", false}
				} else {
					x0 = t.expr(rhs)
				}
				lo := lhsObj(x.Lhs[0])
				t.noteOwner(lo, rhs)
				delete(t.nilVars, lo)
				if c, ok := rhs.(*ast.CallExpr); ok {
					var fobj types.Object
					switch f := c.Fun.(type) {
					case *ast.Ident:
						fobj = info.Uses[f]
					case *ast.SelectorExpr:
						if sel, ok := info.Selections[f]; ok {
							fobj = sel.Obj()
						} else {
							fobj = info.Uses[f.Sel]
						}
					}
					if fn, ok := fobj.(*types.Func); ok && fn.Pkg() != nil && fn.Pkg().Path() == t.sp.unit.path {
						for _, fd := range t.sp.declsByObj(fn) {
							if nilResOf(t.sp, fd) {
								t.nilVars[lo] = true
							}
						}
					}
				}
				n := t.nameOf(lo)
				arrow := " := "
				if x0.eff {
					arrow = " ← "
				} else {
					x0.s = typedLit(x0.s)
				}
				return ind(depth) + "let " + n + arrow + x0.s + "\n" + t.stmts(rest, k, depth, nres)
			}
			if len(x.Rhs) == 1 {
				r := t.expr(x.Rhs[0])
				if !r.eff {
					bail("multi-value assignment from a pure expression")
				}
				var ns []string
				for _, l := range x.Lhs {
					ns = append(ns, t.nameOf(lhsObj(l)))
				}
				return ind(depth) + "let (" + strings.Join(ns, ", ") + ") ← " + r.s + "\n" + t.stmts(rest, k, depth, nres)
			}
			bail("assignment shape")
		case token.ADD_ASSIGN, token.SUB_ASSIGN, token.MUL_ASSIGN:
			o := lhsObj(x.Lhs[0])
			op := map[token.Token]string{token.ADD_ASSIGN: " + ", token.SUB_ASSIGN: " - ", token.MUL_ASSIGN: " * "}[x.Tok]
			n := t.nameOf(o)
			ar := t.arith(o.Type(), "("+n+op+t.val(x.Rhs[0])+")")
			arrow := " := "
			if ar.eff {
				arrow = " ← "
			}
			return ind(depth) + "let " + n + arrow + ar.s + "\n" + t.stmts(rest, k, depth, nres)
		}
		bail("assignment operator %s", x.Tok)
	case *ast.IncDecStmt:
		o := lhsObj(x.X)
		n := t.nameOf(o)
		op := " + 1"
		if x.Tok == token.DEC {
			op = " - 1"
		}
		ar := t.arith(o.Type(), "("+n+op+")")
		arrow := " := "
		if ar.eff {
			arrow = " ← "
		}
		return ind(depth) + "let " + n + arrow + ar.s + "\n" + t.stmts(rest, k, depth, nres)
	case *ast.DeclStmt:
		gd := x.Decl.(*ast.GenDecl)
		if gd.Tok != token.VAR {
			bail("declaration %s", gd.Tok)
		}
		out := ""
		for _, sp := range gd.Specs {
			vs := sp.(*ast.ValueSpec)
			for i, id := range vs.Names {
				o := info.Defs[id]
				if i < len(vs.Values) {
					out += bindOne(o, vs.Values[i], o.Type())
					continue
				}
				zero := t.zero(o.Type())
				out += ind(depth) + "let " + t.nameOf(o) + " := " + typedLit(zero) + "\n"
			}
		}
		return out + t.stmts(rest, k, depth, nres)
	case *ast.ExprStmt:
		// logging has no effect on the result
		if c, ok := x.X.(*ast.CallExpr); ok {
			if se, ok := c.Fun.(*ast.SelectorExpr); ok {
				if id, ok := se.X.(*ast.Ident); ok {
					if pn, ok := info.Uses[id].(*types.PkgName); ok && (pn.Imported().Path() == "log" || pn.Imported().Path() == "fmt") {
						return t.stmts(rest, k, depth, nres)
					}
				}
			}
		}
		if c, ok := x.X.(*ast.CallExpr); ok {
			if id, ok := c.Fun.(*ast.Ident); ok && id.Name == "panic" {
				if _, isB := info.Uses[id].(*types.Builtin); isB {
					return ind(depth) + "none\n" // a run-time panic; what follows is unreachable
				}
			}
		}
		if io := t.inoutArgs(x.X); len(io) > 0 {
			r := t.expr(x.X)
			ns := []string{"_"}
			for _, o := range io {
				if !t.owned[o] && !t.isInout(o) {
					bail("a structure the function neither made nor was handed for writing is passed on for writing")
				}
				ns = append(ns, t.nameOf(o))
			}
			return ind(depth) + "let (" + strings.Join(ns, ", ") + ") ← " + r.s + "\n" + t.stmts(rest, k, depth, nres)
		}
		if c, ok := x.X.(*ast.CallExpr); ok {
			if se, ok := c.Fun.(*ast.SelectorExpr); ok {
				if sel, ok := info.Selections[se]; ok {
					if fn, ok := sel.Obj().(*types.Func); ok && fn.Pkg() != nil {
						rt := fn.Type().(*types.Signature).Recv().Type()
						if n, ok := rt.(*types.Named); ok {
							q := fn.Pkg().Path() + "." + n.Obj().Name() + "." + fn.Name()
							if m, ok := srcMutExternals[q]; ok && len(c.Args) == 0 {
								id, ok := se.X.(*ast.Ident)
								if !ok || !t.owned[info.Uses[id]] || t.usesAny(rest, t.mayAlias[info.Uses[id]]) {
									bail("in-place %s of a slice the function did not make itself", fn.Name())
								}
								for _, dep := range m.deps {
									t.calls[dep] = true
								}
								nm := t.nameOf(info.Uses[id])
								return ind(depth) + "let " + nm + " ← " + m.lean + " " + nm + "\n" + t.stmts(rest, k, depth, nres)
							}
						}
					}
				}
			}
		}
		bail("expression statement")
	case *ast.BlockStmt:
		return t.stmts(append(append([]ast.Stmt{}, x.List...), rest...), k, depth, nres)
	case *ast.IfStmt:
		if x.Init != nil {
			bail("if with an init statement")
		}
		c := t.expr(x.Cond)
		out := ""
		cs := c.s
		if c.eff {
			t.tmp++
			cs = fmt.Sprintf("_c%d", t.tmp)
			out += ind(depth) + "let " + cs + " ← " + c.s + "\n"
		}
		// a condition the type checker folded to a constant (a package variable fixed for this copy): only the live arm
		if cs == "true" {
			return out + t.stmts(append(append([]ast.Stmt{}, x.Body.List...), rest...), k, depth, nres)
		}
		var elseList []ast.Stmt
		if x.Else != nil {
			elseList = []ast.Stmt{x.Else}
		}
		if cs == "false" {
			return out + t.stmts(append(elseList, rest...), k, depth, nres)
		}
		// neither arm returns: the `if` only updates variables; bind them once and continue (no duplication)
		hasReturn := false
		ast.Inspect(x, func(n ast.Node) bool {
			switch n.(type) {
			case *ast.ReturnStmt, *ast.BranchStmt:
				hasReturn = true
			}
			return true
		})
		if !hasReturn && len(rest) > 0 {
			set := map[types.Object]bool{}
			t.assigned([]ast.Stmt{x}, map[types.Object]bool{}, set)
			var objs []types.Object
			for o := range set {
				objs = append(objs, o)
			}
			sort.Slice(objs, func(i, j int) bool { return objs[i].Pos() < objs[j].Pos() })
			if len(objs) > 0 {
				var ns []string
				for _, o := range objs {
					ns = append(ns, t.nameOf(o))
				}
				pat := ns[0]
				if len(ns) > 1 {
					pat = "(" + strings.Join(ns, ", ") + ")"
				}
				thenS := t.stmts(x.Body.List, "pure "+pat, depth+2, nres)
				elseS := t.stmts(elseList, "pure "+pat, depth+2, nres)
				out += ind(depth) + "let " + pat + " ← (do\n" + ind(depth+1) + "if " + cs + " then\n" + thenS + ind(depth+1) + "else\n" + elseS + ind(depth+1) + ")\n"
				return out + t.stmts(rest, k, depth, nres)
			}
		}
		var nn types.Object
		if be, ok := x.Cond.(*ast.BinaryExpr); ok && be.Op == token.NEQ {
			if id, ok := be.X.(*ast.Ident); ok && isErrorType(info.Types[id].Type) {
				if y, ok := be.Y.(*ast.Ident); ok && y.Name == "nil" {
					nn = info.Uses[id]
				}
			}
		}
		if nn != nil {
			t.knownNonNil[nn] = true
		}
		thenS := t.stmts(append(append([]ast.Stmt{}, x.Body.List...), rest...), k, depth+1, nres)
		if nn != nil {
			delete(t.knownNonNil, nn)
		}
		elseS := t.stmts(append(elseList, rest...), k, depth+1, nres)
		return out + ind(depth) + "if " + cs + " then\n" + thenS + ind(depth) + "else\n" + elseS
	case *ast.RangeStmt:
		// `for _, v := range xs { … return e … }` over a slice of integers, the body assigning nothing outside itself:
		// the first iteration that returns decides; otherwise the statements after the loop run
		if t.inRange {
			bail("nested range loop")
		}
		if out, ok := t.foldLoop(x, rest, k, depth, nres); ok {
			return out
		}
		if x.Key != nil {
			if id, ok := x.Key.(*ast.Ident); !ok || id.Name != "_" {
				bail("range loop that uses the index")
			}
		}
		vid, ok := x.Value.(*ast.Ident)
		if !ok || x.Tok != token.DEFINE {
			bail("range loop without a fresh value variable")
		}
		xt := info.Types[x.X].Type
		if sl, ok := xt.Underlying().(*types.Slice); !ok || !isInt(sl.Elem()) {
			bail("range over %s", xt)
		}
		ast.Inspect(x.Body, func(n ast.Node) bool {
			switch n.(type) {
			case *ast.BranchStmt, *ast.ForStmt:
				bail("break / continue / nested loop inside a range loop")
			}
			return true
		})
		set := map[types.Object]bool{}
		t.assigned(x.Body.List, map[types.Object]bool{}, set)
		if len(set) > 0 {
			bail("range loop that assigns a variable declared outside it")
		}
		vn := t.nameOf(info.Defs[vid])
		t.inRange = true
		body := t.stmts(x.Body.List, "pure none", depth+2, nres)
		t.inRange = false
		t.tmp++
		rn := fmt.Sprintf("_r%d", t.tmp)
		out := ind(depth) + "let " + rn + " ← GoSem.forRange " + t.val(x.X) + " (fun " + vn + " => do\n" + body + ind(depth+1) + ")\n"
		out += ind(depth) + "match " + rn + " with\n" + ind(depth) + "| some _v => pure _v\n" + ind(depth) + "| none =>\n"
		return out + t.stmts(rest, k, depth+1, nres)
	case *ast.ForStmt:
		if out, ok := t.countLoop(x, rest, k, depth, nres); ok {
			return out
		}
		if x.Init != nil || x.Post != nil {
			bail("three-clause for loop")
		}
		if x.Cond == nil {
			bail("for without a condition")
		}
		exits := false
		ast.Inspect(x.Body, func(n ast.Node) bool {
			switch b := n.(type) {
			case *ast.ReturnStmt:
				exits = true
			case *ast.BranchStmt:
				if b.Label != nil || (b.Tok != token.BREAK && b.Tok != token.CONTINUE) {
					bail("%s inside a loop", b.Tok)
				}
				exits = true
			case *ast.ForStmt, *ast.RangeStmt:
				bail("nested loop inside a `for cond` loop")
			}
			return true
		})
		if exits {
			return t.whileLoop(x, rest, k, depth, nres)
		}
		set := map[types.Object]bool{}
		t.assigned(x.Body.List, map[types.Object]bool{}, set)
		var objs []types.Object
		for o := range set {
			objs = append(objs, o)
		}
		sort.Slice(objs, func(i, j int) bool { return objs[i].Pos() < objs[j].Pos() })
		if len(objs) == 0 {
			bail("loop that assigns no variable")
		}
		var ns []string
		for _, o := range objs {
			ns = append(ns, t.nameOf(o))
		}
		pat := ns[0]
		if len(ns) > 1 {
			pat = "(" + strings.Join(ns, ", ") + ")"
		}
		c := t.expr(x.Cond)
		cs := "do " + c.s
		if !c.eff {
			cs = "do pure " + c.s
		}
		body := t.stmts(x.Body.List, "pure "+pat, depth+2, nres)
		out := ind(depth) + "let " + pat + " ← GoSem.whileFuel GoSem.fuel\n" +
			ind(depth+1) + "(fun " + pat + " => " + cs + ")\n" +
			ind(depth+1) + "(fun " + pat + " => do\n" + body + ind(depth+1) + ")\n" +
			ind(depth+1) + pat + "\n"
		return out + t.stmts(rest, k, depth, nres)
	}
	bail("statement %T", s)
	return ""
}

// foldLoop: `for i, v := range xs { … }` whose body updates variables declared before it, uses the index, or
// `continue`s — GoSem.forFold over the state tuple. Not used (ok = false) for the plain searching loops that
// GoSem.forRange already covers, so that their translation stays as it was.
func (t *fnTrans) foldLoop(x *ast.RangeStmt, rest []ast.Stmt, k string, depth int, nres int) (string, bool) {
	info := t.sp.info
	set := map[types.Object]bool{}
	inside := map[types.Object]bool{}
	for _, e := range []ast.Expr{x.Key, x.Value} {
		if id, ok := e.(*ast.Ident); ok && x.Tok == token.DEFINE {
			if d := info.Defs[id]; d != nil {
				inside[d] = true
			}
		}
	}
	t.assigned(x.Body.List, inside, set)
	usesKey := false
	if id, ok := x.Key.(*ast.Ident); ok && id.Name != "_" {
		usesKey = true
	}
	hasContinue, hasReturn := false, false
	ast.Inspect(x.Body, func(n ast.Node) bool {
		switch b := n.(type) {
		case *ast.BranchStmt:
			if b.Tok != token.CONTINUE || b.Label != nil {
				bail("%s inside a range loop", b.Tok)
			}
			hasContinue = true
		case *ast.ReturnStmt:
			hasReturn = true
		}
		return true
	})
	xt := info.Types[x.X].Type
	sl, isSl := xt.Underlying().(*types.Slice)
	if !isSl {
		bail("range over %s", xt)
	}
	if len(set) == 0 && !usesKey && !hasContinue && isInt(sl.Elem()) {
		return "", false
	}
	if x.Tok != token.DEFINE {
		bail("range loop without fresh variables")
	}
	_ = t.leanType(xt)
	// the ranged slice is evaluated once; the body must not write to it
	if id, ok := x.X.(*ast.Ident); ok {
		if ro := info.Uses[id]; set[ro] {
			// allowed: xs[i] = e with i the loop's own index (the iteration has already read that element and
			// no later one reads it)
			kid, _ := x.Key.(*ast.Ident)
			okForm := kid != nil && kid.Name != "_"
			ast.Inspect(x.Body, func(n ast.Node) bool {
				as, isAs := n.(*ast.AssignStmt)
				if !isAs {
					return true
				}
				for _, l := range as.Lhs {
					if lid, isId := l.(*ast.Ident); isId && info.Uses[lid] == ro {
						okForm = false
					}
					if ix, isIx := l.(*ast.IndexExpr); isIx {
						if xid, isId := ix.X.(*ast.Ident); isId && info.Uses[xid] == ro {
							iid, isId := ix.Index.(*ast.Ident)
							if !isId || kid == nil || info.Uses[iid] != info.Defs[kid] {
								okForm = false
							}
						}
					}
				}
				return true
			})
			if !okForm {
				bail("range loop that assigns the slice it ranges over")
			}
		}
	}
	var objs []types.Object
	for o := range set {
		objs = append(objs, o)
	}
	sort.Slice(objs, func(i, j int) bool { return objs[i].Pos() < objs[j].Pos() })
	var ns []string
	for _, o := range objs {
		ns = append(ns, t.nameOf(o))
	}
	pat := "()"
	if len(ns) == 1 {
		pat = ns[0]
	} else if len(ns) > 1 {
		pat = "(" + strings.Join(ns, ", ") + ")"
	}
	kn, vn := "_i", "_v"
	if usesKey {
		kn = t.nameOf(info.Defs[x.Key.(*ast.Ident)])
	}
	if x.Value != nil {
		if id, ok := x.Value.(*ast.Ident); ok && id.Name != "_" {
			vn = t.nameOf(info.Defs[id])
		} else if !ok {
			bail("range value that is not a variable")
		}
	}
	rho := "Empty"
	if hasReturn {
		rho = t.resType
	}
	ranged := t.val(x.X)
	outer := t.inFold
	t.inFold = pat
	body := t.stmts(x.Body.List, "pure (GoSem.Flow.next "+pat+")", depth+2, nres)
	t.inFold = outer
	t.tmp++
	rn := fmt.Sprintf("_r%d", t.tmp)
	out := ind(depth) + "let " + rn + " ← GoSem.forFold (ρ := " + rho + ") (fun " + pat + " " + kn + " " + vn + " => do\n" + body + ind(depth+1) + ") " + ranged + " 0 " + pat + "\n"
	out += ind(depth) + "match " + rn + " with\n"
	if hasReturn && outer != "" {
		// a return inside a nested loop leaves the enclosing loop too
		out += ind(depth) + "| GoSem.Flow.ret _v => pure (GoSem.Flow.ret _v)\n"
	} else if hasReturn {
		out += ind(depth) + "| GoSem.Flow.ret _v => pure _v\n"
	} else {
		out += ind(depth) + "| GoSem.Flow.ret _v => nomatch _v\n"
	}
	out += ind(depth) + "| GoSem.Flow.next " + pat + " =>\n"
	return out + t.stmts(rest, k, depth+1, nres), true
}

// countLoop: `for i := a; i < b; i++ { … }` where the body assigns neither i nor anything b mentions: exactly
// max(0, b-a) iterations with i = a, a+1, … — GoSem.forCount, no fuel
func (t *fnTrans) countLoop(x *ast.ForStmt, rest []ast.Stmt, k string, depth int, nres int) (string, bool) {
	info := t.sp.info
	init, ok := x.Init.(*ast.AssignStmt)
	if !ok || init.Tok != token.DEFINE || len(init.Lhs) != 1 || len(init.Rhs) != 1 {
		return "", false
	}
	iv, ok := init.Lhs[0].(*ast.Ident)
	if !ok {
		return "", false
	}
	iobj := info.Defs[iv]
	cond, ok := x.Cond.(*ast.BinaryExpr)
	if !ok || cond.Op != token.LSS {
		return "", false
	}
	if ci, ok := cond.X.(*ast.Ident); !ok || info.Uses[ci] != iobj {
		return "", false
	}
	post, ok := x.Post.(*ast.IncDecStmt)
	if !ok || post.Tok != token.INC {
		return "", false
	}
	if pi, ok := post.X.(*ast.Ident); !ok || info.Uses[pi] != iobj {
		return "", false
	}
	if !isInt(iobj.Type()) || uintBits(iobj.Type()) != 0 {
		return "", false
	}
	set := map[types.Object]bool{}
	t.assigned(x.Body.List, map[types.Object]bool{}, set)
	if set[iobj] {
		bail("counted loop whose body assigns the counter")
	}
	boundUses := false
	ast.Inspect(cond.Y, func(n ast.Node) bool {
		if id, ok := n.(*ast.Ident); ok && set[info.Uses[id]] {
			boundUses = true
		}
		if _, ok := n.(*ast.CallExpr); ok {
			boundUses = true
		}
		return true
	})
	if boundUses {
		bail("counted loop whose bound may change")
	}
	hasReturn := false
	ast.Inspect(x.Body, func(n ast.Node) bool {
		switch b := n.(type) {
		case *ast.BranchStmt:
			if b.Tok != token.CONTINUE || b.Label != nil {
				bail("%s inside a counted loop", b.Tok)
			}
		case *ast.ReturnStmt:
			hasReturn = true
		}
		return true
	})
	var objs []types.Object
	for o := range set {
		objs = append(objs, o)
	}
	sort.Slice(objs, func(i, j int) bool { return objs[i].Pos() < objs[j].Pos() })
	var ns []string
	for _, o := range objs {
		ns = append(ns, t.nameOf(o))
	}
	pat := "()"
	if len(ns) == 1 {
		pat = ns[0]
	} else if len(ns) > 1 {
		pat = "(" + strings.Join(ns, ", ") + ")"
	}
	from, to := t.val(init.Rhs[0]), t.val(cond.Y)
	in := t.nameOf(iobj)
	rho := "Empty"
	if hasReturn {
		rho = t.resType
	}
	outer := t.inFold
	t.inFold = pat
	body := t.stmts(x.Body.List, "pure (GoSem.Flow.next "+pat+")", depth+2, nres)
	t.inFold = outer
	t.tmp++
	rn := fmt.Sprintf("_r%d", t.tmp)
	out := ind(depth) + "let " + rn + " ← GoSem.forCount (ρ := " + rho + ") (fun " + pat + " " + in + " => do\n" + body + ind(depth+1) + ") " + from + " " + to + " " + pat + "\n"
	out += ind(depth) + "match " + rn + " with\n"
	if hasReturn && outer != "" {
		out += ind(depth) + "| GoSem.Flow.ret _v => pure (GoSem.Flow.ret _v)\n"
	} else if hasReturn {
		out += ind(depth) + "| GoSem.Flow.ret _v => pure _v\n"
	} else {
		out += ind(depth) + "| GoSem.Flow.ret _v => nomatch _v\n"
	}
	out += ind(depth) + "| GoSem.Flow.next " + pat + " =>\n"
	return out + t.stmts(rest, k, depth+1, nres), true
}

// inoutOf: the indices of the parameters of a function declaration that are pointers to one of the package's own
// structures AND are written through in the body (a field assigned, an element of a field assigned): in the
// translation such a parameter is a value that the function returns, updated, next to its results
func inoutOf(sp *srcPkg, fd *ast.FuncDecl) []int {
	var res []int
	idx := 0
	for _, f := range fd.Type.Params.List {
		ty := sp.info.Types[f.Type].Type
		for _, id := range f.Names {
			if pt, ok := ty.(*types.Pointer); ok {
				if n, ok := pt.Elem().(*types.Named); ok {
					if _, isSt := n.Underlying().(*types.Struct); isSt && n.Obj().Pkg() == sp.pkg {
						obj := sp.info.Defs[id]
						written := false
						ast.Inspect(fd.Body, func(nd ast.Node) bool {
							as, ok := nd.(*ast.AssignStmt)
							if !ok {
								return true
							}
							for _, l := range as.Lhs {
								if ix, ok := l.(*ast.IndexExpr); ok {
									l = ix.X
								}
								if se, ok := l.(*ast.SelectorExpr); ok {
									if rid, ok := se.X.(*ast.Ident); ok && sp.info.Uses[rid] == obj {
										written = true
									}
								}
							}
							return true
						})
						if written {
							res = append(res, idx)
						}
					}
				}
			}
			idx++
		}
	}
	return res
}

// nilResOf: does the declared function return a pointer and `return nil` somewhere?
func nilResOf(sp *srcPkg, fd *ast.FuncDecl) bool {
	if fd == nil || fd.Type.Results == nil || len(fd.Type.Results.List) != 1 || len(fd.Type.Results.List[0].Names) > 1 {
		return false
	}
	if _, isPtr := sp.info.Types[fd.Type.Results.List[0].Type].Type.(*types.Pointer); !isPtr {
		return false
	}
	found := false
	ast.Inspect(fd.Body, func(n ast.Node) bool {
		if r, ok := n.(*ast.ReturnStmt); ok && len(r.Results) == 1 {
			if id, ok := r.Results[0].(*ast.Ident); ok && id.Name == "nil" {
				found = true
			}
		}
		return true
	})
	return found
}

// calleeDecl: the declaration of a translated package-level function called by name
func (t *fnTrans) calleeDecl(c *ast.CallExpr) (*srcPkg, *ast.FuncDecl) {
	id, ok := c.Fun.(*ast.Ident)
	if !ok {
		return nil, nil
	}
	fn, ok := t.sp.info.Uses[id].(*types.Func)
	if !ok || fn.Pkg() == nil {
		return nil, nil
	}
	tp := t.all[fn.Pkg().Path()]
	if fn.Pkg().Path() == t.sp.unit.path {
		tp = t.sp
	}
	if tp == nil {
		return nil, nil
	}
	return tp, tp.decls[fn.Name()]
}

// inoutArgs: the local variables a call rebinds (arguments in the in-out positions of the callee)
func (t *fnTrans) inoutArgs(e ast.Expr) []types.Object {
	c, ok := e.(*ast.CallExpr)
	if !ok {
		return nil
	}
	tp, fd := t.calleeDecl(c)
	if fd == nil {
		return nil
	}
	var out []types.Object
	for _, i := range inoutOf(tp, fd) {
		if i >= len(c.Args) {
			continue
		}
		a := c.Args[i]
		if u, ok := a.(*ast.UnaryExpr); ok && u.Op == token.AND {
			a = u.X
		}
		id, ok := a.(*ast.Ident)
		if !ok {
			bail("in-out argument that is not a variable")
		}
		out = append(out, t.sp.info.Uses[id])
	}
	return out
}

// whileLoop: `for cond { … }` whose body may `break`, `continue` or `return` — GoSem.whileB (fuel as for whileFuel):
// the body answers Flow.next state (go on), Flow.ret (Sum.inr state) (break) or Flow.ret (Sum.inl r) (return)
func (t *fnTrans) whileLoop(x *ast.ForStmt, rest []ast.Stmt, k string, depth int, nres int) string {
	if t.inFold != "" || t.inRange {
		bail("a loop with break / return nested in another loop")
	}
	set := map[types.Object]bool{}
	t.assigned(x.Body.List, map[types.Object]bool{}, set)
	var objs []types.Object
	for o := range set {
		objs = append(objs, o)
	}
	sort.Slice(objs, func(i, j int) bool { return objs[i].Pos() < objs[j].Pos() })
	var ns []string
	for _, o := range objs {
		ns = append(ns, t.nameOf(o))
	}
	pat := "()"
	if len(ns) == 1 {
		pat = ns[0]
	} else if len(ns) > 1 {
		pat = "(" + strings.Join(ns, ", ") + ")"
	}
	c := t.expr(x.Cond)
	cs := "do " + c.s
	if !c.eff {
		cs = "do pure " + c.s
	}
	t.inFold, t.inWhile = pat, true
	body := t.stmts(x.Body.List, "pure (GoSem.Flow.next "+pat+")", depth+2, nres)
	t.inFold, t.inWhile = "", false
	t.tmp++
	rn := fmt.Sprintf("_r%d", t.tmp)
	out := ind(depth) + "let " + rn + " ← GoSem.whileB (ρ := " + t.resType + ") GoSem.fuel\n" +
		ind(depth+1) + "(fun " + pat + " => " + cs + ")\n" +
		ind(depth+1) + "(fun " + pat + " => do\n" + body + ind(depth+1) + ")\n" +
		ind(depth+1) + pat + "\n"
	out += ind(depth) + "match " + rn + " with\n"
	out += ind(depth) + "| GoSem.Flow.ret _v => pure _v\n"
	out += ind(depth) + "| GoSem.Flow.next " + pat + " =>\n"
	return out + t.stmts(rest, k, depth+1, nres)
}

func isErrorCtor(info *types.Info, c *ast.CallExpr) bool {
	se, ok := c.Fun.(*ast.SelectorExpr)
	if !ok {
		return false
	}
	id, ok := se.X.(*ast.Ident)
	if !ok {
		return false
	}
	pn, ok := info.Uses[id].(*types.PkgName)
	if !ok {
		return false
	}
	q := pn.Imported().Path() + "." + se.Sel.Name
	return q == "fmt.Errorf" || q == "errors.New"
}

// in-place operations on a slice the function owns, mapped to a hand-written model (SrcExt.lean)
type mutExternal struct {
	lean string
	deps []string
}

var srcMutExternals = map[string]mutExternal{
	// sort.Sort by the package's own Less (translated): SrcExt.sortWith is insertion sort by that comparison —
	// for a total order with no ties (which Less is: SrcTie/Interval.lean) every correct sort returns the same list
	modPath + "/interval.IntervalPointList.Sort": {"SrcExt.sortWith interval_Less", []string{"interval_Less"}},
}

type srcDef struct {
	lean    string // Lean name
	text    string // definition text with @GLOBALS@ placeholders
	globals []string
	gtypes  []string
	calls   []string
	pos     string
	err     string
}

func translateFunc(sp *srcPkg, all map[string]*srcPkg, name string, chk bool) (d srcDef) {
	d.lean = sp.unit.pre + "_" + strings.ReplaceAll(name, ".", "_")
	if chk {
		d.lean += "_chk"
	}
	fd, ok := sp.decls[name]
	if !ok {
		d.err = "no such function in the package"
		return
	}
	if sp.ambiguous[name] {
		d.err = "several methods of this name: list it as Recv.Name"
		return
	}
	p := sp.fset.Position(fd.Pos())
	rel, _ := filepath.Rel(*repo, p.Filename)
	d.pos = fmt.Sprintf("%s:%d", rel, p.Line)
	defer func() {
		if r := recover(); r != nil {
			if u, ok := r.(untranslatable); ok {
				d.err = u.msg
				return
			}
			panic(r)
		}
	}()
	t := &fnTrans{sp: sp, all: all, names: map[types.Object]string{}, used: map[string]int{}, globals: map[types.Object]bool{}, calls: map[string]bool{}, chk: chk,
		owned: map[types.Object]bool{}, mayAlias: map[types.Object][]types.Object{}, knownNonNil: map[types.Object]bool{}, nilVars: map[types.Object]bool{}}
	var params []string
	if fd.Recv != nil && len(fd.Recv.List) == 1 {
		r := fd.Recv.List[0]
		rt := sp.info.Types[r.Type].Type
		if pt, ok := rt.(*types.Pointer); ok {
			rt = pt.Elem()
		}
		if n, ok := rt.(*types.Named); ok {
			if ls, ok := srcStructs[n.Obj().Pkg().Path()+"."+n.Obj().Name()]; ok && len(r.Names) == 1 {
				params = append(params, "("+t.nameOf(sp.info.Defs[r.Names[0]])+" : "+ls+")")
			} else if _, isSlice := n.Underlying().(*types.Slice); isSlice && len(r.Names) == 1 {
				params = append(params, "("+t.nameOf(sp.info.Defs[r.Names[0]])+" : "+t.leanType(rt)+")")
			} else if st, isSt := n.Underlying().(*types.Struct); isSt && st.NumFields() > 0 && len(r.Names) == 1 && n.Obj().Pkg() == sp.pkg {
				// a method of one of the package's own structures: the receiver is the first parameter
				params = append(params, "("+t.nameOf(sp.info.Defs[r.Names[0]])+" : "+t.leanType(rt)+")")
			}
		}
	}
	ioIdx := map[int]bool{}
	for _, i := range inoutOf(sp, fd) {
		ioIdx[i] = true
	}
	pidx := 0
	for _, f := range fd.Type.Params.List {
		ty := sp.info.Types[f.Type].Type
		lt := t.leanType(ty)
		_, variadic := f.Type.(*ast.Ellipsis)
		for _, id := range f.Names {
			params = append(params, "("+t.nameOf(sp.info.Defs[id])+" : "+lt+")")
			if variadic {
				// f(a, b) hands the function a slice nobody else holds; a caller that spreads its own slice
				// (f(xs...)) would see the writes — not modelled
				t.owned[sp.info.Defs[id]] = true
			}
			if ioIdx[pidx] {
				t.inout = append(t.inout, sp.info.Defs[id])
			}
			pidx++
		}
	}
	if fd.Type.Results == nil {
		bail("function without a result")
	}
	var rts []string
	for _, f := range fd.Type.Results.List {
		if len(f.Names) > 0 {
			bail("named results")
		}
		rty := sp.info.Types[f.Type].Type
		if types.Identical(rty, types.Universe.Lookup("error").Type()) {
			if len(fd.Type.Results.List) == 1 {
				t.errOnly = true
				rts = append(rts, "Bool")
				continue
			}
			if len(fd.Type.Results.List) != 2 || len(rts) != 1 {
				bail("error result in an unsupported position")
			}
			t.errRes = true
			continue
		}
		rts = append(rts, t.leanType(rty))
	}
	rt := strings.Join(rts, " × ")
	if len(rts) > 1 {
		rt = "(" + rt + ")"
	}
	if len(rts) == 1 && !t.errRes && !t.errOnly {
		if _, isPtr := sp.info.Types[fd.Type.Results.List[0].Type].Type.(*types.Pointer); isPtr {
			ast.Inspect(fd.Body, func(n ast.Node) bool {
				if r, ok := n.(*ast.ReturnStmt); ok && len(r.Results) == 1 {
					if id, ok := r.Results[0].(*ast.Ident); ok && id.Name == "nil" {
						t.nilRes = true
					}
				}
				return true
			})
			if t.nilRes {
				rt = "(Option " + rt + ")" // a pointer result that may be nil
			}
		}
	}
	if t.errRes {
		rt = "(Option " + rt + ")"
	}
	if len(t.inout) > 0 {
		parts := []string{rt}
		for _, o := range t.inout {
			parts = append(parts, t.leanType(o.Type()))
		}
		rt = "(" + strings.Join(parts, " × ") + ")"
	}
	t.resType = rt
	body := t.stmts(fd.Body.List, "", 1, len(rts))
	var gs []types.Object
	for o := range t.globals {
		gs = append(gs, o)
	}
	sort.Slice(gs, func(i, j int) bool { return gs[i].Name() < gs[j].Name() })
	for _, o := range gs {
		d.globals = append(d.globals, o.Name())
		d.gtypes = append(d.gtypes, sp.scalars[o])
	}
	for c := range t.calls {
		d.calls = append(d.calls, c)
	}
	sort.Strings(d.calls)
	d.text = "def " + d.lean + "@GPARAMS@ " + strings.Join(params, " ") + " : Option " + rt + " := do\n" + body
	return
}

func genSrc() (string, error) {
	all := map[string]*srcPkg{}
	var order []*srcPkg
	var soft []string
	for _, u := range srcUnits {
		sp, err := loadSrcPkg(u)
		if err != nil {
			soft = append(soft, fmt.Sprintf("package %s: %v", u.dir, err))
			continue
		}
		if _, dup := all[u.path]; !dup {
			all[u.path] = sp // the first unit of a package is the one other packages call
		}
		order = append(order, sp)
	}
	defs := map[string]*srcDef{}
	var names, chkNames []string
	for _, sp := range order {
		for _, fn := range sp.unit.funcs {
			d := translateFunc(sp, all, fn, false)
			dd := d
			defs[d.lean] = &dd
			names = append(names, d.lean)
			// the overflow-checked copy (soft like everything here: left out silently when the plain one is)
			c := translateFunc(sp, all, fn, true)
			cc := c
			defs[c.lean] = &cc
			chkNames = append(chkNames, c.lean)
		}
	}
	// a function that calls an untranslatable one is untranslatable; globals propagate along calls
	for changed := true; changed; {
		changed = false
		for _, n := range append(append([]string{}, names...), chkNames...) {
			d := defs[n]
			if d.err != "" {
				continue
			}
			for _, c := range d.calls {
				cd := defs[c]
				if cd == nil || cd.err != "" {
					d.err = "calls " + c + ", which is not translated"
					changed = true
					break
				}
				for i, g := range cd.globals {
					have := false
					for _, h := range d.globals {
						if h == g {
							have = true
						}
					}
					if !have {
						d.globals = append(d.globals, g)
						d.gtypes = append(d.gtypes, cd.gtypes[i])
						changed = true
					}
				}
			}
		}
	}
	// emit in dependency order (calls first); recursion is outside the fragment
	var b strings.Builder
	b.WriteString("import Starcal.GoSem\nimport Starcal.SrcExt\n")
	b.WriteString("/-! REGENERATED on every run by harness/cmd/extract/srcfn.go from /repo's current source:\n")
	b.WriteString("    the integer fragment of the Go code as Lean definitions (`none` = run-time panic). Do not edit. -/\n")
	b.WriteString("set_option linter.unusedVariables false\n\nnamespace Starcal.Gen.Src\nopen Starcal\n\n@STRUCTS@\n")
	structsAt := b.Len()
	_ = structsAt
	for _, sp := range order {
		var tn []types.Object
		for o := range sp.tables {
			tn = append(tn, o)
		}
		sort.Slice(tn, func(i, j int) bool { return tn[i].Name() < tn[j].Name() })
		for _, o := range tn {
			fmt.Fprintf(&b, "def %s_%s : List Int := [%s]\n", sp.unit.pre, o.Name(), strings.Join(sp.tables[o], ", "))
		}
	}
	b.WriteString("\n")
	done := map[string]bool{}
	quiet := false
	var emit func(n string, stack map[string]bool)
	emit = func(n string, stack map[string]bool) {
		d := defs[n]
		if done[n] || d == nil {
			return
		}
		if stack[n] {
			d.err = "recursive"
			return
		}
		stack[n] = true
		for _, c := range d.calls {
			emit(c, stack)
		}
		delete(stack, n)
		done[n] = true
		if d.err != "" {
			if !quiet {
				fmt.Fprintf(&b, "-- NOT TRANSLATED: %s (%s): %s\n\n", n, d.pos, d.err)
				soft = append(soft, fmt.Sprintf("%s (%s): %s", n, d.pos, d.err))
			}
			return
		}
		text := d.text
		var gp []string
		for i, g := range d.globals {
			gp = append(gp, "("+g+" : "+d.gtypes[i]+")")
		}
		gps := ""
		if len(gp) > 0 {
			gps = " " + strings.Join(gp, " ")
		}
		text = strings.Replace(text, "@GPARAMS@", gps, 1)
		// calls pass the callee's globals
		for _, c := range d.calls {
			ga := ""
			for _, g := range defs[c].globals {
				ga += " " + g
			}
			text = strings.ReplaceAll(text, "("+c+"@GLOBALS@", "("+c+ga)
		}
		fmt.Fprintf(&b, "/-- %s -/\n%s\n", d.pos, text)
	}
	for _, n := range names {
		emit(n, map[string]bool{})
	}
	b.WriteString("/-! ### overflow-checked copies: the same code with every int / int64 `+ - *`, negation and non-constant `/` passed\n    through GoSem.chk64 (`none` when the exact result does not fit in 64 bits) -/\n\n")
	quiet = true
	for _, n := range chkNames {
		emit(n, map[string]bool{})
	}
	quiet = false
	var ok []string
	for _, n := range names {
		if defs[n].err == "" {
			ok = append(ok, "\""+n+"\"")
		}
	}
	fmt.Fprintf(&b, "/-- the functions translated on this run -/\ndef translated : List String := [%s]\n\n", strings.Join(ok, ", "))
	b.WriteString("end Starcal.Gen.Src\n")
	structs := ""
	for _, q := range srcOwnStructOrder {
		structs += srcOwnStructs[q] + "\n"
	}
	out := strings.Replace(b.String(), "@STRUCTS@\n", structs, 1)
	b.Reset()
	b.WriteString(out)
	for _, s := range soft {
		fmt.Fprintln(os.Stderr, "extract-soft: src:", s)
	}
	return b.String(), nil
}
