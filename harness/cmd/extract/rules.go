package main

import (
	"fmt"
	"go/ast"
	"go/importer"
	"go/parser"
	"go/token"
	"go/types"
	"os"
	"path/filepath"
	"reflect"
	"sort"
	"strconv"
	"strings"

	"github.com/ilius/libgostarcal/event/rules_lib"
)

func init() {
	generators = append(generators, generator{"Rules.lean", genRules})
}

// constants and types of event/rules_lib, type-checked from source (offline: source importer)
func loadRulesPkg() (*token.FileSet, []*ast.File, *types.Info, error) {
	dir := filepath.Join(*repo, "event", "rules_lib")
	fset := token.NewFileSet()
	pkgs, err := parser.ParseDir(fset, dir, func(fi os.FileInfo) bool {
		return !strings.HasSuffix(fi.Name(), "_test.go") && fi.Name() != "verif_hooks.go"
	}, 0)
	if err != nil {
		return nil, nil, nil, err
	}
	p, ok := pkgs["rules_lib"]
	if !ok {
		return nil, nil, nil, fmt.Errorf("package rules_lib not found")
	}
	var files []*ast.File
	var names []string
	for n := range p.Files {
		names = append(names, n)
	}
	sort.Strings(names)
	for _, n := range names {
		files = append(files, p.Files[n])
	}
	info := &types.Info{Types: map[ast.Expr]types.TypeAndValue{}, Defs: map[*ast.Ident]types.Object{}, Uses: map[*ast.Ident]types.Object{}}
	// resolve the module's own import paths relative to the repository root
	wd, _ := os.Getwd()
	os.Chdir(*repo)
	conf := types.Config{Importer: importer.ForCompiler(fset, "source", nil), Error: func(error) {}}
	_, err = conf.Check("github.com/ilius/libgostarcal/event/rules_lib", fset, files, info)
	os.Chdir(wd)
	if err != nil {
		return nil, nil, nil, fmt.Errorf("type-checking rules_lib: %v", err)
	}
	return fset, files, info, nil
}

func constString(info *types.Info, e ast.Expr) (string, bool) {
	tv, ok := info.Types[e]
	if !ok || tv.Value == nil {
		return "", false
	}
	s, err := strconv.Unquote(tv.Value.ExactString())
	return s, err == nil
}

func typeName(t types.Type) string {
	return types.TypeString(t, func(p *types.Package) string { return p.Name() })
}

// all types a decoder function literal can return as its first result
func returnedTypes(info *types.Info, fl *ast.FuncLit) []string {
	set := map[string]bool{}
	ast.Inspect(fl.Body, func(n ast.Node) bool {
		if inner, ok := n.(*ast.FuncLit); ok && inner != fl {
			return false
		}
		rs, ok := n.(*ast.ReturnStmt)
		if !ok || len(rs.Results) == 0 {
			return true
		}
		// `return v, err` after a successful call: the error paths also return a value, and the
		// property is about successfully decoded rules, but a value of another type on an error
		// path is harmless; record every first result whose companion is not a non-nil error literal
		if t, ok := info.Types[rs.Results[0]]; ok {
			set[typeName(t.Type)] = true
		}
		return true
	})
	var out []string
	for k := range set {
		out = append(out, k)
	}
	sort.Strings(out)
	return out
}

func assertedTypes(info *types.Info, fl *ast.FuncLit) []string {
	set := map[string]bool{}
	ast.Inspect(fl.Body, func(n ast.Node) bool {
		ta, ok := n.(*ast.TypeAssertExpr)
		if !ok || ta.Type == nil {
			return true
		}
		if t, ok := info.Types[ta.Type]; ok {
			set[typeName(t.Type)] = true
		}
		return true
	})
	var out []string
	for k := range set {
		out = append(out, k)
	}
	sort.Strings(out)
	return out
}

func genRules() (string, error) {
	_, files, info, err := loadRulesPkg()
	if err != nil {
		return "", err
	}
	decoders := map[string][]string{} // decoder name -> returned types
	type ruleT struct {
		name, decoder string
		order         string
		checker       []string
		hasChecker    bool
	}
	var rules []ruleT
	tables := map[string][][2]interface{}{}
	for _, f := range files {
		// checker variables: `checker := func(value any) bool {...}` in the same function as the call
		ast.Inspect(f, func(n ast.Node) bool {
			switch x := n.(type) {
			case *ast.ValueSpec: // var valueDecoders = map[string]func…{ T_x: func… }
				for i, id := range x.Names {
					if i >= len(x.Values) {
						continue
					}
					cl, ok := x.Values[i].(*ast.CompositeLit)
					if !ok {
						continue
					}
					switch id.Name {
					case "valueDecoders":
						for _, el := range cl.Elts {
							kv, ok0 := el.(*ast.KeyValueExpr)
							if !ok0 {
								continue
							}
							k, ok1 := constString(info, kv.Key)
							fl, ok2 := kv.Value.(*ast.FuncLit)
							if ok1 && ok2 {
								decoders[k] = returnedTypes(info, fl)
							}
						}
					case "RulesRequire", "RulesConflictWith":
						good := true
						var rows [][2]interface{}
						for _, el := range cl.Elts {
							kv, ok0 := el.(*ast.KeyValueExpr)
							if !ok0 {
								good = false
								break
							}
							k, ok1 := constString(info, kv.Key)
							vl, ok2 := kv.Value.(*ast.CompositeLit)
							if !ok1 || !ok2 {
								good = false
								break
							}
							var vals []string
							for _, v := range vl.Elts {
								s, ok3 := constString(info, v)
								good = good && ok3
								vals = append(vals, s)
							}
							rows = append(rows, [2]interface{}{k, vals})
						}
						if good {
							tables[id.Name] = rows
						}
					}
				}
			case *ast.FuncDecl:
				if x.Body == nil {
					return true
				}
				checkers := map[string]*ast.FuncLit{}
				ast.Inspect(x.Body, func(m ast.Node) bool {
					if as, ok := m.(*ast.AssignStmt); ok && len(as.Lhs) == 1 && len(as.Rhs) == 1 {
						if id, ok := as.Lhs[0].(*ast.Ident); ok {
							if fl, ok := as.Rhs[0].(*ast.FuncLit); ok {
								checkers[id.Name] = fl
							}
						}
					}
					ce, ok := m.(*ast.CallExpr)
					if !ok {
						return true
					}
					fn, ok := ce.Fun.(*ast.Ident)
					if !ok {
						return true
					}
					if fn.Name == "RegisterValueDecoder" && len(ce.Args) == 2 {
						k, ok1 := constString(info, ce.Args[0])
						fl, ok2 := ce.Args[1].(*ast.FuncLit)
						if ok1 && ok2 {
							decoders[k] = returnedTypes(info, fl)
						}
					}
					if fn.Name == "RegisterRuleType" && len(ce.Args) == 4 {
						var r ruleT
						if tv, ok := info.Types[ce.Args[0]]; ok && tv.Value != nil {
							r.order = tv.Value.ExactString()
						}
						r.name, _ = constString(info, ce.Args[1])
						r.decoder, _ = constString(info, ce.Args[2])
						if ue, ok := ce.Args[3].(*ast.UnaryExpr); ok {
							if id, ok := ue.X.(*ast.Ident); ok {
								if fl, ok := checkers[id.Name]; ok {
									r.hasChecker = true
									r.checker = assertedTypes(info, fl)
								}
							}
						}
						rules = append(rules, r)
					}
					return true
				})
			}
			return true
		})
	}
	// ---- the running registry is the primary source; what the source says in a recognised shape is
	// the cross-check (a disagreement fails; an unrecognised shape falls back to the probe, softly)
	staticRule := map[string]ruleT{}
	for _, r := range rules {
		if r.name != "" {
			staticRule[r.name] = r
		}
	}
	rt := rules_lib.VerifRuleTypes()
	rtDec := rules_lib.VerifDecoderNames()
	if len(staticRule) != len(rt) {
		soft("Rules: %d RegisterRuleType calls recognised in the source, %d rule types registered at run time; the rest is probed", len(staticRule), len(rt))
	}
	for n := range staticRule {
		found := false
		for _, t := range rt {
			found = found || t.Name == n
		}
		if !found {
			return "", fmt.Errorf("rule type %q: RegisterRuleType call in the source but not registered at run time", n)
		}
	}
	for n := range decoders {
		found := false
		for _, d := range rtDec {
			found = found || d == n
		}
		if !found {
			return "", fmt.Errorf("decoder %q in the source but not registered at run time", n)
		}
	}
	// probe: every decoder on a pool of sample texts
	type obs struct {
		ok  bool
		val any
	}
	probe := func(f func(string) (any, error)) (res []obs, perr error) {
		defer func() {
			if r := recover(); r != nil {
				perr = fmt.Errorf("decoder panicked on a sample: %v", r)
			}
		}()
		for _, s := range ruleSamples {
			v, err := f(s)
			res = append(res, obs{err == nil, v})
		}
		return
	}
	same := func(a, b []obs) bool {
		for i := range a {
			if a[i].ok != b[i].ok || (a[i].ok && !reflect.DeepEqual(a[i].val, b[i].val)) {
				return false
			}
		}
		return true
	}
	decObs := map[string][]obs{}
	samplesByType := map[string][]any{}
	for _, d := range rtDec {
		o, err := probe(rules_lib.VerifDecoder(d))
		if err != nil {
			return "", fmt.Errorf("decoder %q: %v", d, err)
		}
		decObs[d] = o
		seen := map[string]bool{}
		for _, x := range o {
			if x.ok {
				tn := fmt.Sprintf("%T", x.val)
				seen[tn] = true
				if len(samplesByType[tn]) < 12 {
					samplesByType[tn] = append(samplesByType[tn], x.val)
				}
			}
		}
		var observed []string
		for k := range seen {
			observed = append(observed, k)
		}
		sort.Strings(observed)
		if len(observed) == 0 {
			return "", fmt.Errorf("decoder %q accepts none of the %d sample texts", d, len(ruleSamples))
		}
		if st, ok := decoders[d]; ok {
			for _, o := range observed {
				in := false
				for _, t := range st {
					in = in || t == o
				}
				if !in {
					return "", fmt.Errorf("decoder %q: returns a %s at run time, the source says %v", d, o, st)
				}
			}
		} else {
			soft("Rules: decoder %q is not a function literal in the source any more; value types %v observed on %d sample texts", d, observed, len(ruleSamples))
			decoders[d] = observed
		}
	}
	var typeNames []string
	for k := range samplesByType {
		typeNames = append(typeNames, k)
	}
	sort.Strings(typeNames)
	rules = rules[:0]
	for _, t := range rt {
		r := ruleT{name: t.Name, order: strconv.Itoa(t.Order), hasChecker: t.ValueChecker != nil}
		st, haveStatic := staticRule[t.Name]
		// which named decoder is this type's decoder: behaviour on the sample pool
		o, err := probe(t.ValueDecoder)
		if err != nil {
			return "", fmt.Errorf("rule type %q: %v", t.Name, err)
		}
		var cands []string
		for _, d := range rtDec {
			if same(o, decObs[d]) {
				cands = append(cands, d)
			}
		}
		if len(cands) == 0 {
			return "", fmt.Errorf("rule type %q: its decoder behaves like none of the registered decoders on the sample texts", t.Name)
		}
		r.decoder = cands[0]
		if haveStatic && st.decoder != "" {
			in := false
			for _, c := range cands {
				in = in || c == st.decoder
			}
			if !in {
				return "", fmt.Errorf("rule type %q: the source names decoder %q, the registered decoder behaves like %v", t.Name, st.decoder, cands)
			}
			r.decoder = st.decoder
		} else if len(cands) > 1 {
			soft("Rules: rule type %q: decoders %v are indistinguishable on the sample texts; taking %q", t.Name, cands, r.decoder)
		}
		if haveStatic && (st.order != r.order) {
			return "", fmt.Errorf("rule type %q: order %s in the source, %s at run time", t.Name, st.order, r.order)
		}
		// which value types does the checker take without panicking
		if r.hasChecker {
			var accepted []string
			for _, tn := range typeNames {
				good := true
				for _, v := range samplesByType[tn] {
					func() {
						defer func() {
							if recover() != nil {
								good = false
							}
						}()
						(*t.ValueChecker)(v)
					}()
				}
				if good {
					accepted = append(accepted, tn)
				}
			}
			if haveStatic && st.hasChecker && len(st.checker) > 0 {
				if strings.Join(st.checker, ",") != strings.Join(accepted, ",") {
					return "", fmt.Errorf("rule type %q: its checker asserts %v in the source, takes %v without panicking at run time", t.Name, st.checker, accepted)
				}
			} else {
				soft("Rules: rule type %q: checker not a recognised function literal; accepted value types %v probed with sample values of %d types", t.Name, accepted, len(typeNames))
			}
			r.checker = accepted
		} else if haveStatic && st.hasChecker {
			return "", fmt.Errorf("rule type %q: checker in the source, none at run time", t.Name)
		}
		rules = append(rules, r)
	}
	sort.Slice(rules, func(i, j int) bool { return rules[i].name < rules[j].name })
	// dependency tables: the running maps, keys sorted; the source literal (when it is one) must agree
	for name, m := range map[string]map[string][]string{"RulesRequire": rules_lib.RulesRequire, "RulesConflictWith": rules_lib.RulesConflictWith} {
		if st, ok := tables[name]; ok && !writtenElsewhere(files, name) {
			if len(m) != len(st) {
				return "", fmt.Errorf("%s: %d keys in the source literal, %d at run time", name, len(st), len(m))
			}
			for _, kv := range st {
				if strings.Join(m[kv[0].(string)], ",") != strings.Join(kv[1].([]string), ",") {
					return "", fmt.Errorf("%s[%s]: source and run time disagree", name, kv[0])
				}
			}
		} else if ok {
			soft("Rules: %s has a map literal in the source but is also written elsewhere in the package; taken from the running table", name)
		} else {
			soft("Rules: %s is not a map literal in the source any more; taken from the running table", name)
		}
		var keys []string
		for k := range m {
			keys = append(keys, k)
		}
		sort.Strings(keys)
		tables[name] = nil
		for _, k := range keys {
			tables[name] = append(tables[name], [2]interface{}{k, append([]string{}, m[k]...)})
		}
	}
	q := func(l []string) string {
		parts := make([]string, len(l))
		for i, s := range l {
			parts[i] = strconv.Quote(s)
		}
		return "[" + strings.Join(parts, ", ") + "]"
	}
	var sb strings.Builder
	sb.WriteString("/-! REGENERATED by harness/cmd/extract from /repo on every run — do not edit.\n")
	sb.WriteString("    Event rule registry: RegisterRuleType / RegisterValueDecoder calls and the dependency tables\n")
	sb.WriteString("    (go/ast + go/types over event/rules_lib, cross-checked against the running registry). -/\n")
	sb.WriteString("namespace Starcal.Gen\n\nstructure RuleType where\n  name : String\n  order : Int\n  decoder : String\n  hasChecker : Bool\n  /-- Go types the checker asserts its argument to be -/\n  checkerTypes : List String\nderiving Repr, DecidableEq\n\n")
	sb.WriteString("def ruleTypes : List RuleType := [\n")
	for i, r := range rules {
		fmt.Fprintf(&sb, "  { name := %s, order := %s, decoder := %s, hasChecker := %v, checkerTypes := %s }", strconv.Quote(r.name), r.order, strconv.Quote(r.decoder), r.hasChecker, q(r.checker))
		if i+1 < len(rules) {
			sb.WriteString(",")
		}
		sb.WriteString("\n")
	}
	sb.WriteString("]\n\n/-- decoder name ↦ static Go types of the values its function literal returns -/\ndef decoderTypes : List (String × List String) := [\n")
	var dn []string
	for k := range decoders {
		dn = append(dn, k)
	}
	sort.Strings(dn)
	for i, k := range dn {
		fmt.Fprintf(&sb, "  (%s, %s)", strconv.Quote(k), q(decoders[k]))
		if i+1 < len(dn) {
			sb.WriteString(",")
		}
		sb.WriteString("\n")
	}
	sb.WriteString("]\n\n")
	for _, name := range []string{"RulesRequire", "RulesConflictWith"} {
		lean := "rulesRequire"
		if name == "RulesConflictWith" {
			lean = "rulesConflictWith"
		}
		fmt.Fprintf(&sb, "def %s : List (String × List String) := [\n", lean)
		for i, kv := range tables[name] {
			fmt.Fprintf(&sb, "  (%s, %s)", strconv.Quote(kv[0].(string)), q(kv[1].([]string)))
			if i+1 < len(tables[name]) {
				sb.WriteString(",")
			}
			sb.WriteString("\n")
		}
		sb.WriteString("]\n\n")
	}
	sb.WriteString("end Starcal.Gen\n")
	return sb.String(), nil
}

// is the package-level table also assigned to, indexed into on the left of an assignment, deleted
// from, address-taken or handed to a call somewhere in the package? then its literal is not the
// whole story
func writtenElsewhere(files []*ast.File, name string) bool {
	found := false
	isName := func(e ast.Expr) bool {
		for {
			switch x := e.(type) {
			case *ast.ParenExpr:
				e = x.X
				continue
			case *ast.IndexExpr:
				e = x.X
				continue
			case *ast.Ident:
				return x.Name == name
			}
			return false
		}
	}
	for _, f := range files {
		ast.Inspect(f, func(n ast.Node) bool {
			switch x := n.(type) {
			case *ast.AssignStmt:
				for _, l := range x.Lhs {
					if isName(l) {
						found = true
					}
				}
			case *ast.IncDecStmt:
				if isName(x.X) {
					found = true
				}
			case *ast.UnaryExpr:
				if x.Op == token.AND && isName(x.X) {
					found = true
				}
			case *ast.CallExpr:
				for _, a := range x.Args {
					if id, ok := a.(*ast.Ident); ok && id.Name == name {
						found = true
					}
				}
			}
			return !found
		})
	}
	return found
}

// sample value texts: every decoder must accept at least one, and two different decoders must
// differ on at least one
var ruleSamples = []string{
	"", "abc", "sm", "7", "-3", "0", "12", "2.5", "1e3",
	"1 2 3", "5 5 1", "0 6", "1-3 5", "1380-1383 1393", "3-1", "2 4-6 9",
	"10:30", "10:30:15", "0:0:0", "23:59:59", "24:00",
	"3 10:30:15", "0 0:0:0", "10 00:00", "1 2:3",
	"10:30 12:00", "10:30:15 12:00:01", "0:0 0:0",
	"2020/01/15", "1399/12/30", "2020-01-15", "0/1/1", "-5/3/2",
	"2020/01/15 1399/12/30", "2020/1/1 2020/1/2 2020/1/3",
	"2020/01/15 10:30:15", "1399/12/30 00:00:00", "2020/01/15 10:30",
	"5 s", "10 m", "2 h", "3 d", "1.5 h", "2 w", "90 s", "1 day", "4 week",
	"1 0 3", "-1 6 12", "2 3 0", "0 0 0", "1 2",
	`{"weekIndex": 4, "weekDay": 6, "month": 12}`, `{"weekIndex": 1, "weekDay": 1, "month": 0}`, `{}`, `{"month": 99}`, `[1]`, `"x"`, `null`,
}
