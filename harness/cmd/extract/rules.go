package main

import (
	"fmt"
	"go/ast"
	"go/importer"
	"go/parser"
	"go/token"
	"go/types"
	"os"
	"path/filepath"
	"sort"
	"strconv"
	"strings"

	"github.com/ilius/libgostarcal/event/rules_lib"
)

func init() {
	generators = append(generators, generator{"Rules.lean", genRules})
}

// constants and types of event/rules_lib, type-checked from source (offline: source importer)
func loadRulesPkg() (*token.FileSet, []*ast.File, *types.Info, error) {
	dir := filepath.Join(*repo, "event", "rules_lib")
	fset := token.NewFileSet()
	pkgs, err := parser.ParseDir(fset, dir, func(fi os.FileInfo) bool {
		return !strings.HasSuffix(fi.Name(), "_test.go") && fi.Name() != "verif_hooks.go"
	}, 0)
	if err != nil {
		return nil, nil, nil, err
	}
	p, ok := pkgs["rules_lib"]
	if !ok {
		return nil, nil, nil, fmt.Errorf("package rules_lib not found")
	}
	var files []*ast.File
	var names []string
	for n := range p.Files {
		names = append(names, n)
	}
	sort.Strings(names)
	for _, n := range names {
		files = append(files, p.Files[n])
	}
	info := &types.Info{Types: map[ast.Expr]types.TypeAndValue{}, Defs: map[*ast.Ident]types.Object{}, Uses: map[*ast.Ident]types.Object{}}
	// resolve the module's own import paths relative to the repository root
	os.Chdir(*repo)
	conf := types.Config{Importer: importer.ForCompiler(fset, "source", nil), Error: func(error) {}}
	_, err = conf.Check("github.com/ilius/libgostarcal/event/rules_lib", fset, files, info)
	if err != nil {
		return nil, nil, nil, fmt.Errorf("type-checking rules_lib: %v", err)
	}
	return fset, files, info, nil
}

func constString(info *types.Info, e ast.Expr) (string, bool) {
	tv, ok := info.Types[e]
	if !ok || tv.Value == nil {
		return "", false
	}
	s, err := strconv.Unquote(tv.Value.ExactString())
	return s, err == nil
}

func typeName(t types.Type) string {
	return types.TypeString(t, func(p *types.Package) string { return p.Name() })
}

// all types a decoder function literal can return as its first result
func returnedTypes(info *types.Info, fl *ast.FuncLit) []string {
	set := map[string]bool{}
	ast.Inspect(fl.Body, func(n ast.Node) bool {
		if inner, ok := n.(*ast.FuncLit); ok && inner != fl {
			return false
		}
		rs, ok := n.(*ast.ReturnStmt)
		if !ok || len(rs.Results) == 0 {
			return true
		}
		// `return v, err` after a successful call: the error paths also return a value, and the
		// property is about successfully decoded rules, but a value of another type on an error
		// path is harmless; record every first result whose companion is not a non-nil error literal
		if t, ok := info.Types[rs.Results[0]]; ok {
			set[typeName(t.Type)] = true
		}
		return true
	})
	var out []string
	for k := range set {
		out = append(out, k)
	}
	sort.Strings(out)
	return out
}

func assertedTypes(info *types.Info, fl *ast.FuncLit) []string {
	set := map[string]bool{}
	ast.Inspect(fl.Body, func(n ast.Node) bool {
		ta, ok := n.(*ast.TypeAssertExpr)
		if !ok || ta.Type == nil {
			return true
		}
		if t, ok := info.Types[ta.Type]; ok {
			set[typeName(t.Type)] = true
		}
		return true
	})
	var out []string
	for k := range set {
		out = append(out, k)
	}
	sort.Strings(out)
	return out
}

func genRules() (string, error) {
	_, files, info, err := loadRulesPkg()
	if err != nil {
		return "", err
	}
	decoders := map[string][]string{} // decoder name -> returned types
	type ruleT struct {
		name, decoder string
		order         string
		checker       []string
		hasChecker    bool
	}
	var rules []ruleT
	tables := map[string][][2]interface{}{}
	for _, f := range files {
		// checker variables: `checker := func(value any) bool {...}` in the same function as the call
		ast.Inspect(f, func(n ast.Node) bool {
			switch x := n.(type) {
			case *ast.ValueSpec: // var valueDecoders = map[string]func…{ T_x: func… }
				for i, id := range x.Names {
					if i >= len(x.Values) {
						continue
					}
					cl, ok := x.Values[i].(*ast.CompositeLit)
					if !ok {
						continue
					}
					switch id.Name {
					case "valueDecoders":
						for _, el := range cl.Elts {
							kv := el.(*ast.KeyValueExpr)
							k, ok1 := constString(info, kv.Key)
							fl, ok2 := kv.Value.(*ast.FuncLit)
							if ok1 && ok2 {
								decoders[k] = returnedTypes(info, fl)
							}
						}
					case "RulesRequire", "RulesConflictWith":
						for _, el := range cl.Elts {
							kv := el.(*ast.KeyValueExpr)
							k, _ := constString(info, kv.Key)
							var vals []string
							if vl, ok := kv.Value.(*ast.CompositeLit); ok {
								for _, v := range vl.Elts {
									s, _ := constString(info, v)
									vals = append(vals, s)
								}
							}
							tables[id.Name] = append(tables[id.Name], [2]interface{}{k, vals})
						}
					}
				}
			case *ast.FuncDecl:
				if x.Body == nil {
					return true
				}
				checkers := map[string]*ast.FuncLit{}
				ast.Inspect(x.Body, func(m ast.Node) bool {
					if as, ok := m.(*ast.AssignStmt); ok && len(as.Lhs) == 1 && len(as.Rhs) == 1 {
						if id, ok := as.Lhs[0].(*ast.Ident); ok {
							if fl, ok := as.Rhs[0].(*ast.FuncLit); ok {
								checkers[id.Name] = fl
							}
						}
					}
					ce, ok := m.(*ast.CallExpr)
					if !ok {
						return true
					}
					fn, ok := ce.Fun.(*ast.Ident)
					if !ok {
						return true
					}
					if fn.Name == "RegisterValueDecoder" && len(ce.Args) == 2 {
						k, ok1 := constString(info, ce.Args[0])
						fl, ok2 := ce.Args[1].(*ast.FuncLit)
						if ok1 && ok2 {
							decoders[k] = returnedTypes(info, fl)
						}
					}
					if fn.Name == "RegisterRuleType" && len(ce.Args) == 4 {
						var r ruleT
						if tv, ok := info.Types[ce.Args[0]]; ok && tv.Value != nil {
							r.order = tv.Value.ExactString()
						}
						r.name, _ = constString(info, ce.Args[1])
						r.decoder, _ = constString(info, ce.Args[2])
						if ue, ok := ce.Args[3].(*ast.UnaryExpr); ok {
							if id, ok := ue.X.(*ast.Ident); ok {
								if fl, ok := checkers[id.Name]; ok {
									r.hasChecker = true
									r.checker = assertedTypes(info, fl)
								}
							}
						}
						rules = append(rules, r)
					}
					return true
				})
			}
			return true
		})
	}
	if len(rules) == 0 {
		return "", fmt.Errorf("no RegisterRuleType calls recognised")
	}
	sort.Slice(rules, func(i, j int) bool { return rules[i].name < rules[j].name })
	// static vs running registry
	rt := rules_lib.VerifRuleTypes()
	if len(rt) != len(rules) {
		return "", fmt.Errorf("%d RegisterRuleType calls in the source, %d rule types registered at run time", len(rules), len(rt))
	}
	byName := map[string]*rules_lib.EventRuleType{}
	for _, t := range rt {
		byName[t.Name] = t
	}
	for _, r := range rules {
		t, ok := byName[r.name]
		if !ok || strconv.Itoa(t.Order) != r.order || (t.ValueChecker != nil) != r.hasChecker {
			return "", fmt.Errorf("rule type %q: source (order %s, checker %v) and running registry disagree", r.name, r.order, r.hasChecker)
		}
	}
	rtDec := rules_lib.VerifDecoderNames()
	if len(rtDec) != len(decoders) {
		return "", fmt.Errorf("%d decoders in the source, %d at run time", len(decoders), len(rtDec))
	}
	for _, n := range rtDec {
		if _, ok := decoders[n]; !ok {
			return "", fmt.Errorf("decoder %q registered at run time but not recognised in the source", n)
		}
	}
	for name, m := range map[string]map[string][]string{"RulesRequire": rules_lib.RulesRequire, "RulesConflictWith": rules_lib.RulesConflictWith} {
		if len(m) != len(tables[name]) {
			return "", fmt.Errorf("%s: %d keys in the source literal, %d at run time", name, len(tables[name]), len(m))
		}
		for _, kv := range tables[name] {
			if strings.Join(m[kv[0].(string)], ",") != strings.Join(kv[1].([]string), ",") {
				return "", fmt.Errorf("%s[%s]: source and run time disagree", name, kv[0])
			}
		}
	}
	q := func(l []string) string {
		parts := make([]string, len(l))
		for i, s := range l {
			parts[i] = strconv.Quote(s)
		}
		return "[" + strings.Join(parts, ", ") + "]"
	}
	var sb strings.Builder
	sb.WriteString("/-! REGENERATED by harness/cmd/extract from /repo on every run — do not edit.\n")
	sb.WriteString("    Event rule registry: RegisterRuleType / RegisterValueDecoder calls and the dependency tables\n")
	sb.WriteString("    (go/ast + go/types over event/rules_lib, cross-checked against the running registry). -/\n")
	sb.WriteString("namespace Starcal.Gen\n\nstructure RuleType where\n  name : String\n  order : Int\n  decoder : String\n  hasChecker : Bool\n  /-- Go types the checker asserts its argument to be -/\n  checkerTypes : List String\nderiving Repr, DecidableEq\n\n")
	sb.WriteString("def ruleTypes : List RuleType := [\n")
	for i, r := range rules {
		fmt.Fprintf(&sb, "  { name := %s, order := %s, decoder := %s, hasChecker := %v, checkerTypes := %s }", strconv.Quote(r.name), r.order, strconv.Quote(r.decoder), r.hasChecker, q(r.checker))
		if i+1 < len(rules) {
			sb.WriteString(",")
		}
		sb.WriteString("\n")
	}
	sb.WriteString("]\n\n/-- decoder name ↦ static Go types of the values its function literal returns -/\ndef decoderTypes : List (String × List String) := [\n")
	var dn []string
	for k := range decoders {
		dn = append(dn, k)
	}
	sort.Strings(dn)
	for i, k := range dn {
		fmt.Fprintf(&sb, "  (%s, %s)", strconv.Quote(k), q(decoders[k]))
		if i+1 < len(dn) {
			sb.WriteString(",")
		}
		sb.WriteString("\n")
	}
	sb.WriteString("]\n\n")
	for _, name := range []string{"RulesRequire", "RulesConflictWith"} {
		lean := "rulesRequire"
		if name == "RulesConflictWith" {
			lean = "rulesConflictWith"
		}
		fmt.Fprintf(&sb, "def %s : List (String × List String) := [\n", lean)
		for i, kv := range tables[name] {
			fmt.Fprintf(&sb, "  (%s, %s)", strconv.Quote(kv[0].(string)), q(kv[1].([]string)))
			if i+1 < len(tables[name]) {
				sb.WriteString(",")
			}
			sb.WriteString("\n")
		}
		sb.WriteString("]\n\n")
	}
	sb.WriteString("end Starcal.Gen\n")
	return sb.String(), nil
}
