module verif/harness

go 1.18

require github.com/ilius/libgostarcal v0.0.0

replace github.com/ilius/libgostarcal => /repo
