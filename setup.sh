#!/bin/bash
# Build the framework once from files on disk (offline): Go oracle + extractor, Lean library + driver.
set -e
cd "$(dirname "$0")"
export GOFLAGS=-mod=mod GOPROXY=off GOSUMDB=off GOTOOLCHAIN=local CGO_ENABLED=0
mkdir -p build evidence replays
R="${VERIF_REPO:-/repo}"
cp "$R/go.sum" harness/go.sum 2>/dev/null || true
if [ "$R" != "/repo" ]; then (cd harness && go mod edit -replace github.com/ilius/libgostarcal="$R"); fi
(cd harness && go build -tags verif -o ../build/oracle ./cmd/oracle && go build -o ../build/oracle-plain ./cmd/oracle && go build -tags verif -o ../build/extract ./cmd/extract)
echo "meta hijri-table" | ./build/oracle | cut -f1 > build/hijri_table.json || true
./build/extract -repo "$R" -out lean/Starcal/Gen || echo "extract reported problems (the checks will report them)"
(cd lean && timeout 3000 lake build Starcal driver)
# tie theorems `translated source = model` (soft obligations: a failure here is reported by the checks, not by setup)
(cd lean && timeout 3000 lake build Starcal.SrcTie.All Starcal.SrcTie.Cal Starcal.SrcTie.Cal2 Starcal.SrcTie.Tod Starcal.SrcTie.Interval Starcal.SrcTie.Valid Starcal.SrcTie.NoOverflow Starcal.SrcTie.NoOverflow2 Starcal.SrcTie.Normalize Starcal.SrcTie.Humanize Starcal.SrcTie.NumList Starcal.SrcTie.Intersect Starcal.SrcTie.Bisect Starcal.SrcTie.HijriTable) || echo "source ties did not build (the checks will say which)"
echo "setup ok"
