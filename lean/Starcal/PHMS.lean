import Starcal.PShow
/-! Starcal: ParseHMS (hms.go:66-92) with the uint8 narrowing as written (`% 256`) and with the
    planned saturating repair; exactness theorem for the repaired parser (core of C08 / C14). -/
namespace Starcal

/-- strings.Split(s, sep) for a one-character separator -/
def splitOn (sep : Char) : List Char → List (List Char)
  | [] => [[]]
  | c :: cs =>
    if c = sep then [] :: splitOn sep cs
    else match splitOn sep cs with
      | [] => [[c]]
      | p :: ps => (c :: p) :: ps

theorem splitOn_ne_nil (sep : Char) (s : List Char) : splitOn sep s ≠ [] := by
  induction s with
  | nil => simp [splitOn]
  | cons c cs ih =>
    unfold splitOn
    split
    · simp
    · split <;> simp

theorem splitOn_free (sep : Char) (a : List Char) (h : ∀ x ∈ a, x ≠ sep) : splitOn sep a = [a] := by
  induction a with
  | nil => simp [splitOn]
  | cons c cs ih =>
    have hc := h c (by simp)
    simp [splitOn, hc, ih (fun x hx => h x (List.mem_cons_of_mem _ hx))]

theorem splitOn_append (sep : Char) (a rest : List Char) (h : ∀ x ∈ a, x ≠ sep) :
    splitOn sep (a ++ sep :: rest) = a :: splitOn sep rest := by
  induction a with
  | nil => simp [splitOn]
  | cons c cs ih =>
    have hc := h c (by simp)
    simp [splitOn, hc, ih (fun x hx => h x (List.mem_cons_of_mem _ hx))]

structure HMS where
  hour : Int
  minute : Int
  second : Int
deriving DecidableEq, Repr

def narrowOld (v : Int) : Int := v % 256                                   -- uint8(v)
def narrowNew (v : Int) : Int := if v < 0 ∨ v > 255 then 255 else v         -- planned toUint8

def parseHMS (narrow : Int → Int) (s : List Char) : Option HMS :=
  let parts := splitOn ':' s
  if parts.length < 2 ∨ parts.length > 3 then none
  else
    match parseInt (parts.getD 0 []), parseInt (parts.getD 1 []) with
    | some h, some m =>
      if parts.length = 3 then
        match parseInt (parts.getD 2 []) with
        | some sec => some ⟨narrow h, narrow m, narrow sec⟩
        | none => none
      else some ⟨narrow h, narrow m, narrow 0⟩
    | _, _ => none

def HMS.isValid (x : HMS) : Bool := decide (x.hour < 24) && decide (x.minute < 60) && decide (x.second < 60)

/-- the defect in the code as written: 256 seconds alias to 0 and are accepted -/
example : (parseHMS narrowOld "20:55:256".toList).map HMS.isValid = some true := by decide
example : parseHMS narrowOld "20:55:256".toList = some ⟨20, 55, 0⟩ := by decide
/-- with the repair the same text still decodes (as the existing tests demand) but is rejected -/
example : (parseHMS narrowNew "20:55:256".toList).map HMS.isValid = some false := by decide
example : (parseHMS narrowNew "20:55:-1".toList).map HMS.isValid = some false := by decide

theorem showInt_no_colon (i : Int) : ∀ x ∈ showInt i, x ≠ ':' := by
  obtain ⟨c, cs, hs, hcs, hc, _⟩ := showInt_shape i
  rw [hs]
  intro x hx
  rcases List.mem_cons.mp hx with rfl | hx
  · rcases hc with rfl | h
    · decide
    · intro e; subst e; simp [isDigit] at h
  · have := hcs x hx
    intro e; subst e; simp [isDigit] at this

def fmtHMS (h m s : Int) : List Char := showInt h ++ (':' :: (showInt m ++ (':' :: showInt s)))

/-- **exactness (repaired parser)**: a written `h:m:s` with *any* integer fields decodes, and it is
    accepted by the validity check iff every written field is in range — in which case the decoded
    numbers are exactly the written ones -/
theorem parseHMS_exact (h m s : Int) :
    ∃ v, parseHMS narrowNew (fmtHMS h m s) = some v ∧
      (v.isValid = true ↔ (0 ≤ h ∧ h < 24 ∧ 0 ≤ m ∧ m < 60 ∧ 0 ≤ s ∧ s < 60)) ∧
      (v.isValid = true → v = ⟨h, m, s⟩) := by
  have hsplit : splitOn ':' (fmtHMS h m s) = [showInt h, showInt m, showInt s] := by
    unfold fmtHMS
    rw [splitOn_append ':' _ _ (showInt_no_colon h), splitOn_append ':' _ _ (showInt_no_colon m),
      splitOn_free ':' _ (showInt_no_colon s)]
  refine ⟨⟨narrowNew h, narrowNew m, narrowNew s⟩, ?_, ?_, ?_⟩
  · unfold parseHMS
    simp [hsplit, parseInt_showInt]
  · unfold HMS.isValid narrowNew
    simp only [Bool.and_eq_true, decide_eq_true_eq]
    constructor
    · rintro ⟨⟨h1, h2⟩, h3⟩
      split at h1 <;> split at h2 <;> split at h3 <;> omega
    · rintro ⟨a1, a2, a3, a4, a5, a6⟩
      have n1 : ¬ (h < 0 ∨ h > 255) := by omega
      have n2 : ¬ (m < 0 ∨ m > 255) := by omega
      have n3 : ¬ (s < 0 ∨ s > 255) := by omega
      simp only [n1, n2, n3, if_false]
      omega
  · unfold HMS.isValid narrowNew
    simp only [Bool.and_eq_true, decide_eq_true_eq]
    rintro ⟨⟨h1, h2⟩, h3⟩
    split at h1 <;> split at h2 <;> split at h3 <;> (try omega)
    rename_i n1 n2 n3
    simp [n1, n2, n3]

end Starcal

#print axioms Starcal.parseHMS_exact
