/-! Starcal: core of C12 — the days reported for an interval of instants are exactly the days that
    contain one of its instants, for any day-number function that is monotone and never jumps by
    more than one day per second (the regularity hypotheses on the zone). -/
namespace Starcal.Occur

theorem discrete_ivt (f : Int → Int) (hstep : ∀ e, f (e + 1) ≤ f e + 1)
    (s : Int) (n : Nat) (d : Int) (h1 : f s ≤ d) (h2 : d ≤ f (s + n)) :
    ∃ e, s ≤ e ∧ e ≤ s + n ∧ f e = d := by
  induction n with
  | zero =>
    simp at h2
    exact ⟨s, by omega, by simp, by omega⟩
  | succ n ih =>
    by_cases h : d ≤ f (s + n)
    · obtain ⟨e, he1, he2, he3⟩ := ih h
      exact ⟨e, he1, by simp; omega, he3⟩
    · have hs := hstep (s + n)
      have e1 : s + ((n + 1 : Nat) : Int) = s + n + 1 := by omega
      rw [e1] at h2
      exact ⟨s + n + 1, by omega, by simp; omega, by omega⟩

/-- GetDaysJdList for one interval: `for tmpJd := jd(Start); tmpJd <= jd(last); tmpJd++` with
    last = End for a closed end and End-1 for an open end -/
def daysOf (f : Int → Int) (start stop : Int) (closed : Bool) : Int × Int :=
  (f start, if closed then f stop else f (stop - 1))

theorem days_exact (f : Int → Int) (hmono : ∀ a b, a ≤ b → f a ≤ f b) (hstep : ∀ e, f (e + 1) ≤ f e + 1)
    (start stop : Int) (closed : Bool) (hwf : start < stop ∨ (start = stop ∧ closed = true)) (d : Int) :
    ((daysOf f start stop closed).1 ≤ d ∧ d ≤ (daysOf f start stop closed).2) ↔
      ∃ e, start ≤ e ∧ (e < stop ∨ (closed = true ∧ e = stop)) ∧ f e = d := by
  unfold daysOf
  simp only
  -- the last instant of the interval
  obtain ⟨last, hlast⟩ : ∃ last : Int, last = if closed then stop else stop - 1 := ⟨_, rfl⟩
  have hl : (if closed = true then f stop else f (stop - 1)) = f last := by
    rw [hlast]; cases closed <;> simp
  rw [hl]
  have hsl : start ≤ last := by
    rw [hlast]
    cases closed with
    | false => simp at hwf ⊢; omega
    | true => simp; omega
  have hmem : ∀ e, (start ≤ e ∧ e ≤ last) ↔ (start ≤ e ∧ (e < stop ∨ (closed = true ∧ e = stop))) := by
    intro e; rw [hlast]; cases closed <;> simp <;> omega
  constructor
  · rintro ⟨h1, h2⟩
    obtain ⟨n, hn⟩ : ∃ n : Nat, last = start + n := ⟨(last - start).toNat, by omega⟩
    rw [hn] at h2
    obtain ⟨e, he1, he2, he3⟩ := discrete_ivt f hstep start n d h1 h2
    have := (hmem e).mp ⟨he1, by omega⟩
    exact ⟨e, this.1, this.2, he3⟩
  · rintro ⟨e, he1, he2, he3⟩
    have := (hmem e).mpr ⟨he1, he2⟩
    rw [← he3]
    exact ⟨hmono _ _ this.1, hmono _ _ this.2⟩

end Starcal.Occur

#print axioms Starcal.Occur.days_exact
