import Starcal.Greg2
/-! Starcal: gregorian_proleptic (no year 0) as the Gregorian model under a year relabelling. -/
namespace Starcal

/-- external year (… −2, −1, 1, 2 …) → astronomical year (… −1, 0, 1, 2 …) -/
def relIn (y : Int) : Int := if y < 1 then y + 1 else y
def relOut (Y : Int) : Int := if Y < 1 then Y - 1 else Y

/-- gregorian_proleptic.ToJd: `y := Year + 4800 - a; if Year < 1 { y += 1 }` -/
def pToJd (d : Date) : Int :=
  let a : Int := if d.month < 3 then 1 else 0
  let y := d.year + 4800 - a + (if d.year < 1 then 1 else 0)
  let m := d.month + 12 * a - 3
  365 * y + y / 4 - y / 100 + y / 400 - 32045 + (153 * m + 2) / 5 + d.day

/-- gregorian_proleptic.JdTo: `if year < 1 { year -= 1 }` -/
def pJdTo (jd : Int) : Date :=
  let g := gJdTo jd
  ⟨relOut g.year, g.month, g.day⟩

def pIsLeap (y : Int) : Bool := gIsLeap (relIn y)
def pMonthLen (y m : Int) : Int := gMonthLen (relIn y) m
def pWF (d : Date) : Prop := d.year ≠ 0 ∧ gWF ⟨relIn d.year, d.month, d.day⟩

theorem pToJd_eq (d : Date) : pToJd d = gToJd ⟨relIn d.year, d.month, d.day⟩ := by
  unfold pToJd gToJd relIn
  simp only
  by_cases h : d.year < 1 <;> simp [h] <;> omega

theorem rel_in_out (Y : Int) : relIn (relOut Y) = Y := by
  unfold relIn relOut
  by_cases h : Y < 1
  · have : Y - 1 < 1 := by omega
    simp [h, this]
  · simp [h]
theorem rel_out_in (y : Int) (h : y ≠ 0) : relOut (relIn y) = y := by
  unfold relIn relOut
  by_cases h1 : y < 1
  · have : y + 1 < 1 := by omega
    simp [h1, this]
  · simp [h1]
theorem relOut_ne_zero (Y : Int) : relOut Y ≠ 0 := by unfold relOut; split <;> omega

theorem p_jd_roundtrip (jd : Int) : pWF (pJdTo jd) ∧ pToJd (pJdTo jd) = jd := by
  refine ⟨⟨relOut_ne_zero _, ?_⟩, ?_⟩
  · simp only [pJdTo, rel_in_out]; exact gJdTo_WF jd
  · rw [pToJd_eq]; simp only [pJdTo, rel_in_out]; exact gToJd_gJdTo jd

theorem p_date_roundtrip (d : Date) (h : pWF d) : pJdTo (pToJd d) = d := by
  rw [pToJd_eq]
  unfold pJdTo
  rw [gJdTo_gToJd _ h.2]
  simp only [rel_out_in _ h.1]

/-- C03: for years ≥ 1 the two Gregorian calendars agree day for day -/
theorem greg_eq_proleptic (jd : Int) (h : 1 ≤ (gJdTo jd).year) : pJdTo jd = gJdTo jd := by
  unfold pJdTo relOut
  have : ¬ (gJdTo jd).year < 1 := by omega
  simp [this]

/-- the step from year −1 to year 1: 31 December −1 is followed by 1 January 1 -/
example : pJdTo (pToJd ⟨-1, 12, 31⟩ + 1) = ⟨1, 1, 1⟩ := by decide

end Starcal
