import Starcal.Serial
/-! # The writer-preferring machine refines the machine with data

Every execution of the writer-preferring reader/writer-lock machine of `Lock.lean` (a reader also
waits for an ANNOUNCED writer) is matched, step for step, by an execution of the machine with data of
`Serial.lean` (plain reader/writer lock): an announcement is a stutter step, the return of an
operation is inserted where the next operation starts, every lock step is enabled because the
stronger guard of the writer-preferring lock together with its exclusion invariant implies the
weaker one. So the atomicity theorem of `Serial.lean` holds for the schedules of the
writer-preferring lock as well. -/
namespace Starcal.Serial
open Starcal.Lock

section
variable {D L : Type}

/-- thread `i` of the two machines: same locks held, same actions left (the data machine keeps them
    grouped by operation; only the operation in progress may have run out of actions) -/
def Rel (ls : List Lock.Thread) (ss : St D L) : Prop :=
  (∀ i (hi : i < ls.length), (ss.th i).held = ls[i].held ∧ (ss.th i).prog.flatten = ls[i].prog ∧
      ∀ c ∈ (ss.th i).prog.tail, c ≠ []) ∧
  (∀ i, ls.length ≤ i → (ss.th i).held = [] ∧ (ss.th i).prog = [])

theorem reach_trans (S : Sem D L) {a b c : St D L} (h1 : Reach S a b) (h2 : Reach S b c) : Reach S a c := by
  induction h2 with
  | refl => exact h1
  | step _ hs ih => exact Reach.step ih hs

/-- replacing thread `k` on both sides by related threads keeps the relation -/
theorem rel_set {ls : List Lock.Thread} {ss ss' : St D L} (hR : Rel ls ss) (k : Nat) (hk : k < ls.length)
    (th' : Lock.Thread) (nt : Th L) (hth : ss'.th = upd ss.th k nt)
    (h1 : nt.held = th'.held) (h2 : nt.prog.flatten = th'.prog) (h3 : ∀ c ∈ nt.prog.tail, c ≠ []) :
    Rel (ls.set k th') ss' := by
  constructor
  · intro i hi
    have hi' : i < ls.length := by simpa using hi
    by_cases hik : i = k
    · subst hik
      rw [hth]
      simp only [upd_same, List.getElem_set_self]
      exact ⟨h1, h2, h3⟩
    · rw [hth, upd_other _ _ _ _ hik, List.getElem_set_ne (fun e => hik e.symm)]
      exact hR.1 i hi'
  · intro i hi
    have hi' : ls.length ≤ i := by simpa using hi
    have hik : i ≠ k := by omega
    rw [hth, upd_other _ _ _ _ hik]
    exact hR.2 i hi'

/-- bring the operation in progress of thread `k` to the front: if the writer-preferring machine's
    thread is about to do `a`, the data machine — after at most one return step — has `a` at the
    head of its current operation -/
theorem head_ready (S : Sem D L) {ls : List Lock.Thread} {ss : St D L} (hR : Rel ls ss) (k : Nat) (hk : k < ls.length)
    (a : Act) (r : List Act) (hp : ls[k].prog = a :: r) :
    ∃ ss1 c ps, Reach S ss ss1 ∧ Rel ls ss1 ∧ (ss1.th k).prog = (a :: c) :: ps ∧ c ++ ps.flatten = r ∧
      (∀ d ∈ ps, d ≠ []) ∧ (ss1.th k).held = ls[k].held := by
  obtain ⟨hh, hf, ht⟩ := hR.1 k hk
  rw [hp] at hf
  cases hP : (ss.th k).prog with
  | nil => rw [hP] at hf; simp at hf
  | cons c0 ps =>
    rw [hP] at hf ht
    cases c0 with
    | cons a' c' =>
      simp only [List.flatten_cons, List.cons_append, List.cons.injEq] at hf
      obtain ⟨rfl, hr⟩ := hf
      exact ⟨ss, c', ps, Reach.refl ss, hR, hP, hr, by simpa using ht, hh⟩
    | nil =>
      simp only [List.flatten_cons, List.nil_append] at hf
      -- one return step
      have hstep := Step.ret (S := S) ss k ps hP
      cases hps : ps with
      | nil => rw [hps] at hf; simp at hf
      | cons c1 ps' =>
        have hc1 : c1 ≠ [] := ht c1 (by simp [hps])
        cases c1 with
        | nil => exact absurd rfl hc1
        | cons a' c' =>
          rw [hps] at hf
          simp only [List.flatten_cons, List.cons_append, List.cons.injEq] at hf
          obtain ⟨rfl, hr⟩ := hf
          refine ⟨_, c', ps', Reach.step (Reach.refl ss) hstep, ?_, by simp [hps], hr, ?_, by simp [hh]⟩
          · have : Rel (ls.set k ls[k])
                ({ ss with th := upd ss.th k { ss.th k with prog := ps, pre := [], loc0 := (ss.th k).loc, com := false } } : St D L) :=
              rel_set hR k hk ls[k]
              { ss.th k with prog := ps, pre := [], loc0 := (ss.th k).loc, com := false } rfl hh
              (by simp only [hps, List.flatten_cons, List.cons_append]; rw [hp, hr])
              (by intro c hc; exact ht c (by simp only [List.tail_cons]; exact List.mem_of_mem_tail hc))
            simpa using this
          · intro d hd
            exact ht d (by simp [hps, hd])

/-- one step of the writer-preferring machine is matched by the data machine -/
theorem sim_step (S : Sem D L) {ls ls' : List Lock.Thread} {ss : St D L} (hR : Rel ls ss) (hx : Lock.Excl ls)
    (hs : Lock.Step ls ls') : ∃ ss', Reach S ss ss' ∧ Rel ls' ss' := by
  obtain ⟨k, hk, th', ht, rfl⟩ := hs
  generalize hth : ls[k] = th at ht
  cases ht with
  | @rlock H r x hna =>
    have hp : ls[k].prog = .rlock x :: r := by rw [hth]
    obtain ⟨ss1, c, ps, hr1, hR1, hP, hcr, hne, hh⟩ := head_ready S hR k hk _ _ hp
    have hen : ∀ u, u ≠ k → (x, true) ∉ (ss1.th u).held ∧ (false = true → (x, false) ∉ (ss1.th u).held) := by
      intro u hu
      refine ⟨?_, fun h => by cases h⟩
      by_cases hul : u < ls.length
      · rw [(hR1.1 u hul).1]
        intro hm
        exact hna ⟨ls[u], List.getElem_mem hul, Or.inl hm⟩
      · rw [(hR1.2 u (by omega)).1]; simp
    have hstep := Step.acq (S := S) ss1 k (.rlock x) c ps x false hP rfl hen
    refine ⟨_, Reach.step hr1 hstep, ?_⟩
    exact rel_set hR1 k hk _ _ rfl (by simp [hh, hth]) (by simp [hcr]) (by simpa using hne)
  | @runlock H r x =>
    have hp : ls[k].prog = .runlock x :: r := by rw [hth]
    obtain ⟨ss1, c, ps, hr1, hR1, hP, hcr, hne, hh⟩ := head_ready S hR k hk _ _ hp
    have hstep := Step.rel (S := S) ss1 k (.runlock x) c ps x false hP rfl
    refine ⟨_, Reach.step hr1 hstep, ?_⟩
    exact rel_set hR1 k hk _ _ rfl (by simp [hh, hth]) (by simp [hcr]) (by simpa using hne)
  | @announce H r x hna =>
    -- a stutter step: the data machine does nothing
    refine ⟨ss, Reach.refl ss, ?_⟩
    have := rel_set (ss' := ss) hR k hk ⟨H, true, .wlock x :: r⟩ (ss.th k) (by funext j; by_cases h : j = k <;> simp [upd, h])
      (by rw [(hR.1 k hk).1, hth]) (by rw [(hR.1 k hk).2.1, hth]) (hR.1 k hk).2.2
    exact this
  | @acquire H r x hnr =>
    have hp : ls[k].prog = .wlock x :: r := by rw [hth]
    obtain ⟨ss1, c, ps, hr1, hR1, hP, hcr, hne, hh⟩ := head_ready S hR k hk _ _ hp
    have hwk : writerish ls[k] x := by rw [hth]; exact Or.inr ⟨rfl, rfl⟩
    have hen : ∀ u, u ≠ k → (x, true) ∉ (ss1.th u).held ∧ (true = true → (x, false) ∉ (ss1.th u).held) := by
      intro u hu
      by_cases hul : u < ls.length
      · rw [(hR1.1 u hul).1]
        refine ⟨?_, fun _ hm => hnr ⟨ls[u], List.getElem_mem hul, hm⟩⟩
        intro hm
        exact hx.1 k u hk hul x (fun e => hu e.symm) hwk (Or.inl hm)
      · rw [(hR1.2 u (by omega)).1]; simp
    have hstep := Step.acq (S := S) ss1 k (.wlock x) c ps x true hP rfl hen
    refine ⟨_, Reach.step hr1 hstep, ?_⟩
    exact rel_set hR1 k hk _ _ rfl (by simp [hh, hth]) (by simp [hcr]) (by simpa using hne)
  | @unlock H r x =>
    have hp : ls[k].prog = .unlock x :: r := by rw [hth]
    obtain ⟨ss1, c, ps, hr1, hR1, hP, hcr, hne, hh⟩ := head_ready S hR k hk _ _ hp
    have hstep := Step.rel (S := S) ss1 k (.unlock x) c ps x true hP rfl
    refine ⟨_, Reach.step hr1 hstep, ?_⟩
    exact rel_set hR1 k hk _ _ rfl (by simp [hh, hth]) (by simp [hcr]) (by simpa using hne)
  | @access H r x w =>
    have hp : ls[k].prog = .access x w :: r := by rw [hth]
    obtain ⟨ss1, c, ps, hr1, hR1, hP, hcr, hne, hh⟩ := head_ready S hR k hk _ _ hp
    cases w with
    | false =>
      have hstep := Step.read (S := S) ss1 k c ps x hP
      refine ⟨_, Reach.step hr1 hstep, ?_⟩
      exact rel_set hR1 k hk _ _ rfl (by simp [hh, hth]) (by simp [hcr]) (by simpa using hne)
    | true =>
      have hstep := Step.write (S := S) ss1 k c ps x hP
      refine ⟨_, Reach.step hr1 hstep, ?_⟩
      exact rel_set hR1 k hk _ _ rfl (by simp [hh, hth]) (by simp [hcr]) (by simpa using hne)

/-- every execution of the writer-preferring machine is matched by an execution of the data machine -/
theorem sim_reach (S : Sem D L) {ls0 ls : List Lock.Thread} {ss0 : St D L} (h0 : InitialA ls0) (hR : Rel ls0 ss0)
    (hr : Lock.Reach ls0 ls) : ∃ ss, Reach S ss0 ss ∧ Rel ls ss := by
  induction hr with
  | refl => exact ⟨ss0, Reach.refl ss0, hR⟩
  | step hr' hs ih =>
    obtain ⟨ss1, hr1, hR1⟩ := ih
    obtain ⟨ss2, hr2, hR2⟩ := sim_step S hR1 (reachA_inv h0 hr').2 hs
    exact ⟨ss2, reach_trans S hr1 hr2, hR2⟩

/-- the programs of the list-of-threads machine as a function of the thread number -/
def progsOf (progs : List (List (List Act))) : Nat → List (List Act) := fun t => (progs[t]?).getD []

theorem rel_init (progs : List (List (List Act))) (l0 : Nat → L) (m0 : Nat → D)
    (hne : ∀ calls ∈ progs, ∀ c ∈ calls, c ≠ []) : Rel (startState progs) (init (progsOf progs) l0 m0) := by
  constructor
  · intro i hi
    have hi' : i < progs.length := by simpa [startState] using hi
    have hget : progsOf progs i = progs[i] := by simp [progsOf, hi']
    simp only [init, startState, List.getElem_map, hget]
    refine ⟨by trivial, by trivial, ?_⟩
    intro c hc
    exact hne progs[i] (List.getElem_mem hi') c (List.mem_of_mem_tail hc)
  · intro i hi
    have hi' : progs.length ≤ i := by simpa [startState] using hi
    simp [init, progsOf, hi']

/-- when the writer-preferring machine has finished, the data machine finishes with at most one more
    return step per thread -/
theorem finish (S : Sem D L) {ls : List Lock.Thread} {ss : St D L} (hR : Rel ls ss) (hdone : ∀ th ∈ ls, th.prog = [])
    (n : Nat) (hn : n ≤ ls.length) :
    ∃ ss', Reach S ss ss' ∧ Rel ls ss' ∧ ∀ i, i < n → (ss'.th i).prog = [] := by
  induction n with
  | zero => exact ⟨ss, Reach.refl ss, hR, fun i hi => by omega⟩
  | succ n ih =>
    obtain ⟨ss1, hr1, hR1, hd1⟩ := ih (by omega)
    have hn' : n < ls.length := by omega
    obtain ⟨hh, hf, ht⟩ := hR1.1 n hn'
    rw [hdone _ (List.getElem_mem hn')] at hf
    cases hP : (ss1.th n).prog with
    | nil =>
      refine ⟨ss1, hr1, hR1, ?_⟩
      intro i hi
      by_cases e : i = n
      · subst e; exact hP
      · exact hd1 i (by omega)
    | cons c0 ps =>
      rw [hP] at hf ht
      have hc0 : c0 = [] := by
        cases c0 with
        | nil => rfl
        | cons a c => simp at hf
      subst hc0
      have hps : ps = [] := by
        cases ps with
        | nil => rfl
        | cons c1 ps' =>
          have := ht c1 (by simp)
          cases c1 with
          | nil => exact absurd rfl this
          | cons a c => simp at hf
      subst hps
      have hstep := Step.ret (S := S) ss1 n [] hP
      refine ⟨_, Reach.step hr1 hstep, ?_, ?_⟩
      · have : Rel (ls.set n ls[n])
            ({ ss1 with th := upd ss1.th n { ss1.th n with prog := [], pre := [], loc0 := (ss1.th n).loc, com := false } } : St D L) :=
          rel_set hR1 n hn' ls[n]
          { ss1.th n with prog := [], pre := [], loc0 := (ss1.th n).loc, com := false } rfl hh
          (by simp [hdone _ (List.getElem_mem hn')]) (by simp)
        simpa using this
      · intro i hi
        by_cases e : i = n
        · subst e; simp
        · simp only [upd_other _ _ _ _ e]; exact hd1 i (by omega)

/-- **Atomicity for the writer-preferring lock.** Whenever the writer-preferring machine runs a
    program of disciplined two-phase operations to completion, the data machine — for any semantics
    of reads and writes, any initial memory and local states — follows it step for step to a
    finished state whose memory and local results are those of running the operations one at a time
    in the order in which they took effect. -/
theorem serializable_wp (S : Sem D L) (progs : List (List (List Act))) (l0 : Nat → L) (m0 : Nat → D)
    (hp : ∀ calls ∈ progs, ∀ c ∈ calls, discA [] c = true ∧ twoPh c = true)
    (ls : List Lock.Thread) (hr : Lock.Reach (startState progs) ls) (hdone : ∀ th ∈ ls, th.prog = []) :
    ∃ ss : St D L, Reach S (init (progsOf progs) l0 m0) ss ∧ Rel ls ss ∧ (∀ t, (ss.th t).prog = []) ∧
      runSerial S { progs := progsOf progs, loc := l0, mem := m0 } ss.sched =
        { progs := fun _ => [], loc := fun t => (ss.th t).loc, mem := ss.mem } := by
  have hne : ∀ calls ∈ progs, ∀ c ∈ calls, c ≠ [] := by
    intro calls hc c hcc e
    have := (hp calls hc c hcc).2
    rw [e] at this
    simp [twoPh] at this
  have h0 : InitialA (startState progs) := startState_initialA progs (fun calls hc c hcc => (hp calls hc c hcc).1)
  obtain ⟨ss1, hr1, hR1⟩ := sim_reach S h0 (rel_init progs l0 m0 hne) hr
  obtain ⟨ss2, hr2, hR2, hd2⟩ := finish S hR1 hdone ls.length (Nat.le_refl _)
  have hall : ∀ t, (ss2.th t).prog = [] := by
    intro t
    by_cases ht : t < ls.length
    · exact hd2 t ht
    · exact (hR2.2 t (by omega)).2
  have hreach := reach_trans S hr1 hr2
  have hp' : ∀ t, ∀ c ∈ progsOf progs t, discA [] c = true ∧ twoPh c = true := by
    intro t c hc
    unfold progsOf at hc
    by_cases ht : t < progs.length
    · simp [ht] at hc
      exact hp progs[t] (List.getElem_mem ht) c hc
    · simp [ht] at hc
  exact ⟨ss2, hreach, hR2, hall, serializable S (progsOf progs) l0 m0 hp' ss2 hreach hall⟩

end
end Starcal.Serial
