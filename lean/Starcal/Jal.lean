namespace Starcal

/-- offset of the first day of cycle-year index n (0-based) inside a 2820-year cycle -/
def ys2820 (n : Int) : Int := 365 * n + (31 * n) / 128

/-- the year-in-cycle formula of jalali.JdTo (alg2820), for cyear ≠ 1029982 -/
def ycycle (cyear : Int) : Int :=
  let aux1 := cyear / 366
  let aux2 := cyear % 366
  (2134 * aux1 + 2816 * aux2 + 2815) / 1028522 + aux1 + 1

theorem ycycle_bracket (c : Int) (h0 : 0 ≤ c) (h1 : c < 1029982) :
    ys2820 (ycycle c - 1) ≤ c ∧ c < ys2820 (ycycle c) ∧ 1 ≤ ycycle c ∧ ycycle c ≤ 2820 := by
  unfold ycycle ys2820
  simp only []
  generalize ha1 : c / 366 = a1
  generalize ha2 : c % 366 = a2
  have hc : c = 366 * a1 + a2 := by omega
  have r2 : 0 ≤ a2 ∧ a2 < 366 := by omega
  have r1 : 0 ≤ a1 ∧ a1 ≤ 2814 := by omega
  have e1 : (2134 * a1 + 2816 * a2 + 2815) / 1028522 = (97 * a1 + 128 * a2 + 127) / 46751 := by omega
  rw [e1]
  generalize ht : (97 * a1 + 128 * a2 + 127) / 46751 = t
  have e2 : t + a1 = (128 * c + 127) / 46751 := by omega
  generalize hn : t + a1 = n at e2
  have hn' : n + 1 - 1 = n := by omega
  rw [hn']
  refine ⟨by omega, by omega, by omega, by omega⟩

/-- hijri arithmetic year formula -/
def hYearStart (y : Int) : Int := 354 * (y - 1) + (11 * y + 3) / 30
def hYear (n : Int) : Int := (30 * n + 10646) / 10631   -- n = jd - 1 - Epoch

theorem hYear_bracket (n : Int) : hYearStart (hYear n) ≤ n ∧ n < hYearStart (hYear n + 1) := by
  unfold hYearStart hYear
  generalize hy : (30 * n + 10646) / 10631 = y
  constructor <;> omega

end Starcal
