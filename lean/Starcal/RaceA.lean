import Starcal.LockProg
/-! Race freedom from the ACCESS discipline alone: `discA` is `disc` without the acquisition-order
    requirement (order matters for deadlocks, C17, not for data races, C16). -/
namespace Starcal.Lock

/-- access discipline: every access holds the set's lock in the required mode, releases match what
    is held, nothing is held at the end -/
def discA : List (Nat × Bool) → List Act → Bool
  | H, [] => H.isEmpty
  | H, .rlock x :: r => discA ((x, false) :: H) r
  | H, .wlock x :: r => discA ((x, true) :: H) r
  | H, .runlock x :: r => H.contains (x, false) && discA (H.erase (x, false)) r
  | H, .unlock x :: r => H.contains (x, true) && discA (H.erase (x, true)) r
  | H, .access x w :: r => (H.contains (x, true) || (!w && H.contains (x, false))) && discA H r

/-- the full discipline implies the access discipline -/
theorem discA_of_disc (H : List (Nat × Bool)) (l : List Act) (h : disc H l = true) : discA H l = true := by
  induction l generalizing H with
  | nil => simpa [disc, discA] using h
  | cons a r ih =>
    cases a <;> simp only [disc, discA, Bool.and_eq_true] at h ⊢
    · exact ih _ h.2
    · exact ⟨h.1, ih _ h.2⟩
    · exact ih _ h.2
    · exact ⟨h.1, ih _ h.2⟩
    · exact ⟨h.1, ih _ h.2⟩

def GoodA (th : Thread) : Prop :=
  if th.pend then ∃ x r, th.prog = .wlock x :: r ∧ discA ((x, true) :: th.held) r = true
  else discA th.held th.prog = true

theorem goodA_tstep {s : List Thread} {th th' : Thread} (hg : GoodA th) (ht : TStep s th th') : GoodA th' := by
  cases ht with
  | rlock hna =>
    unfold GoodA at hg ⊢; simp only [Bool.false_eq_true, if_false] at hg ⊢
    unfold discA at hg; exact hg
  | runlock =>
    unfold GoodA at hg ⊢; simp only [Bool.false_eq_true, if_false] at hg ⊢
    unfold discA at hg; rw [Bool.and_eq_true] at hg; exact hg.2
  | announce hna =>
    unfold GoodA at hg ⊢; simp only [Bool.false_eq_true, if_false, if_true] at hg ⊢
    unfold discA at hg
    exact ⟨_, _, rfl, hg⟩
  | acquire hnr =>
    unfold GoodA at hg ⊢; simp only [if_true, Bool.false_eq_true, if_false] at hg ⊢
    obtain ⟨x', r', e, hd⟩ := hg
    simp at e; obtain ⟨rfl, rfl⟩ := e
    exact hd
  | unlock =>
    unfold GoodA at hg ⊢; simp only [Bool.false_eq_true, if_false] at hg ⊢
    unfold discA at hg; rw [Bool.and_eq_true] at hg; exact hg.2
  | access =>
    unfold GoodA at hg ⊢; simp only [Bool.false_eq_true, if_false] at hg ⊢
    unfold discA at hg; rw [Bool.and_eq_true] at hg; exact hg.2

theorem goodA_preserved {s s' : List Thread} (hg : ∀ th ∈ s, GoodA th) (hs : Step s s') :
    ∀ th ∈ s', GoodA th := by
  obtain ⟨k, hk, th', ht, rfl⟩ := hs
  intro th hm
  rcases List.mem_or_eq_of_mem_set hm with h | h
  · exact hg th h
  · subst h; exact goodA_tstep (hg _ (List.getElem_mem hk)) ht

theorem accessA_needs {th : Thread} (hg : GoodA th) {x : Nat} {w : Bool} {r : List Act}
    (hp : th.prog = .access x w :: r) (hpend : th.pend = false) :
    (x, true) ∈ th.held ∨ (w = false ∧ (x, false) ∈ th.held) := by
  unfold GoodA at hg
  rw [hpend] at hg
  simp only [Bool.false_eq_true, if_false] at hg
  rw [hp] at hg
  unfold discA at hg
  rw [Bool.and_eq_true] at hg
  have := hg.1
  simp at this
  rcases this with h | ⟨h1, h2⟩
  · exact Or.inl h
  · exact Or.inr ⟨h1, h2⟩

theorem no_raceA (s : List Thread) (hg : ∀ th ∈ s, GoodA th) (hx : Excl s) : ¬ RaceNow s := by
  rintro ⟨i, j, hi, hj, hij, x, w1, w2, r1, r2, p1, p2, e1, e2, hw⟩
  have a1 := accessA_needs (hg _ (List.getElem_mem hi)) p1 e1
  have a2 := accessA_needs (hg _ (List.getElem_mem hj)) p2 e2
  rcases a1 with a1 | ⟨w1f, a1⟩ <;> rcases a2 with a2 | ⟨w2f, a2⟩
  · exact hx.1 i j hi hj x hij (Or.inl a1) (Or.inl a2)
  · exact hx.2 i j hi hj x a1 a2
  · exact hx.2 j i hj hi x a2 a1
  · rcases hw with h | h
    · rw [w1f] at h; simp at h
    · rw [w2f] at h; simp at h

theorem discA_append (a b : List Act) (H : List (Nat × Bool)) (ha : discA H a = true) (hb : discA [] b = true) :
    discA H (a ++ b) = true := by
  induction a generalizing H with
  | nil =>
    simp only [discA, List.isEmpty_iff] at ha
    subst ha; simpa using hb
  | cons x xs ih =>
    cases x <;> simp only [List.cons_append, discA, Bool.and_eq_true] at ha ⊢
    · exact ih _ ha
    · exact ⟨ha.1, ih _ ha.2⟩
    · exact ih _ ha
    · exact ⟨ha.1, ih _ ha.2⟩
    · exact ⟨ha.1, ih _ ha.2⟩

theorem discA_flatten (calls : List (List Act)) (h : ∀ c ∈ calls, discA [] c = true) :
    discA [] calls.flatten = true := by
  induction calls with
  | nil => simp [discA]
  | cons c cs ih =>
    simp only [List.flatten_cons]
    exact discA_append c _ [] (h c (by simp)) (ih (fun d hd => h d (List.mem_cons_of_mem _ hd)))

def InitialA (s0 : List Thread) : Prop :=
  ∀ th ∈ s0, th.held = [] ∧ th.pend = false ∧ discA [] th.prog = true

theorem initialA_excl {s0} (h : InitialA s0) : Excl s0 := by
  constructor
  · intro i j hi hj x _ wi _
    obtain ⟨h1, h2, _⟩ := h _ (List.getElem_mem hi)
    unfold writerish at wi; rw [h1, h2] at wi; simp at wi
  · intro i j hi hj x hw _
    obtain ⟨h1, _, _⟩ := h _ (List.getElem_mem hi)
    rw [h1] at hw; simp at hw

theorem reachA_inv {s0 s} (h0 : InitialA s0) (hr : Reach s0 s) : (∀ th ∈ s, GoodA th) ∧ Excl s := by
  induction hr with
  | refl =>
    refine ⟨?_, initialA_excl h0⟩
    intro th hm
    obtain ⟨h1, h2, h3⟩ := h0 th hm
    unfold GoodA; rw [h2, h1]; simpa using h3
  | step _ hs ih => exact ⟨goodA_preserved ih.1 hs, excl_preserved ih.2 hs⟩

/-- no reachable state of a program whose operations satisfy the access discipline has a data race -/
theorem reachA_no_race {s0 s} (h0 : InitialA s0) (hr : Reach s0 s) : ¬ RaceNow s :=
  no_raceA s (reachA_inv h0 hr).1 (reachA_inv h0 hr).2

theorem startState_initialA (progs : List (List (List Act)))
    (h : ∀ calls ∈ progs, ∀ c ∈ calls, discA [] c = true) : InitialA (startState progs) := by
  intro th hm
  unfold startState at hm
  obtain ⟨calls, hc, rfl⟩ := List.mem_map.mp hm
  exact ⟨rfl, rfl, discA_flatten calls (h calls hc)⟩

/-- the lock skeleton of an operation: its lock events without the accesses -/
def skeleton (l : List Act) : List Act :=
  l.filter (fun a => match a with | .access _ _ => false | _ => true)

end Starcal.Lock
