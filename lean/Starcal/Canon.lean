import Starcal.Ival
/-! Starcal: the output of the sweep is canonical (separated, non-empty), and canonical
    representations are unique. -/
namespace Starcal.Ival

/-- newest-first separation of the accumulator -/
def SepRev (out : List Interval) : Prop := List.Pairwise (fun a b => b.stop < a.start) out

theorem pos_le_of_le {a b : Point} (h : Point.le a b = true) : a.pos ≤ b.pos := by
  rw [le_iff] at h; omega

theorem end_lt_start_of_le {e q : Point} (he : e.isEnd = true) (hq : q.isEnd = false)
    (h : Point.le e q = true) : e.pos < q.pos := by
  rw [le_iff] at h
  have : rank q < rank e := by
    unfold rank; simp [he, hq]; split <;> split <;> omega
  omega

structure InvS (st : St) (Q : List Point) : Prop where
  stk_le : ∀ s ∈ st.1, ∀ q ∈ Q, s ≤ q.pos
  out_lt_start : ∀ i ∈ st.2, ∀ q ∈ Q, q.isEnd = false → i.stop < q.pos
  out_lt_stk : ∀ i ∈ st.2, ∀ s ∈ st.1, i.stop < s
  sep : SepRev st.2
  ord : ∀ i ∈ st.2, i.start ≤ i.stop

theorem sweep_sep (Q : List Point) (hs : Sorted Q) (st st' : St) (h : sweep Q st = some st')
    (inv : InvS st Q) : SepRev st'.2 ∧ ∀ i ∈ st'.2, i.start ≤ i.stop := by
  induction Q generalizing st with
  | nil =>
    simp [sweep] at h; subst h
    exact ⟨inv.sep, inv.ord⟩
  | cons p ps ih =>
    unfold Sorted at hs
    rw [List.pairwise_cons] at hs
    rw [sweep_cons] at h
    cases hstep : stepN st p with
    | none => simp [hstep] at h
    | some st1 =>
      simp [hstep] at h
      apply ih hs.2 st1 h
      unfold stepN at hstep
      split at hstep
      · rename_i hstart
        simp at hstep; subst hstep
        constructor
        · intro s hs' q hq
          simp at hs'
          rcases hs' with rfl | hs'
          · exact pos_le_of_le (hs.1 q hq)
          · exact inv.stk_le s hs' q (List.mem_cons_of_mem _ hq)
        · intro i hi q hq hqs
          exact inv.out_lt_start i hi q (List.mem_cons_of_mem _ hq) hqs
        · intro i hi s hs'
          simp at hs'
          rcases hs' with rfl | hs'
          · exact inv.out_lt_start i hi p (by simp) hstart
          · exact inv.out_lt_stk i hi s hs'
        · exact inv.sep
        · exact inv.ord
      · rename_i hend
        have hend' : p.isEnd = true := by cases hpe : p.isEnd <;> simp_all
        split at hstep
        · simp at hstep
        · rename_i s0 hst
          simp at hstep; subst hstep
          constructor
          · intro s hs'; simp at hs'
          · intro i hi q hq hqs
            simp at hi
            rcases hi with rfl | hi
            · exact end_lt_start_of_le hend' hqs (hs.1 q hq)
            · exact inv.out_lt_start i hi q (List.mem_cons_of_mem _ hq) hqs
          · intro i hi s hs'; simp at hs'
          · unfold SepRev
            rw [List.pairwise_cons]
            refine ⟨?_, inv.sep⟩
            intro i hi
            exact inv.out_lt_stk i hi s0 (by simp [hst])
          · intro i hi
            simp at hi
            rcases hi with rfl | hi
            · exact inv.stk_le s0 (by simp [hst]) p (by simp)
            · exact inv.ord i hi
        · rename_i t r rest hst
          simp at hstep; subst hstep
          constructor
          · intro s hs' q hq
            exact inv.stk_le s (by rw [hst]; exact List.mem_cons_of_mem _ hs') q (List.mem_cons_of_mem _ hq)
          · intro i hi q hq hqs
            exact inv.out_lt_start i hi q (List.mem_cons_of_mem _ hq) hqs
          · intro i hi s hs'
            exact inv.out_lt_stk i hi s (by rw [hst]; exact List.mem_cons_of_mem _ hs')
          · exact inv.sep
          · exact inv.ord

/-- separated in output order -/
def Sep (r : List Interval) : Prop := List.Pairwise (fun a b => a.stop < b.start) r

theorem norm_sep (l : List Interval) (r : List Interval) (hr : normalize l = some r) :
    Sep r ∧ ∀ i ∈ r, i.start ≤ i.stop := by
  unfold normalize at hr
  cases hF : sweep (sortPts (pointsOf 0 l)) ([], []) with
  | none => simp [hF] at hr
  | some stF =>
    simp [hF] at hr; subst hr
    have := sweep_sep _ (sorted_sortPts _) _ _ hF
      ⟨by simp, by simp, by simp, by simp [SepRev], by simp⟩
    refine ⟨?_, by simpa using this.2⟩
    unfold Sep
    rw [List.pairwise_reverse]
    exact this.1


/-! ### non-emptiness of the output, by the semantic argument -/

theorem mem_sortPts (x : Point) (X : List Point) : x ∈ sortPts X ↔ x ∈ X := by
  induction X with
  | nil => simp [sortPts]
  | cons p ps ih => simp [sortPts, mem_insertPt, ih]

theorem start_of_points {lid : Nat} {l : List Interval} {p : Point} (hp : p ∈ pointsOf lid l)
    (hs : p.isEnd = false) : ∃ I ∈ l, I.start = p.pos := by
  induction l with
  | nil => simp [pointsOf] at hp
  | cons i l ih =>
    simp only [pointsOf, List.mem_cons] at hp
    rcases hp with rfl | rfl | hp
    · exact ⟨i, by simp, rfl⟩
    · simp [endPt] at hs
    · obtain ⟨I, hI, e⟩ := ih hp
      exact ⟨I, List.mem_cons_of_mem _ hI, e⟩

theorem pairwise_trichotomy {α} {R : α → α → Prop} {l : List α} (h : List.Pairwise R l)
    {a b : α} (ha : a ∈ l) (hb : b ∈ l) : a = b ∨ R a b ∨ R b a := by
  induction l with
  | nil => simp at ha
  | cons x xs ih =>
    rw [List.pairwise_cons] at h
    rcases List.mem_cons.mp ha with rfl | ha' <;> rcases List.mem_cons.mp hb with rfl | hb'
    · exact Or.inl rfl
    · exact Or.inr (Or.inl (h.1 b hb'))
    · exact Or.inr (Or.inr (h.1 a ha'))
    · exact ih h.2 ha' hb'

def Canonical (r : List Interval) : Prop := Sep r ∧ ∀ i ∈ r, WFI i

theorem memH_start_of_WFI {i : Interval} (h : WFI i) : memH (2 * i.start) i := by
  unfold WFI at h; unfold memH
  rcases h with h | ⟨h1, h2⟩
  · exact ⟨by omega, Or.inl (by omega)⟩
  · exact ⟨by omega, Or.inr ⟨h2, by omega⟩⟩

theorem norm_canonical (l : List Interval) (hwf : ∀ i ∈ l, WFI i) (r : List Interval)
    (hr : normalize l = some r) : Canonical r := by
  have hord : ∀ i ∈ l, i.start ≤ i.stop := by
    intro i hi; have := hwf i hi; unfold WFI at this; omega
  obtain ⟨hsep, hle⟩ := norm_sep l r hr
  refine ⟨hsep, ?_⟩
  intro i hi
  have hile := hle i hi
  -- if i were empty it would be [a,a)
  cases Classical.em (WFI i) with
  | inl h => exact h
  | inr hnw =>
    exfalso
    have hie : i.start = i.stop ∧ i.closed = false := by
      unfold WFI at hnw
      cases hc : i.closed <;> simp [hc] at hnw ⊢ <;> omega
    -- i.start is the start of an input interval I
    have hstart : ∃ I ∈ l, I.start = i.start := by
      unfold normalize at hr
      cases hF : sweep (sortPts (pointsOf 0 l)) ([], []) with
      | none => simp [hF] at hr
      | some stF =>
        simp [hF] at hr; subst hr
        obtain ⟨E, hE, hiE, _⟩ := run_out _ _ _ hF
        simp at hE
        have : i ∈ E := by rw [← hE]; simpa using hi
        obtain ⟨_, hs⟩ := hiE i this
        rcases hs with hs | ⟨p, hp, hp1, hp2⟩
        · simp at hs
        · rw [mem_sortPts] at hp
          obtain ⟨I, hI, e⟩ := start_of_points hp hp1
          exact ⟨I, hI, by rw [e, hp2]⟩
    obtain ⟨I, hI, hIs⟩ := hstart
    have hmem : memL (2 * i.start) l := ⟨I, hI, by rw [← hIs]; exact memH_start_of_WFI (hwf I hI)⟩
    obtain ⟨k, hk, hkm⟩ := (norm_mem l hord r hr (2 * i.start)).mpr hmem
    unfold memH at hkm
    rcases pairwise_trichotomy hsep hk hi with rfl | h | h
    · rw [hie.2] at hkm; simp at hkm; omega
    · have := hle k hk; omega
    · omega

/-! ### canonical representations are unique -/

theorem not_mem_tail_of_mem_head {i : Interval} {a : List Interval} (hs : Sep (i :: a)) {h : Int}
    (hi : memH h i) : ¬ memL h a := by
  unfold Sep at hs; rw [List.pairwise_cons] at hs
  rintro ⟨k, hk, hkm⟩
  have := hs.1 k hk
  unfold memH at hi hkm
  omega

theorem head_start_le {i : Interval} {a : List Interval} (hc : Canonical (i :: a)) {h : Int}
    (hm : memL h (i :: a)) : 2 * i.start ≤ h := by
  obtain ⟨k, hk, hkm⟩ := hm
  rcases List.mem_cons.mp hk with rfl | hk
  · exact hkm.1
  · have hs := hc.1; unfold Sep at hs; rw [List.pairwise_cons] at hs
    have := hs.1 k hk
    have hw := hc.2 i (by simp); unfold WFI at hw
    unfold memH at hkm; omega

theorem canonical_tail {i : Interval} {a : List Interval} (hc : Canonical (i :: a)) : Canonical a := by
  obtain ⟨hs, hw⟩ := hc
  unfold Sep at hs; rw [List.pairwise_cons] at hs
  exact ⟨hs.2, fun k hk => hw k (List.mem_cons_of_mem _ hk)⟩

theorem canonical_unique (a b : List Interval) (ha : Canonical a) (hb : Canonical b)
    (heq : ∀ h, memL h a ↔ memL h b) : a = b := by
  induction a generalizing b with
  | nil =>
    cases b with
    | nil => rfl
    | cons j b' =>
      have := (heq (2 * j.start)).mpr ⟨j, by simp, memH_start_of_WFI (hb.2 j (by simp))⟩
      simp [memL] at this
  | cons i a' ih =>
    cases b with
    | nil =>
      have := (heq (2 * i.start)).mp ⟨i, by simp, memH_start_of_WFI (ha.2 i (by simp))⟩
      simp [memL] at this
    | cons j b' =>
      have hwi := ha.2 i (by simp)
      have hwj := hb.2 j (by simp)
      have hsa := ha.1; unfold Sep at hsa; rw [List.pairwise_cons] at hsa
      have hsb := hb.1; unfold Sep at hsb; rw [List.pairwise_cons] at hsb
      -- starts agree
      have h1 := head_start_le hb ((heq _).mp ⟨i, by simp, memH_start_of_WFI hwi⟩)
      have h2 := head_start_le ha ((heq _).mpr ⟨j, by simp, memH_start_of_WFI hwj⟩)
      have hstart : i.start = j.start := by omega
      -- a lattice point of the union that lies in neither tail decides membership in the heads
      have key : ∀ h, (∀ k ∈ a', h < 2 * k.start) → (∀ k ∈ b', h < 2 * k.start) →
          (memH h i ↔ memH h j) := by
        intro h hA hB
        have e := heq h
        constructor
        · intro hm
          obtain ⟨k, hk, hkm⟩ := e.mp ⟨i, by simp, hm⟩
          rcases List.mem_cons.mp hk with rfl | hk
          · exact hkm
          · have := hB k hk; unfold memH at hkm; omega
        · intro hm
          obtain ⟨k, hk, hkm⟩ := e.mpr ⟨j, by simp, hm⟩
          rcases List.mem_cons.mp hk with rfl | hk
          · exact hkm
          · have := hA k hk; unfold memH at hkm; omega
      unfold WFI at hwi hwj
      -- stops agree
      have hstop : i.stop = j.stop := by
        rcases Int.lt_trichotomy i.stop j.stop with hlt | heq' | hgt
        · exfalso
          have hk := key (2 * i.stop + 1)
            (fun k hk => by have := hsa.1 k hk; omega)
            (fun k hk => by have := hsb.1 k hk; omega)
          have : memH (2 * i.stop + 1) j := ⟨by omega, Or.inl (by omega)⟩
          have := hk.mpr this
          unfold memH at this; omega
        · exact heq'
        · exfalso
          have hk := key (2 * j.stop + 1)
            (fun k hk => by have := hsa.1 k hk; omega)
            (fun k hk => by have := hsb.1 k hk; omega)
          have : memH (2 * j.stop + 1) i := ⟨by omega, Or.inl (by omega)⟩
          have := hk.mp this
          unfold memH at this; omega
      -- end kinds agree
      have hclosed : i.closed = j.closed := by
        have hk := key (2 * i.stop)
          (fun k hk => by have := hsa.1 k hk; omega)
          (fun k hk => by have := hsb.1 k hk; omega)
        unfold memH at hk
        cases hci : i.closed <;> cases hcj : j.closed <;> simp [hci, hcj] at hk ⊢ <;> omega
      have hij : i = j := by
        rcases i with ⟨_, _, _⟩; rcases j with ⟨_, _, _⟩; simp_all
      subst hij
      congr 1
      apply ih b' (canonical_tail ha) (canonical_tail hb)
      intro h
      constructor
      · intro hm
        obtain ⟨k, hk, hkm⟩ := (heq h).mp (by obtain ⟨k, hk, hkm⟩ := hm; exact ⟨k, List.mem_cons_of_mem _ hk, hkm⟩)
        rcases List.mem_cons.mp hk with rfl | hk
        · exact absurd hm (not_mem_tail_of_mem_head ha.1 hkm)
        · exact ⟨k, hk, hkm⟩
      · intro hm
        obtain ⟨k, hk, hkm⟩ := (heq h).mpr (by obtain ⟨k, hk, hkm⟩ := hm; exact ⟨k, List.mem_cons_of_mem _ hk, hkm⟩)
        rcases List.mem_cons.mp hk with rfl | hk
        · exact absurd hm (not_mem_tail_of_mem_head hb.1 hkm)
        · exact ⟨k, hk, hkm⟩

/-- C05 corollaries: the result depends only on the denoted set; idempotence -/
theorem norm_depends_on_set (l1 l2 r1 r2 : List Interval) (h1 : ∀ i ∈ l1, WFI i) (h2 : ∀ i ∈ l2, WFI i)
    (hr1 : normalize l1 = some r1) (hr2 : normalize l2 = some r2)
    (heq : ∀ h, memL h l1 ↔ memL h l2) : r1 = r2 := by
  have o1 : ∀ i ∈ l1, i.start ≤ i.stop := fun i hi => by have := h1 i hi; unfold WFI at this; omega
  have o2 : ∀ i ∈ l2, i.start ≤ i.stop := fun i hi => by have := h2 i hi; unfold WFI at this; omega
  apply canonical_unique _ _ (norm_canonical l1 h1 r1 hr1) (norm_canonical l2 h2 r2 hr2)
  intro h
  rw [norm_mem l1 o1 r1 hr1, norm_mem l2 o2 r2 hr2]; exact heq h

theorem norm_idem (l r : List Interval) (h1 : ∀ i ∈ l, WFI i) (hr : normalize l = some r) :
    normalize r = some r := by
  have hc := norm_canonical l h1 r hr
  have o : ∀ i ∈ r, i.start ≤ i.stop := fun i hi => by have := hc.2 i hi; unfold WFI at this; omega
  obtain ⟨r', hr'⟩ := norm_ok r o
  rw [hr']
  congr 1
  exact norm_depends_on_set r l r' r hc.2 h1 hr' hr (fun h =>
    norm_mem l (fun i hi => by have := h1 i hi; unfold WFI at this; omega) r hr h)

end Starcal.Ival
