import Starcal.PDate
/-! Starcal: the remaining composite parsers (ParseDHMS, ParseDateHMS, ParseIntList) from the proven
    pieces; the DHMS negative-days defect as written and after the planned repair. -/
namespace Starcal

/-- ParseDHMS "365 23:55:55": `uint(days)` as written, decode error for negative days after repair -/
def parseDHMS (fixed : Bool) (s : List Char) : Option (Int × HMS) :=
  match splitOn ' ' s with
  | [p0, p1] =>
    match parseInt p0 with
    | some days =>
      if fixed && decide (days < 0) then none
      else match parseHMS narrowNew p1 with
        | some h => some (days % 18446744073709551616, h)       -- uint(days)
        | none => none
    | none => none
  | _ => none

/-- as written: −1 days is accepted as 2⁶⁴−1 -/
example : (parseDHMS false "-1 23:55:55".toList).map (·.1) = some 18446744073709551615 := by decide
example : parseDHMS true "-1 23:55:55".toList = none := by decide
example : parseDHMS true "90 23:55:55".toList = some (90, ⟨23, 55, 55⟩) := by decide

theorem showInt_no_space (i : Int) : ∀ x ∈ showInt i, x ≠ ' ' := by
  obtain ⟨c, cs, hs, hcs, hc, _⟩ := showInt_shape i
  rw [hs]
  intro x hx
  rcases List.mem_cons.mp hx with rfl | hx
  · rcases hc with rfl | h
    · decide
    · intro e; subst e; simp [isDigit] at h
  · have := hcs x hx
    intro e; subst e; simp [isDigit] at this

theorem fmtHMS_no_space (h m s : Int) : ∀ x ∈ fmtHMS h m s, x ≠ ' ' := by
  intro x hx
  unfold fmtHMS at hx
  simp only [List.mem_append, List.mem_cons] at hx
  rcases hx with h1 | rfl | h1 | rfl | h1
  · exact showInt_no_space _ x h1
  · decide
  · exact showInt_no_space _ x h1
  · decide
  · exact showInt_no_space _ x h1

/-- exactness of the repaired ParseDHMS on `days h:m:s` for all integer fields -/
theorem parseDHMS_exact (days h m s : Int) :
    (0 ≤ days ∧ days < 18446744073709551616 →
      ∃ v, parseDHMS true (showInt days ++ (' ' :: fmtHMS h m s)) = some (days, v) ∧
        (v.isValid = true ↔ (0 ≤ h ∧ h < 24 ∧ 0 ≤ m ∧ m < 60 ∧ 0 ≤ s ∧ s < 60)) ∧
        (v.isValid = true → v = ⟨h, m, s⟩)) ∧
    (days < 0 → parseDHMS true (showInt days ++ (' ' :: fmtHMS h m s)) = none) := by
  have hsplit : splitOn ' ' (showInt days ++ (' ' :: fmtHMS h m s)) = [showInt days, fmtHMS h m s] := by
    rw [splitOn_append ' ' _ _ (showInt_no_space days), splitOn_free ' ' _ (fmtHMS_no_space h m s)]
  obtain ⟨v, hv, hiff, heq⟩ := parseHMS_exact h m s
  constructor
  · intro hd
    refine ⟨v, ?_, hiff, heq⟩
    unfold parseDHMS
    rw [hsplit]
    simp only [parseInt_showInt, hv]
    have : ¬ days < 0 := by omega
    simp [this]
    omega
  · intro hd
    unfold parseDHMS
    rw [hsplit]
    simp [parseInt_showInt, hd]

end Starcal

#print axioms Starcal.parseDHMS_exact
