import Starcal.Drv.Cal
import Starcal.Gen.CalMeta
/-! The name-based API of cal_types (GetCalType / Convert / ToJd / JdTo) and the two package
    switches (hijri.SetUseMonthData, jalali.SetAlgorithm2820), over the regenerated registry. -/
namespace Starcal.ByName
open Starcal.Drv

inductive Res (α : Type) where
  | ok (a : α) | err | panic
deriving Repr, DecidableEq

/-- package state: `useMonthData`, `monthData != nil`, `alg2820` -/
structure Cfg where
  useTable : Bool
  loaded : Bool
  alg2820 : Bool
deriving DecidableEq, Repr

inductive Toggle where
  | M0 | M1 | A0 | A1
deriving DecidableEq, Repr

/-- SetUseMonthData(false/true) loads the table on first use; SetAlgorithm2820(false/true) -/
def step (c : Cfg) : Toggle → Cfg
  | .M0 => { c with useTable := false }
  | .M1 => { c with useTable := true, loaded := true }
  | .A0 => { c with alg2820 := false }
  | .A1 => { c with alg2820 := true }

/-- the state before `init()` runs: `useMonthData = true`, `monthData = nil`, `alg2820 = false` -/
def preInit : Cfg := ⟨true, false, false⟩
/-- the default state: hijri's `init()` calls `SetUseMonthData(useMonthData)` (the `fix:` commit) -/
def init : Cfg := step preInit .M1

/-- a table-mode hijri call with no table loaded dereferences nil -/
def Inv (c : Cfg) : Prop := c.useTable = true → c.loaded = true
instance (c : Cfg) : Decidable (Inv c) := by unfold Inv; infer_instance

/-- the calendar implementation a package provides in a given state -/
def calByPkg (c : Cfg) : String → Option Cal
  | "ethiopian" => some calEth
  | "gregorian" => some calGreg
  | "gregorian_proleptic" => some calGprol
  | "hijri" => some (if c.useTable then calHijT else calHijA)
  | "indian_national" => some calInd
  | "jalali" => some (if c.alg2820 then calJal2820 else calJal33)
  | "julian" => some calJul
  | _ => none

/-- CalTypesMap: RegisterCalType in order, a later entry with the same name replaces -/
def lookupPkg (n : String) : Option String :=
  Gen.calMetas.foldl (fun acc c => if c.name = n then some c.pkg else acc) none

def getCal (c : Cfg) (n : String) : Option Cal := (lookupPkg n).bind (calByPkg c)

def usesHijri (n : String) : Bool := lookupPkg n == some "hijri"

/-- does a call into the calendar registered as `n` dereference the nil table? -/
def panics (c : Cfg) (n : String) : Bool := usesHijri n && c.useTable && !c.loaded

/-- cal_types.Convert -/
def convert (c : Cfg) (t : Int × Int × Int) (src dst : String) : Res (Int × Int × Int) :=
  match getCal c src, getCal c dst with
  | some f, some g =>
    if panics c src || panics c dst then .panic else .ok (g.jdTo (f.toJd t.1 t.2.1 t.2.2))
  | _, _ => .err

/-- cal_types.ToJd / cal_types.JdTo -/
def toJdByName (c : Cfg) (t : Int × Int × Int) (n : String) : Res Int :=
  match getCal c n with
  | some f => if panics c n then .panic else .ok (f.toJd t.1 t.2.1 t.2.2)
  | none => .err
def jdToByName (c : Cfg) (jd : Int) (n : String) : Res (Int × Int × Int) :=
  match getCal c n with
  | some f => if panics c n then .panic else .ok (f.jdTo jd)
  | none => .err

def run (hist : List Toggle) : Cfg := hist.foldl step init

end Starcal.ByName
