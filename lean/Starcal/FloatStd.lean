import Starcal.FHour
/-! Starcal.FloatStd: the float64 code of the time-of-day functions (hms.go) under the STANDARD MODEL of floating-point
    arithmetic instead of exact rationals. Every float operation is the exact operation followed by a rounding
    function `rnd`; nothing is assumed about `rnd` except (a) relative error at most 2^-53 on the non-negative range
    that occurs and (b) exactness on integers and half-integers below 2^53 — both hold of IEEE-754 binary64 with
    round-to-nearest (no overflow, no underflow in this range); that Go's float64 is such an arithmetic is ASSUMED
    (the language specification says so), not proved. The theorems are for EVERY such `rnd`: the round-trip clause
    of C18 for all 86 400 valid times, and the one-second bound for every fractional hour in [0, 24) — with the
    multiplication and addition of `fh*3600 + 0.5` rounded separately (amd64) or fused (arm64, ppc64, s390x). -/
namespace Starcal.FloatStd
open Starcal.FHour

def u : Rat := 1 / 9007199254740992      -- 2^-53

structure StdModel (rnd : Rat → Rat) : Prop where
  rel : ∀ x : Rat, 0 ≤ x → x ≤ 1099511627776 → rnd x - x ≤ x * u ∧ x - rnd x ≤ x * u
  rel_neg : ∀ x : Rat, x ≤ 0 → -1099511627776 ≤ x → rnd x - x ≤ -x * u ∧ x - rnd x ≤ -x * u
  exact_half : ∀ n : Int, -9007199254740992 < n → n < 9007199254740992 → rnd ((n : Rat) / 2) = (n : Rat) / 2

def floatHourR (rnd : Rat → Rat) (x : HMS) : Rat :=
  rnd (rnd ((x.hour : Rat) + rnd ((x.minute : Rat) / 60)) + rnd ((x.second : Rat) / 3600))

def ofFloatHourR (rnd : Rat → Rat) (q : Rat) : HMS :=
  let total := (rnd (rnd (q * 3600) + 1 / 2)).floor
  ⟨total / 3600, total / 60 % 60, total % 60⟩

/-- absolute form of the error bound on [0, B] -/
theorem StdModel.abs_err {rnd : Rat → Rat} (h : StdModel rnd) (x B : Rat) (h0 : 0 ≤ x) (hB : x ≤ B) (hB' : B ≤ 1099511627776) :
    rnd x - x ≤ B * u ∧ x - rnd x ≤ B * u := by
  have := h.rel x h0 (by grind)
  have hu : 0 < u := by unfold u; grind
  have : x * u ≤ B * u := by
    have := Rat.mul_le_mul_of_nonneg_right hB (Rat.le_of_lt hu)
    exact this
  grind

/-- absolute form on [-B, B] -/
theorem StdModel.abs_err_signed {rnd : Rat → Rat} (h : StdModel rnd) (x B : Rat) (h0 : -B ≤ x) (hB : x ≤ B) (hB' : B ≤ 1099511627776) :
    rnd x - x ≤ B * u ∧ x - rnd x ≤ B * u := by
  have hu : 0 < u := by unfold u; grind
  by_cases hx : 0 ≤ x
  · exact h.abs_err x B hx hB hB'
  · have := h.rel_neg x (by grind) (by grind)
    have : -x * u ≤ B * u := Rat.mul_le_mul_of_nonneg_right (by grind) (Rat.le_of_lt hu)
    grind

theorem StdModel.nonneg {rnd : Rat → Rat} (h : StdModel rnd) (x : Rat) (h0 : 0 ≤ x) (hB : x ≤ 1099511627776) : 0 ≤ rnd x := by
  have := h.rel x h0 hB
  have hu : u ≤ 1 := by unfold u; grind
  have : x * u ≤ x * 1 := Rat.mul_le_mul_of_nonneg_left hu h0
  grind

theorem floatHourR_close (rnd : Rat → Rat) (h : StdModel rnd) (x : HMS) (hv : valid x) :
    floatHourR rnd x - floatHour x ≤ 60 * u ∧ floatHour x - floatHourR rnd x ≤ 60 * u ∧ 0 ≤ floatHourR rnd x := by
  obtain ⟨h0, h1, m0, m1, s0, s1⟩ := hv
  have H0 : (0 : Rat) ≤ (x.hour : Rat) := by exact_mod_cast h0
  have H1 : (x.hour : Rat) ≤ 23 := by exact_mod_cast (show x.hour ≤ 23 by omega)
  have M0 : (0 : Rat) ≤ (x.minute : Rat) := by exact_mod_cast m0
  have M1 : (x.minute : Rat) ≤ 59 := by exact_mod_cast (show x.minute ≤ 59 by omega)
  have S0 : (0 : Rat) ≤ (x.second : Rat) := by exact_mod_cast s0
  have S1 : (x.second : Rat) ≤ 59 := by exact_mod_cast (show x.second ≤ 59 by omega)
  have hu : 0 < u := by unfold u; grind
  unfold floatHourR floatHour
  generalize ha : (x.minute : Rat) / 60 = a
  have a0 : 0 ≤ a ∧ a ≤ 1 := by grind
  have ea := h.abs_err a 1 a0.1 a0.2 (by grind)
  generalize hra : rnd a = ra at *
  generalize hb : (x.hour : Rat) + ra = b
  have ra0 : 0 ≤ ra := by rw [← hra]; exact h.nonneg a a0.1 (by grind)
  have b0 : 0 ≤ b ∧ b ≤ 25 := by
    have : u ≤ 1 := by unfold u; grind
    grind
  have eb := h.abs_err b 25 b0.1 b0.2 (by grind)
  generalize hrb : rnd b = rb at *
  generalize hc : (x.second : Rat) / 3600 = c
  have c0 : 0 ≤ c ∧ c ≤ 1 := by grind
  have ec := h.abs_err c 1 c0.1 c0.2 (by grind)
  generalize hrc : rnd c = rc at *
  have rb0 : 0 ≤ rb := by rw [← hrb]; exact h.nonneg b b0.1 (by grind)
  have rc0 : 0 ≤ rc := by rw [← hrc]; exact h.nonneg c c0.1 (by grind)
  have d0 : 0 ≤ rb + rc ∧ rb + rc ≤ 28 := by
    have : u ≤ 1 / 100 := by unfold u; grind
    grind
  have ed := h.abs_err (rb + rc) 28 d0.1 d0.2 (by grind)
  have rd0 := h.nonneg (rb + rc) d0.1 (by grind)
  grind

/-- the rounded `floor(fh*3600 + 0.5)` stays within 10^-9 of the exact `fh*3600 + 0.5`, for 0 ≤ fh ≤ 25 -/
theorem total_close (rnd : Rat → Rat) (h : StdModel rnd) (q : Rat) (q0 : 0 ≤ q) (q1 : q ≤ 25) :
    rnd (rnd (q * 3600) + 1 / 2) - (q * 3600 + 1 / 2) ≤ 200000 * u ∧
    (q * 3600 + 1 / 2) - rnd (rnd (q * 3600) + 1 / 2) ≤ 200000 * u := by
  have hu : 0 < u := by unfold u; grind
  have a0 : 0 ≤ q * 3600 ∧ q * 3600 ≤ 90000 := by grind
  have ea := h.abs_err (q * 3600) 90000 a0.1 a0.2 (by grind)
  have ra0 := h.nonneg (q * 3600) a0.1 (by grind)
  generalize rnd (q * 3600) = ra at *
  have b0 : 0 ≤ ra + 1 / 2 ∧ ra + 1 / 2 ≤ 90002 := by
    have : u ≤ 1 / 100000 := by unfold u; grind
    grind
  have eb := h.abs_err (ra + 1 / 2) 90002 b0.1 b0.2 (by grind)
  grind

theorem floor_eq_of (p : Rat) (t : Int) (h0 : (t : Rat) ≤ p) (h1 : p < (t : Rat) + 1) : p.floor = t := by
  have a : t ≤ p.floor := Rat.le_floor_iff.mpr h0
  have b : p.floor < t + 1 := by
    rw [Rat.floor_lt_iff]
    have : ((t + 1 : Int) : Rat) = (t : Rat) + 1 := by simp [Rat.intCast_add]
    rw [this]; exact h1
  omega

/-- C18, round-trip clause, for the float code under the standard model: every valid time converts to a fractional
    hour and back to itself (all 86 400 of them), whatever the rounding function, as long as every operation has
    relative error at most 2^-53 -/
theorem roundtrip_std (rnd : Rat → Rat) (h : StdModel rnd) (x : HMS) (hv : valid x) :
    ofFloatHourR rnd (floatHourR rnd x) = x := by
  have hc := floatHourR_close rnd h x hv
  have hs := floatHour_seconds x
  have hu : u = 1 / 9007199254740992 := rfl
  have hT0 : 0 ≤ totalSeconds x := by unfold totalSeconds valid at *; omega
  have hT1 : totalSeconds x ≤ 86399 := by unfold totalSeconds valid at *; omega
  have c0 : (0 : Rat) ≤ ((totalSeconds x : Int) : Rat) := by exact_mod_cast hT0
  have c1 : ((totalSeconds x : Int) : Rat) ≤ ((86399 : Int) : Rat) := Rat.intCast_le_intCast.mpr hT1
  simp only [Rat.intCast_ofNat] at c1
  generalize hq : floatHourR rnd x = q at *
  have fh24 : floatHour x ≤ 24 := by grind
  have fh0 : 0 ≤ floatHour x := by grind
  have u60 : 60 * u ≤ 1 / 1000000000 := by unfold u; grind
  have q0 : 0 ≤ q ∧ q ≤ 25 := ⟨hc.2.2, by grind⟩
  have ht := total_close rnd h q q0.1 q0.2
  have u2 : 200000 * u ≤ 1 / 1000000000 := by unfold u; grind
  have hf : (rnd (rnd (q * 3600) + 1 / 2)).floor = totalSeconds x := by
    apply floor_eq_of <;> grind
  unfold ofFloatHourR
  simp only [hf]
  rcases x with ⟨a, b, c⟩
  unfold valid at hv
  simp only at hv
  unfold totalSeconds
  simp only
  congr 1 <;> omega

/-- C18, last clause, for the float code under the standard model: for any fractional hour 0 ≤ fh < 24 the time
    returned is within one second of it (in fact within half a second plus 10^-10) -/
theorem within_one_second_std (rnd : Rat → Rat) (h : StdModel rnd) (q : Rat) (q0 : 0 ≤ q) (q1 : q < 24) :
    let t := (rnd (rnd (q * 3600) + 1 / 2)).floor
    ((t : Int) : Rat) - q * 3600 < 1 ∧ q * 3600 - ((t : Int) : Rat) < 1 ∧ 0 ≤ t ∧ t ≤ 86400 := by
  simp only
  have u2 : 200000 * u ≤ 1 / 1000000000 := by unfold u; grind
  have ht := total_close rnd h q q0 (by grind)
  have h1 := Rat.floor_le (rnd (rnd (q * 3600) + 1 / 2))
  have h2 := Rat.lt_floor_add_one (rnd (rnd (q * 3600) + 1 / 2))
  have e : (((rnd (rnd (q * 3600) + 1 / 2)).floor + 1 : Int) : Rat) = ((rnd (rnd (q * 3600) + 1 / 2)).floor : Rat) + 1 := by
    simp [Rat.intCast_add]
  rw [e] at h2
  have g0 : 0 ≤ (rnd (rnd (q * 3600) + 1 / 2)).floor := by
    rw [Rat.le_floor_iff]; simp only [Rat.intCast_zero]; grind
  have g1 : (rnd (rnd (q * 3600) + 1 / 2)).floor < 86401 := by
    rw [Rat.floor_lt_iff]; simp only [Rat.intCast_ofNat]; grind
  generalize rnd (rnd (q * 3600) + 1 / 2) = p at *
  generalize (p.floor : Rat) = f at *
  refine ⟨by grind, by grind, g0, by omega⟩

/-! ### the same with a fused multiply-add (one rounding for `fh*3600 + 0.5`), as the Go compiler emits on arm64, ppc64, s390x -/

def ofFloatHourFMA (rnd : Rat → Rat) (q : Rat) : HMS :=
  let total := (rnd (q * 3600 + 1 / 2)).floor
  ⟨total / 3600, total / 60 % 60, total % 60⟩

theorem total_close_fma (rnd : Rat → Rat) (h : StdModel rnd) (q : Rat) (q0 : 0 ≤ q) (q1 : q ≤ 25) :
    rnd (q * 3600 + 1 / 2) - (q * 3600 + 1 / 2) ≤ 200000 * u ∧ (q * 3600 + 1 / 2) - rnd (q * 3600 + 1 / 2) ≤ 200000 * u := by
  have hu : 0 < u := by unfold u; grind
  have a0 : 0 ≤ q * 3600 + 1 / 2 ∧ q * 3600 + 1 / 2 ≤ 90001 := by grind
  have ea := h.abs_err (q * 3600 + 1 / 2) 90001 a0.1 a0.2 (by grind)
  grind

theorem roundtrip_std_fma (rnd : Rat → Rat) (h : StdModel rnd) (x : HMS) (hv : valid x) :
    ofFloatHourFMA rnd (floatHourR rnd x) = x := by
  have hc := floatHourR_close rnd h x hv
  have hs := floatHour_seconds x
  have hT0 : 0 ≤ totalSeconds x := by unfold totalSeconds valid at *; omega
  have hT1 : totalSeconds x ≤ 86399 := by unfold totalSeconds valid at *; omega
  have c0 : (0 : Rat) ≤ ((totalSeconds x : Int) : Rat) := by exact_mod_cast hT0
  have c1 : ((totalSeconds x : Int) : Rat) ≤ ((86399 : Int) : Rat) := Rat.intCast_le_intCast.mpr hT1
  simp only [Rat.intCast_ofNat] at c1
  generalize hq : floatHourR rnd x = q at *
  have fh24 : floatHour x ≤ 24 := by grind
  have fh0 : 0 ≤ floatHour x := by grind
  have u60 : 60 * u ≤ 1 / 1000000000 := by unfold u; grind
  have q0 : 0 ≤ q ∧ q ≤ 25 := ⟨hc.2.2, by grind⟩
  have ht := total_close_fma rnd h q q0.1 q0.2
  have u2 : 200000 * u ≤ 1 / 1000000000 := by unfold u; grind
  have hf : (rnd (q * 3600 + 1 / 2)).floor = totalSeconds x := by
    apply floor_eq_of <;> grind
  unfold ofFloatHourFMA
  simp only [hf]
  rcases x with ⟨a, b, c⟩
  unfold valid at hv
  simp only at hv
  unfold totalSeconds
  simp only
  congr 1 <;> omega

/-- the hypotheses are satisfiable (exact arithmetic is an instance); that IEEE-754 binary64 round-to-nearest is an
    instance on this range is the standard result about floating-point arithmetic (no overflow or underflow occurs
    below 2^40 and above 2^-1022) and is ASSUMED, not proved -/
example : StdModel id := ⟨fun x h0 _ => by
  have : 0 ≤ x * u := Rat.mul_nonneg h0 (by unfold u; grind)
  simp only [id]; grind, fun x h0 _ => by
  have : 0 ≤ -x * u := Rat.mul_nonneg (by grind) (by unfold u; grind)
  simp only [id]; grind, fun _ _ _ => rfl⟩

end Starcal.FloatStd
