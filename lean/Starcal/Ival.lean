/-! Starcal: faithful model of interval.Normalize (GetPointList + Sort + GetIntervalList)
    and the "cut" proof that it preserves the denoted set. -/
namespace Starcal.Ival

structure Interval where
  start : Int
  stop : Int
  closed : Bool
deriving DecidableEq, Repr

structure Point where
  pos : Int
  isEnd : Bool
  closed : Bool
  lid : Nat
deriving DecidableEq, Repr

/-- IntervalPointList.Less, interval.go:168-189 -/
def Point.less (a b : Point) : Bool :=
  if a.pos ≠ b.pos then decide (a.pos < b.pos)
  else if a.isEnd ≠ b.isEnd then b.isEnd
  else if a.closed ≠ b.closed then (if a.isEnd then b.closed else a.closed)
  else if a.lid ≠ b.lid then decide (a.lid < b.lid)
  else false

def Point.le (a b : Point) : Bool := !Point.less b a

/-- membership of the half-integer lattice point h/2 -/
def memH (h : Int) (i : Interval) : Prop :=
  2 * i.start ≤ h ∧ (h < 2 * i.stop ∨ (i.closed = true ∧ h = 2 * i.stop))

instance (h : Int) (i : Interval) : Decidable (memH h i) := by unfold memH; infer_instance

def memL (h : Int) (l : List Interval) : Prop := ∃ i ∈ l, memH h i

def WFI (i : Interval) : Prop := i.start < i.stop ∨ (i.start = i.stop ∧ i.closed = true)

/-- a point is "before" the lattice value h -/
def before (h : Int) (p : Point) : Bool :=
  if p.isEnd && p.closed then decide (2 * p.pos < h) else decide (2 * p.pos ≤ h)

def startPt (i : Interval) (lid : Nat) : Point := ⟨i.start, false, true, lid⟩
def endPt (i : Interval) (lid : Nat) : Point := ⟨i.stop, true, i.closed, lid⟩

/-- GetPointList -/
def pointsOf (lid : Nat) : List Interval → List Point
  | [] => []
  | i :: l => startPt i lid :: endPt i lid :: pointsOf lid l

def insertPt (p : Point) : List Point → List Point
  | [] => [p]
  | q :: qs => if Point.le p q then p :: q :: qs else q :: insertPt p qs

def sortPts : List Point → List Point
  | [] => []
  | p :: ps => insertPt p (sortPts ps)

abbrev St := List Int × List Interval

/-- one iteration of the loop in GetIntervalList (stack head = top) -/
def stepN (st : St) (p : Point) : Option St :=
  if p.isEnd = false then some (p.pos :: st.1, st.2)
  else match st.1 with
    | [] => none
    | [s] => some ([], ⟨s, p.pos, p.closed⟩ :: st.2)
    | _ :: r :: rest => some (r :: rest, st.2)

def sweep (ps : List Point) (st : St) : Option St := ps.foldlM stepN st

def normalize (l : List Interval) : Option (List Interval) :=
  (sweep (sortPts (pointsOf 0 l)) ([], [])).map (fun st => st.2.reverse)

/-! ### order facts -/

theorem before_mono (h : Int) (a b : Point) (hab : Point.le a b = true) (hb : before h b = true) :
    before h a = true := by
  unfold Point.le Point.less at hab
  unfold before at *
  rcases a with ⟨ap, ae, ac, al⟩
  rcases b with ⟨bp, be, bc, bl⟩
  simp only at *
  by_cases hp : bp = ap
  · subst hp
    cases ae <;> cases ac <;> cases be <;> cases bc <;> simp at hab hb ⊢ <;> omega
  · have hp' : ¬ ap = bp := fun h => hp h.symm
    simp [hp] at hab
    have hlt : ap < bp := by omega
    cases ae <;> cases ac <;> cases be <;> cases bc <;> simp at hb ⊢ <;> omega

theorem le_total (a b : Point) : Point.le a b = true ∨ Point.le b a = true := by
  unfold Point.le Point.less
  rcases a with ⟨ap, ae, ac, al⟩
  rcases b with ⟨bp, be, bc, bl⟩
  simp only
  by_cases hp : ap = bp
  · subst hp
    cases ae <;> cases ac <;> cases be <;> cases bc <;> simp <;> omega
  · have : bp ≠ ap := fun h => hp h.symm
    simp [hp, this]; omega


/-! ### the order is a lexicographic order on (pos, rank, lid) -/

def rank (p : Point) : Int :=
  if p.isEnd then (if p.closed then 3 else 2) else (if p.closed then 0 else 1)

theorem less_iff (a b : Point) :
    Point.less a b = true ↔
      a.pos < b.pos ∨ (a.pos = b.pos ∧ (rank a < rank b ∨ (rank a = rank b ∧ a.lid < b.lid))) := by
  unfold Point.less rank
  rcases a with ⟨ap, ae, ac, al⟩
  rcases b with ⟨bp, be, bc, bl⟩
  simp only
  by_cases hp : ap = bp
  · subst hp
    cases ae <;> cases ac <;> cases be <;> cases bc <;> simp <;> omega
  · simp [hp]

theorem le_iff (a b : Point) :
    Point.le a b = true ↔
      ¬ (b.pos < a.pos ∨ (b.pos = a.pos ∧ (rank b < rank a ∨ (rank b = rank a ∧ b.lid < a.lid)))) := by
  unfold Point.le
  rw [← less_iff]
  cases Point.less b a <;> simp

theorem le_trans {a b c : Point} (h1 : Point.le a b = true) (h2 : Point.le b c = true) :
    Point.le a c = true := by
  rw [le_iff] at *
  omega

theorem le_total' (a b : Point) (h : Point.le a b = false) : Point.le b a = true := by
  have h' : ¬ (Point.le a b = true) := by simp [h]
  rw [le_iff] at *
  omega

/-- points that compare equal both ways are identical: the sorted permutation is unique -/
theorem le_antisymm {a b : Point} (h1 : Point.le a b = true) (h2 : Point.le b a = true) : a = b := by
  rw [le_iff] at *
  have hp : a.pos = b.pos := by omega
  have hr : rank a = rank b := by omega
  have hl : a.lid = b.lid := by omega
  rcases a with ⟨ap, ae, ac, al⟩
  rcases b with ⟨bp, be, bc, bl⟩
  simp only [rank] at *
  subst hp hl
  cases ae <;> cases ac <;> cases be <;> cases bc <;> simp_all

/-! ### insertion sort gives a sorted permutation -/

def Sorted (l : List Point) : Prop := List.Pairwise (fun a b => Point.le a b = true) l

theorem mem_insertPt (p x : Point) (qs : List Point) : x ∈ insertPt p qs ↔ x = p ∨ x ∈ qs := by
  induction qs with
  | nil => simp [insertPt]
  | cons q qs ih =>
    unfold insertPt
    split
    · simp
    · simp [ih]; constructor
      · rintro (h | h | h) <;> simp [h]
      · rintro (h | h | h) <;> simp [h]

theorem sorted_insertPt (p : Point) (qs : List Point) (h : Sorted qs) : Sorted (insertPt p qs) := by
  induction qs with
  | nil => simp [insertPt, Sorted]
  | cons q qs ih =>
    unfold Sorted at h
    rw [List.pairwise_cons] at h
    unfold insertPt
    split
    · rename_i hle
      unfold Sorted
      rw [List.pairwise_cons, List.pairwise_cons]
      refine ⟨?_, h.1, h.2⟩
      intro x hx
      rcases List.mem_cons.mp hx with rfl | hx
      · exact hle
      · exact le_trans hle (h.1 x hx)
    · rename_i hle
      have hqp : Point.le q p = true := le_total' p q (by simpa using hle)
      unfold Sorted
      rw [List.pairwise_cons]
      refine ⟨?_, ih h.2⟩
      intro x hx
      rcases (mem_insertPt p x qs).mp hx with rfl | hx
      · exact hqp
      · exact h.1 x hx

theorem sorted_sortPts (l : List Point) : Sorted (sortPts l) := by
  induction l with
  | nil => simp [sortPts, Sorted]
  | cons p ps ih => exact sorted_insertPt p _ ih

/-! ### the cut: a sorted list splits at h into points before h and points not before h -/

theorem cut (h : Int) (P : List Point) (hs : Sorted P) :
    ∃ A B, P = A ++ B ∧ (∀ a ∈ A, before h a = true) ∧ (∀ b ∈ B, before h b = false) := by
  induction P with
  | nil => exact ⟨[], [], rfl, by simp, by simp⟩
  | cons p ps ih =>
    unfold Sorted at hs
    rw [List.pairwise_cons] at hs
    by_cases hp : before h p = true
    · obtain ⟨A, B, e, hA, hB⟩ := ih hs.2
      refine ⟨p :: A, B, by simp [e], ?_, hB⟩
      intro a ha
      rcases List.mem_cons.mp ha with rfl | ha
      · exact hp
      · exact hA a ha
    · refine ⟨[], p :: ps, rfl, by simp, ?_⟩
      intro b hb
      rcases List.mem_cons.mp hb with rfl | hb
      · simpa using hp
      · cases hbb : before h b
        · rfl
        · exact absurd (before_mono h p b (hs.1 b hb) hbb) hp


/-! ### sweep: compositionality and what a run can emit -/

theorem sweep_append (A B : List Point) (st : St) :
    sweep (A ++ B) st = (sweep A st).bind (sweep B) := by
  unfold sweep
  rw [List.foldlM_append]
  rfl

theorem sweep_cons (p : Point) (ps : List Point) (st : St) :
    sweep (p :: ps) st = (stepN st p).bind (sweep ps) := by
  unfold sweep
  rw [List.foldlM_cons]
  rfl

def isStartAt (Q : List Point) (s : Int) : Prop := ∃ p ∈ Q, p.isEnd = false ∧ s = p.pos
def isEndOf (Q : List Point) (i : Interval) : Prop :=
  ∃ p ∈ Q, p.isEnd = true ∧ i.stop = p.pos ∧ i.closed = p.closed

theorem isStartAt_cons {Q s} (p : Point) (h : isStartAt Q s) : isStartAt (p :: Q) s := by
  obtain ⟨q, hq, h1, h2⟩ := h; exact ⟨q, List.mem_cons_of_mem _ hq, h1, h2⟩
theorem isEndOf_cons {Q i} (p : Point) (h : isEndOf Q i) : isEndOf (p :: Q) i := by
  obtain ⟨q, hq, h1, h2⟩ := h; exact ⟨q, List.mem_cons_of_mem _ hq, h1, h2⟩

/-- everything a run over Q emits ends at an end point of Q and starts either at a value that
    was already on the stack or at a start point of Q; same for what is left on the stack -/
theorem run_out (Q : List Point) (st st' : St) (h : sweep Q st = some st') :
    ∃ E, st'.2 = E ++ st.2 ∧
      (∀ i ∈ E, isEndOf Q i ∧ (i.start ∈ st.1 ∨ isStartAt Q i.start)) ∧
      (∀ s ∈ st'.1, s ∈ st.1 ∨ isStartAt Q s) := by
  induction Q generalizing st with
  | nil =>
    simp [sweep] at h
    subst h
    exact ⟨[], by simp, by simp, by intro s hs; exact Or.inl hs⟩
  | cons p ps ih =>
    rw [sweep_cons] at h
    cases hstep : stepN st p with
    | none => simp [hstep] at h
    | some st1 =>
      simp [hstep] at h
      obtain ⟨E, hE, hi, hs⟩ := ih st1 h
      unfold stepN at hstep
      split at hstep
      · rename_i hstart
        simp at hstep; subst hstep
        refine ⟨E, by simpa using hE, ?_, ?_⟩
        · intro i hiE
          obtain ⟨h1, h2⟩ := hi i hiE
          refine ⟨isEndOf_cons p h1, ?_⟩
          rcases h2 with h2 | h2
          · simp at h2
            rcases h2 with h2 | h2
            · exact Or.inr ⟨p, by simp, hstart, h2⟩
            · exact Or.inl h2
          · exact Or.inr (isStartAt_cons p h2)
        · intro s hs'
          rcases hs s hs' with h2 | h2
          · simp at h2
            rcases h2 with h2 | h2
            · exact Or.inr ⟨p, by simp, hstart, h2⟩
            · exact Or.inl h2
          · exact Or.inr (isStartAt_cons p h2)
      · rename_i hend
        have hend' : p.isEnd = true := by cases hpe : p.isEnd <;> simp_all
        split at hstep
        · simp at hstep
        · rename_i s0 hst
          simp at hstep; subst hstep
          refine ⟨E ++ [⟨s0, p.pos, p.closed⟩], by simp [hE], ?_, ?_⟩
          · intro i hiE
            rcases List.mem_append.mp hiE with hiE | hiE
            · obtain ⟨h1, h2⟩ := hi i hiE
              refine ⟨isEndOf_cons p h1, ?_⟩
              rcases h2 with h2 | h2
              · simp at h2
              · exact Or.inr (isStartAt_cons p h2)
            · simp at hiE; subst hiE
              exact ⟨⟨p, by simp, hend', rfl, rfl⟩, Or.inl (by simp [hst])⟩
          · intro s hs'
            rcases hs s hs' with h2 | h2
            · simp at h2
            · exact Or.inr (isStartAt_cons p h2)
        · rename_i t r rest hst
          simp at hstep; subst hstep
          refine ⟨E, by simpa using hE, ?_, ?_⟩
          · intro i hiE
            obtain ⟨h1, h2⟩ := hi i hiE
            refine ⟨isEndOf_cons p h1, ?_⟩
            rcases h2 with h2 | h2
            · exact Or.inl (by rw [hst]; exact List.mem_cons_of_mem _ h2)
            · exact Or.inr (isStartAt_cons p h2)
          · intro s hs'
            rcases hs s hs' with h2 | h2
            · exact Or.inl (by rw [hst]; exact List.mem_cons_of_mem _ h2)
            · exact Or.inr (isStartAt_cons p h2)


/-- if a run starts with a non-empty stack and ends with an empty one, it emitted an interval
    that starts at the bottom of the initial stack -/
theorem drain (B : List Point) (st st' : St) (h : sweep B st = some st')
    (hne : st.1 ≠ []) (hemp : st'.1 = []) :
    ∃ i ∈ st'.2, isEndOf B i ∧ some i.start = st.1.getLast? := by
  induction B generalizing st with
  | nil =>
    simp [sweep] at h
    subst h
    exact absurd hemp hne
  | cons p ps ih =>
    rw [sweep_cons] at h
    cases hstep : stepN st p with
    | none => simp [hstep] at h
    | some st1 =>
      simp [hstep] at h
      unfold stepN at hstep
      split at hstep
      · simp at hstep; subst hstep
        obtain ⟨i, hi, h1, h2⟩ := ih _ h (by simp)
        refine ⟨i, hi, isEndOf_cons p h1, ?_⟩
        rw [h2]
        simp only
        rw [List.getLast?_cons_of_ne_nil hne]
      · rename_i hend
        have hend' : p.isEnd = true := by cases hpe : p.isEnd <;> simp_all
        split at hstep
        · simp at hstep
        · rename_i s0 hst
          simp at hstep; subst hstep
          obtain ⟨E, hE, -, -⟩ := run_out ps _ st' h
          refine ⟨⟨s0, p.pos, p.closed⟩, by rw [hE]; simp, ⟨p, by simp, hend', rfl, rfl⟩, ?_⟩
          simp [hst]
        · rename_i t r rest hst
          simp at hstep; subst hstep
          obtain ⟨i, hi, h1, h2⟩ := ih _ h (by simp)
          refine ⟨i, hi, isEndOf_cons p h1, ?_⟩
          rw [h2, hst]
          simp

/-- stack depth bookkeeping -/
theorem sweep_depth (Q : List Point) (st st' : St) (h : sweep Q st = some st') :
    (st'.1.length : Int) = st.1.length + (Q.countP (fun p => !p.isEnd) : Int)
      - (Q.countP (fun p => p.isEnd) : Int) := by
  induction Q generalizing st with
  | nil =>
    simp [sweep] at h
    subst h; simp
  | cons p ps ih =>
    rw [sweep_cons] at h
    cases hstep : stepN st p with
    | none => simp [hstep] at h
    | some st1 =>
      simp [hstep] at h
      have := ih _ h
      unfold stepN at hstep
      split at hstep
      · rename_i hs
        simp at hstep; subst hstep
        simp [List.countP_cons, hs] at this ⊢
        omega
      · rename_i hend
        have hend' : p.isEnd = true := by cases hpe : p.isEnd <;> simp_all
        split at hstep
        · simp at hstep
        · rename_i s0 hst
          simp at hstep; subst hstep
          simp [List.countP_cons, hend', hst] at this ⊢
          omega
        · rename_i t r rest hst
          simp at hstep; subst hstep
          simp [List.countP_cons, hend', hst] at this ⊢
          omega


/-! ### no error: every prefix of the sorted point list is balanced -/

def bal : Nat → List Point → Bool
  | _, [] => true
  | d, p :: ps => if p.isEnd = false then bal (d+1) ps else (decide (0 < d) && bal (d-1) ps)

theorem bal_start {p : Point} (hp : p.isEnd = false) (d : Nat) (ps : List Point) :
    bal d (p :: ps) = bal (d+1) ps := by simp [bal, hp]
theorem bal_end {p : Point} (hp : p.isEnd = true) (d : Nat) (ps : List Point) :
    bal d (p :: ps) = (decide (0 < d) && bal (d-1) ps) := by simp [bal, hp]

theorem bal_insert_end (e : Point) (he : e.isEnd = true) (X : List Point) (d : Nat)
    (h : bal d X = true) : bal (d+1) (insertPt e X) = true := by
  induction X generalizing d with
  | nil => simp [insertPt, bal, he]
  | cons p ps ih =>
    unfold insertPt
    split
    · rw [bal_end he]; simpa using h
    · cases hp : p.isEnd
      · rw [bal_start hp] at h ⊢; exact ih _ h
      · rw [bal_end hp] at h ⊢
        simp at h ⊢
        have := ih _ h.2
        have e1 : d - 1 + 1 = d := by omega
        rw [e1] at this; exact this

theorem bal_insert_pair (s e : Point) (hs : s.isEnd = false) (he : e.isEnd = true)
    (hse : Point.le s e = true) (X : List Point) (d : Nat) (h : bal d X = true) :
    bal d (insertPt s (insertPt e X)) = true := by
  induction X generalizing d with
  | nil => simp [insertPt, hse, bal, hs, he]
  | cons p ps ih =>
    by_cases hep : Point.le e p = true
    · have e1 : insertPt e (p :: ps) = e :: p :: ps := by simp [insertPt, hep]
      have e2 : insertPt s (e :: p :: ps) = s :: e :: p :: ps := by simp [insertPt, hse]
      rw [e1, e2, bal_start hs, bal_end he]; simpa using h
    · have e1 : insertPt e (p :: ps) = p :: insertPt e ps := by simp [insertPt, hep]
      rw [e1]
      by_cases hsp : Point.le s p = true
      · have e2 : insertPt s (p :: insertPt e ps) = s :: p :: insertPt e ps := by simp [insertPt, hsp]
        rw [e2, bal_start hs]
        cases hp : p.isEnd
        · rw [bal_start hp] at h ⊢; exact bal_insert_end e he ps _ h
        · rw [bal_end hp] at h ⊢
          simp at h ⊢
          have := bal_insert_end e he ps _ h.2
          have e1 : d - 1 + 1 = d := by omega
          rw [e1] at this; exact this
      · have e2 : insertPt s (p :: insertPt e ps) = p :: insertPt s (insertPt e ps) := by
          simp [insertPt, hsp]
        rw [e2]
        cases hp : p.isEnd
        · rw [bal_start hp] at h ⊢; exact ih _ h
        · rw [bal_end hp] at h ⊢
          simp at h ⊢
          exact ⟨h.1, ih _ h.2⟩

theorem le_start_end (i : Interval) (lid : Nat) (h : i.start ≤ i.stop) :
    Point.le (startPt i lid) (endPt i lid) = true := by
  rw [le_iff]; simp [startPt, endPt, rank]; omega

theorem bal_sorted_points (l : List Interval) (hwf : ∀ i ∈ l, i.start ≤ i.stop) :
    bal 0 (sortPts (pointsOf 0 l)) = true := by
  induction l with
  | nil => simp [pointsOf, sortPts, bal]
  | cons i l ih =>
    simp only [pointsOf, sortPts]
    exact bal_insert_pair _ _ rfl rfl (le_start_end i 0 (hwf i (by simp))) _ _
      (ih (fun j hj => hwf j (List.mem_cons_of_mem _ hj)))

theorem bal_sweep (Q : List Point) (st : St) (h : bal st.1.length Q = true) :
    ∃ st', sweep Q st = some st' := by
  induction Q generalizing st with
  | nil => exact ⟨st, by simp [sweep]⟩
  | cons p ps ih =>
    rw [sweep_cons]
    cases hp : p.isEnd
    · rw [bal_start hp] at h
      have : stepN st p = some (p.pos :: st.1, st.2) := by simp [stepN, hp]
      rw [this]
      exact ih (p.pos :: st.1, st.2) (by simpa using h)
    · rw [bal_end hp] at h
      simp at h
      obtain ⟨hd, hb⟩ := h
      match hst : st.1 with
      | [] => simp [hst] at hd
      | [s0] =>
        have : stepN st p = some ([], ⟨s0, p.pos, p.closed⟩ :: st.2) := by simp [stepN, hp, hst]
        rw [this]
        exact ih ([], ⟨s0, p.pos, p.closed⟩ :: st.2) (by simpa [hst] using hb)
      | t :: r :: rest =>
        have : stepN st p = some (r :: rest, st.2) := by simp [stepN, hp, hst]
        rw [this]
        exact ih (r :: rest, st.2) (by simpa [hst] using hb)

/-! ### counting -/

theorem countP_insertPt (q : Point → Bool) (p : Point) (X : List Point) :
    (insertPt p X).countP q = (p :: X).countP q := by
  induction X with
  | nil => simp [insertPt]
  | cons x xs ih =>
    unfold insertPt
    split
    · rfl
    · simp only [List.countP_cons] at ih ⊢
      rw [ih]; omega

theorem countP_sortPts (q : Point → Bool) (X : List Point) : (sortPts X).countP q = X.countP q := by
  induction X with
  | nil => simp [sortPts]
  | cons x xs ih => simp only [sortPts, countP_insertPt, List.countP_cons, ih]

def b2i (b : Bool) : Int := if b then 1 else 0

def cover (h : Int) : List Interval → Int
  | [] => 0
  | i :: l => b2i (before h (startPt i 0)) - b2i (before h (endPt i 0)) + cover h l

def qS (h : Int) (p : Point) : Bool := !p.isEnd && before h p
def qE (h : Int) (p : Point) : Bool := p.isEnd && before h p

theorem cover_points (h : Int) (l : List Interval) :
    ((pointsOf 0 l).countP (qS h) : Int) - ((pointsOf 0 l).countP (qE h) : Int) = cover h l := by
  induction l with
  | nil => simp [pointsOf, cover]
  | cons i l ih =>
    simp only [pointsOf, cover, List.countP_cons]
    have a1 : qS h (startPt i 0) = before h (startPt i 0) := by simp [qS, startPt]
    have a2 : qS h (endPt i 0) = false := by simp [qS, endPt]
    have a3 : qE h (startPt i 0) = false := by simp [qE, startPt]
    have a4 : qE h (endPt i 0) = before h (endPt i 0) := by simp [qE, endPt]
    rw [a1, a2, a3, a4]
    simp only [b2i]
    cases before h (startPt i 0) <;> cases before h (endPt i 0) <;> simp <;> omega

theorem term_memH (h : Int) (i : Interval) (hwf : i.start ≤ i.stop) :
    b2i (before h (startPt i 0)) - b2i (before h (endPt i 0)) = (if memH h i then 1 else 0) := by
  unfold before memH startPt endPt b2i
  rcases i with ⟨s, e, c⟩
  simp only at hwf ⊢
  cases c <;> simp <;> split <;> split <;> (try split) <;> omega

theorem cover_pos (h : Int) (l : List Interval) (hwf : ∀ i ∈ l, i.start ≤ i.stop) :
    0 ≤ cover h l ∧ (0 < cover h l ↔ memL h l) := by
  induction l with
  | nil => simp [cover, memL]
  | cons i l ih =>
    obtain ⟨h0, h1⟩ := ih (fun j hj => hwf j (List.mem_cons_of_mem _ hj))
    have ht := term_memH h i (hwf i (by simp))
    unfold cover
    rw [ht]
    unfold memL at *
    by_cases hm : memH h i
    · simp [hm]; omega
    · simp [hm, h0]
      exact h1


/-! ### assembly -/

theorem count_starts (l : List Interval) :
    (pointsOf 0 l).countP (fun p => !p.isEnd) = l.length ∧
    (pointsOf 0 l).countP (fun p => p.isEnd) = l.length := by
  induction l with
  | nil => simp [pointsOf]
  | cons i l ih => simp [pointsOf, List.countP_cons, startPt, endPt, ih.1, ih.2]

theorem norm_ok (l : List Interval) (hwf : ∀ i ∈ l, i.start ≤ i.stop) : ∃ r, normalize l = some r := by
  obtain ⟨st', h⟩ := bal_sweep (sortPts (pointsOf 0 l)) ([], []) (by simpa using bal_sorted_points l hwf)
  exact ⟨st'.2.reverse, by simp [normalize, h]⟩

theorem memH_of_cut {h : Int} {A B : List Point} {i : Interval}
    (hA : ∀ a ∈ A, before h a = true) (hB : ∀ b ∈ B, before h b = false)
    (hs : isStartAt A i.start) (he : isEndOf B i) : memH h i := by
  obtain ⟨p, hp, hp1, hp2⟩ := hs
  obtain ⟨q, hq, hq1, hq2, hq3⟩ := he
  have b1 := hA p hp
  have b2 := hB q hq
  unfold before at b1 b2
  unfold memH
  rw [hp2, hq2, hq3]
  simp [hp1] at b1
  simp [hq1] at b2
  cases hc : q.closed <;> simp [hc] at b2 ⊢ <;> omega

theorem not_memH_end_before {h : Int} {A : List Point} {i : Interval}
    (hA : ∀ a ∈ A, before h a = true) (he : isEndOf A i) : ¬ memH h i := by
  obtain ⟨q, hq, hq1, hq2, hq3⟩ := he
  have b2 := hA q hq
  unfold before at b2
  unfold memH
  rw [hq2, hq3]
  simp [hq1] at b2
  cases hc : q.closed <;> simp [hc] at b2 ⊢ <;> omega

theorem not_memH_start_after {h : Int} {B : List Point} {i : Interval}
    (hB : ∀ b ∈ B, before h b = false) (hs : isStartAt B i.start) : ¬ memH h i := by
  obtain ⟨p, hp, hp1, hp2⟩ := hs
  have b1 := hB p hp
  unfold before at b1
  unfold memH
  rw [hp2]
  simp [hp1] at b1
  omega

/-- Normalize preserves the denoted set (only `start ≤ stop` is needed, so lists that also
    contain empty intervals `[a,a)` are covered) -/
theorem norm_mem (l : List Interval) (hwf : ∀ i ∈ l, i.start ≤ i.stop) (r : List Interval)
    (hr : normalize l = some r) (h : Int) : memL h r ↔ memL h l := by
  unfold normalize at hr
  cases hF : sweep (sortPts (pointsOf 0 l)) ([], []) with
  | none => simp [hF] at hr
  | some stF =>
    simp [hF] at hr
    subst hr
    -- final stack is empty
    have hdF := sweep_depth _ _ _ hF
    rw [countP_sortPts, countP_sortPts, (count_starts l).1, (count_starts l).2] at hdF
    have hFe : stF.1 = [] := by
      have : stF.1.length = 0 := by
        have h0 : (([], []) : St).1.length = 0 := rfl
        rw [h0] at hdF
        omega
      exact List.eq_nil_of_length_eq_zero this
    -- cut at h
    obtain ⟨A, B, hP, hA, hB⟩ := cut h _ (sorted_sortPts (pointsOf 0 l))
    rw [hP, sweep_append] at hF
    cases hSA : sweep A ([], []) with
    | none => simp [hSA] at hF
    | some stA =>
      simp [hSA] at hF
      -- depth after A is the cover number
      have hdA := sweep_depth _ _ _ hSA
      have cS : (sortPts (pointsOf 0 l)).countP (qS h) = A.countP (fun p => !p.isEnd) := by
        rw [hP, List.countP_append]
        have e1 : A.countP (qS h) = A.countP (fun p => !p.isEnd) := by
          apply List.countP_congr
          intro a ha; simp [qS, hA a ha]
        have e2 : B.countP (qS h) = 0 := by
          rw [List.countP_eq_zero]; intro b hb; simp [qS, hB b hb]
        omega
      have cE : (sortPts (pointsOf 0 l)).countP (qE h) = A.countP (fun p => p.isEnd) := by
        rw [hP, List.countP_append]
        have e1 : A.countP (qE h) = A.countP (fun p => p.isEnd) := by
          apply List.countP_congr
          intro a ha; simp [qE, hA a ha]
        have e2 : B.countP (qE h) = 0 := by
          rw [List.countP_eq_zero]; intro b hb; simp [qE, hB b hb]
        omega
      have hcov := cover_points h l
      rw [← countP_sortPts (qS h), ← countP_sortPts (qE h), cS, cE] at hcov
      have hlen : (stA.1.length : Int) = cover h l := by simp at hdA; omega
      obtain ⟨_, hpos⟩ := cover_pos h l hwf
      -- what was emitted
      obtain ⟨EA, hEA, hiA, hsA⟩ := run_out A _ _ hSA
      obtain ⟨EB, hEB, hiB, _⟩ := run_out B _ _ hF
      simp at hEA hsA
      constructor
      · rintro ⟨i, hi, hm⟩
        rw [← hpos, ← hlen]
        have hi' : i ∈ stF.2 := by simpa using hi
        rw [hEB, hEA] at hi'
        rcases List.mem_append.mp hi' with hi' | hi'
        · obtain ⟨he, hs⟩ := hiB i hi'
          rcases hs with hs | hs
          · cases hst : stA.1 with
            | nil => simp [hst] at hs
            | cons x xs => simp
          · exact absurd hm (not_memH_start_after hB hs)
        · obtain ⟨he, _⟩ := hiA i hi'
          exact absurd hm (not_memH_end_before hA he)
      · intro hm
        have hne : stA.1 ≠ [] := by
          have : 0 < (stA.1.length : Int) := by rw [hlen]; exact hpos.mpr hm
          intro hnil; simp [hnil] at this
        obtain ⟨i, hi, he, hbot⟩ := drain B _ _ hF hne hFe
        have hmem : i.start ∈ stA.1 := List.mem_of_getLast? hbot.symm
        refine ⟨i, by simpa using hi, memH_of_cut hA hB (hsA _ hmem) he⟩

end Starcal.Ival
