import Starcal.PHMS
/-! Starcal: Date.String ("%.4d/%.2d/%.2d") and ParseDate round trip (C14), negative and long years. -/
namespace Starcal

/-- fmt "%.Nd": sign, then at least N digits -/
def showPad (w : Nat) (i : Int) : List Char :=
  (if i < 0 then ['-'] else []) ++ List.replicate (w - (showNat i.natAbs).length) '0' ++ showNat i.natAbs

theorem parseDigits_zeros (k : Nat) (ds : List Char) : parseDigits (List.replicate k '0' ++ ds) 0 = parseDigits ds 0 := by
  induction k with
  | zero => simp
  | succ k ih =>
    simp only [List.replicate_succ, List.cons_append, parseDigits]
    have : digitVal? '0' = some 0 := by decide
    simp [this, ih]

theorem parseNat_padded (k n : Nat) : parseNat (List.replicate k '0' ++ showNat n) = some n := by
  have h := parseNat_showNat n
  unfold parseNat at h ⊢
  obtain ⟨_, hne⟩ := showNat_digits n
  have h1 : (List.replicate k '0' ++ showNat n).isEmpty = false := by
    cases hs : showNat n with
    | nil => exact absurd hs hne
    | cons c cs => simp
  have h2 : (showNat n).isEmpty = false := by
    cases hs : showNat n with
    | nil => exact absurd hs hne
    | cons c cs => simp
  rw [h1]; rw [h2] at h
  simp only [Bool.false_eq_true, if_false] at h ⊢
  rw [parseDigits_zeros, h]

theorem parseInt_showPad (w : Nat) (i : Int) : parseInt (showPad w i) = some i := by
  unfold showPad
  by_cases h : i < 0
  · simp only [h, if_true, List.cons_append, List.nil_append]
    unfold parseInt
    simp only [parseNat_padded]
    have : ((i.natAbs : Nat) : Int) = -i := by omega
    simp [this]
  · simp only [h, if_false, List.nil_append]
    -- the first character is '0' or a digit: not a sign
    have hn := parseNat_padded (w - (showNat i.natAbs).length) i.natAbs
    generalize hstr : List.replicate (w - (showNat i.natAbs).length) '0' ++ showNat i.natAbs = str at *
    obtain ⟨hd, hne⟩ := showNat_digits i.natAbs
    have hfirst : ∀ c cs, str = c :: cs → c ≠ '-' ∧ c ≠ '+' := by
      intro c cs hs
      have hc : isDigit c = true := by
        have hm : c ∈ str := by rw [hs]; simp
        rw [← hstr] at hm
        rcases List.mem_append.mp hm with h1 | h1
        · have := List.eq_of_mem_replicate h1; subst this; decide
        · exact hd c h1
      constructor <;> (intro e; subst e; simp [isDigit] at hc)
    unfold parseInt
    match hs : str with
    | [] => simp [parseNat] at hn
    | c :: cs =>
      obtain ⟨h1, h2⟩ := hfirst c cs rfl
      split
      · rename_i ds heq; simp at heq; exact absurd heq.1 h1
      · rename_i ds heq; simp at heq; exact absurd heq.1 h2
      · rw [hn]
        have : ((i.natAbs : Nat) : Int) = i := by omega
        simp [this]

structure DateV where
  year : Int
  month : Int
  day : Int
deriving DecidableEq, Repr

def parseDate (narrow : Int → Int) (s : List Char) : Option DateV :=
  let parts := splitOn '/' s
  if parts.length ≠ 3 then none
  else match parseInt (parts.getD 0 []), parseInt (parts.getD 1 []), parseInt (parts.getD 2 []) with
    | some y, some m, some d => some ⟨y, narrow m, narrow d⟩
    | _, _, _ => none

def showDate (d : DateV) : List Char :=
  showPad 4 d.year ++ ('/' :: (showPad 2 d.month ++ ('/' :: showPad 2 d.day)))

example : showDate ⟨-1, 3, 7⟩ = "-0001/03/07".toList := by decide
example : showDate ⟨123456, 12, 31⟩ = "123456/12/31".toList := by decide

theorem showPad_no_slash (w : Nat) (i : Int) : ∀ x ∈ showPad w i, x ≠ '/' := by
  intro x hx
  unfold showPad at hx
  obtain ⟨hd, _⟩ := showNat_digits i.natAbs
  rcases List.mem_append.mp hx with h1 | h1
  · rcases List.mem_append.mp h1 with h2 | h2
    · split at h2
      · simp at h2; subst h2; decide
      · simp at h2
    · have := List.eq_of_mem_replicate h2; subst this; decide
  · have := hd x h1
    intro e; subst e; simp [isDigit] at this

/-- **C14**: printing a date and parsing it back returns the same value, for every year (negative,
    more than four digits) and every uint8 month/day -/
theorem parse_show_date (d : DateV) (hm : 0 ≤ d.month ∧ d.month ≤ 255) (hd : 0 ≤ d.day ∧ d.day ≤ 255) :
    parseDate narrowNew (showDate d) = some d := by
  have hsplit : splitOn '/' (showDate d) = [showPad 4 d.year, showPad 2 d.month, showPad 2 d.day] := by
    unfold showDate
    rw [splitOn_append '/' _ _ (showPad_no_slash 4 d.year), splitOn_append '/' _ _ (showPad_no_slash 2 d.month),
      splitOn_free '/' _ (showPad_no_slash 2 d.day)]
  unfold parseDate
  simp only [hsplit]
  simp only [List.length_cons, List.length_nil, ne_eq, not_true_eq_false, if_false]
  simp only [List.getD_cons_zero, List.getD_cons_succ, parseInt_showPad]
  have n1 : narrowNew d.month = d.month := by unfold narrowNew; simp; omega
  have n2 : narrowNew d.day = d.day := by unfold narrowNew; simp; omega
  rw [n1, n2]

end Starcal

#print axioms Starcal.parse_show_date
