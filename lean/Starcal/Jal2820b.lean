import Starcal.Jal2820
import Starcal.Jalali2
/-! Starcal: Jalali 2820-year algorithm — other round trip via injectivity, successor step, C02. -/
namespace Starcal.Jalali

def ys2 (y : Int) : Int := toJd2 ⟨y, 1, 1⟩

theorem coords2 (y : Int) : ∃ cyc yc : Int, y = 2820 * cyc + yc + 474 ∧ 1 ≤ yc ∧ yc ≤ 2820 :=
  ⟨(y - 475) / 2820, (y - 475) % 2820 + 1, by omega, by omega, by omega⟩

theorem ys2_next (y : Int) : ys2 (y + 1) = ys2 y + (if isLeap2 y then 366 else 365) := by
  obtain ⟨cyc, yc, hy, h1, h2⟩ := coords2 y
  subst hy
  unfold ys2
  rw [yearStart_rel cyc yc h1 h2, leap2_cycle cyc yc h1 h2]
  by_cases h : yc = 2820
  · subst h
    have e : 2820 * cyc + 2820 + 474 + 1 = 2820 * (cyc + 1) + 1 + 474 := by omega
    rw [e, yearStart_rel (cyc + 1) 1 (by omega) (by omega)]
    unfold Starcal.ys2820; simp; omega
  · have e : 2820 * cyc + yc + 474 + 1 = 2820 * cyc + (yc + 1) + 474 := by omega
    rw [e, yearStart_rel cyc (yc + 1) (by omega) (by omega)]
    unfold Starcal.ys2820
    have e2 : yc + 1 - 1 = yc := by omega
    rw [e2]
    by_cases hl : (31 * yc) % 128 < 31
    · have : (31 * yc) % 128 < 31 ∨ yc = 2820 := Or.inl hl
      simp [this]; omega
    · have : ¬ ((31 * yc) % 128 < 31 ∨ yc = 2820) := by omega
      simp [this]; omega

theorem ys2_mono (a : Int) (n : Nat) : ys2 a ≤ ys2 (a + n) := by
  induction n with
  | zero => simp
  | succ n ih =>
    have := ys2_next (a + n)
    have e : a + ((n + 1 : Nat) : Int) = a + n + 1 := by omega
    rw [e, this]; split <;> omega

theorem monthLen2_12 (y : Int) : monthLen2 y 12 = if isLeap2 y then 30 else 29 := by simp [monthLen2]

theorem monthLen2_eq (y m : Int) (h1 : 1 ≤ m) (h2 : m ≤ 11) : monthLen2 y m = sumAt m - sumAt (m - 1) := by
  have := monthLen_eq 0 m h1 h2
  unfold monthLen at this
  unfold monthLen2
  have hne : m ≠ 12 := by omega
  simp only [hne, if_false] at this ⊢
  exact this

theorem yd2_bounds (y m d : Int) (hm1 : 1 ≤ m) (hm2 : m ≤ 12) (hd1 : 1 ≤ d) (hd2 : d ≤ monthLen2 y m) :
    0 ≤ sumAt (m - 1) + d - 1 ∧ sumAt (m - 1) + d - 1 < (if isLeap2 y then 366 else 365) := by
  by_cases h11 : m ≤ 11
  · rw [monthLen2_eq y m hm1 h11] at hd2
    have hmono := sum_mono m (11 - m).toNat (by omega) (by omega)
    have e : m + ((11 - m).toNat : Int) = 11 := by omega
    rw [e] at hmono
    have h11v : sumAt 11 = 336 := by decide
    have h0 := sum_mono 0 (m - 1).toNat (by omega) (by omega)
    have e0 : (0:Int) + ((m - 1).toNat : Int) = m - 1 := by omega
    rw [e0] at h0
    have h00 : sumAt 0 = 0 := by decide
    refine ⟨by omega, ?_⟩
    split <;> omega
  · have hm : m = 12 := by omega
    subst hm
    have h11v : sumAt (12 - 1) = 336 := by decide
    rw [monthLen2_12] at hd2
    refine ⟨by omega, ?_⟩
    split at hd2 <;> simp_all <;> omega

theorem sum_strict (a b : Int) (ha : 0 ≤ a) (hab : a < b) (hb : b ≤ 12) : sumAt a + 30 ≤ sumAt b := by
  have h1 := (sum_step (a + 1) (by omega) (by omega)).2
  have e : a + 1 - 1 = a := by omega
  rw [e] at h1
  have h2 := sum_mono (a + 1) (b - (a + 1)).toNat (by omega) (by omega)
  have e2 : a + 1 + ((b - (a + 1)).toNat : Int) = b := by omega
  rw [e2] at h2
  omega

theorem toJd2_inj (a b : Date) (ha : WF2 a) (hb : WF2 b) (h : toJd2 a = toJd2 b) : a = b := by
  rcases a with ⟨y1, m1, d1⟩
  rcases b with ⟨y2, m2, d2⟩
  obtain ⟨a1, a2, a3, a4⟩ := ha
  obtain ⟨b1, b2, b3, b4⟩ := hb
  simp only at a1 a2 a3 a4 b1 b2 b3 b4
  have ba := yd2_bounds y1 m1 d1 a1 a2 a3 a4
  have bb := yd2_bounds y2 m2 d2 b1 b2 b3 b4
  rw [toJd2_eq y1 m1 d1 a1 a2, toJd2_eq y2 m2 d2 b1 b2] at h
  have n1 := ys2_next y1
  have n2 := ys2_next y2
  unfold ys2 at n1 n2
  have hy : y1 = y2 := by
    rcases Int.lt_trichotomy y1 y2 with hlt | heq | hgt
    · have := ys2_mono (y1 + 1) (y2 - (y1 + 1)).toNat
      have e : y1 + 1 + ((y2 - (y1 + 1)).toNat : Int) = y2 := by omega
      rw [e] at this; unfold ys2 at this
      split at n1 <;> split at ba <;> simp_all <;> omega
    · exact heq
    · have := ys2_mono (y2 + 1) (y1 - (y2 + 1)).toNat
      have e : y2 + 1 + ((y1 - (y2 + 1)).toNat : Int) = y1 := by omega
      rw [e] at this; unfold ys2 at this
      split at n2 <;> split at bb <;> simp_all <;> omega
  subst hy
  have hoff : sumAt (m1 - 1) + d1 = sumAt (m2 - 1) + d2 := by omega
  -- days are at most the month gap, so equal offsets force equal months
  have g1 : d1 ≤ sumAt m1 - sumAt (m1 - 1) := by
    by_cases h11 : m1 ≤ 11
    · rw [monthLen2_eq y1 m1 a1 h11] at a4; exact a4
    · have : m1 = 12 := by omega
      subst this; rw [monthLen2_12] at a4
      have : sumAt 12 - sumAt (12 - 1) = 30 := by decide
      split at a4 <;> omega
  have g2 : d2 ≤ sumAt m2 - sumAt (m2 - 1) := by
    by_cases h11 : m2 ≤ 11
    · rw [monthLen2_eq y1 m2 b1 h11] at b4; exact b4
    · have : m2 = 12 := by omega
      subst this; rw [monthLen2_12] at b4
      have : sumAt 12 - sumAt (12 - 1) = 30 := by decide
      split at b4 <;> omega
  have hm : m1 = m2 := by
    rcases Int.lt_trichotomy m1 m2 with hlt | heq | hgt
    · have := sum_mono m1 (m2 - 1 - m1).toNat (by omega) (by omega)
      have e : m1 + ((m2 - 1 - m1).toNat : Int) = m2 - 1 := by omega
      rw [e] at this; omega
    · exact heq
    · have := sum_mono m2 (m1 - 1 - m2).toNat (by omega) (by omega)
      have e : m2 + ((m1 - 1 - m2).toNat : Int) = m1 - 1 := by omega
      rw [e] at this; omega
  subst hm
  have : d1 = d2 := by omega
  subst this
  rfl

theorem jdTo2_toJd2 (dt : Date) (hwf : WF2 dt) : jdTo2 (toJd2 dt) = dt := by
  obtain ⟨h1, h2⟩ := jdTo2_spec (toJd2 dt)
  exact toJd2_inj _ _ h1 hwf h2


def succ2 (d : Date) : Date :=
  if d.day < monthLen2 d.year d.month then ⟨d.year, d.month, d.day + 1⟩
  else if d.month < 12 then ⟨d.year, d.month + 1, 1⟩
  else ⟨d.year + 1, 1, 1⟩

theorem monthLen2_range (y m : Int) (h1 : 1 ≤ m) (h2 : m ≤ 12) : 29 ≤ monthLen2 y m ∧ monthLen2 y m ≤ 31 := by
  by_cases h11 : m ≤ 11
  · rw [monthLen2_eq y m h1 h11]
    rcases month_cases h1 h2 with h|h|h|h|h|h|h|h|h|h|h|h <;> subst h <;> decide
  · have : m = 12 := by omega
    subst this; rw [monthLen2_12]; split <;> omega

theorem toJd2_succ (dt : Date) (hwf : WF2 dt) : WF2 (succ2 dt) ∧ toJd2 (succ2 dt) = toJd2 dt + 1 := by
  rcases dt with ⟨y, m, d⟩
  obtain ⟨hm1, hm2, hd1, hd2⟩ := hwf
  simp only at hm1 hm2 hd1 hd2
  unfold succ2
  simp only
  by_cases hlt : d < monthLen2 y m
  · simp only [hlt, if_true]
    exact ⟨⟨hm1, hm2, by simp only; omega, by simp only; omega⟩,
      by rw [toJd2_eq y m _ hm1 hm2, toJd2_eq y m _ hm1 hm2]; omega⟩
  · have hd : d = monthLen2 y m := by omega
    simp only [hlt, if_false]
    by_cases hm : m < 12
    · simp only [hm, if_true]
      have hr := monthLen2_range y (m + 1) (by omega) (by omega)
      refine ⟨⟨by simp only; omega, by simp only; omega, by simp, by simp only; omega⟩, ?_⟩
      have hml := monthLen2_eq y m hm1 (by omega)
      rw [toJd2_eq y (m + 1) 1 (by omega) (by omega), toJd2_eq y m d hm1 hm2]
      have e : m + 1 - 1 = m := by omega
      rw [e]; omega
    · have hm12 : m = 12 := by omega
      subst hm12
      simp only [hm, if_false]
      have hr := monthLen2_range (y + 1) 1 (by omega) (by omega)
      refine ⟨⟨by simp, by simp, by simp, by simp only; omega⟩, ?_⟩
      have hn := ys2_next y
      unfold ys2 at hn
      rw [toJd2_eq y 12 d (by omega) (by omega), hn]
      have h11v : sumAt (12 - 1) = 336 := by decide
      have h11' : sumAt 11 = 336 := by decide
      rw [monthLen2_12] at hd
      split at hd <;> rename_i hl <;> simp [hl] <;> omega

theorem succ2_step (jd : Int) : jdTo2 (jd + 1) = succ2 (jdTo2 jd) := by
  obtain ⟨hwf, hjd⟩ := jdTo2_spec jd
  obtain ⟨hwf', hs⟩ := toJd2_succ (jdTo2 jd) hwf
  have := jdTo2_toJd2 (succ2 (jdTo2 jd)) hwf'
  rw [hs, hjd] at this
  exact this

/-- C03 anchor: 1 Farvardin 1400 is day 2459295 in this algorithm too -/
theorem anchor2 : jdTo2 2459295 = ⟨1400, 1, 1⟩ := by decide

end Starcal.Jalali

#print axioms Starcal.Jalali.succ2_step
