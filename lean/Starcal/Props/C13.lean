import Starcal.Human
import Starcal.NumList
import Starcal.IvalText2
/-! # C13 — interval representation changes (Humanize, Extract, runs, text) keep the set -/
namespace Starcal.Props

/-- rewriting for display keeps exactly the same instants -/
theorem C13_humanize_mem (l : List Ival.Interval) (h : Int) : Ival.memL h (Ival.humanize l) ↔ Ival.memL h l :=
  Ival.humanize_mem l h

/-- … and leaves only half-open intervals and single points -/
theorem C13_humanize_shape (l : List Ival.Interval) (hwf : ∀ i ∈ l, i.start ≤ i.stop) :
    ∀ i ∈ Ival.humanize l, i.closed = false ∨ i.start = i.stop :=
  Ival.humanize_shape l hwf

/-- grouping a list of integers into intervals and expanding it again returns the original
    integers, for *every* list (the property needs only strictly increasing ones) and every
    run threshold -/
theorem C13_extract_byNumList (nums : List Int) (k : Nat) :
    NumList.extract (NumList.byNumList nums k) = nums :=
  NumList.extract_byNumList nums k

/-- printing any well-formed interval and parsing the text returns an equal value: negative,
    mixed-sign and zero positions, both end kinds -/
theorem C13_parse_show_interval (i : Ival) (hwf : WFIv i) : parseIntervalTop (showIval i) = .ok i :=
  parseTop_show i hwf

/-- the same for every non-empty list -/
theorem C13_parse_show_list (l : List Ival) (hne : l ≠ []) (hwf : ∀ i ∈ l, WFIv i) :
    parseIntervalList (showIvalList l) = .ok l :=
  parse_show_list l hne hwf

/-- an interval text whose end is before its start is rejected -/
theorem C13_parse_rejects_reversed (a : Int) (b : Nat) (closed : Bool) (h : (b : Int) < a) :
    parseIntervalTop (showInt a ++ '-' :: showNat b ++ (if closed then [']'] else [])) = .err :=
  parse_rejects_reversed a b closed h

example : showIval ⟨-5, -3, true⟩ = "-(5-3])".toList := by decide
example : parseIntervalTop "-(5-3])".toList = .ok ⟨-5, -3, true⟩ := by decide
example : showIvalList [⟨-5, -3, true⟩, ⟨-2, 4, false⟩, ⟨0, 0, true⟩] = "-(5-3]) -2-4 0".toList := by decide
example : NumList.byNumList [1, 2, 3, 5, 7, 8] 2 = [⟨1, 3, true⟩, ⟨5, 5, true⟩, ⟨7, 7, true⟩, ⟨8, 8, true⟩] := by decide
example : Ival.humanize [⟨0, 3, true⟩] = [⟨0, 3, false⟩, ⟨3, 3, true⟩] := by decide

end Starcal.Props
