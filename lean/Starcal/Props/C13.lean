import Starcal.Human
import Starcal.NumList
import Starcal.IvalText2
/-! # C13 — interval representation changes (Humanize, Extract, runs, text) keep the set -/
namespace Starcal.Props

/-- rewriting for display keeps exactly the same instants -/
theorem C13_humanize_mem (l : List Ival.Interval) (h : Int) : Ival.memL h (Ival.humanize l) ↔ Ival.memL h l :=
  Ival.humanize_mem l h

/-- … and leaves only half-open intervals and single points -/
theorem C13_humanize_shape (l : List Ival.Interval) (hwf : ∀ i ∈ l, i.start ≤ i.stop) :
    ∀ i ∈ Ival.humanize l, i.closed = false ∨ i.start = i.stop :=
  Ival.humanize_shape l hwf

/-- grouping a list of integers into intervals and expanding it again returns the original
    integers, for *every* list (the property needs only strictly increasing ones) and every
    run threshold -/
theorem C13_extract_byNumList (nums : List Int) (k : Nat) :
    NumList.extract (NumList.byNumList nums k) = nums :=
  NumList.extract_byNumList nums k

/-- printing any well-formed interval and parsing the text returns an equal value: negative,
    mixed-sign and zero positions, both end kinds -/
theorem C13_parse_show_interval (i : Ival) (hwf : WFIv i) : parseIntervalTop (showIval i) = .ok i :=
  parseTop_show i hwf

/-- the same for every non-empty list -/
theorem C13_parse_show_list (l : List Ival) (hne : l ≠ []) (hwf : ∀ i ∈ l, WFIv i) :
    parseIntervalList (showIvalList l) = .ok l :=
  parse_show_list l hne hwf

/-- an interval text whose end is before its start is rejected -/
theorem C13_parse_rejects_reversed (a : Int) (b : Nat) (closed : Bool) (h : (b : Int) < a) :
    parseIntervalTop (showInt a ++ '-' :: showNat b ++ (if closed then [']'] else [])) = .err :=
  parse_rejects_reversed a b closed h

/-- `l` answers `ps` element by element -/
inductive Each {α β : Type} (R : α → β → Prop) : List α → List β → Prop
  | nil : Each R [] []
  | cons {a b as bs} : R a b → Each R as bs → Each R (a :: as) (b :: bs)

/-- an accepted list text is accepted token by token: every interval of the result is what the
    single-interval parser makes of the corresponding token (so none is reversed) -/
theorem parseParts_tokenwise (ps : List (List Char)) (l : List Ival) (h : parseParts false ps = .ok l) :
    Each (fun p i => parseIntervalTop p = .ok i) ps l := by
  induction ps generalizing l with
  | nil => simp [parseParts] at h; subst h; exact Each.nil
  | cons p ps ih =>
    unfold parseParts at h
    cases hp : parseIntervalTop p with
    | ok i =>
      simp only [hp] at h
      cases hq : parseParts false ps with
      | ok l' =>
        simp only [hq, Bool.false_eq_true, if_false] at h
        simp at h; subst h
        exact Each.cons hp (ih l' hq)
      | err => simp [hq] at h
      | panic => simp [hq] at h
    | err => simp [hp] at h
    | panic => simp [hp] at h

theorem C13_accepted_list_is_tokenwise (s : List Char) (l : List Ival) (h : parseIntervalList s = .ok l) :
    Each (fun p i => parseIntervalTop p = .ok i) (splitOn ' ' s) l ∧ ∀ i ∈ l, i.start ≤ i.stop := by
  have hf := parseParts_tokenwise _ l h
  refine ⟨hf, ?_⟩
  intro i hi
  have : ∀ (ps : List (List Char)) (l : List Ival), Each (fun p i => parseIntervalTop p = .ok i) ps l →
      ∀ i ∈ l, i.start ≤ i.stop := by
    intro ps l hfa
    induction hfa with
    | nil => intro i hi; simp at hi
    | cons hpi _ ih =>
      intro j hj
      rcases List.mem_cons.mp hj with rfl | hj
      · unfold parseIntervalTop at hpi
        split at hpi
        · split at hpi
          · simp at hpi
          · simp at hpi; subst hpi; omega
        · rename_i hne; simp_all
      · exact ih j hj
  exact this _ l hf i hi

/-- a reversed (or otherwise rejected) token anywhere in a list text makes the whole text rejected -/
theorem C13_list_rejects_bad_token (s : List Char) (p : List Char) (hp : p ∈ splitOn ' ' s)
    (hbad : parseIntervalTop p = .err) : ∀ l, parseIntervalList s ≠ .ok l := by
  intro l h
  have hf := parseParts_tokenwise _ l h
  have : ∀ (ps : List (List Char)) (l : List Ival), Each (fun p i => parseIntervalTop p = .ok i) ps l →
      ∀ p ∈ ps, ∃ i, parseIntervalTop p = .ok i := by
    intro ps l hfa
    induction hfa with
    | nil => intro p hp; simp at hp
    | cons hpi _ ih =>
      intro q hq
      rcases List.mem_cons.mp hq with rfl | hq
      · exact ⟨_, hpi⟩
      · exact ih q hq
  obtain ⟨i, hi⟩ := this _ l hf p hp
  rw [hbad] at hi
  cases hi

example : parseIntervalList "1-2 5-3 7".toList = .err := by decide


example : showIval ⟨-5, -3, true⟩ = "-(5-3])".toList := by decide
example : parseIntervalTop "-(5-3])".toList = .ok ⟨-5, -3, true⟩ := by decide
example : showIvalList [⟨-5, -3, true⟩, ⟨-2, 4, false⟩, ⟨0, 0, true⟩] = "-(5-3]) -2-4 0".toList := by decide
example : NumList.byNumList [1, 2, 3, 5, 7, 8] 2 = [⟨1, 3, true⟩, ⟨5, 5, true⟩, ⟨7, 7, true⟩, ⟨8, 8, true⟩] := by decide
example : Ival.humanize [⟨0, 3, true⟩] = [⟨0, 3, false⟩, ⟨3, 3, true⟩] := by decide

end Starcal.Props
