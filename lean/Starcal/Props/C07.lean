import Starcal.Props.C02
/-! # C07 — leap years, month lengths and year lengths are mutually consistent

Generic part: for any configuration that is bijective (C01) and consecutive (C02) and reports
positive month lengths, every reported month length *is* the distance between the first days of
consecutive months, and the twelve lengths add up to the distance between consecutive year starts.
Per configuration only the sum of the twelve reported lengths has to be computed:
it is the long year exactly when the year is reported leap. -/
namespace Starcal.Props
open Starcal.Drv

def nextYear (c : Cal) (y : Int) : Int := if c.skipYear0 = true ∧ y = -1 then 1 else y + 1

def monthSum (c : Cal) (y : Int) : Int :=
  c.monthLen y 1 + c.monthLen y 2 + c.monthLen y 3 + c.monthLen y 4 + c.monthLen y 5 + c.monthLen y 6 +
  c.monthLen y 7 + c.monthLen y 8 + c.monthLen y 9 + c.monthLen y 10 + c.monthLen y 11 + c.monthLen y 12

theorem day_walk {c : Cal} (hb : Bijective c) (hc : Consecutive c) (y m : Int)
    (hy : c.skipYear0 = true → y ≠ 0) (h1 : 1 ≤ m) (h2 : m ≤ 12) (k : Nat)
    (hk : (k : Int) + 1 ≤ c.monthLen y m) : c.toJd y m (k + 1) = c.toJd y m 1 + k := by
  induction k with
  | zero => simp
  | succ k ih =>
    have hk' : (k : Int) + 1 ≤ c.monthLen y m := by omega
    have hw : WF c (y, m, (k : Int) + 1) := ⟨hy, h1, h2, by simp only; omega, hk'⟩
    have hs := succ_toJd hb hc _ hw
    have e : succ c (y, m, (k : Int) + 1) = (y, m, (k : Int) + 1 + 1) := by
      unfold succ
      have : (k : Int) + 1 < c.monthLen y m := by omega
      simp [this]
    rw [e] at hs
    simp only [toJdT] at hs
    rw [ih hk'] at hs
    have e2 : ((k + 1 : Nat) : Int) + 1 = (k : Int) + 1 + 1 := by omega
    rw [e2, hs]; omega

/-- each month's reported length equals the distance between the first days of consecutive
    months (month 12: to the first day of the next year) -/
theorem month_gap {c : Cal} (hb : Bijective c) (hc : Consecutive c)
    (hpos : ∀ y m, 1 ≤ m → m ≤ 12 → 1 ≤ c.monthLen y m) (y m : Int)
    (hy : c.skipYear0 = true → y ≠ 0) (h1 : 1 ≤ m) (h2 : m ≤ 12) :
    (if m < 12 then c.toJd y (m + 1) 1 else c.toJd (nextYear c y) 1 1) - c.toJd y m 1 = c.monthLen y m := by
  have hL := hpos y m h1 h2
  generalize hLd : c.monthLen y m = L at hL
  have hk : (((L - 1).toNat : Nat) : Int) + 1 ≤ c.monthLen y m := by omega
  have hw := day_walk hb hc y m hy h1 h2 (L - 1).toNat hk
  have eL : (((L - 1).toNat : Nat) : Int) + 1 = L := by omega
  rw [eL] at hw
  have hwf : WF c (y, m, L) := ⟨hy, h1, h2, hL, by simp only; omega⟩
  have hs := succ_toJd hb hc _ hwf
  have e : succ c (y, m, L) = if m < 12 then (y, m + 1, 1) else (nextYear c y, 1, 1) := by
    unfold succ nextYear
    have : ¬ (L < c.monthLen y m) := by omega
    simp [this]
  rw [e] at hs
  by_cases hm : m < 12
  · simp only [hm, if_true, toJdT] at hs ⊢
    omega
  · simp only [hm, if_false, toJdT] at hs ⊢
    omega

/-- the twelve reported month lengths add up to the distance between this year's and the next
    year's first day -/
theorem year_sum {c : Cal} (hb : Bijective c) (hc : Consecutive c)
    (hpos : ∀ y m, 1 ≤ m → m ≤ 12 → 1 ≤ c.monthLen y m) (y : Int) (hy : c.skipYear0 = true → y ≠ 0) :
    monthSum c y = c.toJd (nextYear c y) 1 1 - c.toJd y 1 1 := by
  have g := fun m h1 h2 => month_gap hb hc hpos y m hy h1 h2
  have g1 := g 1 (by omega) (by omega)
  have g2 := g 2 (by omega) (by omega)
  have g3 := g 3 (by omega) (by omega)
  have g4 := g 4 (by omega) (by omega)
  have g5 := g 5 (by omega) (by omega)
  have g6 := g 6 (by omega) (by omega)
  have g7 := g 7 (by omega) (by omega)
  have g8 := g 8 (by omega) (by omega)
  have g9 := g 9 (by omega) (by omega)
  have g10 := g 10 (by omega) (by omega)
  have g11 := g 11 (by omega) (by omega)
  have g12 := g 12 (by omega) (by omega)
  simp only [show ((1:Int) < 12) = True by simp, show ((2:Int) < 12) = True by simp,
    show ((3:Int) < 12) = True by simp, show ((4:Int) < 12) = True by simp,
    show ((5:Int) < 12) = True by simp, show ((6:Int) < 12) = True by simp,
    show ((7:Int) < 12) = True by simp, show ((8:Int) < 12) = True by simp,
    show ((9:Int) < 12) = True by simp, show ((10:Int) < 12) = True by simp,
    show ((11:Int) < 12) = True by simp, show ((12:Int) < 12) = False by simp, if_true, if_false,
    show (1:Int) + 1 = 2 by rfl, show (2:Int) + 1 = 3 by rfl, show (3:Int) + 1 = 4 by rfl,
    show (4:Int) + 1 = 5 by rfl, show (5:Int) + 1 = 6 by rfl, show (6:Int) + 1 = 7 by rfl,
    show (7:Int) + 1 = 8 by rfl, show (8:Int) + 1 = 9 by rfl, show (9:Int) + 1 = 10 by rfl,
    show (10:Int) + 1 = 11 by rfl, show (11:Int) + 1 = 12 by rfl] at g1 g2 g3 g4 g5 g6 g7 g8 g9 g10 g11 g12
  unfold monthSum
  omega

/-- C07 for one configuration with year lengths `short` / `short + 1` -/
structure Coherent (c : Cal) (short : Int) : Prop where
  month_gap : ∀ y m, (c.skipYear0 = true → y ≠ 0) → 1 ≤ m → m ≤ 12 →
    (if m < 12 then c.toJd y (m + 1) 1 else c.toJd (nextYear c y) 1 1) - c.toJd y m 1 = c.monthLen y m
  year_sum : ∀ y, (c.skipYear0 = true → y ≠ 0) → monthSum c y = c.toJd (nextYear c y) 1 1 - c.toJd y 1 1
  leap_iff_long : ∀ y, (c.skipYear0 = true → y ≠ 0) →
    c.toJd (nextYear c y) 1 1 - c.toJd y 1 1 = if c.isLeap y = true then short + 1 else short

theorem coherent_of {c : Cal} {short : Int} (hb : Bijective c) (hc : Consecutive c)
    (hpos : ∀ y m, 1 ≤ m → m ≤ 12 → 1 ≤ c.monthLen y m)
    (hsum : ∀ y, (c.skipYear0 = true → y ≠ 0) → monthSum c y = if c.isLeap y = true then short + 1 else short) :
    Coherent c short where
  month_gap y m hy h1 h2 := Starcal.Props.month_gap hb hc hpos y m hy h1 h2
  year_sum y hy := Starcal.Props.year_sum hb hc hpos y hy
  leap_iff_long y hy := by rw [← Starcal.Props.year_sum hb hc hpos y hy, hsum y hy]

theorem C07_julian : Coherent calJul 365 :=
  coherent_of C01_julian C02_julian
    (fun y m h1 h2 => by have := Julian.monthLen_pos y m h1 h2; simp only [calJul]; omega)
    (fun y _ => by
      simp only [monthSum, calJul, Julian.monthLen, Julian.monthLenTab]
      by_cases h : Julian.isLeap y = true <;> simp [h])

theorem C07_gregorian : Coherent calGreg 365 :=
  coherent_of C01_gregorian C02_gregorian
    (fun y m h1 h2 => by have := gMonthLen_range y m h1 h2; simp only [calGreg]; omega)
    (fun y _ => by
      simp only [monthSum, calGreg, gMonthLen]
      by_cases h : gIsLeap y = true <;> simp [h])

theorem C07_gregorian_proleptic : Coherent calGprol 365 :=
  coherent_of C01_gregorian_proleptic C02_gregorian_proleptic
    (fun y m h1 h2 => by have := gMonthLen_range (relIn y) m h1 h2; simp only [calGprol, pMonthLen]; omega)
    (fun y _ => by
      simp only [monthSum, calGprol, pMonthLen, pIsLeap, gMonthLen]
      by_cases h : gIsLeap (relIn y) = true <;> simp [h])

theorem C07_indian_national : Coherent calInd 365 :=
  coherent_of C01_indian_national C02_indian_national
    (fun y m _ _ => by have := iMonthLen_range y m; simp only [calInd]; omega)
    (fun y _ => by
      simp only [monthSum, calInd, iMonthLen]
      by_cases h : iIsLeap y = true <;> simp [h])

theorem C07_ethiopian : Coherent calEth 365 :=
  coherent_of C01_ethiopian C02_ethiopian
    (fun y m _ _ => by simp only [calEth, Ethiopian.monthLen]; split <;> (try split) <;> omega)
    (fun y _ => by
      simp only [monthSum, calEth, Ethiopian.monthLen]
      by_cases h : Ethiopian.isLeap y = true <;> simp [h])

theorem C07_hijri_arithmetic : Coherent calHijA 354 :=
  coherent_of C01_hijri_arithmetic C02_hijri_arithmetic
    (fun y m _ _ => by have := Hijri.monthLen_range y m; simp only [calHijA]; omega)
    (fun y _ => by
      simp only [monthSum, calHijA, Hijri.monthLen]
      by_cases h : Hijri.isLeap y = true <;> simp [h])

theorem C07_jalali_33 : Coherent calJal33 365 :=
  coherent_of C01_jalali_33 C02_jalali_33
    (fun y m h1 h2 => by have := Jalali.monthLen_range y m h1 h2; simp only [calJal33]; omega)
    (fun y _ => by
      simp only [monthSum, calJal33, Jalali.monthLen, Jalali.monthLenTab]
      by_cases h : Jalali.isLeap y = true <;> simp [h])

theorem C07_jalali_2820 : Coherent calJal2820 365 :=
  coherent_of C01_jalali_2820 C02_jalali_2820
    (fun y m h1 h2 => by have := Jalali.monthLen2_range y m h1 h2; simp only [calJal2820]; omega)
    (fun y _ => by
      simp only [monthSum, calJal2820, Jalali.monthLen2, Jalali.monthLenTab]
      by_cases h : Jalali.isLeap2 y = true <;> simp [h])

/-! ### hijri in month-table mode -/

/-- **C07 for hijri in month-table mode**: "the length equalities still hold" — every reported month
    length is the distance between the first days of consecutive months and the twelve lengths add up
    to the distance between consecutive year starts, for ALL years and months (in this mode the
    library computes the length as that distance; the leap flag keeps its arithmetic meaning and is
    not tied to the year length inside the table) -/
theorem C07_hijri_table_gaps :
    (∀ y m, 1 ≤ m → m ≤ 12 →
      (if m < 12 then calHijT.toJd y (m + 1) 1 else calHijT.toJd (nextYear calHijT y) 1 1) - calHijT.toJd y m 1 = calHijT.monthLen y m) ∧
    (∀ y, monthSum calHijT y = calHijT.toJd (nextYear calHijT y) 1 1 - calHijT.toJd y 1 1) ∧
    (∀ y, calHijT.isLeap y = calHijA.isLeap y) := by
  refine ⟨?_, ?_, fun _ => rfl⟩
  · intro y m h1 h2
    simp only [calHijT, nextYear, HijriT.monthLenT, Bool.false_eq_true, false_and, if_false]
    by_cases h12 : m = 12
    · subst h12; simp
    · have : m < 12 := by omega
      simp [h12, this]
  · intro y
    simp only [monthSum, calHijT, nextYear, HijriT.monthLenT, Bool.false_eq_true, false_and, if_false]
    simp
    omega

end Starcal.Props
