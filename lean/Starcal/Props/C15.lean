import Starcal.SetHist
import Starcal.SetPow
/-! # C15 — both set implementations behave as mathematical sets for every operation history

A Go `map[any]struct{}` is modelled as a duplicate-free list (`Nodup` is an invariant, not a
subtype); `threadSafeSet` delegates every operation to the same data function under a lock, so the
one model serves both implementations (the locking is C16/C17). `Spec` is stated in terms of
membership only. -/
namespace Starcal.Props
open Starcal.SetM

variable {α : Type} [DecidableEq α]

/-- **every step of every operation history** from the empty registers meets its mathematical
    specification (result, new contents, all other registers — the operands — unchanged), and every
    register stays duplicate-free: any length, any universe with decidable equality -/
theorem C15_history_correct (ops : List (Op α)) :
    ∀ e ∈ run (fun _ => ([] : List α)) ops, Inv e.1 ∧ Spec e.1 e.2.1 e.2.2.1 e.2.2.2 ∧ Inv e.2.2.2 :=
  history_correct _ (fun _ => List.nodup_nil) ops

/-- the same from any duplicate-free state -/
theorem C15_history_correct_from (s : St α) (hs : Inv s) (ops : List (Op α)) :
    ∀ e ∈ run s ops, Inv e.1 ∧ Spec e.1 e.2.1 e.2.2.1 e.2.2.2 ∧ Inv e.2.2.2 :=
  history_correct s hs ops

theorem C15_mem_union (s o : S α) (x : α) : x ∈ union s o ↔ x ∈ s ∨ x ∈ o := mem_union s o x
theorem C15_mem_intersect (s o : S α) (x : α) : x ∈ intersect s o ↔ x ∈ s ∧ x ∈ o := mem_intersect s o x
theorem C15_mem_difference (s o : S α) (x : α) : x ∈ difference s o ↔ x ∈ s ∧ x ∉ o := mem_difference s o x
theorem C15_mem_symDiff (s o : S α) (x : α) : x ∈ symDiff s o ↔ (x ∈ s ∧ x ∉ o) ∨ (x ∈ o ∧ x ∉ s) :=
  mem_symDiff s o x
theorem C15_subset_iff (s o : S α) : isSubset s o = true ↔ ∀ x ∈ s, x ∈ o := isSubset_iff s o
/-- IsSuperset is `other.IsSubset(set)` -/
theorem C15_superset_iff (s o : S α) : isSubset o s = true ↔ ∀ x ∈ o, x ∈ s := isSubset_iff o s
theorem C15_equal_iff (s o : S α) (hs : s.Nodup) (ho : o.Nodup) : equal s o = true ↔ ∀ x, x ∈ s ↔ x ∈ o :=
  equal_iff s o hs ho
/-- size = number of distinct members -/
theorem C15_card (s : S α) (_ : s.Nodup) : card s = s.length := rfl
/-- Contains with several arguments: all of them are members -/
theorem C15_contains_all (s : S α) (xs : List α) : xs.all (contains s) = true ↔ ∀ x ∈ xs, x ∈ s := by
  simp [List.all_eq_true, contains]

/-- Cartesian product: (a, b) is a member iff a ∈ s and b ∈ o -/
theorem C15_mem_cartesian (s o : S α) (p : α × α) : p ∈ cartesian s o ↔ p.1 ∈ s ∧ p.2 ∈ o := mem_cartesian s o p
/-- power set: 2ⁿ members, each a sub-selection of the set, and every sub-selection occurs -/
theorem C15_powerSet_size (s : S α) : (powerSet s).length = 2 ^ s.length := length_powerSet s
theorem C15_powerSet_sound (s : S α) : ∀ p ∈ powerSet s, ∀ x ∈ p, x ∈ s := powerSet_subset s
theorem C15_powerSet_complete (s : S α) (q : α → Bool) : s.filter q ∈ powerSet s := powerSet_complete s q

example : (run (fun _ => ([] : List Nat)) [.add 0 1, .add 0 1, .add 1 2, .union 2 0 1, .card 2]).map (·.2.2.1) =
    [.bool true, .bool false, .bool true, .none, .nat 2] := by decide
example : powerSet [1, 2] = [[], [1], [2], [1, 2]] := by decide

end Starcal.Props
