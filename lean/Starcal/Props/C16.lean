import Starcal.RaceA
import Starcal.Serial
import Starcal.Refine
import Starcal.Gen.LockSeq
import Starcal.Gen.LockSkel
/-! # C16 — thread-safe set: every operation is atomic under concurrency (race-free)

`Gen.lockSeqs` is regenerated on every run: for each of the 18 operations and each operand
assignment over two sets, the lock events *recorded from the implementation* interleaved with the
accesses to the sets' maps found by walking the source (every source path whose lock calls are
exactly the recorded events; several entries for one operation and assignment when several fit). `discA` is the static ACCESS discipline: an access needs
the set's lock in the required mode (shared for a read, exclusive for a write), releases match what
is held, nothing is held at the end (the acquisition ORDER is C17's business, not C16's).

Data-race freedom and mutual exclusion are proved for every reachable state of every program
(`C16_no_race`, `C16_exclusion_partial`). The step to linearizability is `C16_linearizable`: on the
machine WITH DATA of `Serial.lean` (a read access feeds the set's current contents into the
operation's local state, a write access replaces them — for ANY such semantics), every execution
of any program of the 18 operations that runs to completion leaves the memory and every
operation's results exactly as running the operations one at a time does, in the order of their
first releases; each operation takes effect between its first action and its return
(`C16_effect_between_call_and_return`), so that order is consistent with real time.
The machine of `Serial.lean` uses the plain reader/writer lock; `Refine.lean` proves that every
execution of the writer-preferring machine of `Lock.lean` (the one `C16_no_race` and C17 are about)
is matched step for step by an execution of it (an announcement is a stutter step, returns are
inserted, the stronger guards plus the exclusion invariant imply the weaker ones), so
`C16_linearizable_writer_preferring` states the result for the writer-preferring lock.
What stays outside: the Go scheduler and the memory model below `sync.RWMutex` (the lock is assumed
to provide the ordering its documentation promises), and that each real operation's effect on a
set IS a function of the values it reads under the lock (that is C15's subject). -/
namespace Starcal.Props
open Starcal.Lock Starcal.Gen Starcal.Serial

/-- every operation, under every operand assignment, holds the required lock at every access -/
theorem C16_ops_disciplined : lockSeqs.all (fun e => discA [] e.2.2) = true := by decide

/-- all 18 operations of the set interface were extracted -/
theorem C16_eighteen_operations : (lockSeqs.map (·.1)).eraseDups.length = 18 := by decide

/-- the lock events of every entry are exactly the events recorded for that operation and operand
    assignment, and every recorded (operation, assignment) has an entry -/
theorem C16_lock_events_are_recorded :
    lockSeqs.all (fun e => lockSkels.contains (e.1, e.2.1, skeleton e.2.2)) = true ∧
    lockSkels.all (fun k => lockSeqs.any (fun e => e.1 == k.1 && e.2.1 == k.2.1)) = true := by decide

/-- the action sequences of the operations -/
def opSeqs : List (List Act) := lockSeqs.map (·.2.2)

theorem opSeqs_discA : ∀ c ∈ opSeqs, discA [] c = true := by
  intro c hc
  unfold opSeqs at hc
  obtain ⟨e, he, rfl⟩ := List.mem_map.mp hc
  exact List.all_eq_true.mp C16_ops_disciplined e he

/-- a concurrent program over the two sets: any number of goroutines, each running any sequence of
    the 18 operations -/
def IsProgram (progs : List (List (List Act))) : Prop := ∀ calls ∈ progs, ∀ c ∈ calls, c ∈ opSeqs

theorem program_initialA (progs : List (List (List Act))) (h : IsProgram progs) : InitialA (startState progs) :=
  startState_initialA progs (fun calls hc c hcc => opSeqs_discA c (h calls hc c hcc))

/-- **no data race**: in no reachable state of any program are two goroutines both about to touch
    the same set's contents with one of them writing -/
theorem C16_no_race (progs : List (List (List Act))) (h : IsProgram progs) (s : List Thread)
    (hr : Reach (startState progs) s) : ¬ RaceNow s :=
  reachA_no_race (program_initialA progs h) hr

/-- **mutual exclusion**: a set's lock held (or announced) by a writer is held by nobody else, in
    every reachable state — the windows in which conflicting operations touch a common set are disjoint -/
theorem C16_exclusion_partial (progs : List (List (List Act))) (h : IsProgram progs) (s : List Thread)
    (hr : Reach (startState progs) s) : Excl s :=
  (reachA_inv (program_initialA progs h) hr).2

/-- every goroutine of every reachable state still follows the access discipline -/
theorem C16_discipline_preserved (progs : List (List (List Act))) (h : IsProgram progs) (s : List Thread)
    (hr : Reach (startState progs) s) : ∀ th ∈ s, GoodA th :=
  (reachA_inv (program_initialA progs h) hr).1

/-- every operation is two-phase: no acquisition and no access after its first release -/
theorem C16_ops_two_phase : lockSeqs.all (fun e => Serial.twoPh e.2.2) = true := by decide

/-- **linearizability on the model with data**: any semantics of reads and writes, any number of
    goroutines, any sequences of the 18 operations (under any operand assignment), any initial
    contents and local states: a completed execution ends in the state the atomic machine reaches by
    running the operations one at a time in the order `s.sched` in which they took effect -/
theorem C16_linearizable {D L : Type} (S : Serial.Sem D L) (progs : Nat → List (List Act))
    (hprog : ∀ t, ∀ c ∈ progs t, c ∈ opSeqs) (l0 : Nat → L) (m0 : Nat → D) (s : Serial.St D L)
    (hr : Serial.Reach S (Serial.init progs l0 m0) s) (hdone : ∀ t, (s.th t).prog = []) :
    Serial.runSerial S { progs := progs, loc := l0, mem := m0 } s.sched =
      { progs := fun _ => [], loc := fun t => (s.th t).loc, mem := s.mem } := by
  apply Serial.serializable S progs l0 m0 _ s hr hdone
  intro t c hc
  have hm := hprog t c hc
  unfold opSeqs at hm
  obtain ⟨e, he, rfl⟩ := List.mem_map.mp hm
  exact ⟨List.all_eq_true.mp C16_ops_disciplined e he, List.all_eq_true.mp C16_ops_two_phase e he⟩

/-- **linearizability under the writer-preferring lock**: whenever the writer-preferring machine
    (the model of Go's `sync.RWMutex` used for C17 and for `C16_no_race`) runs any program of the 18
    operations to completion, the machine with data follows it step for step — same locks held, same
    actions left in every goroutine (`Serial.Rel`) — to a finished state whose memory and results
    are those of running the operations one at a time in the order in which they took effect -/
theorem C16_linearizable_writer_preferring {D L : Type} (S : Serial.Sem D L) (progs : List (List (List Act)))
    (h : IsProgram progs) (l0 : Nat → L) (m0 : Nat → D) (ls : List Thread)
    (hr : Reach (startState progs) ls) (hdone : ∀ th ∈ ls, th.prog = []) :
    ∃ ss : Serial.St D L, Serial.Reach S (Serial.init (Serial.progsOf progs) l0 m0) ss ∧ Serial.Rel ls ss ∧
      (∀ t, (ss.th t).prog = []) ∧
      Serial.runSerial S { progs := Serial.progsOf progs, loc := l0, mem := m0 } ss.sched =
        { progs := fun _ => [], loc := fun t => (ss.th t).loc, mem := ss.mem } := by
  apply Serial.serializable_wp S progs l0 m0 _ ls hr hdone
  intro calls hc c hcc
  have hm := h calls hc c hcc
  unfold opSeqs at hm
  obtain ⟨e, he, rfl⟩ := List.mem_map.mp hm
  exact ⟨List.all_eq_true.mp C16_ops_disciplined e he, List.all_eq_true.mp C16_ops_two_phase e he⟩

/-- **consistent with real time**: at every moment of every execution, the operations of a
    goroutine that have taken effect are exactly its first `count` operations, and what is left for
    the atomic machine is the goroutine's remaining program with or without the operation in
    progress — an operation that has returned has taken effect, one that has not started has not;
    and the order of effect only ever grows at its end. -/
theorem C16_effect_between_call_and_return {D L : Type} (S : Serial.Sem D L) (progs : Nat → List (List Act))
    (hprog : ∀ t, ∀ c ∈ progs t, c ∈ opSeqs) (l0 : Nat → L) (m0 : Nat → D) (s s' : Serial.St D L)
    (hr : Serial.Reach S (Serial.init progs l0 m0) s) (hr' : Serial.Reach S s s') (t : Nat) :
    (progs t).drop (s.sched.count t) = Serial.aprog (s.th t) ∧
    (Serial.aprog (s.th t) = (s.th t).prog.tail ∨
      (Serial.aprog (s.th t)).tail = (s.th t).prog.tail ∧ (Serial.aprog (s.th t)).length = (s.th t).prog.length) ∧
    ∃ l, s'.sched = s.sched ++ l := by
  have hp : ∀ t, ∀ c ∈ progs t, discA [] c = true ∧ Serial.twoPh c = true := by
    intro t c hc
    have hm := hprog t c hc
    unfold opSeqs at hm
    obtain ⟨e, he, rfl⟩ := List.mem_map.mp hm
    exact ⟨List.all_eq_true.mp C16_ops_disciplined e he, List.all_eq_true.mp C16_ops_two_phase e he⟩
  have h := Serial.inv_reach S _ (Serial.inv_init S progs l0 m0 hp) hr
  exact ⟨(Serial.committed_prefix S _ s h t).symm, Serial.aprog_window _, Serial.sched_prefix S hr'⟩

-- non-vacuity: a concrete program of extracted operations
example : opSeqs.any (fun c => c.contains (.access 0 true) && c.contains (.wlock 0)) = true := by decide
example : opSeqs.any (fun c => c.contains (.rlock 0) && c.contains (.rlock 1) && c.contains (.access 0 false) && c.contains (.access 1 false)) = true := by decide
/-- the defect repaired by a `fix:` commit: SymmetricDifference without any lock fails the discipline -/
example : discA [] [.access 1 false, .access 0 false] = false := by decide
/-- … and so does an access after the lock was released (a map header copied under the lock) -/
example : discA [] [.rlock 0, .access 0 false, .runlock 0, .access 0 false] = false := by decide

/-- contents = a counter, local state = the log of values read -/
def demoSem : Sem Nat (List Nat) := { rd := fun l _ d => d :: l, wr := fun l _ d => (l, d + 1) }

def demoProgs : Nat → List (List Act) := fun t =>
  if t = 0 then [[.wlock 0, .access 0 true, .unlock 0]]
  else if t = 1 then [[.rlock 0, .access 0 false, .runlock 0]] else []

/-- the premises of `C16_linearizable` are satisfiable: a writer and a reader on one set, the
    reader scheduled first -/
example : ∃ s, Serial.Reach demoSem (init demoProgs (fun _ => []) (fun _ => 0)) s ∧ (∀ t, (s.th t).prog = []) ∧
    s.sched = [1, 0] ∧ s.mem 0 = 1 ∧ (s.th 1).loc = [0] := by
  have r0 := Serial.Reach.refl (S := demoSem) (init demoProgs (fun _ => ([] : List Nat)) (fun _ => (0 : Nat)))
  have r1 := Reach.step r0 (Step.acq _ 1 (.rlock 0) _ _ 0 false rfl rfl (by intro u _; simp [init]))
  have r2 := Reach.step r1 (Step.read _ 1 _ _ 0 rfl)
  have r3 := Reach.step r2 (Step.rel _ 1 (.runlock 0) _ _ 0 false rfl rfl)
  have r4 := Reach.step r3 (Step.ret _ 1 _ rfl)
  have r5 := Reach.step r4 (Step.acq _ 0 (.wlock 0) _ _ 0 true rfl rfl (by
        intro u hu
        by_cases h1 : u = 1
        · subst h1; simp [upd, init]
        · simp [upd, init, h1]))
  have r6 := Reach.step r5 (Step.write _ 0 _ _ 0 rfl)
  have r7 := Reach.step r6 (Step.rel _ 0 (.unlock 0) _ _ 0 true rfl rfl)
  have r8 := Reach.step r7 (Step.ret _ 0 _ rfl)
  refine ⟨_, r8, ?_, rfl, rfl, rfl⟩
  intro t
  by_cases h0 : t = 0
  · subst h0; rfl
  · by_cases h1 : t = 1
    · subst h1; rfl
    · simp [upd, init, h0, h1, demoProgs]

example : ∀ t, ∀ c ∈ demoProgs t, c ∈ opSeqs := by
  intro t c hc
  unfold demoProgs at hc
  split at hc
  · simp only [List.mem_singleton] at hc; subst hc; decide
  · split at hc
    · simp only [List.mem_singleton] at hc; subst hc; decide
    · simp at hc

end Starcal.Props
