import Starcal.RaceA
import Starcal.Gen.LockSeq
/-! # C16 — thread-safe set: every operation is atomic under concurrency (race-free)

`Gen.lockSeqs` is regenerated on every run: for each of the 18 operations and each operand
assignment over two sets, the lock events *recorded from the implementation* interleaved with the
accesses to the sets' maps found in the source. `discA` is the static ACCESS discipline: an access needs
the set's lock in the required mode (shared for a read, exclusive for a write), releases match what
is held, nothing is held at the end (the acquisition ORDER is C17's business, not C16's).

**Partial**: data-race freedom and mutual exclusion are proved for every reachable state of every
program; the last step to linearizability ("therefore the history equals a sequential one in
lock-point order") is not proved in Lean. The Go scheduler and the memory model below
`sync.RWMutex` are not modelled: the lock is assumed to provide the ordering its documentation
promises. -/
namespace Starcal.Props
open Starcal.Lock Starcal.Gen

/-- every operation, under every operand assignment, holds the required lock at every access -/
theorem C16_ops_disciplined : lockSeqs.all (fun e => discA [] e.2.2) = true := by decide

/-- all 18 operations of the set interface were extracted -/
theorem C16_eighteen_operations : (lockSeqs.map (·.1)).eraseDups.length = 18 := by decide

/-- the action sequences of the operations -/
def opSeqs : List (List Act) := lockSeqs.map (·.2.2)

theorem opSeqs_discA : ∀ c ∈ opSeqs, discA [] c = true := by
  intro c hc
  unfold opSeqs at hc
  obtain ⟨e, he, rfl⟩ := List.mem_map.mp hc
  exact List.all_eq_true.mp C16_ops_disciplined e he

/-- a concurrent program over the two sets: any number of goroutines, each running any sequence of
    the 18 operations -/
def IsProgram (progs : List (List (List Act))) : Prop := ∀ calls ∈ progs, ∀ c ∈ calls, c ∈ opSeqs

theorem program_initialA (progs : List (List (List Act))) (h : IsProgram progs) : InitialA (startState progs) :=
  startState_initialA progs (fun calls hc c hcc => opSeqs_discA c (h calls hc c hcc))

/-- **no data race**: in no reachable state of any program are two goroutines both about to touch
    the same set's contents with one of them writing -/
theorem C16_no_race (progs : List (List (List Act))) (h : IsProgram progs) (s : List Thread)
    (hr : Reach (startState progs) s) : ¬ RaceNow s :=
  reachA_no_race (program_initialA progs h) hr

/-- **mutual exclusion**: a set's lock held (or announced) by a writer is held by nobody else, in
    every reachable state — the windows in which conflicting operations touch a common set are disjoint -/
theorem C16_exclusion_partial (progs : List (List (List Act))) (h : IsProgram progs) (s : List Thread)
    (hr : Reach (startState progs) s) : Excl s :=
  (reachA_inv (program_initialA progs h) hr).2

/-- every goroutine of every reachable state still follows the access discipline -/
theorem C16_discipline_preserved (progs : List (List (List Act))) (h : IsProgram progs) (s : List Thread)
    (hr : Reach (startState progs) s) : ∀ th ∈ s, GoodA th :=
  (reachA_inv (program_initialA progs h) hr).1

-- non-vacuity: a concrete program of extracted operations
example : ([.wlock 0, .access 0 true, .unlock 0] : List Act) ∈ opSeqs := by decide
example : ([.rlock 0, .rlock 1, .access 1 false, .access 0 false, .runlock 0, .runlock 1] : List Act) ∈ opSeqs := by decide
/-- the defect repaired by a `fix:` commit: SymmetricDifference without any lock fails the discipline -/
example : discA [] [.access 1 false, .access 0 false] = false := by decide
/-- … and so does an access after the lock was released (a map header copied under the lock) -/
example : discA [] [.rlock 0, .access 0 false, .runlock 0, .access 0 false] = false := by decide

end Starcal.Props
