import Starcal.ZoneModel
import Starcal.Occur
/-! # C11 — a day's epoch interval is exactly the instants whose local date is that day

**Partial**: the statements hold for every zone and every day whose two local midnights are
*regular* — local time crosses the reading exactly once and an instant shows it — and the full
statement is refuted by a witness (`C11_unrestricted_is_false`): `time.Date` alone cannot find the
first instant of a day whose midnight is skipped or repeated. That class is an open known finding. -/
namespace Starcal.Props
open Starcal.ZoneModel Starcal.Zone

/-- `e0` is THE instant at which local time crosses the reading `L` -/
def CrossesAt (z : TZ) (L e0 : Int) : Prop :=
  e0 + off z e0 = L ∧ (∀ e, e0 ≤ e ↔ L ≤ e + off z e) ∧ ∀ e, e + off z e = L → e = e0

/-- a regular local midnight of day `jd`: crossed exactly once, and the zone has at most one offset
    change within ±M of it -/
structure MidnightRegular (z : TZ) (jd e0 : Int) : Prop where
  crosses : CrossesAt z (midnightReading jd) e0
  sparse : ∃ M T oA oB, Sparse z.toZone (midnightReading jd) M T oA oB ∧ -M ≤ off z e0 ∧ off z e0 ≤ M

theorem reading_midnight (jd : Int) : reading jd 0 0 0 = midnightReading jd := by
  unfold reading midnightReading
  rw [gToJd_gJdTo]; omega

/-- at a regular midnight the library's `GetEpochByJd` returns the crossing instant -/
theorem getEpochByJd_regular (z : TZ) (jd e0 : Int) (h : MidnightRegular z jd e0) : getEpochByJd z jd = e0 := by
  obtain ⟨⟨hc1, hc2, hc3⟩, M, T, oA, oB, hs, hb1, hb2⟩ := h
  apply hc3
  unfold getEpochByJd getEpochByJhms
  rw [reading_midnight]
  exact resolve_reading z.toZone _ M T oA oB hs e0 hc1 (by omega)

/-- **an instant lies inside the day's interval exactly when its local date is that day** -/
theorem C11_day_interval_exact_partial (z : TZ) (jd e0 e1 : Int)
    (h0 : MidnightRegular z jd e0) (h1 : MidnightRegular z (jd + 1) e1) (e : Int) :
    ((intervalByJd z jd).1 ≤ e ∧ e < (intervalByJd z jd).2) ↔ getJdByEpoch z e = jd := by
  unfold intervalByJd
  simp only
  rw [getEpochByJd_regular z jd e0 h0, getEpochByJd_regular z (jd + 1) e1 h1]
  have a := h0.crosses.2.1 e
  have b := h1.crosses.2.1 e
  unfold midnightReading at a b
  unfold getJdByEpoch J1970
  unfold J1970 at a b
  omega

/-- consecutive days' intervals abut with no gap or overlap (by construction) -/
theorem C11_intervals_abut (z : TZ) (jd : Int) : (intervalByJd z jd).2 = (intervalByJd z (jd + 1)).1 := rfl

/-- non-negative length -/
theorem C11_nonneg_length_partial (z : TZ) (jd e0 e1 : Int)
    (h0 : MidnightRegular z jd e0) (h1 : MidnightRegular z (jd + 1) e1) :
    (intervalByJd z jd).1 ≤ (intervalByJd z jd).2 := by
  unfold intervalByJd
  simp only
  rw [getEpochByJd_regular z jd e0 h0, getEpochByJd_regular z (jd + 1) e1 h1]
  have a := (h0.crosses.2.1 e1).mpr
  have b := h1.crosses.1
  unfold midnightReading at a b
  apply a
  omega

/-- the day range reported for a span [s, e) is exactly the first through one-past-the-last day
    that contain any of its instants — for any zone in which the local date never moves backwards
    and never advances by more than one day per second over the span -/
theorem C11_jd_range_exact_partial (z : TZ) (s e : Int) (hse : s < e)
    (hmono : ∀ a b, a ≤ b → getJdByEpoch z a ≤ getJdByEpoch z b)
    (hstep : ∀ x, getJdByEpoch z (x + 1) ≤ getJdByEpoch z x + 1) (d : Int) :
    ((getJdRange z s e).1 ≤ d ∧ d < (getJdRange z s e).2) ↔ ∃ x, s ≤ x ∧ x < e ∧ getJdByEpoch z x = d := by
  have h := Starcal.Occur.days_exact (getJdByEpoch z) hmono hstep s e false (Or.inl hse) d
  unfold Starcal.Occur.daysOf at h
  simp only [Bool.false_eq_true, if_false, false_and, or_false] at h
  unfold getJdRange
  simp only
  rw [← h]
  omega

/-- the unrestricted statement is FALSE of the code: clocks go from 01:00 back to 00:00 at instant 0;
    `GetEpochByJd` returns the second midnight, the day began an hour earlier -/
def fallbackZone : TZ := ⟨3600, [(0, 0)]⟩
theorem C11_unrestricted_is_false :
    getJdByEpoch fallbackZone (-1800) = J1970 ∧ ¬ ((intervalByJd fallbackZone J1970).1 ≤ -1800) := by decide

/-- … and so is the unrestricted span clause (open known finding KF-jdrange-date-goes-back): clocks go
    from 00:01 back to 23:01 of the day before at instant 60; the span [30, 120) has instants on both
    days, the reported range is empty — the monotonicity hypothesis of `C11_jd_range_exact_partial`
    cannot be dropped -/
def dateGoesBackZone : TZ := ⟨0, [(60, -3600)]⟩
theorem C11_jd_range_unrestricted_is_false :
    getJdByEpoch dateGoesBackZone 30 = J1970 ∧ getJdByEpoch dateGoesBackZone 60 = J1970 - 1 ∧
    getJdRange dateGoesBackZone 30 120 = (J1970, J1970) := by decide

example : intervalByJd fallbackZone J1970 = (0, 86400) := by decide
example : intervalByJd (⟨3600, [(100000, 7200)]⟩ : TZ) 2440589 = (82800, 165600) := by decide   -- a 23-hour day

end Starcal.Props
