import Starcal.ByName
import Starcal.Props.C01
/-! # C06 — by-name conversion API obeys identity / inverse / composition laws, works by default

`ByName` models cal_types.Convert / ToJd / JdTo over the regenerated registry (`Gen.calMetas`,
later registrations shadow earlier ones) and the two package switches. -/
namespace Starcal.Props
open Starcal.Drv Starcal.ByName

/-- in the default state and after any sequence of configuration switches, a table-mode hijri
    call finds its table loaded (no nil dereference) -/
theorem C06_inv_reachable (hist : List Toggle) : Inv (run hist) := by
  have gen : ∀ (h : List Toggle) (c : Cfg), Inv c → Inv (h.foldl step c) := by
    intro h
    induction h with
    | nil => intro c hc; exact hc
    | cons t ts ih =>
      intro c hc
      apply ih
      unfold ByName.Inv at *
      cases t <;> simp [step] <;> exact hc
  exact gen hist init (by decide)

/-- the defect repaired by the `fix:` commit: before `init()` loaded the table, the default
    state violated the invariant -/
example : ¬ Inv preInit := by decide

/-- hence no by-name call ever panics, whatever the names and the date -/
theorem C06_never_panics (hist : List Toggle) (t : Int × Int × Int) (a b : String) :
    convert (run hist) t a b ≠ .panic ∧ toJdByName (run hist) t a ≠ .panic ∧
    jdToByName (run hist) t.1 a ≠ .panic := by
  have hinv := C06_inv_reachable hist
  generalize run hist = c at *
  have np : ∀ n, panics c n = false := by
    intro n
    unfold panics
    unfold ByName.Inv at hinv
    cases h1 : c.useTable <;> cases h2 : c.loaded <;> simp_all
  refine ⟨?_, ?_, ?_⟩
  · unfold convert; split <;> simp [np]
  · unfold toJdByName; split <;> simp [np]
  · unfold jdToByName; split <;> simp [np]

/-- the registered names -/
def names : List String := Gen.calMetas.map (·.name)

theorem lookupPkg_none (n : String) (h : n ∉ names) : lookupPkg n = none := by
  unfold lookupPkg
  have gen : ∀ (l : List Gen.CalMeta), (∀ c ∈ l, c.name ≠ n) →
      l.foldl (fun acc c => if c.name = n then some c.pkg else acc) none = none := by
    intro l
    induction l with
    | nil => intro _; rfl
    | cons x xs ih =>
      intro hl
      simp only [List.foldl_cons, hl x (by simp), if_false]
      exact ih (fun c hc => hl c (List.mem_cons_of_mem _ hc))
  apply gen
  intro c hc e
  exact h (by unfold names; rw [← e]; exact List.mem_map_of_mem hc)

/-- an unknown calendar name yields an error — never a panic, never a value -/
theorem C06_unknown_name (c : Cfg) (t : Int × Int × Int) (n other : String) (h : n ∉ names) :
    convert c t n other = .err ∧ convert c t other n = .err ∧
    toJdByName c t n = .err ∧ jdToByName c t.1 n = .err := by
  have e : getCal c n = none := by unfold getCal; rw [lookupPkg_none n h]; rfl
  refine ⟨?_, ?_, ?_, ?_⟩
  · unfold convert; rw [e]
  · unfold convert; rw [e]; split
    · rename_i h2; cases h2
    · rfl
  · unfold toJdByName; rw [e]
  · unfold jdToByName; rw [e]

/-- every registered name resolves, in every state, to a calendar implementation -/
theorem C06_registered_resolve (c : Cfg) : ∀ n ∈ names, (getCal c n).isSome = true := by
  have h : ∀ n ∈ names, ((lookupPkg n).bind (fun p => if p ∈ ["ethiopian", "gregorian", "gregorian_proleptic",
      "hijri", "indian_national", "jalali", "julian"] then some p else none)).isSome = true := by decide
  intro n hn
  have := h n hn
  unfold getCal
  cases hp : lookupPkg n with
  | none => simp [hp] at this
  | some p =>
    simp only [hp, Option.bind_some] at this ⊢
    by_cases hm : p ∈ ["ethiopian", "gregorian", "gregorian_proleptic", "hijri", "indian_national", "jalali", "julian"]
    · simp only [List.mem_cons, List.mem_nil_iff, or_false] at hm
      rcases hm with rfl | rfl | rfl | rfl | rfl | rfl | rfl <;> simp [calByPkg]
    · simp [hm] at this

/-- what a successful by-name conversion computes: the per-calendar functions composed -/
theorem C06_agrees_with_percal (c : Cfg) (hinv : Inv c) (t : Int × Int × Int) (a b : String) (A B : Cal)
    (ha : getCal c a = some A) (hb : getCal c b = some B) :
    convert c t a b = .ok (B.jdTo (toJdT A t)) ∧ toJdByName c t a = .ok (toJdT A t) ∧
    jdToByName c t.1 a = .ok (A.jdTo t.1) := by
  have np : ∀ n, panics c n = false := by
    intro n; unfold panics; unfold ByName.Inv at hinv
    cases h1 : c.useTable <;> cases h2 : c.loaded <;> simp_all
  refine ⟨?_, ?_, ?_⟩
  · unfold convert; simp [ha, hb, np, toJdT]
  · unfold toJdByName; simp [ha, np, toJdT]
  · unfold jdToByName; simp [ha, np]

/-- the three laws for calendars whose own conversion is a bijection (C01): identity, inverse,
    composition. A date on which a single calendar already fails its own round trip (hijri
    month-table seams) is attributed to C01 — `Bijective` is exactly that hypothesis. -/
theorem C06_conv_id (A : Cal) (hA : Bijective A) (t : Int × Int × Int) (hw : WF A t) :
    A.jdTo (toJdT A t) = t := hA.date_roundtrip t hw

theorem C06_conv_inv (A B : Cal) (hA : Bijective A) (hB : Bijective B) (t : Int × Int × Int) (hw : WF A t) :
    A.jdTo (toJdT B (B.jdTo (toJdT A t))) = t := by
  rw [hB.jd_roundtrip]; exact hA.date_roundtrip t hw

theorem C06_conv_comp (A B C : Cal) (hB : Bijective B) (t : Int × Int × Int) :
    C.jdTo (toJdT B (B.jdTo (toJdT A t))) = C.jdTo (toJdT A t) := by
  rw [hB.jd_roundtrip]

/-- every implementation a registered name can resolve to with the hijri table switched off is
    a bijection (C01); with the table on, hijri is the one exception (open findings) -/
theorem C06_resolved_bijective (c : Cfg) (hc : c.useTable = false) (n : String) (A : Cal)
    (h : getCal c n = some A) : Bijective A := by
  unfold getCal at h
  cases hp : lookupPkg n with
  | none => simp [hp] at h
  | some p =>
    simp only [hp, Option.bind_some] at h
    unfold calByPkg at h
    split at h <;> simp only [Option.some.injEq, reduceCtorEq] at h <;> subst h
    · exact C01_ethiopian
    · exact C01_gregorian
    · exact C01_gregorian_proleptic
    · simp only [hc]; exact C01_hijri_arithmetic
    · exact C01_indian_national
    · cases c.alg2820
      · exact C01_jalali_33
      · exact C01_jalali_2820
    · exact C01_julian

example : convert init (1970, 1, 1) "gregorian" "jalali" = .ok (1348, 10, 11) := by decide +kernel
example : convert init (1970, 1, 1) "gregorian" "no_such_calendar" = .err := by decide +kernel
example : (run [.M0, .A1, .M1]).useTable = true ∧ Inv (run [.M0, .A1, .M1]) := by decide

end Starcal.Props
