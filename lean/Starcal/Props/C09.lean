import Starcal.Rules
/-! # C09 — rule decoding is total and type-safe; rule tables only name registered types

`Gen.ruleTypes`, `Gen.decoderTypes`, `Gen.rulesRequire`, `Gen.rulesConflictWith` are regenerated
from /repo on every run (go/ast + go/types, cross-checked against the running registry). -/
namespace Starcal.Props
open Starcal.Rules Starcal.Gen

/-- the Go type of the values each value decoder of the model produces -/
def decoderGoType : String → Option String
  | "string" => some "string"
  | "int" => some "int"
  | "int_list" => some "[]int"
  | "int_range_list" => some "[]int"
  | "HMS" => some "*libscal.HMS"
  | "DHMS" => some "*libscal.DHMS"
  | "HMSRange" => some "*libscal.HMSRange"
  | "Date" => some "*libscal.Date"
  | "Date_list" => some "[]*libscal.Date"
  | "DateHMS" => some "*libscal.DateHMS"
  | "Duration" => some "utils.Duration"
  | "WeekMonth" => some "rules_lib.WeekMonth"
  | _ => none

theorem ofOpt_type {α} (f : α → Val) (T : String) (hf : ∀ a, (f a).goType = T) (o : Option α) (v : Val)
    (h : ofOpt f o = .ok v) : v.goType = T := by
  cases o with
  | none => simp [ofOpt] at h
  | some a => simp [ofOpt] at h; rw [← h]; exact hf a

/-- every successfully decoded value has the Go type of its decoder -/
theorem decodeWith_type (d : String) (s : List Char) (v : Val) (h : decodeWith d s = .ok v) :
    decoderGoType d = some v.goType := by
  unfold decodeWith at h
  split at h
  · simp at h; subst h; rfl
  · rw [ofOpt_type _ "int" (fun _ => rfl) _ v h]; rfl
  · rw [ofOpt_type _ "[]int" (fun _ => rfl) _ v h]; rfl
  · unfold decodeRanges at h
    split at h
    · split at h
      · simp at h; subst h; rfl
      · simp at h
    · simp at h
    · simp at h
  · rw [ofOpt_type _ "*libscal.HMS" (fun _ => rfl) _ v h]; rfl
  · rw [ofOpt_type _ "*libscal.DHMS" (fun _ => rfl) _ v h]; rfl
  · rw [ofOpt_type _ "*libscal.HMSRange" (fun _ => rfl) _ v h]; rfl
  · rw [ofOpt_type _ "*libscal.Date" (fun _ => rfl) _ v h]; rfl
  · rw [ofOpt_type _ "[]*libscal.Date" (fun _ => rfl) _ v h]; rfl
  · rw [ofOpt_type _ "*libscal.DateHMS" (fun _ => rfl) _ v h]; rfl
  · rw [ofOpt_type _ "utils.Duration" (fun _ => rfl) _ v h]; rfl
  · split at h
    · simp at h; subst h; rfl
    · simp at h
    · simp at h
  · simp at h

/-- the model's decoder types are the static Go types `go/types` reports for the real decoders -/
theorem C09_model_types_are_static :
    ∀ p ∈ decoderTypes, p.1 = "float" ∨ (decoderGoType p.1).map (fun t => [t]) = some p.2 := by decide

/-- each type's decoder produces the value type its checker asserts (static Go types) -/
theorem C09_kinds_agree :
    ∀ r ∈ ruleTypes, r.hasChecker = true → decoderTypes.lookup r.decoder = some r.checkerTypes := by decide

/-- the Go type each checker of the model accepts -/
def checkerGoType : String → Option String
  | "start" => some "*libscal.DateHMS"
  | "end" => some "*libscal.DateHMS"
  | "duration" => some "utils.Duration"
  | "date" => some "*libscal.Date"
  | "ex_dates" => some "[]*libscal.Date"
  | "dayTime" => some "*libscal.HMS"
  | "dayTimeRange" => some "*libscal.HMSRange"
  | "cycleLen" => some "*libscal.DHMS"
  | "cycleDays" => some "int"
  | "cycleWeeks" => some "int"
  | "weekDay" => some "[]int"
  | "month" => some "[]int"
  | "ex_month" => some "[]int"
  | "day" => some "[]int"
  | "ex_day" => some "[]int"
  | "weekNumMode" => some "string"
  | "weekMonth" => some "rules_lib.WeekMonth"
  | _ => none

/-- a checker given a value of the type it asserts does not panic -/
theorem checkWith_total (n : String) (v : Val) (h : checkerGoType n = some v.goType) : checkWith n v ≠ .panic := by
  unfold checkerGoType at h
  split at h <;> simp only [Option.some.injEq, reduceCtorEq] at h <;>
    (cases v <;> simp [Val.goType] at h <;> simp [checkWith])

/-- the model's checkers and decoders agree on every registered type with a checker -/
theorem model_kinds_agree :
    ∀ r ∈ ruleTypes, r.hasChecker = true → checkerGoType r.name = decoderGoType r.decoder ∧ (decoderGoType r.decoder).isSome = true := by
  decide

/-- **decoding is total**: any string under any type name gives an error or a value, never a panic -/
theorem C09_decode_total (t : String) (s : List Char) : decode t s ≠ .panic := by
  unfold decode
  split
  · rename_i r _
    unfold decodeWith
    split
    · simp
    · simp [ofOpt]; split <;> simp
    · simp [ofOpt]; split <;> simp
    · unfold decodeRanges
      have ht : ∀ l, parseParts true l ≠ .panic := by
        intro l
        induction l with
        | nil => simp [parseParts]
        | cons p ps ih =>
          unfold parseParts
          have hp : parseIntervalTop p ≠ .panic := by
            unfold parseIntervalTop
            have := parseInterval_total p
            cases hq : parseInterval true p with
            | ok i => simp only []; split <;> simp
            | err => simp
            | panic => exact absurd hq this
          split
          · split <;> simp_all
          · simp
          · rename_i hpan; exact absurd hpan hp
      have := ht (splitOn ' ' s)
      unfold parseClosedIntervalList
      split
      · split <;> simp
      · simp
      · rename_i hpan; exact absurd hpan this
    · simp [ofOpt]; split <;> simp
    · simp [ofOpt]; split <;> simp
    · simp [ofOpt]; split <;> simp
    · simp [ofOpt]; split <;> simp
    · simp [ofOpt]; split <;> simp
    · simp [ofOpt]; split <;> simp
    · simp [ofOpt]; split <;> simp
    · split <;> simp
    · simp
  · simp

/-- **checking is total**: checking a successfully decoded rule never panics -/
theorem C09_check_total (t : String) (s : List Char) (v : Val) (h : decode t s = .ok v) : check t v ≠ .panic := by
  unfold decode at h
  unfold check
  cases hr : ruleOf t with
  | none => simp [hr] at h
  | some r =>
    simp only [hr] at h ⊢
    have hmem : r ∈ ruleTypes := by
      unfold ruleOf at hr
      exact List.mem_of_find?_eq_some hr
    have hname : r.name = t := by
      unfold ruleOf at hr
      have := List.find?_some hr
      simpa using this
    by_cases hc : r.hasChecker = true
    · simp only [hc, if_true]
      have hty := decodeWith_type r.decoder s v h
      have hag := (model_kinds_agree r hmem hc).1
      rw [hname] at hag
      exact checkWith_total t v (by rw [hag, hty])
    · simp [hc]

/-! ## the table clause -/

def ruleNames : List String := ruleTypes.map (·.name)
def lookupT (t : List (String × List String)) (k : String) : List String := (t.lookup k).getD []

/-- a rule set satisfies both tables -/
def satisfies (S : List String) : Bool :=
  S.all (fun t => (lookupT rulesRequire t).all (S.contains ·) &&
                  (lookupT rulesConflictWith t).all (fun c => !S.contains c))

theorem C09_tables_closed : (rulesRequire ++ rulesConflictWith).all
    (fun p => ruleNames.contains p.1 && p.2.all (ruleNames.contains ·)) = true := by decide
theorem C09_no_self_conflict : rulesConflictWith.all (fun p => !p.2.contains p.1) = true := by decide
theorem C09_no_conflict_with_required :
    rulesConflictWith.all (fun p => p.2.all (fun c => !(lookupT rulesRequire p.1).contains c)) = true := by decide
theorem C09_orders_distinct : (ruleTypes.map (·.order)).Nodup := by decide
theorem C09_names_distinct : ruleNames.Nodup := by decide
/-- every type can appear in a rule set that satisfies both tables: itself plus what it requires
    (a witness per type instead of an enumeration of the 2¹⁹ subsets) -/
theorem C09_each_type_usable : ruleNames.all (fun t => satisfies (t :: lookupT rulesRequire t)) = true := by decide
theorem C09_nineteen_types : ruleTypes.length = 19 := by decide

-- the defect repaired by the `fix:` commit: the unrepaired parser panicked on an empty token
example : parseInterval false "".toList = .panic := by decide
example : decode "year" "".toList = .err ∧ decode "year" "]".toList = .err ∧ decode "year" "1  2".toList = .err := by decide
example : decode "no_such_type" "1".toList = .err := by decide
example : decode "dayTime" "20:55:10".toList = .ok (.hms ⟨20, 55, 10⟩) := by decide

end Starcal.Props
