import Starcal.Canon
/-! # C05 — Normalize preserves the denoted set and returns the unique canonical form

Model: `Ival.normalize` = `GetPointList(0)` + sort by `Less` + the stack sweep of
`GetIntervalList` (interval.go). Observation lattice: `memL h l` is membership of the
half-integer point h/2. All statements are for lists of any length. -/
namespace Starcal.Props
open Starcal.Ival

/-- Normalize never fails on intervals with start ≤ end (empty `[a,a)` allowed) -/
theorem C05_norm_ok (l : List Interval) (hwf : ∀ i ∈ l, i.start ≤ i.stop) : ∃ r, normalize l = some r :=
  norm_ok l hwf

/-- set preservation, also for lists that contain empty intervals `[a,a)` -/
theorem C05_norm_mem (l : List Interval) (hwf : ∀ i ∈ l, i.start ≤ i.stop) (r : List Interval)
    (hr : normalize l = some r) (h : Int) : memL h r ↔ memL h l :=
  norm_mem l hwf r hr h

/-- sorted by start, pairwise disjoint, not touching, no empty interval -/
theorem C05_norm_canonical (l : List Interval) (hwf : ∀ i ∈ l, WFI i) (r : List Interval)
    (hr : normalize l = some r) : Canonical r :=
  norm_canonical l hwf r hr

/-- a canonical list is determined by the set it denotes -/
theorem C05_canonical_unique (a b : List Interval) (ha : Canonical a) (hb : Canonical b)
    (heq : ∀ h, memL h a ↔ memL h b) : a = b :=
  canonical_unique a b ha hb heq

/-- the result depends only on the denoted set: not on input order or duplicates -/
theorem C05_norm_depends_on_set (l1 l2 r1 r2 : List Interval) (h1 : ∀ i ∈ l1, WFI i) (h2 : ∀ i ∈ l2, WFI i)
    (hr1 : normalize l1 = some r1) (hr2 : normalize l2 = some r2)
    (heq : ∀ h, memL h l1 ↔ memL h l2) : r1 = r2 :=
  norm_depends_on_set l1 l2 r1 r2 h1 h2 hr1 hr2 heq

/-- input order does not matter -/
theorem C05_norm_perm (l1 l2 r1 r2 : List Interval) (h1 : ∀ i ∈ l1, WFI i) (hp : l1.Perm l2)
    (hr1 : normalize l1 = some r1) (hr2 : normalize l2 = some r2) : r1 = r2 := by
  apply norm_depends_on_set l1 l2 r1 r2 h1 (fun i hi => h1 i (hp.mem_iff.mpr hi)) hr1 hr2
  intro h; unfold memL
  constructor
  · rintro ⟨i, hi, hm⟩; exact ⟨i, hp.mem_iff.mp hi, hm⟩
  · rintro ⟨i, hi, hm⟩; exact ⟨i, hp.mem_iff.mpr hi, hm⟩

/-- duplicates do not matter -/
theorem C05_norm_dup (l r1 r2 : List Interval) (h1 : ∀ i ∈ l, WFI i)
    (hr1 : normalize l = some r1) (hr2 : normalize (l ++ l) = some r2) : r1 = r2 := by
  apply norm_depends_on_set l (l ++ l) r1 r2 h1 (fun i hi => by
    rcases List.mem_append.mp hi with h | h <;> exact h1 i h) hr1 hr2
  intro h; unfold memL
  constructor
  · rintro ⟨i, hi, hm⟩; exact ⟨i, List.mem_append.mpr (Or.inl hi), hm⟩
  · rintro ⟨i, hi, hm⟩; exact ⟨i, by rcases List.mem_append.mp hi with h | h <;> exact h, hm⟩

/-- normalizing twice changes nothing -/
theorem C05_norm_idem (l r : List Interval) (h1 : ∀ i ∈ l, WFI i) (hr : normalize l = some r) :
    normalize r = some r :=
  norm_idem l r h1 hr

-- the hypotheses are satisfiable, and the merging behaviour the property describes
example : normalize [⟨0, 3, false⟩, ⟨3, 5, true⟩, ⟨7, 7, true⟩, ⟨2, 4, false⟩] = some [⟨0, 5, true⟩, ⟨7, 7, true⟩] := by decide
/-- a closed end absorbs an interval that starts there; abutting half-open intervals merge -/
example : normalize [⟨0, 1, true⟩, ⟨1, 2, false⟩] = some [⟨0, 2, false⟩] := by decide
example : normalize [⟨0, 1, false⟩, ⟨1, 2, false⟩] = some [⟨0, 2, false⟩] := by decide
/-- why canonicity is only claimed for well-formed input: an empty interval survives alone -/
example : normalize [⟨5, 5, false⟩] = some [⟨5, 5, false⟩] := by decide

end Starcal.Props
