import Starcal.Rules
import Starcal.TextMore2
import Starcal.IvalText2
/-! # C08 — rule validation is exact: accepted iff every written field is in its range

Statements at the level of `EventRuleModel.Decode` + `EventRule.Check` over the regenerated
registry. "Written with any integer fields" covers negative values and values too large by any
amount — hence every residue class modulo 256 at once. -/
namespace Starcal.Props
open Starcal.Rules

theorem decode_eq (t d : String) (hc : Bool)
    (h : (ruleOf t).map (fun r => (r.decoder, r.hasChecker)) = some (d, hc)) :
    (∀ s, decode t s = decodeWith d s) ∧ ∀ v, check t v = if hc then checkWith t v else .ok true := by
  cases hr : ruleOf t with
  | none => simp [hr] at h
  | some r =>
    simp [hr] at h
    obtain ⟨h1, h2⟩ := h
    refine ⟨fun s => by unfold decode; simp [hr, h1], fun v => by unfold check; simp [hr, h2]⟩

/-- `dayTime`: h:m:s with any integer fields decodes; accepted iff all in range; then exactly the numbers written -/
theorem C08_dayTime_exact (h m s : Int) :
    ∃ v, decode "dayTime" (fmtHMS h m s) = .ok (.hms v) ∧
      (check "dayTime" (.hms v) = .ok true ↔ (0 ≤ h ∧ h < 24 ∧ 0 ≤ m ∧ m < 60 ∧ 0 ≤ s ∧ s < 60)) ∧
      (check "dayTime" (.hms v) = .ok true → v = ⟨h, m, s⟩) := by
  obtain ⟨hd, hck⟩ := decode_eq "dayTime" "HMS" true (by decide)
  obtain ⟨v, hv, hiff, heq⟩ := parseHMS_exact h m s
  refine ⟨v, by rw [hd]; simp [decodeWith, ofOpt, hv], ?_, ?_⟩
  · rw [hck]; simp [checkWith, hiff]
  · rw [hck]; simp only [checkWith, if_true, Chk.ok.injEq]; exact heq

/-- `date`: y/m/d with any integer fields -/
theorem C08_date_exact (y m d : Int) :
    ∃ v, decode "date" (fmtDate y m d) = .ok (.date v) ∧
      (check "date" (.date v) = .ok true ↔ (1 ≤ m ∧ m ≤ 12 ∧ 1 ≤ d ∧ d ≤ 39)) ∧
      (check "date" (.date v) = .ok true → v = ⟨y, m, d⟩) := by
  obtain ⟨hd, hck⟩ := decode_eq "date" "Date" true (by decide)
  obtain ⟨v, hv, hiff, heq⟩ := parseDate_exact y m d
  refine ⟨v, by rw [hd]; simp [decodeWith, ofOpt, hv], ?_, ?_⟩
  · rw [hck]; simp [checkWith, hiff]
  · rw [hck]; simp only [checkWith, if_true, Chk.ok.injEq]; exact heq

/-- `cycleLen`: "days h:m:s"; a negative day count is a decode error (never accepted) -/
theorem C08_cycleLen_exact (days h m s : Int) :
    (0 ≤ days ∧ days < 18446744073709551616 →
      ∃ v, decode "cycleLen" (showInt days ++ (' ' :: fmtHMS h m s)) = .ok (.dhms days v) ∧
        (check "cycleLen" (.dhms days v) = .ok true ↔ (0 ≤ h ∧ h < 24 ∧ 0 ≤ m ∧ m < 60 ∧ 0 ≤ s ∧ s < 60)) ∧
        (check "cycleLen" (.dhms days v) = .ok true → v = ⟨h, m, s⟩)) ∧
    (days < 0 → decode "cycleLen" (showInt days ++ (' ' :: fmtHMS h m s)) = .err) := by
  obtain ⟨hd, hck⟩ := decode_eq "cycleLen" "DHMS" true (by decide)
  obtain ⟨e1, e2⟩ := parseDHMS_exact days h m s
  constructor
  · intro hdays
    obtain ⟨v, hv, hiff, heq⟩ := e1 hdays
    refine ⟨v, by rw [hd]; simp [decodeWith, ofOpt, hv], ?_, ?_⟩
    · rw [hck]; simp [checkWith, hiff]
    · rw [hck]; simp only [checkWith, if_true, Chk.ok.injEq]; exact heq
  · intro hneg
    rw [hd]; simp [decodeWith, ofOpt, e2 hneg]

/-- `cycleDays` / `cycleWeeks`: any written integer decodes to itself and is accepted iff positive -/
theorem C08_cycleDays_exact (n : Int) :
    decode "cycleDays" (showInt n) = .ok (.int n) ∧ (check "cycleDays" (.int n) = .ok true ↔ 0 < n) ∧
    decode "cycleWeeks" (showInt n) = .ok (.int n) ∧ (check "cycleWeeks" (.int n) = .ok true ↔ 0 < n) := by
  obtain ⟨hd, hck⟩ := decode_eq "cycleDays" "int" true (by decide)
  obtain ⟨hd2, hck2⟩ := decode_eq "cycleWeeks" "int" true (by decide)
  refine ⟨by rw [hd]; simp [decodeWith, ofOpt, parseInt_showInt], by rw [hck]; simp [checkWith],
    by rw [hd2]; simp [decodeWith, ofOpt, parseInt_showInt], by rw [hck2]; simp [checkWith]⟩

/-- range lists (`month`; the other five range-list types differ only in the bounds): whenever the
    text parses as the closed ranges `l`, the decoded value is the strictly increasing list of exactly
    the integers covered by some written range — every accepted spelling, any order, overlaps and
    repetitions included — and it is accepted iff every covered integer is in 1..12 -/
theorem C08_ranges_value (s : List Char) (l : List Starcal.Ival)
    (hp : parseClosedIntervalList s = .ok l) (hcl : ∀ i ∈ l, i.closed = true ∧ i.start ≤ i.stop) :
    ∃ vals, decode "month" s = .ok (.intList vals) ∧ Ival.StrictInc vals ∧
      (∀ x, x ∈ vals ↔ ∃ i ∈ l, i.start ≤ x ∧ x ≤ i.stop) ∧
      (check "month" (.intList vals) = .ok true ↔ ∀ x ∈ vals, 1 ≤ x ∧ x ≤ 12) := by
  obtain ⟨hd, hck⟩ := decode_eq "month" "int_range_list" true (by decide)
  have hcl' : ∀ i ∈ l.map toIv, i.closed = true ∧ i.start ≤ i.stop := by
    intro i hi
    obtain ⟨j, hj, rfl⟩ := List.mem_map.mp hi
    exact hcl j hj
  obtain ⟨r, hr, hinc, hmem⟩ := Ival.ranges_value (l.map toIv) hcl'
  refine ⟨Ival.extractI r, by rw [hd]; simp [decodeWith, decodeRanges, hp, hr], hinc, ?_, ?_⟩
  · intro x
    rw [hmem x]
    constructor
    · rintro ⟨i, hi, h1, h2⟩
      obtain ⟨j, hj, rfl⟩ := List.mem_map.mp hi
      exact ⟨j, hj, h1, h2⟩
    · rintro ⟨j, hj, h1, h2⟩
      exact ⟨toIv j, List.mem_map_of_mem hj, h1, h2⟩
  · rw [hck]
    simp only [checkWith, if_true, Chk.ok.injEq, List.all_eq_true, Bool.and_eq_true, decide_eq_true_eq]
    constructor
    · intro h x hx; have := h x hx; omega
    · intro h x hx; have := h x hx; omega

/-- the written ranges of a parsed closed list are closed and ordered (so the hypothesis of
    `C08_ranges_value` is what the parser guarantees) -/
theorem parseParts_closed (ps : List (List Char)) (l : List Starcal.Ival) (h : parseParts true ps = .ok l) :
    ∀ i ∈ l, i.closed = true ∧ i.start ≤ i.stop := by
  induction ps generalizing l with
  | nil => simp [parseParts] at h; subst h; simp
  | cons p ps ih =>
    unfold parseParts at h
    cases hp : parseIntervalTop p with
    | ok i =>
      simp only [hp] at h
      cases hq : parseParts true ps with
      | ok l' =>
        simp only [hq, if_true] at h
        simp at h; subst h
        intro j hj
        rcases List.mem_cons.mp hj with rfl | hj
        · refine ⟨rfl, ?_⟩
          unfold parseIntervalTop at hp
          cases hz : parseInterval true p with
          | ok k => simp only [hz] at hp; split at hp <;> simp at hp; subst hp; simp only; omega
          | err => simp [hz] at hp
          | panic => simp [hz] at hp
        · exact ih l' hq j hj
      | err => simp [hq] at h
      | panic => simp [hq] at h
    | err => simp [hp] at h
    | panic => simp [hp] at h

/-- an unknown rule type is a decode error -/
theorem C08_unknown_type (t : String) (s : List Char) (h : t ∉ Gen.ruleTypes.map (·.name)) : decode t s = .err := by
  unfold decode
  cases hr : ruleOf t with
  | none => rfl
  | some r =>
    exfalso; apply h
    unfold ruleOf at hr
    have h1 := List.mem_of_find?_eq_some hr
    have h2 := List.find?_some hr
    simp at h2; rw [← h2]; exact List.mem_map_of_mem h1

example : decode "month" "1-5 5-8".toList = .ok (.intList [1, 2, 3, 4, 5, 6, 7, 8]) := by decide
example : decode "year" "-(600-598) -400 -300".toList = .ok (.intList [-600, -599, -598, -400, -300]) := by decide
example : decode "dayTime" "20:55:256".toList = .ok (.hms ⟨20, 55, 255⟩) ∧ check "dayTime" (.hms ⟨20, 55, 255⟩) = .ok false := by decide
example : decode "date" "2000/268/1".toList = .ok (.date ⟨2000, 255, 1⟩) ∧ check "date" (.date ⟨2000, 255, 1⟩) = .ok false := by decide
example : decode "cycleLen" "-1 23:55:55".toList = .err := by decide
example : decode "date" "2000-1-1".toList = .err ∧ decode "duration" "1d".toList = .err := by decide

/-! ## Composed statements for further rule types (decoder ∘ checker on written values) -/

/-- `start` / `end`: "y/m/d h:m:s" with any integer fields -/
theorem C08_start_end_exact (t : String) (ht : t = "start" ∨ t = "end") (y m d h mi s : Int) :
    ∃ dv hv, decode t (fmtDate y m d ++ (' ' :: fmtHMS h mi s)) = .ok (.dateHMS dv hv) ∧
      (check t (.dateHMS dv hv) = .ok true ↔
        (1 ≤ m ∧ m ≤ 12 ∧ 1 ≤ d ∧ d ≤ 39 ∧ 0 ≤ h ∧ h < 24 ∧ 0 ≤ mi ∧ mi < 60 ∧ 0 ≤ s ∧ s < 60)) ∧
      (check t (.dateHMS dv hv) = .ok true → dv = ⟨y, m, d⟩ ∧ hv = ⟨h, mi, s⟩) := by
  obtain ⟨dv, hv, hp, hiff, heq⟩ := parseDateHMS_exact y m d h mi s
  rcases ht with rfl | rfl
  · obtain ⟨hd, hck⟩ := decode_eq "start" "DateHMS" true (by decide)
    refine ⟨dv, hv, by rw [hd]; simp [decodeWith, ofOpt, hp], ?_, ?_⟩
    · rw [hck]; simp only [checkWith, if_true, Chk.ok.injEq]; exact hiff
    · rw [hck]; simp only [checkWith, if_true, Chk.ok.injEq]; exact heq
  · obtain ⟨hd, hck⟩ := decode_eq "end" "DateHMS" true (by decide)
    refine ⟨dv, hv, by rw [hd]; simp [decodeWith, ofOpt, hp], ?_, ?_⟩
    · rw [hck]; simp only [checkWith, if_true, Chk.ok.injEq]; exact hiff
    · rw [hck]; simp only [checkWith, if_true, Chk.ok.injEq]; exact heq

/-- `dayTimeRange`: "h:m:s h:m:s" with any integer fields -/
theorem C08_dayTimeRange_exact (h1 m1 s1 h2 m2 s2 : Int) :
    ∃ a b, decode "dayTimeRange" (fmtHMS h1 m1 s1 ++ (' ' :: fmtHMS h2 m2 s2)) = .ok (.hmsRange a b) ∧
      (check "dayTimeRange" (.hmsRange a b) = .ok true ↔
        (0 ≤ h1 ∧ h1 < 24 ∧ 0 ≤ m1 ∧ m1 < 60 ∧ 0 ≤ s1 ∧ s1 < 60 ∧ 0 ≤ h2 ∧ h2 < 24 ∧ 0 ≤ m2 ∧ m2 < 60 ∧ 0 ≤ s2 ∧ s2 < 60)) ∧
      (check "dayTimeRange" (.hmsRange a b) = .ok true → a = ⟨h1, m1, s1⟩ ∧ b = ⟨h2, m2, s2⟩) := by
  obtain ⟨a, b, hp, hiff, heq⟩ := parseHMSRange_exact h1 m1 s1 h2 m2 s2
  obtain ⟨hd, hck⟩ := decode_eq "dayTimeRange" "HMSRange" true (by decide)
  refine ⟨a, b, by rw [hd]; simp [decodeWith, ofOpt, hp], ?_, ?_⟩
  · rw [hck]; simp only [checkWith, if_true, Chk.ok.injEq]; exact hiff
  · rw [hck]; simp only [checkWith, if_true, Chk.ok.injEq]; exact heq

theorem parseIntParts_show (l : List Int) : parseIntParts (l.map showInt) = some l := by
  induction l with
  | nil => rfl
  | cons x xs ih => simp [parseIntParts, parseInt_showInt, ih]

/-- `weekDay`: a written list of integers decodes to exactly that list and is accepted iff every one is in 0..6 -/
theorem C08_weekDay_exact (l : List Int) (hne : l ≠ []) :
    decode "weekDay" (joinSp (l.map showInt)) = .ok (.intList l) ∧
    (check "weekDay" (.intList l) = .ok true ↔ ∀ v ∈ l, 0 ≤ v ∧ v ≤ 6) := by
  obtain ⟨hd, hck⟩ := decode_eq "weekDay" "int_list" true (by decide)
  have hs : splitOn ' ' (joinSp (l.map showInt)) = l.map showInt := by
    apply splitOn_joinSp _ (by simpa using hne)
    intro p hp
    obtain ⟨i, _, rfl⟩ := List.mem_map.mp hp
    exact showInt_no_space i
  constructor
  · rw [hd]; simp [decodeWith, ofOpt, parseIntList, hs, parseIntParts_show]
  · rw [hck]
    simp only [checkWith, if_true, Chk.ok.injEq, List.all_eq_true, Bool.and_eq_true, decide_eq_true_eq]
    constructor
    · intro h v hv; have := h v hv; omega
    · intro h v hv; have := h v hv; omega

/-- a written date as the triple of its fields -/
def fmtDateT (t : Int × Int × Int) : List Char := fmtDate t.1 t.2.1 t.2.2
def decodedDate (t : Int × Int × Int) : DateV := ⟨t.1, narrowNew t.2.1, narrowNew t.2.2⟩
def dateInRange (t : Int × Int × Int) : Prop := 1 ≤ t.2.1 ∧ t.2.1 ≤ 12 ∧ 1 ≤ t.2.2 ∧ t.2.2 ≤ 39

theorem parseDate_fmt (t : Int × Int × Int) :
    parseDate narrowNew (fmtDateT t) = some (decodedDate t) ∧
    ((decodedDate t).isValid = true ↔ dateInRange t) ∧ ((decodedDate t).isValid = true → decodedDate t = ⟨t.1, t.2.1, t.2.2⟩) := by
  obtain ⟨v, h1, h2, h3⟩ := parseDate_exact t.1 t.2.1 t.2.2
  have hv : v = decodedDate t := by
    unfold parseDate at h1
    have hf : ∀ i, ∀ x ∈ showInt i, x ≠ '/' := fun i => showInt_free i '/' (by decide) (by decide)
    have hsplit : splitOn '/' (fmtDate t.1 t.2.1 t.2.2) = [showInt t.1, showInt t.2.1, showInt t.2.2] := by
      unfold fmtDate
      rw [splitOn_append '/' _ _ (hf _), splitOn_append '/' _ _ (hf _), splitOn_free '/' _ (hf _)]
    simp [hsplit, parseInt_showInt] at h1
    exact h1.symm
  subst hv
  exact ⟨h1, h2, h3⟩

theorem parseDateParts_fmt (l : List (Int × Int × Int)) :
    parseDateParts (l.map fmtDateT) = some (l.map decodedDate) := by
  induction l with
  | nil => rfl
  | cons x xs ih => simp [parseDateParts, (parseDate_fmt x).1, ih]

/-- `ex_dates`: a written list of dates decodes date by date and is accepted iff every date is in range,
    in which case the decoded dates are exactly the written ones -/
theorem C08_ex_dates_exact (l : List (Int × Int × Int)) (hne : l ≠ []) :
    decode "ex_dates" (joinSp (l.map fmtDateT)) = .ok (.dateList (l.map decodedDate)) ∧
    (check "ex_dates" (.dateList (l.map decodedDate)) = .ok true ↔ ∀ t ∈ l, dateInRange t) ∧
    (check "ex_dates" (.dateList (l.map decodedDate)) = .ok true →
      l.map decodedDate = l.map (fun t => ⟨t.1, t.2.1, t.2.2⟩)) := by
  obtain ⟨hd, hck⟩ := decode_eq "ex_dates" "Date_list" true (by decide)
  have hs : splitOn ' ' (joinSp (l.map fmtDateT)) = l.map fmtDateT := by
    apply splitOn_joinSp _ (by simpa using hne)
    intro p hp
    obtain ⟨t, _, rfl⟩ := List.mem_map.mp hp
    exact fmtDate_no_space _ _ _
  have hall : (check "ex_dates" (.dateList (l.map decodedDate)) = .ok true) ↔ ∀ t ∈ l, (decodedDate t).isValid = true := by
    rw [hck]
    simp [checkWith, List.all_eq_true]
  refine ⟨by rw [hd]; simp [decodeWith, ofOpt, parseDateList, hs, parseDateParts_fmt], ?_, ?_⟩
  · rw [hall]
    constructor
    · intro h t ht; exact (parseDate_fmt t).2.1.mp (h t ht)
    · intro h t ht; exact (parseDate_fmt t).2.1.mpr (h t ht)
  · rw [hall]
    intro h
    apply List.map_congr_left
    intro t ht
    exact (parseDate_fmt t).2.2 (h t ht)


/-- `weekNumMode`: every text decodes to itself; accepted iff it is one of the three words -/
theorem C08_weekNumMode_exact (s : List Char) :
    decode "weekNumMode" s = .ok (.str s) ∧
    (check "weekNumMode" (.str s) = .ok true ↔ (s = "odd".toList ∨ s = "even".toList ∨ s = "any".toList)) := by
  obtain ⟨hd, hck⟩ := decode_eq "weekNumMode" "string" true (by decide)
  refine ⟨by rw [hd]; simp [decodeWith], ?_⟩
  rw [hck]
  simp only [checkWith, if_true, Chk.ok.injEq, Bool.or_eq_true, beq_iff_eq]
  constructor
  · rintro ((h | h) | h)
    · exact Or.inl h
    · exact Or.inr (Or.inl h)
    · exact Or.inr (Or.inr h)
  · rintro (h | h | h)
    · exact Or.inl (Or.inl h)
    · exact Or.inl (Or.inr h)
    · exact Or.inr h

theorem allDigits_showNat (n : Nat) : allDigits (showNat n) = true := by
  unfold allDigits
  rw [List.all_eq_true]
  intro c hc
  have := (showNat_digits n).1 c hc
  simp only [isDigit, Bool.and_eq_true, decide_eq_true_eq] at this
  simp only [Char.isDigit, Bool.and_eq_true, decide_eq_true_eq]
  constructor
  · show (48 : UInt32) ≤ c.val
    have h1 : c.toNat = c.val.toNat := rfl
    rw [UInt32.le_iff_toNat_le]; simp; omega
  · show c.val ≤ (57 : UInt32)
    have h1 : c.toNat = c.val.toNat := rfl
    rw [UInt32.le_iff_toNat_le]; simp; omega

theorem showNat_no_dot (n : Nat) : ∀ x ∈ showNat n, x ≠ '.' := by
  intro x hx h
  have := (showNat_digits n).1 x hx
  subst h
  simp [isDigit] at this

theorem parseDecimalBody_showNat (n : Nat) : parseDecimalBody (showNat n) = some (n, 1) := by
  unfold parseDecimalBody
  rw [splitOn_free '.' _ (showNat_no_dot n)]
  have hne : (showNat n).isEmpty = false := by
    have := (showNat_digits n).2
    cases h : showNat n with
    | nil => exact absurd h this
    | cons _ _ => rfl
  simp [hne, allDigits_showNat, parseNat_showNat]

/-- the unit words -/
def unitWords : List (List Char × Int) := [(['s'], 1), (['m'], 60), (['h'], 3600), (['d'], 86400), (['w'], 604800)]

theorem unit_no_space (u : List Char) (sec : Int) (h : (u, sec) ∈ unitWords) :
    (∀ x ∈ u, x ≠ ' ') ∧ unitSeconds u = some sec := by
  simp only [unitWords, List.mem_cons, Prod.mk.injEq, List.not_mem_nil, or_false] at h
  rcases h with ⟨rfl, rfl⟩ | ⟨rfl, rfl⟩ | ⟨rfl, rfl⟩ | ⟨rfl, rfl⟩ | ⟨rfl, rfl⟩ <;> exact ⟨by decide, by decide⟩

/-- `duration`: a whole number of units, written with an optional sign, decodes to exactly that
    number and unit; it is accepted iff it is not negative (−0 counts as 0) -/
theorem C08_duration_exact (neg : Bool) (n : Nat) (u : List Char) (sec : Int) (hu : (u, sec) ∈ unitWords) :
    decode "duration" ((if neg then ['-'] else []) ++ showNat n ++ (' ' :: u)) = .ok (.duration ⟨neg, n, 1, u, sec⟩) ∧
    (check "duration" (.duration ⟨neg, n, 1, u, sec⟩) = .ok true ↔ (neg = false ∨ n = 0)) := by
  obtain ⟨hd, hck⟩ := decode_eq "duration" "Duration" true (by decide)
  obtain ⟨hfree, hsec⟩ := unit_no_space u sec hu
  constructor
  · rw [hd]
    have hnum : ∀ x ∈ (if neg then ['-'] else []) ++ showNat n, x ≠ ' ' := by
      intro x hx
      rcases List.mem_append.mp hx with h | h
      · cases neg <;> simp at h; subst h; decide
      · exact showNat_no_space n x h
    have hs : splitOn ' ' ((if neg then ['-'] else []) ++ showNat n ++ (' ' :: u)) = [(if neg then ['-'] else []) ++ showNat n, u] := by
      rw [splitOn_append ' ' _ _ hnum, splitOn_free ' ' u hfree]
    have hdec : parseDecimal ((if neg then ['-'] else []) ++ showNat n) = some (neg, n, 1) := by
      cases neg with
      | true => simp [parseDecimal, parseDecimalBody_showNat]
      | false =>
        obtain ⟨c, cs, e, _, hc⟩ := showNat_shape n
        have h1 : c ≠ '-' := by intro h; subst h; simp [isDigit] at hc
        have h2 : c ≠ '+' := by intro h; subst h; simp [isDigit] at hc
        simp only [Bool.false_eq_true, if_false, List.nil_append]
        unfold parseDecimal
        rw [e]
        split
        · rename_i heq; simp at heq; exact absurd heq.1 h1
        · rename_i heq; simp at heq; exact absurd heq.1 h2
        · rw [← e, parseDecimalBody_showNat]; rfl
    have hs' : splitOn ' ' ((if neg then ['-'] else []) ++ (showNat n ++ (' ' :: u))) = [(if neg then ['-'] else []) ++ showNat n, u] := by
      rw [← List.append_assoc]; exact hs
    simp [decodeWith, ofOpt, parseDuration, hs', hdec, hsec]
  · rw [hck]
    simp only [checkWith, if_true, Chk.ok.injEq, DurationV.isValid, Bool.or_eq_true, Bool.not_eq_true', beq_iff_eq]


/-- the four checked range-list types and their bounds -/
def rangeBounds : List (String × Int × Int) := [("month", 1, 12), ("ex_month", 1, 12), ("day", 1, 39), ("ex_day", 1, 39)]

theorem decodeRanges_value (s : List Char) (l : List Starcal.Ival)
    (hp : parseClosedIntervalList s = .ok l) (hcl : ∀ i ∈ l, i.closed = true ∧ i.start ≤ i.stop) :
    ∃ vals, decodeWith "int_range_list" s = .ok (.intList vals) ∧ Ival.StrictInc vals ∧
      (∀ x, x ∈ vals ↔ ∃ i ∈ l, i.start ≤ x ∧ x ≤ i.stop) := by
  have hcl' : ∀ i ∈ l.map toIv, i.closed = true ∧ i.start ≤ i.stop := by
    intro i hi
    obtain ⟨j, hj, rfl⟩ := List.mem_map.mp hi
    exact hcl j hj
  obtain ⟨r, hr, hinc, hmem⟩ := Ival.ranges_value (l.map toIv) hcl'
  refine ⟨Ival.extractI r, by simp [decodeWith, decodeRanges, hp, hr], hinc, ?_⟩
  intro x
  rw [hmem x]
  constructor
  · rintro ⟨i, hi, h1, h2⟩
    obtain ⟨j, hj, rfl⟩ := List.mem_map.mp hi
    exact ⟨j, hj, h1, h2⟩
  · rintro ⟨j, hj, h1, h2⟩
    exact ⟨toIv j, List.mem_map_of_mem hj, h1, h2⟩

/-- all six range-list rule types: whenever the text parses as closed ranges, the decoded value is
    the strictly increasing list of exactly the covered integers; `month`/`ex_month` accept it iff all
    are in 1..12, `day`/`ex_day` iff all are in 1..39, `year`/`ex_year` always -/
theorem C08_range_types (s : List Char) (l : List Starcal.Ival)
    (hp : parseClosedIntervalList s = .ok l) (hcl : ∀ i ∈ l, i.closed = true ∧ i.start ≤ i.stop) :
    ∃ vals, Ival.StrictInc vals ∧ (∀ x, x ∈ vals ↔ ∃ i ∈ l, i.start ≤ x ∧ x ≤ i.stop) ∧
      (∀ t lo hi, (t, lo, hi) ∈ rangeBounds →
        decode t s = .ok (.intList vals) ∧ (check t (.intList vals) = .ok true ↔ ∀ x ∈ vals, lo ≤ x ∧ x ≤ hi)) ∧
      (∀ t, t = "year" ∨ t = "ex_year" → decode t s = .ok (.intList vals) ∧ check t (.intList vals) = .ok true) := by
  obtain ⟨vals, hd, hinc, hmem⟩ := decodeRanges_value s l hp hcl
  refine ⟨vals, hinc, hmem, ?_, ?_⟩
  · intro t lo hi ht
    simp only [rangeBounds, List.mem_cons, Prod.mk.injEq, List.not_mem_nil, or_false] at ht
    rcases ht with ⟨rfl, rfl, rfl⟩ | ⟨rfl, rfl, rfl⟩ | ⟨rfl, rfl, rfl⟩ | ⟨rfl, rfl, rfl⟩
    all_goals
      first
      | (obtain ⟨hdd, hck⟩ := decode_eq "month" "int_range_list" true (by decide)
         refine ⟨by rw [hdd]; exact hd, ?_⟩
         rw [hck]
         simp only [checkWith, if_true, Chk.ok.injEq, List.all_eq_true, Bool.and_eq_true, decide_eq_true_eq]
         constructor
         · intro h x hx; have := h x hx; omega
         · intro h x hx; have := h x hx; omega)
      | (obtain ⟨hdd, hck⟩ := decode_eq "ex_month" "int_range_list" true (by decide)
         refine ⟨by rw [hdd]; exact hd, ?_⟩
         rw [hck]
         simp only [checkWith, if_true, Chk.ok.injEq, List.all_eq_true, Bool.and_eq_true, decide_eq_true_eq]
         constructor
         · intro h x hx; have := h x hx; omega
         · intro h x hx; have := h x hx; omega)
      | (obtain ⟨hdd, hck⟩ := decode_eq "day" "int_range_list" true (by decide)
         refine ⟨by rw [hdd]; exact hd, ?_⟩
         rw [hck]
         simp only [checkWith, if_true, Chk.ok.injEq, List.all_eq_true, Bool.and_eq_true, decide_eq_true_eq]
         constructor
         · intro h x hx; have := h x hx; omega
         · intro h x hx; have := h x hx; omega)
      | (obtain ⟨hdd, hck⟩ := decode_eq "ex_day" "int_range_list" true (by decide)
         refine ⟨by rw [hdd]; exact hd, ?_⟩
         rw [hck]
         simp only [checkWith, if_true, Chk.ok.injEq, List.all_eq_true, Bool.and_eq_true, decide_eq_true_eq]
         constructor
         · intro h x hx; have := h x hx; omega
         · intro h x hx; have := h x hx; omega)
  · intro t ht
    rcases ht with rfl | rfl
    · obtain ⟨hdd, hck⟩ := decode_eq "year" "int_range_list" false (by decide)
      exact ⟨by rw [hdd]; exact hd, by rw [hck]; simp⟩
    · obtain ⟨hdd, hck⟩ := decode_eq "ex_year" "int_range_list" false (by decide)
      exact ⟨by rw [hdd]; exact hd, by rw [hck]; simp⟩

/-! ## The converse for one type: accepted ⇒ format -/
/-- the texts `strconv.ParseInt(·, 10, …)` accepts: an optional sign and at least one digit -/
def IsIntText (s : List Char) : Prop :=
  ∃ sign ds, s = sign ++ ds ∧ (sign = [] ∨ sign = ['-'] ∨ sign = ['+']) ∧ ds ≠ [] ∧ ∀ c ∈ ds, isDigit c = true

theorem parseDigits_digits (ds : List Char) (acc k : Nat) (h : parseDigits ds acc = some k) : ∀ c ∈ ds, isDigit c = true := by
  induction ds generalizing acc with
  | nil => intro c hc; simp at hc
  | cons d r ih =>
    unfold parseDigits at h
    cases hd : digitVal? d with
    | none => simp [hd] at h
    | some v =>
      simp only [hd] at h
      intro c hc
      rcases List.mem_cons.mp hc with rfl | hc
      · unfold digitVal? at hd
        split at hd
        · rename_i hr; simp [isDigit, hr.1, hr.2]
        · simp at hd
      · exact ih _ h c hc

theorem parseNat_digits (ds : List Char) (k : Nat) (h : parseNat ds = some k) : ds ≠ [] ∧ ∀ c ∈ ds, isDigit c = true := by
  unfold parseNat at h
  split at h
  · simp at h
  · rename_i hne
    exact ⟨by intro e; subst e; simp at hne, parseDigits_digits ds 0 k h⟩

/-- whatever `parseInt` accepts is an optional sign followed by digits -/
theorem parseInt_isIntText (s : List Char) (n : Int) (h : parseInt s = some n) : IsIntText s := by
  unfold parseInt at h
  split at h
  · rename_i ds
    cases hp : parseNat ds with
    | none => simp [hp] at h
    | some k => obtain ⟨h1, h2⟩ := parseNat_digits ds k hp; exact ⟨['-'], ds, rfl, Or.inr (Or.inl rfl), h1, h2⟩
  · rename_i ds
    cases hp : parseNat ds with
    | none => simp [hp] at h
    | some k => obtain ⟨h1, h2⟩ := parseNat_digits ds k hp; exact ⟨['+'], ds, rfl, Or.inr (Or.inr rfl), h1, h2⟩
  · cases hp : parseNat s with
    | none => simp [hp] at h
    | some k => obtain ⟨h1, h2⟩ := parseNat_digits s k hp; exact ⟨[], s, rfl, Or.inl rfl, h1, h2⟩

/-- **accepted ⇒ format** for `dayTime`: a text that decodes and passes the check is two or three
    colon-separated integer texts whose values are the decoded, in-range fields -/
theorem C08_dayTime_accepted_is_format (s : List Char) (x : HMS)
    (hd : decode "dayTime" s = .ok (.hms x)) (hc : check "dayTime" (.hms x) = .ok true) :
    ∃ parts, splitOn ':' s = parts ∧ (parts.length = 2 ∨ parts.length = 3) ∧ (∀ p ∈ parts, IsIntText p) ∧
      parseInt (parts.getD 0 []) = some x.hour ∧ parseInt (parts.getD 1 []) = some x.minute ∧
      (parts.length = 3 → parseInt (parts.getD 2 []) = some x.second) ∧ (parts.length = 2 → x.second = 0) ∧
      0 ≤ x.hour ∧ x.hour < 24 ∧ 0 ≤ x.minute ∧ x.minute < 60 ∧ 0 ≤ x.second ∧ x.second < 60 := by
  obtain ⟨hdd, hck⟩ := decode_eq "dayTime" "HMS" true (by decide)
  rw [hdd] at hd
  rw [hck] at hc
  simp only [decodeWith, ofOpt] at hd
  cases hp : parseHMS narrowNew s with
  | none => simp [hp] at hd
  | some y =>
    simp only [hp] at hd
    injection hd with hd
    injection hd with hd
    subst hd
    -- validity of the decoded time
    simp only [if_true, checkWith, Chk.ok.injEq, HMS.isValid, Bool.and_eq_true, decide_eq_true_eq] at hc
    -- unfold the parser
    have nn : ∀ v : Int, narrowNew v < 60 → narrowNew v = v ∧ 0 ≤ v := by
      intro v hv; unfold narrowNew at hv ⊢; split <;> simp_all <;> omega
    have nn24 : ∀ v : Int, narrowNew v < 24 → narrowNew v = v ∧ 0 ≤ v := by
      intro v hv; unfold narrowNew at hv ⊢; split <;> simp_all <;> omega
    have getD_mem : ∀ (l : List (List Char)) (k : Nat), k < l.length → l.getD k [] ∈ l := by
      intro l k hk
      have : l.getD k [] = l[k] := by simp [List.getD, hk]
      rw [this]; exact List.getElem_mem hk
    unfold parseHMS at hp
    simp only at hp
    generalize hparts : splitOn ':' s = parts at hp
    split at hp
    · simp at hp
    · rename_i hlen
      have hl : parts.length = 2 ∨ parts.length = 3 := by omega
      split at hp
      · rename_i h m h0 h1
        refine ⟨parts, rfl, hl, ?_⟩
        split at hp
        · rename_i h3
          split at hp
          · rename_i sec h2
            simp only [Option.some.injEq] at hp
            subst hp
            simp only at hc
            obtain ⟨e1, p1⟩ := nn24 h hc.1.1
            obtain ⟨e2, p2⟩ := nn m hc.1.2
            obtain ⟨e3, p3⟩ := nn sec hc.2
            refine ⟨?_, by simp only [e1]; exact h0, by simp only [e2]; exact h1, fun _ => by simp only [e3]; exact h2,
              fun h2' => by omega, by simp only [e1]; exact p1, hc.1.1, by simp only [e2]; exact p2, hc.1.2,
              by simp only [e3]; exact p3, hc.2⟩
            intro p hp'
            -- every part is one of the three parsed ones
            obtain ⟨k, hk, rfl⟩ := List.getElem_of_mem hp'
            have hk3 : k = 0 ∨ k = 1 ∨ k = 2 := by omega
            have e : ∀ j, j < parts.length → parts.getD j [] = parts[j]! := by
              intro j hj; simp [List.getD, hj]
            rcases hk3 with rfl | rfl | rfl
            · have := parseInt_isIntText _ _ h0; simpa [List.getD, hk] using this
            · have := parseInt_isIntText _ _ h1; simpa [List.getD, hk] using this
            · have := parseInt_isIntText _ _ h2; simpa [List.getD, hk] using this
          · simp at hp
        · rename_i h3
          simp only [Option.some.injEq] at hp
          subst hp
          simp only at hc
          obtain ⟨e1, p1⟩ := nn24 h hc.1.1
          obtain ⟨e2, p2⟩ := nn m hc.1.2
          have hz : narrowNew 0 = 0 := by decide
          refine ⟨?_, by simp only [e1]; exact h0, by simp only [e2]; exact h1, fun h3' => absurd h3' h3,
            fun _ => hz, by simp only [e1]; exact p1, hc.1.1, by simp only [e2]; exact p2, hc.1.2,
            by show (0 : Int) ≤ narrowNew 0; rw [hz]; omega, hc.2⟩
          intro p hp'
          obtain ⟨k, hk, rfl⟩ := List.getElem_of_mem hp'
          have hk3 : k = 0 ∨ k = 1 := by omega
          rcases hk3 with rfl | rfl
          · have := parseInt_isIntText _ _ h0; simpa [List.getD, hk] using this
          · have := parseInt_isIntText _ _ h1; simpa [List.getD, hk] using this
      · simp at hp


section WeekMonth
open Starcal.WM
set_option maxRecDepth 4000
theorem showNatAux_head (fuel n : Nat) (acc : List Char) (hf : n < fuel) (hn : 0 < n) :
    ∃ d r, showNatAux fuel n acc = digitChar d :: r ∧ 1 ≤ d ∧ d < 10 := by
  induction fuel generalizing n acc with
  | zero => omega
  | succ fuel ih =>
    unfold showNatAux
    split
    · exact ⟨n, acc, rfl, hn, by omega⟩
    · exact ih (n / 10) _ (by omega) (by omega)

theorem showNatAux_len (fuel n : Nat) (acc : List Char) (k : Nat) (hf : n < fuel) (h : n < 10 ^ (k + 1)) :
    (showNatAux fuel n acc).length ≤ k + 1 + acc.length := by
  induction fuel generalizing n acc k with
  | zero => omega
  | succ fuel ih =>
    unfold showNatAux
    split
    · simp; omega
    · rename_i h10
      cases k with
      | zero => simp at h; omega
      | succ k =>
        have : n / 10 < 10 ^ (k + 1) := by
          rw [Nat.pow_succ] at h
          omega
        have := ih (n / 10) (digitChar (n % 10) :: acc) k (by omega) this
        simp at this ⊢; omega

theorem showNat_len18 (n : Nat) (h : n < 10 ^ 18) : (showNat n).length ≤ 18 := by
  have := showNatAux_len (n + 1) n [] 17 (by omega) h
  simpa [showNat] using this

theorem showNat_head (n : Nat) (hn : 0 < n) : ∃ d r, showNat n = digitChar d :: r ∧ 1 ≤ d ∧ d < 10 :=
  showNatAux_head (n + 1) n [] (by omega) hn

theorem core_isDigit (c : Char) : c.isDigit = isDigit c := by
  simp only [Char.isDigit, isDigit]
  have h1 : c.toNat = c.val.toNat := rfl
  rw [h1]
  by_cases a : (48 : UInt32) ≤ c.val <;> by_cases b : c.val ≤ (57 : UInt32) <;>
    simp [a, b] <;> (rw [UInt32.le_iff_toNat_le] at a b; simp at a b; omega)

theorem takeDigits_append (ds rest : List Char) (hd : ∀ c ∈ ds, isDigit c = true)
    (hr : ∀ c r, rest = c :: r → isDigit c = false) : takeDigits (ds ++ rest) = (ds, rest) := by
  induction ds with
  | nil =>
    cases rest with
    | nil => rfl
    | cons c r => simp [takeDigits, core_isDigit, hr c r rfl]
  | cons d ds ih =>
    simp [takeDigits, core_isDigit, hd d (by simp), ih (fun c hc => hd c (List.mem_cons_of_mem _ hc))]


theorem digitChar_ne_zero (d : Nat) (h1 : 1 ≤ d) (h2 : d < 10) : digitChar d ≠ '0' := by
  have : d = 1 ∨ d = 2 ∨ d = 3 ∨ d = 4 ∨ d = 5 ∨ d = 6 ∨ d = 7 ∨ d = 8 ∨ d = 9 := by omega
  rcases this with h|h|h|h|h|h|h|h|h <;> subst h <;> decide

def takeIntBody (neg : Bool) (r : List Char) : Option (Int × List Char) :=
  let (ds, rest) := takeDigits r
  if ds.isEmpty || ds.length > 18 || (ds.length > 1 && ds.head? == some '0') then none
  else match rest with
    | '.' :: _ => none
    | 'e' :: _ => none
    | 'E' :: _ => none
    | _ => (parseNat ds).map (fun n => ((if neg then -(n : Int) else (n : Int)), rest))

theorem takeInt_signed (r : List Char) : takeInt ('-' :: r) = takeIntBody true r := rfl

theorem takeInt_unsigned (s : List Char) (h : ∀ r, s ≠ '-' :: r) : takeInt s = takeIntBody false s := by
  unfold takeInt
  split
  · rename_i heq
    split at heq
    · exact absurd rfl (h _)
    · simp only [Prod.mk.injEq] at heq; obtain ⟨rfl, rfl⟩ := heq; rfl

theorem takeIntBody_nat (neg : Bool) (n : Nat) (rest : List Char) (hn : n < 10 ^ 18)
    (hr : ∀ c r, rest = c :: r → isDigit c = false ∧ c ≠ '.' ∧ c ≠ 'e' ∧ c ≠ 'E') :
    takeIntBody neg (showNat n ++ rest) = some ((if neg then -(n : Int) else (n : Int)), rest) := by
  have hds := (showNat_digits n).1
  have hne := (showNat_digits n).2
  have htd : takeDigits (showNat n ++ rest) = (showNat n, rest) :=
    takeDigits_append _ _ hds (fun c r e => (hr c r e).1)
  have hlen := showNat_len18 n hn
  have hlead : ((showNat n).length > 1 && (showNat n).head? == some '0') = false := by
    by_cases h0 : n = 0
    · subst h0; decide
    · obtain ⟨d, r, e, h1, h2⟩ := showNat_head n (by omega)
      rw [e]
      have := digitChar_ne_zero d h1 h2
      simp [this]
  have hemp : (showNat n).isEmpty = false := by
    cases h : showNat n with
    | nil => exact absurd h hne
    | cons _ _ => rfl
  have hgt : decide ((showNat n).length > 18) = false := by simp; omega
  unfold takeIntBody
  simp only [htd, hemp, hgt, hlead, Bool.or_self, Bool.false_eq_true, if_false]
  cases rest with
  | nil => simp [parseNat_showNat]
  | cons c r =>
    obtain ⟨_, h1, h2, h3⟩ := hr c r rfl
    split
    · rename_i heq; simp only [List.cons.injEq] at heq; exact absurd heq.1 h1
    · rename_i heq; simp only [List.cons.injEq] at heq; exact absurd heq.1 h2
    · rename_i heq; simp only [List.cons.injEq] at heq; exact absurd heq.1 h3
    · simp [parseNat_showNat]

/-- a written integer of at most 18 digits followed by something that cannot continue a number -/
theorem takeInt_showInt (v : Int) (rest : List Char) (hv : -(10 : Int) ^ 18 < v ∧ v < 10 ^ 18)
    (hr : ∀ c r, rest = c :: r → isDigit c = false ∧ c ≠ '.' ∧ c ≠ 'e' ∧ c ≠ 'E') :
    takeInt (showInt v ++ rest) = some (v, rest) := by
  unfold showInt
  split
  · rename_i hneg
    rw [List.cons_append, takeInt_signed, takeIntBody_nat true _ rest (by omega) hr]
    simp only [if_true]
    congr 2; omega
  · rename_i hpos
    obtain ⟨c, cs, e, _, hc⟩ := showNat_shape v.toNat
    have hc' : c ≠ '-' := by intro h; subst h; simp [isDigit] at hc
    rw [takeInt_unsigned _ (by intro r h; rw [e] at h; simp only [List.cons_append, List.cons.injEq] at h; exact hc' h.1),
      takeIntBody_nat false _ rest (by omega) hr]
    simp only [Bool.false_eq_true, if_false]
    congr 2; omega


theorem takeString_key (k : List Char) (hk : k ∈ keys) (r : List Char) : takeString (k ++ '"' :: r) = some (k, r) := by
  simp only [keys, List.mem_cons, List.not_mem_nil, or_false] at hk
  rcases hk with rfl | rfl | rfl <;> simp [takeString]

def upd (acc : Acc) (k : List Char) (v : Int) : Acc :=
  if k == "weekIndex".toList then { acc with wi := v }
  else if k == "weekDay".toList then { acc with wd := v }
  else if k == "month".toList then { acc with m := v }
  else acc

def Small (v : Int) : Prop := -(10 : Int) ^ 18 < v ∧ v < 10 ^ 18

theorem skipWs_showInt (v : Int) (rest : List Char) : skipWs (showInt v ++ rest) = showInt v ++ rest := by
  obtain ⟨c, cs, e, _, hc⟩ := showInt_shape v
  rw [e]
  rcases hc with rfl | hc
  · simp [skipWs, isWs]
  · have : isWs c = false := by
      simp only [isWs, Bool.or_eq_false_iff, beq_eq_false_iff_ne]
      refine ⟨⟨⟨?_, ?_⟩, ?_⟩, ?_⟩ <;> (intro h; subst h; simp [isDigit] at hc)
    simp [skipWs, this]

theorem skipWs_colon (r : List Char) : skipWs (':' :: r) = ':' :: r := by simp [skipWs, isWs]
theorem skipWs_comma (r : List Char) : skipWs (',' :: r) = ',' :: r := by simp [skipWs, isWs]
theorem skipWs_brace (r : List Char) : skipWs ('}' :: r) = '}' :: r := by simp [skipWs, isWs]
theorem skipWs_quote (r : List Char) : skipWs ('"' :: r) = '"' :: r := by simp [skipWs, isWs]
theorem skipWs_space (r : List Char) : skipWs (' ' :: r) = skipWs r := by simp [skipWs, isWs]
theorem skipWs_nil : skipWs [] = [] := rfl

/-- one member `"key": value` followed by a comma and another member -/
theorem members_mid (fuel : Nat) (acc : Acc) (pre k : List Char) (hpre : pre = [] ∨ pre = [' ']) (hk : k ∈ keys)
    (v : Int) (hv : Small v) (rest : List Char) :
    members (fuel + 1) acc (pre ++ ('"' :: (k ++ ('"' :: ':' :: ' ' :: (showInt v ++ (',' :: ' ' :: '"' :: rest)))))) =
      members fuel (upd acc k v) (' ' :: '"' :: rest) := by
  have hsk : skipWs (pre ++ ('"' :: (k ++ ('"' :: ':' :: ' ' :: (showInt v ++ (',' :: ' ' :: '"' :: rest)))))) =
      '"' :: (k ++ ('"' :: ':' :: ' ' :: (showInt v ++ (',' :: ' ' :: '"' :: rest)))) := by
    rcases hpre with rfl | rfl <;> simp [skipWs, isWs]
  have hti : takeInt (showInt v ++ (',' :: ' ' :: '"' :: rest)) = some (v, ',' :: ' ' :: '"' :: rest) :=
    takeInt_showInt v _ hv (by intro c r h; simp only [List.cons.injEq] at h; obtain ⟨rfl, _⟩ := h; decide)
  have hkeys : (!(keys.contains k) && (keys.map lower).contains (lower k)) = false := by
    have : keys.contains k = true := by simpa using hk
    rw [this]; rfl
  conv => lhs; unfold members
  simp only [hsk, takeString_key k hk]
  simp only [skipWs_colon, skipWs_space, skipWs_showInt, hti, hkeys, skipWs_comma, skipWs_brace, skipWs_quote, skipWs_nil,
    Bool.false_eq_true, if_false, List.isEmpty_nil, if_true, upd]

/-- the last member, followed by the closing brace -/
theorem members_last (fuel : Nat) (acc : Acc) (pre k : List Char) (hpre : pre = [] ∨ pre = [' ']) (hk : k ∈ keys)
    (v : Int) (hv : Small v) :
    members (fuel + 1) acc (pre ++ ('"' :: (k ++ ('"' :: ':' :: ' ' :: (showInt v ++ ['}']))))) =
      .ok (upd acc k v).wi (upd acc k v).wd (upd acc k v).m := by
  have hsk : skipWs (pre ++ ('"' :: (k ++ ('"' :: ':' :: ' ' :: (showInt v ++ ['}']))))) =
      '"' :: (k ++ ('"' :: ':' :: ' ' :: (showInt v ++ ['}']))) := by
    rcases hpre with rfl | rfl <;> simp [skipWs, isWs]
  have hti : takeInt (showInt v ++ ['}']) = some (v, ['}']) :=
    takeInt_showInt v _ hv (by intro c r h; simp only [List.cons.injEq] at h; obtain ⟨rfl, _⟩ := h; decide)
  have hkeys : (!(keys.contains k) && (keys.map lower).contains (lower k)) = false := by
    have : keys.contains k = true := by simpa using hk
    rw [this]; rfl
  conv => lhs; unfold members
  simp only [hsk, takeString_key k hk]
  simp only [skipWs_colon, skipWs_space, skipWs_showInt, hti, hkeys, skipWs_comma, skipWs_brace, skipWs_quote, skipWs_nil,
    Bool.false_eq_true, if_false, List.isEmpty_nil, if_true, upd]


/-- the documented form of a `weekMonth` value -/
def wmText (a b c : Int) : List Char :=
  '{' :: '"' :: ("weekIndex".toList ++ ('"' :: ':' :: ' ' :: (showInt a ++ (',' :: ' ' :: '"' ::
    ("weekDay".toList ++ ('"' :: ':' :: ' ' :: (showInt b ++ (',' :: ' ' :: '"' ::
    ("month".toList ++ ('"' :: ':' :: ' ' :: (showInt c ++ ['}'])))))))))))

example : wmText 4 6 12 = "{\"weekIndex\": 4, \"weekDay\": 6, \"month\": 12}".toList := by decide

theorem parse_wmText (a b c : Int) (ha : Small a) (hb : Small b) (hc : Small c) :
    WM.parse (wmText a b c) = .ok a b c := by
  obtain ⟨f, hf⟩ : ∃ f, (wmText a b c).length + 1 = f + 3 := ⟨(wmText a b c).length - 2, by simp [wmText]⟩
  have hbr : ∀ r, skipWs ('{' :: r) = '{' :: r := by intro r; simp [skipWs, isWs]
  unfold WM.parse
  rw [hf]
  simp only [wmText, hbr, skipWs_quote]
  have h1 := members_mid (f + 2) {} [] "weekIndex".toList (Or.inl rfl) (by decide) a ha
    ("weekDay".toList ++ ('"' :: ':' :: ' ' :: (showInt b ++ (',' :: ' ' :: '"' ::
    ("month".toList ++ ('"' :: ':' :: ' ' :: (showInt c ++ ['}'])))))))
  have h2 := members_mid (f + 1) (upd {} "weekIndex".toList a) [' '] "weekDay".toList (Or.inr rfl) (by decide) b hb
    ("month".toList ++ ('"' :: ':' :: ' ' :: (showInt c ++ ['}'])))
  have h3 := members_last f (upd (upd {} "weekIndex".toList a) "weekDay".toList b) [' '] "month".toList (Or.inr rfl) (by decide) c hc
  simp only [List.nil_append, List.cons_append] at h1 h2 h3
  change members (f + 2 + 1) {} _ = _
  rw [h1, h2, h3]
  simp [upd]

/-- `weekMonth`: the documented object with any three integers (below 10¹⁸ in size) decodes to
    exactly those three numbers and is accepted iff each is in its range -/
theorem C08_weekMonth_exact (a b c : Int) (ha : Small a) (hb : Small b) (hc : Small c) :
    decode "weekMonth" (wmText a b c) = .ok (.weekMonth a b c) ∧
    (check "weekMonth" (.weekMonth a b c) = .ok true ↔ (0 ≤ a ∧ a ≤ 4 ∧ 0 ≤ b ∧ b ≤ 6 ∧ 0 ≤ c ∧ c ≤ 12)) := by
  obtain ⟨hd, hck⟩ := decode_eq "weekMonth" "WeekMonth" true (by decide)
  refine ⟨by rw [hd]; simp [decodeWith, parse_wmText a b c ha hb hc], ?_⟩
  rw [hck]
  simp only [checkWith, if_true, Chk.ok.injEq, WM.isValid, Bool.and_eq_true, decide_eq_true_eq]
  omega

end WeekMonth

end Starcal.Props
