import Starcal.Rules
import Starcal.TextMore2
/-! # C08 — rule validation is exact: accepted iff every written field is in its range

Statements at the level of `EventRuleModel.Decode` + `EventRule.Check` over the regenerated
registry. "Written with any integer fields" covers negative values and values too large by any
amount — hence every residue class modulo 256 at once. -/
namespace Starcal.Props
open Starcal.Rules

theorem decode_eq (t d : String) (hc : Bool)
    (h : (ruleOf t).map (fun r => (r.decoder, r.hasChecker)) = some (d, hc)) :
    (∀ s, decode t s = decodeWith d s) ∧ ∀ v, check t v = if hc then checkWith t v else .ok true := by
  cases hr : ruleOf t with
  | none => simp [hr] at h
  | some r =>
    simp [hr] at h
    obtain ⟨h1, h2⟩ := h
    refine ⟨fun s => by unfold decode; simp [hr, h1], fun v => by unfold check; simp [hr, h2]⟩

/-- `dayTime`: h:m:s with any integer fields decodes; accepted iff all in range; then exactly the numbers written -/
theorem C08_dayTime_exact (h m s : Int) :
    ∃ v, decode "dayTime" (fmtHMS h m s) = .ok (.hms v) ∧
      (check "dayTime" (.hms v) = .ok true ↔ (0 ≤ h ∧ h < 24 ∧ 0 ≤ m ∧ m < 60 ∧ 0 ≤ s ∧ s < 60)) ∧
      (check "dayTime" (.hms v) = .ok true → v = ⟨h, m, s⟩) := by
  obtain ⟨hd, hck⟩ := decode_eq "dayTime" "HMS" true (by decide)
  obtain ⟨v, hv, hiff, heq⟩ := parseHMS_exact h m s
  refine ⟨v, by rw [hd]; simp [decodeWith, ofOpt, hv], ?_, ?_⟩
  · rw [hck]; simp [checkWith, hiff]
  · rw [hck]; simp only [checkWith, if_true, Chk.ok.injEq]; exact heq

/-- `date`: y/m/d with any integer fields -/
theorem C08_date_exact (y m d : Int) :
    ∃ v, decode "date" (fmtDate y m d) = .ok (.date v) ∧
      (check "date" (.date v) = .ok true ↔ (1 ≤ m ∧ m ≤ 12 ∧ 1 ≤ d ∧ d ≤ 39)) ∧
      (check "date" (.date v) = .ok true → v = ⟨y, m, d⟩) := by
  obtain ⟨hd, hck⟩ := decode_eq "date" "Date" true (by decide)
  obtain ⟨v, hv, hiff, heq⟩ := parseDate_exact y m d
  refine ⟨v, by rw [hd]; simp [decodeWith, ofOpt, hv], ?_, ?_⟩
  · rw [hck]; simp [checkWith, hiff]
  · rw [hck]; simp only [checkWith, if_true, Chk.ok.injEq]; exact heq

/-- `cycleLen`: "days h:m:s"; a negative day count is a decode error (never accepted) -/
theorem C08_cycleLen_exact (days h m s : Int) :
    (0 ≤ days ∧ days < 18446744073709551616 →
      ∃ v, decode "cycleLen" (showInt days ++ (' ' :: fmtHMS h m s)) = .ok (.dhms days v) ∧
        (check "cycleLen" (.dhms days v) = .ok true ↔ (0 ≤ h ∧ h < 24 ∧ 0 ≤ m ∧ m < 60 ∧ 0 ≤ s ∧ s < 60)) ∧
        (check "cycleLen" (.dhms days v) = .ok true → v = ⟨h, m, s⟩)) ∧
    (days < 0 → decode "cycleLen" (showInt days ++ (' ' :: fmtHMS h m s)) = .err) := by
  obtain ⟨hd, hck⟩ := decode_eq "cycleLen" "DHMS" true (by decide)
  obtain ⟨e1, e2⟩ := parseDHMS_exact days h m s
  constructor
  · intro hdays
    obtain ⟨v, hv, hiff, heq⟩ := e1 hdays
    refine ⟨v, by rw [hd]; simp [decodeWith, ofOpt, hv], ?_, ?_⟩
    · rw [hck]; simp [checkWith, hiff]
    · rw [hck]; simp only [checkWith, if_true, Chk.ok.injEq]; exact heq
  · intro hneg
    rw [hd]; simp [decodeWith, ofOpt, e2 hneg]

/-- `cycleDays` / `cycleWeeks`: any written integer decodes to itself and is accepted iff positive -/
theorem C08_cycleDays_exact (n : Int) :
    decode "cycleDays" (showInt n) = .ok (.int n) ∧ (check "cycleDays" (.int n) = .ok true ↔ 0 < n) ∧
    decode "cycleWeeks" (showInt n) = .ok (.int n) ∧ (check "cycleWeeks" (.int n) = .ok true ↔ 0 < n) := by
  obtain ⟨hd, hck⟩ := decode_eq "cycleDays" "int" true (by decide)
  obtain ⟨hd2, hck2⟩ := decode_eq "cycleWeeks" "int" true (by decide)
  refine ⟨by rw [hd]; simp [decodeWith, ofOpt, parseInt_showInt], by rw [hck]; simp [checkWith],
    by rw [hd2]; simp [decodeWith, ofOpt, parseInt_showInt], by rw [hck2]; simp [checkWith]⟩

/-- range lists (`month`; the other five range-list types differ only in the bounds): whenever the
    text parses as the closed ranges `l`, the decoded value is the strictly increasing list of exactly
    the integers covered by some written range — every accepted spelling, any order, overlaps and
    repetitions included — and it is accepted iff every covered integer is in 1..12 -/
theorem C08_ranges_value (s : List Char) (l : List Starcal.Ival)
    (hp : parseClosedIntervalList s = .ok l) (hcl : ∀ i ∈ l, i.closed = true ∧ i.start ≤ i.stop) :
    ∃ vals, decode "month" s = .ok (.intList vals) ∧ Ival.StrictInc vals ∧
      (∀ x, x ∈ vals ↔ ∃ i ∈ l, i.start ≤ x ∧ x ≤ i.stop) ∧
      (check "month" (.intList vals) = .ok true ↔ ∀ x ∈ vals, 1 ≤ x ∧ x ≤ 12) := by
  obtain ⟨hd, hck⟩ := decode_eq "month" "int_range_list" true (by decide)
  have hcl' : ∀ i ∈ l.map toIv, i.closed = true ∧ i.start ≤ i.stop := by
    intro i hi
    obtain ⟨j, hj, rfl⟩ := List.mem_map.mp hi
    exact hcl j hj
  obtain ⟨r, hr, hinc, hmem⟩ := Ival.ranges_value (l.map toIv) hcl'
  refine ⟨Ival.extractI r, by rw [hd]; simp [decodeWith, decodeRanges, hp, hr], hinc, ?_, ?_⟩
  · intro x
    rw [hmem x]
    constructor
    · rintro ⟨i, hi, h1, h2⟩
      obtain ⟨j, hj, rfl⟩ := List.mem_map.mp hi
      exact ⟨j, hj, h1, h2⟩
    · rintro ⟨j, hj, h1, h2⟩
      exact ⟨toIv j, List.mem_map_of_mem hj, h1, h2⟩
  · rw [hck]
    simp only [checkWith, if_true, Chk.ok.injEq, List.all_eq_true, Bool.and_eq_true, decide_eq_true_eq]
    constructor
    · intro h x hx; have := h x hx; omega
    · intro h x hx; have := h x hx; omega

/-- the written ranges of a parsed closed list are closed and ordered (so the hypothesis of
    `C08_ranges_value` is what the parser guarantees) -/
theorem parseParts_closed (ps : List (List Char)) (l : List Starcal.Ival) (h : parseParts true ps = .ok l) :
    ∀ i ∈ l, i.closed = true ∧ i.start ≤ i.stop := by
  induction ps generalizing l with
  | nil => simp [parseParts] at h; subst h; simp
  | cons p ps ih =>
    unfold parseParts at h
    cases hp : parseIntervalTop p with
    | ok i =>
      simp only [hp] at h
      cases hq : parseParts true ps with
      | ok l' =>
        simp only [hq, if_true] at h
        simp at h; subst h
        intro j hj
        rcases List.mem_cons.mp hj with rfl | hj
        · refine ⟨rfl, ?_⟩
          unfold parseIntervalTop at hp
          cases hz : parseInterval true p with
          | ok k => simp only [hz] at hp; split at hp <;> simp at hp; subst hp; simp only; omega
          | err => simp [hz] at hp
          | panic => simp [hz] at hp
        · exact ih l' hq j hj
      | err => simp [hq] at h
      | panic => simp [hq] at h
    | err => simp [hp] at h
    | panic => simp [hp] at h

/-- an unknown rule type is a decode error -/
theorem C08_unknown_type (t : String) (s : List Char) (h : t ∉ Gen.ruleTypes.map (·.name)) : decode t s = .err := by
  unfold decode
  cases hr : ruleOf t with
  | none => rfl
  | some r =>
    exfalso; apply h
    unfold ruleOf at hr
    have h1 := List.mem_of_find?_eq_some hr
    have h2 := List.find?_some hr
    simp at h2; rw [← h2]; exact List.mem_map_of_mem h1

example : decode "month" "1-5 5-8".toList = .ok (.intList [1, 2, 3, 4, 5, 6, 7, 8]) := by decide
example : decode "year" "-(600-598) -400 -300".toList = .ok (.intList [-600, -599, -598, -400, -300]) := by decide
example : decode "dayTime" "20:55:256".toList = .ok (.hms ⟨20, 55, 255⟩) ∧ check "dayTime" (.hms ⟨20, 55, 255⟩) = .ok false := by decide
example : decode "date" "2000/268/1".toList = .ok (.date ⟨2000, 255, 1⟩) ∧ check "date" (.date ⟨2000, 255, 1⟩) = .ok false := by decide
example : decode "cycleLen" "-1 23:55:55".toList = .err := by decide
example : decode "date" "2000-1-1".toList = .err ∧ decode "duration" "1d".toList = .err := by decide

end Starcal.Props
