import Starcal.FHour
import Starcal.FloatStd
/-! # C18 — time-of-day conversions (h:m:s, seconds, fractional hours) are mutually inverse

Integer clauses over `Int`. The fractional-hour clauses twice: over exact rationals (`…_partial`), and for the float
code with every operation rounded, under the standard model of floating-point arithmetic (`…_std`: any rounding
function with relative error ≤ 2^-53). Lean has no kernel semantics for IEEE doubles, so that binary64 is such an
arithmetic stays an assumption; the finite round-trip clause is also compared exhaustively with the real float code
on every run (DESIGN 6.5). -/
namespace Starcal.Props
open Starcal.FHour

/-- the total seconds equal 3600h + 60m + s (definitionally, as in the code) -/
theorem C18_total_seconds (x : HMS) : totalSeconds x = 3600 * x.hour + 60 * x.minute + x.second := by
  unfold totalSeconds; omega

/-- converting the seconds back gives the same hour, minute and second -/
theorem C18_seconds_roundtrip (x : HMS) (h : valid x) : hmsBySeconds (totalSeconds x) = x :=
  seconds_roundtrip x h

/-- every second count below a day is a valid time with that many seconds -/
theorem C18_hms_of_seconds (s : Int) (h0 : 0 ≤ s) (h1 : s < 86400) :
    valid (hmsBySeconds s) ∧ totalSeconds (hmsBySeconds s) = s :=
  hms_of_seconds s h0 h1

/-- converting a valid time to fractional hours and back gives the same time (exact rationals) -/
theorem C18_floathour_roundtrip_partial (x : HMS) (h : valid x) : ofFloatHour (floatHour x) = x :=
  floathour_roundtrip x h

/-- for any fractional hour the time returned is within half a second — hence one second — of it
    (exact rationals; `total_split` below says the split into h:m:s keeps the total) -/
theorem C18_within_one_second_partial (q : Rat) :
    let t := (q * 3600 + 1 / 2).floor
    ((t : Int) : Rat) - q * 3600 ≤ 1 / 2 ∧ q * 3600 - ((t : Int) : Rat) < 1 / 2 :=
  within_half_second q

theorem C18_split_keeps_total (t : Int) (h0 : 0 ≤ t) :
    totalSeconds ⟨t / 3600, t / 60 % 60, t % 60⟩ = t :=
  total_split t h0

/-! ### the float code itself, under the standard model of floating-point arithmetic (FloatStd.lean)

For EVERY rounding function with relative error at most 2^-53 per operation (which IEEE-754 binary64 round-to-nearest
is, on this range — assumed, DESIGN section 5): -/

/-- every valid time of day converts to a fractional hour and back to itself — all 86 400 of them, with every float
    operation rounded -/
theorem C18_floathour_roundtrip_std (rnd : Rat → Rat) (h : FloatStd.StdModel rnd) (x : HMS) (hv : valid x) :
    FloatStd.ofFloatHourR rnd (FloatStd.floatHourR rnd x) = x :=
  FloatStd.roundtrip_std rnd h x hv

/-- the same when `fh*3600 + 0.5` is computed with one rounding (fused multiply-add) -/
theorem C18_floathour_roundtrip_std_fma (rnd : Rat → Rat) (h : FloatStd.StdModel rnd) (x : HMS) (hv : valid x) :
    FloatStd.ofFloatHourFMA rnd (FloatStd.floatHourR rnd x) = x :=
  FloatStd.roundtrip_std_fma rnd h x hv

/-- for any fractional hour in [0, 24) the rounded total of seconds is within one second of it and at most 86 400 -/
theorem C18_within_one_second_std (rnd : Rat → Rat) (h : FloatStd.StdModel rnd) (q : Rat) (q0 : 0 ≤ q) (q1 : q < 24) :
    let t := (rnd (rnd (q * 3600) + 1 / 2)).floor
    ((t : Int) : Rat) - q * 3600 < 1 ∧ q * 3600 - ((t : Int) : Rat) < 1 ∧ 0 ≤ t ∧ t ≤ 86400 :=
  FloatStd.within_one_second_std rnd h q q0 q1

example : valid ⟨23, 59, 59⟩ := by unfold valid; decide
example : hmsBySeconds 3600 = ⟨1, 0, 0⟩ := by decide
/-- the defect repaired by the `fix:` commit: the unrepaired minute field -/
example : hmsBySecondsOld 3600 = ⟨1, 60, 0⟩ := by decide

end Starcal.Props
