import Starcal.Props.C01
import Starcal.HijriT4
/-! # C02 — consecutive day numbers map to consecutive calendar dates

`Props.succ c` is the calendar successor computed from the library's own month lengths
(`c.monthLen` is the model of `GetMonthLen`), with the −1 → 1 year step of the proleptic
variant. One theorem per configuration, over all of ℤ. -/
namespace Starcal.Props
open Starcal.Drv

theorem succ_eq_julian (g : Julian.Date) :
    ((Julian.succ g).year, (Julian.succ g).month, (Julian.succ g).day) = succ calJul (g.year, g.month, g.day) := by
  rcases g with ⟨y, m, d⟩
  unfold succ Julian.succ
  simp only [calJul]
  by_cases h1 : d < Julian.monthLen y m <;> by_cases h2 : m < 12 <;> simp [h1, h2]

theorem C02_julian : Consecutive calJul where
  jdTo_wf := C01_julian.jdTo_wf
  succ_step jd := by
    have h := Julian.succ_step jd
    have e := succ_eq_julian (Julian.jdTo jd)
    simp only [calJul] at e ⊢
    rw [h]; exact e

theorem succ_eq_gregorian (g : Date) :
    ((gSucc g).year, (gSucc g).month, (gSucc g).day) = succ calGreg (g.year, g.month, g.day) := by
  rcases g with ⟨y, m, d⟩
  unfold succ gSucc
  simp only [calGreg]
  by_cases h1 : d < gMonthLen y m <;> by_cases h2 : m < 12 <;> simp [h1, h2]

theorem C02_gregorian : Consecutive calGreg where
  jdTo_wf := C01_gregorian.jdTo_wf
  succ_step jd := by
    have h := gSucc_step jd
    have e := succ_eq_gregorian (gJdTo jd)
    simp only [calGreg] at e ⊢
    rw [h]; exact e

theorem succ_eq_indian_national (g : Date) :
    ((iSucc g).year, (iSucc g).month, (iSucc g).day) = succ calInd (g.year, g.month, g.day) := by
  rcases g with ⟨y, m, d⟩
  unfold succ iSucc
  simp only [calInd]
  by_cases h1 : d < iMonthLen y m <;> by_cases h2 : m < 12 <;> simp [h1, h2]

theorem C02_indian_national : Consecutive calInd where
  jdTo_wf := C01_indian_national.jdTo_wf
  succ_step jd := by
    have h := iSucc_step jd
    have e := succ_eq_indian_national (iJdTo jd)
    simp only [calInd] at e ⊢
    rw [h]; exact e

theorem succ_eq_ethiopian (g : Ethiopian.Date) :
    ((Ethiopian.succ g).year, (Ethiopian.succ g).month, (Ethiopian.succ g).day) = succ calEth (g.year, g.month, g.day) := by
  rcases g with ⟨y, m, d⟩
  unfold succ Ethiopian.succ
  simp only [calEth]
  by_cases h1 : d < Ethiopian.monthLen y m <;> by_cases h2 : m < 12 <;> simp [h1, h2]

theorem C02_ethiopian : Consecutive calEth where
  jdTo_wf := C01_ethiopian.jdTo_wf
  succ_step jd := by
    have h := Ethiopian.succ_step jd
    have e := succ_eq_ethiopian (Ethiopian.jdTo jd)
    simp only [calEth] at e ⊢
    rw [h]; exact e

theorem succ_eq_hijri_arithmetic (g : Hijri.Date) :
    ((Hijri.succ g).year, (Hijri.succ g).month, (Hijri.succ g).day) = succ calHijA (g.year, g.month, g.day) := by
  rcases g with ⟨y, m, d⟩
  unfold succ Hijri.succ
  simp only [calHijA]
  by_cases h1 : d < Hijri.monthLen y m <;> by_cases h2 : m < 12 <;> simp [h1, h2]

theorem C02_hijri_arithmetic : Consecutive calHijA where
  jdTo_wf := C01_hijri_arithmetic.jdTo_wf
  succ_step jd := by
    have h := Hijri.succ_step jd
    have e := succ_eq_hijri_arithmetic (Hijri.jdTo jd)
    simp only [calHijA] at e ⊢
    rw [h]; exact e

theorem succ_eq_jalali_33 (g : Jalali.Date) :
    ((Jalali.succ g).year, (Jalali.succ g).month, (Jalali.succ g).day) = succ calJal33 (g.year, g.month, g.day) := by
  rcases g with ⟨y, m, d⟩
  unfold succ Jalali.succ
  simp only [calJal33]
  by_cases h1 : d < Jalali.monthLen y m <;> by_cases h2 : m < 12 <;> simp [h1, h2]

theorem C02_jalali_33 : Consecutive calJal33 where
  jdTo_wf := C01_jalali_33.jdTo_wf
  succ_step jd := by
    have h := Jalali.succ_step jd
    have e := succ_eq_jalali_33 (Jalali.jdTo jd)
    simp only [calJal33] at e ⊢
    rw [h]; exact e

theorem succ_eq_jalali_2820 (g : Jalali.Date) :
    ((Jalali.succ2 g).year, (Jalali.succ2 g).month, (Jalali.succ2 g).day) = succ calJal2820 (g.year, g.month, g.day) := by
  rcases g with ⟨y, m, d⟩
  unfold succ Jalali.succ2
  simp only [calJal2820]
  by_cases h1 : d < Jalali.monthLen2 y m <;> by_cases h2 : m < 12 <;> simp [h1, h2]

theorem C02_jalali_2820 : Consecutive calJal2820 where
  jdTo_wf := C01_jalali_2820.jdTo_wf
  succ_step jd := by
    have h := Jalali.succ2_step jd
    have e := succ_eq_jalali_2820 (Jalali.jdTo2 jd)
    simp only [calJal2820] at e ⊢
    rw [h]; exact e

/-- the proleptic variant steps from year −1 to year 1 -/
theorem C02_gregorian_proleptic : Consecutive calGprol where
  jdTo_wf := C01_gregorian_proleptic.jdTo_wf
  succ_step jd := by
    have h := gSucc_step jd
    simp only [calGprol, pJdTo, h]
    generalize gJdTo jd = g
    rcases g with ⟨y, m, d⟩
    unfold succ gSucc
    simp only [pMonthLen, rel_in_out]
    by_cases h1 : d < gMonthLen y m
    · simp [h1]
    · by_cases h2 : m < 12
      · simp [h1, h2]
      · simp only [h1, h2, if_false]
        unfold relOut
        by_cases h3 : y < 1
        · by_cases h4 : y = 0
          · subst h4; simp
          · have : y + 1 < 1 := by omega
            have h5 : ¬ (y - 1 = -1) := by omega
            simp [h3, this, h5]
        · have : ¬ (y + 1 < 1) := by omega
          have h5 : ¬ (y = -1) := by omega
          simp [h3, this, h5]

example : succ calGprol (-1, 12, 31) = (1, 1, 1) := by decide
example : calGprol.jdTo 1721425 = (-1, 12, 31) ∧ calGprol.jdTo 1721426 = (1, 1, 1) := by decide

/-- on well-formed dates the calendar successor is the next day number -/
theorem succ_toJd {c : Cal} (hb : Bijective c) (hc : Consecutive c) (t : Int × Int × Int) (hw : WF c t) :
    toJdT c (succ c t) = toJdT c t + 1 := by
  have e := hb.date_roundtrip t hw
  have s := hc.succ_step (toJdT c t)
  rw [e] at s
  rw [← s, hb.jd_roundtrip]

/-- the successor of a well-formed date is well-formed -/
theorem succ_wf {c : Cal} (hb : Bijective c) (hc : Consecutive c) (t : Int × Int × Int) (hw : WF c t) :
    WF c (succ c t) := by
  have e := hb.date_roundtrip t hw
  have s := hc.succ_step (toJdT c t)
  rw [e] at s
  rw [← s]; exact hb.jdTo_wf _

end Starcal.Props

namespace Starcal.Props
open Starcal.Drv

/-- lexicographic order on (year, month, day) -/
def lexLt (a b : Int × Int × Int) : Prop :=
  a.1 < b.1 ∨ (a.1 = b.1 ∧ (a.2.1 < b.2.1 ∨ (a.2.1 = b.2.1 ∧ a.2.2 < b.2.2)))

theorem lexLt_trans {a b c : Int × Int × Int} (h1 : lexLt a b) (h2 : lexLt b c) : lexLt a c := by
  unfold lexLt at *; omega

theorem lexLt_irrefl (a : Int × Int × Int) : ¬ lexLt a a := by unfold lexLt; omega

/-- the calendar successor of a well-formed date is later in date order -/
theorem lexLt_succ (c : Cal) (t : Int × Int × Int) (hw : WF c t) : lexLt t (succ c t) := by
  rcases t with ⟨y, m, d⟩
  obtain ⟨h0, h1, h2, h3, h4⟩ := hw
  simp only at h0 h1 h2 h3 h4
  unfold succ lexLt
  simp only
  by_cases a : d < c.monthLen y m
  · simp only [a, if_true, true_and]; omega
  · simp only [a, if_false]
    by_cases b : m < 12
    · simp only [b, if_true, true_and]; omega
    · simp only [b, if_false]
      by_cases e : c.skipYear0 = true ∧ y = -1
      · simp only [e, and_self, if_true]; omega
      · simp only [e, if_false]; omega

/-- **date order equals day-number order** (C02's consequence), for every configuration that is
    consecutive: jd₁ < jd₂ ↔ date(jd₁) is before date(jd₂) -/
theorem Consecutive.date_order {c : Cal} (h : Consecutive c) (a b : Int) :
    a < b ↔ lexLt (c.jdTo a) (c.jdTo b) := by
  have up : ∀ (n : Nat) (a : Int), lexLt (c.jdTo a) (c.jdTo (a + n + 1)) := by
    intro n
    induction n with
    | zero =>
      intro a
      have := lexLt_succ c (c.jdTo a) (h.jdTo_wf a)
      rw [← h.succ_step] at this
      simpa using this
    | succ n ih =>
      intro a
      have s := lexLt_succ c (c.jdTo (a + n + 1)) (h.jdTo_wf _)
      rw [← h.succ_step] at s
      have e : a + ((n + 1 : Nat) : Int) + 1 = a + n + 1 + 1 := by omega
      rw [e]
      exact lexLt_trans (ih a) s
  constructor
  · intro hab
    have := up (b - a - 1).toNat a
    have e : a + ((b - a - 1).toNat : Int) + 1 = b := by omega
    rwa [e] at this
  · intro hl
    by_cases hab : a < b
    · exact hab
    · exfalso
      by_cases heq : a = b
      · subst heq; exact lexLt_irrefl _ hl
      · have := up (a - b - 1).toNat b
        have e : b + ((a - b - 1).toNat : Int) + 1 = a := by omega
        rw [e] at this
        exact lexLt_irrefl _ (lexLt_trans hl this)

example : lexLt (calGprol.jdTo 1721425) (calGprol.jdTo 1721426) := by unfold lexLt; decide

/-! ### hijri in month-table mode (partial: the two table seams are open known findings) -/

/-- **C02 for hijri in month-table mode, partial**: for every day number except five (the day
    before and the last day of the 29-day start seam, and the three days before the day-0 dates of
    the end seam) the date of day n+1 is the successor of the date of day n by the month lengths the
    library reports in this mode; and every date produced is well-formed except on four days -/
theorem C02_hijri_table_partial (jd : Int) :
    (jd ≠ 2453441 ∧ jd ≠ 2453469 ∧ jd ≠ 2459702 ∧ jd ≠ 2459731 ∧ jd ≠ 2459761 →
      calHijT.jdTo (jd + 1) = succ calHijT (calHijT.jdTo jd)) ∧
    (jd ≠ 2453470 ∧ jd ≠ 2459703 ∧ jd ≠ 2459732 ∧ jd ≠ 2459762 → WF calHijT (calHijT.jdTo jd)) := by
  constructor
  · intro hne
    have h := HijriT.hijri_table_succ_partial jd hne
    have hjd : ∀ j, calHijT.jdTo j = ((HijriT.jdToT j).year, (HijriT.jdToT j).month, (HijriT.jdToT j).day) := fun _ => rfl
    have hml : calHijT.monthLen = HijriT.monthLenT := rfl
    have hsk : calHijT.skipYear0 = false := rfl
    rw [hjd, hjd, h]
    generalize HijriT.jdToT jd = d
    rcases d with ⟨y, m, dd⟩
    unfold succ HijriT.succT
    simp only [hml, hsk, Bool.false_eq_true, false_and, if_false]
    by_cases h1 : dd < HijriT.monthLenT y m <;> by_cases h2 : m < 12 <;> simp [h1, h2]
  · intro hne
    have h := HijriT.hijri_table_wf_partial jd hne
    unfold HijriT.wfT at h
    simp only [Bool.and_eq_true, decide_eq_true_eq] at h
    have hjd : calHijT.jdTo jd = ((HijriT.jdToT jd).year, (HijriT.jdToT jd).month, (HijriT.jdToT jd).day) := rfl
    have hml : calHijT.monthLen = HijriT.monthLenT := rfl
    have hsk : calHijT.skipYear0 = false := rfl
    rw [hjd]
    generalize HijriT.jdToT jd = d at h ⊢
    rcases d with ⟨y, m, dd⟩
    unfold WF
    rw [hml, hsk]
    exact ⟨fun hh => Bool.noConfusion hh, h.1.1.1, h.1.1.2, h.1.2, h.2⟩

/-- the excluded days are real: the model reproduces the failures by kernel evaluation -/
theorem C02_hijri_table_seam_witness :
    (HijriT.rangeI 2453400 100).filter (fun jd => decide (HijriT.jdToT (jd + 1) ≠ HijriT.succT (HijriT.jdToT jd))) = [2453441, 2453469] ∧
    (HijriT.rangeI 2459650 160).filter (fun jd => decide (HijriT.jdToT (jd + 1) ≠ HijriT.succT (HijriT.jdToT jd))) = [2459702, 2459731, 2459761] :=
  ⟨HijriT.start_zone_successor, HijriT.end_zone_successor⟩

end Starcal.Props
