import Starcal.Props.C02
import Starcal.Spec.Rules
import Starcal.Walk
import Starcal.HijriT5
/-! # C03 — each calendar equals its published rule: anchor day + leap rule + month lengths

`FollowsRule c r`: the model of the library's calendar `c` puts the rule's anchor date on the
anchor day, steps from each day to the next exactly as the rule's successor does, and reports the
rule's leap years and month lengths. `FollowsRule.unique` then says that `c.jdTo` *is* "the date
obtained by counting days from the anchor", in both directions: any day-numbering that starts at
the anchor and follows the rule equals it. -/
namespace Starcal.Props
open Starcal.Drv Starcal.Spec

structure FollowsRule (c : Cal) (r : Rule) : Prop where
  year0 : c.skipYear0 = r.noYear0
  anchor : c.jdTo r.anchorJd = r.anchor
  leap : ∀ y, (r.noYear0 = true → y ≠ 0) → c.isLeap y = r.isLeap y
  mlen : ∀ y m, (r.noYear0 = true → y ≠ 0) → 1 ≤ m → m ≤ 12 → c.monthLen y m = r.monthLen y m
  bij : Bijective c
  cons : Consecutive c

theorem FollowsRule.wf_iff {c : Cal} {r : Rule} (h : FollowsRule c r) (t : Int × Int × Int) :
    WF c t ↔ r.WF t := by
  unfold WF Rule.WF
  rw [h.year0]
  constructor
  · intro ⟨a, b, c', d, e⟩; exact ⟨a, b, c', d, by rw [← h.mlen _ _ a b c']; exact e⟩
  · intro ⟨a, b, c', d, e⟩; exact ⟨a, b, c', d, by rw [h.mlen _ _ a b c']; exact e⟩

theorem FollowsRule.succ_eq {c : Cal} {r : Rule} (h : FollowsRule c r) (t : Int × Int × Int)
    (hw : WF c t) : succ c t = r.succ t := by
  unfold succ Rule.succ
  rw [h.mlen _ _ (by rw [← h.year0]; exact hw.1) hw.2.1 hw.2.2.1, h.year0]

/-- every step of the library's day-to-date map is a step of the rule -/
theorem FollowsRule.step {c : Cal} {r : Rule} (h : FollowsRule c r) (jd : Int) :
    c.jdTo (jd + 1) = r.succ (c.jdTo jd) := by
  rw [h.cons.succ_step, h.succ_eq _ (h.bij.jdTo_wf jd)]

/-- **C03**: the library's `JdTo` is the unique day-numbering that puts the anchor date on the
    anchor day and follows the published rule from day to day (forwards and backwards) -/
theorem FollowsRule.unique {c : Cal} {r : Rule} (h : FollowsRule c r) (g : Int → Int × Int × Int)
    (h0 : g r.anchorJd = r.anchor) (hg : ∀ n, g (n + 1) = r.succ (g n)) (hwf : ∀ n, r.WF (g n)) :
    ∀ n, c.jdTo n = g n := by
  apply Starcal.Walk.walk_unique r.succ r.WF _ c.jdTo g r.anchorJd
  · rw [h.anchor, h0]
  · exact h.step
  · exact hg
  · intro n; exact (h.wf_iff _).mp (h.bij.jdTo_wf n)
  · exact hwf
  · intro x y hx hy e
    have hx' := (h.wf_iff x).mpr hx
    have hy' := (h.wf_iff y).mpr hy
    rw [← h.succ_eq x hx', ← h.succ_eq y hy'] at e
    have e1 := succ_toJd h.bij h.cons x hx'
    have e2 := succ_toJd h.bij h.cons y hy'
    rw [e] at e1
    exact h.bij.toJd_injective x y hx' hy' (by omega)

/-! ## the instances -/

theorem C03_gregorian : FollowsRule calGreg gregorian where
  year0 := rfl
  anchor := by decide
  leap y _ := by simp [calGreg, gregorian, gregLeap, gIsLeap]
  mlen y m _ _ _ := by simp [calGreg, gregorian, gregMonthLen, gMonthLen, gregLeap, gIsLeap]
  bij := C01_gregorian
  cons := C02_gregorian

theorem C03_julian : FollowsRule calJul julian where
  year0 := rfl
  anchor := by decide
  leap y _ := by
    simp only [calJul, julian, julLeap, Julian.isLeap]
    rw [Bool.eq_iff_iff]; simp
  mlen y m _ h1 h2 := by
    rcases Julian.month_cases h1 h2 with h|h|h|h|h|h|h|h|h|h|h|h <;> subst h <;>
      simp [calJul, julian, gregMonthLen, Julian.monthLen, Julian.monthLenTab, julLeap, Julian.isLeap]
  bij := C01_julian
  cons := C02_julian

theorem C03_ethiopian : FollowsRule calEth ethiopian where
  year0 := rfl
  anchor := by decide
  leap y _ := by
    simp only [calEth, ethiopian, ethLeap, Ethiopian.isLeap]
    by_cases h : y % 4 = 3
    · have : (y + 1) % 4 = 0 := by omega
      simp [h, this]
    · have : ¬ (y + 1) % 4 = 0 := by omega
      simp [h, this]
  mlen y m _ h1 h2 := by
    simp only [calEth, ethiopian, ethLeap, Ethiopian.monthLen, Ethiopian.isLeap]
    by_cases hm : m = 12
    · subst hm
      by_cases h : y % 4 = 3
      · have : (y + 1) % 4 = 0 := by omega
        simp [h, this]
      · have : ¬ (y + 1) % 4 = 0 := by omega
        simp [h, this]
    · have : m < 12 := by omega
      simp [hm, this]
  bij := C01_ethiopian
  cons := C02_ethiopian

theorem C03_hijri_arithmetic : FollowsRule calHijA hijri where
  year0 := rfl
  anchor := by decide
  leap y _ := by simp [calHijA, hijri, hijLeap, Hijri.isLeap]
  mlen y m _ _ _ := by simp [calHijA, hijri, hijLeap, Hijri.monthLen, Hijri.isLeap]
  bij := C01_hijri_arithmetic
  cons := C02_hijri_arithmetic

theorem jal33_leap_eq (y : Int) : Jalali.isLeap y = jal33Leap y := by
  obtain ⟨np, jym, hy, h0, h1⟩ := Jalali.year_coords y
  subst hy
  rw [Jalali.isLeap_cycle np jym h0 h1]
  unfold jal33Leap
  simp only
  have e : (979 + 33 * np + jym) % 33 = (22 + jym) % 33 := by omega
  rw [e]
  rw [Bool.eq_iff_iff]
  simp only [decide_eq_true_eq]
  by_cases h : jym ≤ 10
  · have e2 : (22 + jym) % 33 = 22 + jym := by omega
    rw [e2]; omega
  · have e2 : (22 + jym) % 33 = jym - 11 := by omega
    rw [e2]; omega

theorem C03_jalali_33 : FollowsRule calJal33 jalali33 where
  year0 := rfl
  anchor := by decide
  leap y _ := jal33_leap_eq y
  mlen y m _ h1 h2 := by
    simp only [calJal33, jalali33, jalMonthLen, Jalali.monthLen, ← jal33_leap_eq]
    rcases Jalali.month_cases h1 h2 with h|h|h|h|h|h|h|h|h|h|h|h <;> subst h <;> simp [Jalali.monthLenTab]
  bij := C01_jalali_33
  cons := C02_jalali_33

theorem jal2820_leap_eq (y : Int) : Jalali.isLeap2 y = jal2820Leap y := by
  unfold Jalali.isLeap2 jal2820Leap
  generalize (y - 474) % 2820 = a
  have e : ((a + 512) * 682) % 2816 = (a * 682) % 2816 := by omega
  rw [e]

theorem C03_jalali_2820 : FollowsRule calJal2820 jalali2820 where
  year0 := rfl
  anchor := by decide
  leap y _ := jal2820_leap_eq y
  mlen y m _ h1 h2 := by
    simp only [calJal2820, jalali2820, jalMonthLen, Jalali.monthLen2, ← jal2820_leap_eq]
    rcases Jalali.month_cases h1 h2 with h|h|h|h|h|h|h|h|h|h|h|h <;> subst h <;> simp [Jalali.monthLenTab]
  bij := C01_jalali_2820
  cons := C02_jalali_2820

theorem C03_indian_national : FollowsRule calInd indianNational where
  year0 := rfl
  anchor := by decide
  leap y _ := by simp [calInd, indianNational, sakaLeap, iIsLeap, gregLeap, gIsLeap]
  mlen y m _ h1 h2 := by
    simp only [calInd, indianNational, sakaLeap, iMonthLen, iIsLeap, gregLeap, gIsLeap]
    by_cases hm : m = 1
    · simp [hm]
    · by_cases h6 : m ≤ 6
      · have : 2 ≤ m ∧ m ≤ 6 := ⟨by omega, h6⟩
        simp [hm, h6, this]
      · simp [hm, h6]
  bij := C01_indian_national
  cons := C02_indian_national

/-- the Saka year starts on 22 March of Gregorian y+78, 21 March if that year is leap — stated
    with the model's own Gregorian day numbers (themselves tied to the rule by `C03_gregorian`) -/
theorem C03_saka_year_start (y : Int) :
    calInd.toJd y 1 1 = calGreg.toJd (y + 78) 3 (if gregLeap (y + 78) = true then 21 else 22) := by
  simp only [calInd, calGreg, iToJd, iIsLeap, gregLeap, gIsLeap]
  by_cases h : (y + 78) % 4 = 0 ∧ ((y + 78) % 100 ≠ 0 ∨ (y + 78) % 400 = 0) <;> simp [h]

theorem C03_gregorian_proleptic : FollowsRule calGprol gregorianProleptic where
  year0 := rfl
  anchor := by decide
  leap y hy := by
    have hy0 : y ≠ 0 := hy rfl
    simp only [calGprol, gregorianProleptic, prolepticLeap, pIsLeap, relIn, gregLeap, gIsLeap]
    by_cases h : y < 1
    · have : y < 0 := by omega
      simp [h, this]
    · have : ¬ y < 0 := by omega
      simp [h, this]
  mlen y m hy _ _ := by
    have hy0 : y ≠ 0 := hy rfl
    simp only [calGprol, gregorianProleptic, prolepticLeap, pMonthLen, gMonthLen, gregMonthLen, relIn, gregLeap, gIsLeap]
    by_cases h : y < 1
    · have : y < 0 := by omega
      simp [h, this]
    · have : ¬ y < 0 := by omega
      simp [h, this]
  bij := C01_gregorian_proleptic
  cons := C02_gregorian_proleptic

/-! ## hijri in month-table mode: inside the table window the table's month lengths are the rule -/

/-- the rule inside the window, written from the table **as the running library loaded it**
    (`Gen.HijriTable` is regenerated on every run): the table's first day carries the table's start
    date, and month `(y, m)` has the length the table lists for it -/
def hijriTableRule : Rule where
  anchorJd := Gen.hijriStartJd
  anchor := Gen.hijriStartDate
  isLeap := hijLeap
  monthLen y m :=
    (Gen.hijriLens[(y * 12 + m - 1 - (Gen.hijriStartDate.1 * 12 + Gen.hijriStartDate.2.1 - 1)).toNat]?).getD 0

/-- `n` days after the rule's anchor date, one rule step per day -/
def _root_.Starcal.Spec.Rule.walk (r : Rule) : Nat → Int × Int × Int
  | 0 => r.anchor
  | n + 1 => r.succ (r.walk n)

theorem hijriTableRule_succ (d : Hijri.Date) :
    hijriTableRule.succ (d.year, d.month, d.day) =
      ((HijriT.tableSucc d).year, (HijriT.tableSucc d).month, (HijriT.tableSucc d).day) := by
  have hl : Gen.hijriLens = HijriT.lens := rfl
  have hy : Gen.hijriStartDate.1 * 12 + Gen.hijriStartDate.2.1 - 1 = HijriT.ym0 := by decide
  unfold Rule.succ HijriT.tableSucc
  simp only [hijriTableRule, hl, hy, Bool.false_eq_true, false_and, if_false]
  split
  · rfl
  · split <;> rfl

/-- **C03, month-table hijri**: every day of the table's validity window
    `[startJd, endJd]` is the date reached from the table's start date by counting days with the
    table's month lengths — the first table month (where `GetMonthLen` itself is off, known finding
    KF-hijri-table-start-seam) included -/
theorem C03_hijri_table_window (n : Nat) (h : Gen.hijriStartJd + (n : Int) ≤ Gen.hijriEndJd) :
    calHijT.jdTo (Gen.hijriStartJd + (n : Int)) = hijriTableRule.walk n := by
  have hb := C01_hijri_table_bounds_are_source
  rw [hb.1, hb.2.1] at h
  rw [hb.1]
  have hw := HijriT.table_window_walk n h
  have hjd : calHijT.jdTo (HijriT.startJd + (n : Int)) =
      ((HijriT.jdToT (HijriT.startJd + n)).year, (HijriT.jdToT (HijriT.startJd + n)).month, (HijriT.jdToT (HijriT.startJd + n)).day) := rfl
  rw [hjd, hw]
  clear hw hjd h
  induction n with
  | zero => rfl
  | succ n ih =>
    show _ = hijriTableRule.succ (hijriTableRule.walk n)
    rw [← ih, hijriTableRule_succ]
    rfl

/-- and from the second table month on, the library's `GetMonthLen` reports those same lengths -/
theorem C03_hijri_table_month_lengths (i : Nat) (L : Int) (hi : 1 ≤ i) (hL : Gen.hijriLens[i]? = some L) :
    calHijT.monthLen ((HijriT.ym0 + (i : Int)) / 12) ((HijriT.ym0 + (i : Int)) % 12 + 1) = L :=
  HijriT.monthLenT_table i L hi hL

-- the window is not empty and its last day is reached: 6231 steps from 1 Safar 1426
example : Gen.hijriStartJd + ((6231 : Nat) : Int) ≤ Gen.hijriEndJd := by decide
example : hijriTableRule.walk 29 = (1426, 3, 1) := by decide +kernel

/-- calendars that denote the same reckoning agree day for day: Gregorian and proleptic Gregorian
    for years ≥ 1 -/
theorem C03_gregorian_eq_proleptic (jd : Int) (h : 1 ≤ (calGreg.jdTo jd).1) :
    calGprol.jdTo jd = calGreg.jdTo jd := by
  simp only [calGreg, calGprol] at h ⊢
  rw [greg_eq_proleptic jd h]

example : 1 ≤ (calGreg.jdTo 2440588).1 := by decide

end Starcal.Props
