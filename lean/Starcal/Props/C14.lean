import Starcal.TextMore2
/-! # C14 — date/time text forms round-trip; parsers total and faithful

`none` models a returned error. The Go parsers of date.go / hms.go / duration.go contain no index,
slice or type-assertion expression outside a length guard, so their models have no panic branch;
that absence is tied to the code by the exhaustive short-string stream run under `recover()`. -/
namespace Starcal.Props

/-- Date.String then ParseDate: every year (negative, more than four digits), every uint8 month/day -/
theorem C14_parse_show_date (d : DateV) (hm : u8 d.month) (hd : u8 d.day) :
    parseDate narrowNew (showDate d) = some d := parse_show_date d hm hd

theorem C14_parse_show_hms (x : HMS) (h1 : u8 x.hour) (h2 : u8 x.minute) (h3 : u8 x.second) :
    parseHMS narrowNew (showHMS x) = some x := parse_show_hms x h1 h2 h3

theorem C14_parse_show_dhms (days : Int) (x : HMS) (hd : 0 ≤ days ∧ days < 18446744073709551616)
    (h1 : u8 x.hour) (h2 : u8 x.minute) (h3 : u8 x.second) :
    parseDHMS true (showDHMS days x) = some (days, x) := parse_show_dhms days x hd h1 h2 h3

theorem C14_parse_show_datehms (d : DateV) (x : HMS) (hm : u8 d.month) (hd : u8 d.day)
    (h1 : u8 x.hour) (h2 : u8 x.minute) (h3 : u8 x.second) :
    parseDateHMS (showDateHMS d x) = some (d, x) := parse_show_datehms d x hm hd h1 h2 h3

/-- faithfulness, times: `h:m:s` written with any integer fields (negative, too large by any
    amount — every residue class mod 256 at once) decodes; it passes the validity check iff every
    field is in range, and then carries exactly the numbers written -/
theorem C14_faithful_hms (h m s : Int) :
    ∃ v, parseHMS narrowNew (fmtHMS h m s) = some v ∧
      (v.isValid = true ↔ (0 ≤ h ∧ h < 24 ∧ 0 ≤ m ∧ m < 60 ∧ 0 ≤ s ∧ s < 60)) ∧
      (v.isValid = true → v = ⟨h, m, s⟩) := parseHMS_exact h m s

/-- faithfulness, dates -/
theorem C14_faithful_date (y m d : Int) :
    ∃ v, parseDate narrowNew (fmtDate y m d) = some v ∧
      (v.isValid = true ↔ (1 ≤ m ∧ m ≤ 12 ∧ 1 ≤ d ∧ d ≤ 39)) ∧
      (v.isValid = true → v = ⟨y, m, d⟩) := parseDate_exact y m d

/-- faithfulness, days plus time: a negative day count is a parse error -/
theorem C14_faithful_dhms (days h m s : Int) :
    (0 ≤ days ∧ days < 18446744073709551616 →
      ∃ v, parseDHMS true (showInt days ++ (' ' :: fmtHMS h m s)) = some (days, v) ∧
        (v.isValid = true ↔ (0 ≤ h ∧ h < 24 ∧ 0 ≤ m ∧ m < 60 ∧ 0 ≤ s ∧ s < 60)) ∧
        (v.isValid = true → v = ⟨h, m, s⟩)) ∧
    (days < 0 → parseDHMS true (showInt days ++ (' ' :: fmtHMS h m s)) = none) := parseDHMS_exact days h m s

example : showDate ⟨-1, 3, 7⟩ = "-0001/03/07".toList ∧ showDate ⟨123456, 12, 31⟩ = "123456/12/31".toList := by decide
example : showHMS ⟨7, 5, 0⟩ = "07:05:00".toList := by decide
example : showDateHMS ⟨-1, 3, 7⟩ ⟨1, 2, 3⟩ = "-0001/03/07 01:02:03".toList := by decide
/-- the defect repaired by the `fix:` commit: with wrap-around narrowing 256 aliased to 0 -/
example : (parseHMS narrowOld "20:55:256".toList).map HMS.isValid = some true := by decide
example : (parseHMS narrowNew "20:55:256".toList).map HMS.isValid = some false := by decide
example : u8 23 ∧ u8 0 := by unfold u8; omega

end Starcal.Props
