import Starcal.ZoneModel
import Starcal.FloatStdZone
/-! # C10 — an instant's day number is that of its local civil date, in every time zone

The theorems hold for EVERY zone value `z : TZ` (any list of period boundaries and offsets), hence
for every zone of the host database as exported by the harness. **Partial**: Go's `time` package
and the tz data are modelled, not verified (the correspondence runs the real code on every zone);
the recombination theorems carry the explicit regularity hypothesis `Sparse`. -/
namespace Starcal.Props
open Starcal.ZoneModel Starcal.Zone

/-- the reported day number is the Gregorian day number of the instant's local calendar date -/
theorem C10_jd_is_local_date (z : TZ) (e : Int) : getJdByEpoch z e = gToJd (localDate z e) := by
  unfold getJdByEpoch localDate
  rw [gToJd_gJdTo]

/-- the two routes the library offers — offset arithmetic and calendar fields — agree -/
theorem C10_routes_agree (z : TZ) (e : Int) : (getJhmsByEpoch z e).1 = getJdByEpoch z e := by
  unfold getJhmsByEpoch
  simp only
  exact (C10_jd_is_local_date z e).symm

/-- the float day value J1970 + (e + offset)/86400 splits into the day number and the local time of
    day: its fractional part is `secondsOfDay / 86400` -/
theorem C10_frac_is_time_of_day (z : TZ) (e : Int) :
    e + off z e = 86400 * (getJdByEpoch z e - J1970) + secondsOfDay z e ∧
    0 ≤ secondsOfDay z e ∧ secondsOfDay z e < 86400 := by
  unfold getJdByEpoch secondsOfDay
  omega

/-- the wall clock reported is that time of day -/
theorem C10_wallclock_fields (z : TZ) (e : Int) :
    let j := getJhmsByEpoch z e
    j.2.1 * 3600 + j.2.2.1 * 60 + j.2.2.2 = secondsOfDay z e ∧
    0 ≤ j.2.1 ∧ j.2.1 < 24 ∧ 0 ≤ j.2.2.1 ∧ j.2.2.1 < 60 ∧ 0 ≤ j.2.2.2 ∧ j.2.2.2 < 60 := by
  have h := (C10_frac_is_time_of_day z e).2
  unfold getJhmsByEpoch
  simp only
  omega

/-- the reading (day number, h:m:s) of an instant, taken as seconds "as if UTC", is `e + offset` -/
theorem reading_of_instant (z : TZ) (e : Int) :
    let j := getJhmsByEpoch z e
    reading j.1 j.2.1 j.2.2.1 j.2.2.2 = e + off z e := by
  have h := C10_frac_is_time_of_day z e
  have hw := C10_wallclock_fields z e
  have hj := C10_routes_agree z e
  simp only at hw ⊢
  unfold reading
  rw [gToJd_gJdTo, hj]
  omega

/-- splitting an instant into day number plus wall-clock time and recombining returns an instant
    with the same wall-clock reading — whenever the zone has at most one offset change within ±M
    seconds of the reading (`Sparse`; M = 26 h in the harness' evaluation) -/
theorem C10_split_recombine_wallclock_partial (z : TZ) (e M T oA oB : Int)
    (hs : Sparse z.toZone (e + off z e) M T oA oB) (hw : -M ≤ off z e ∧ off z e ≤ M) :
    let j := getJhmsByEpoch z e
    let e' := getEpochByJhms z j.1 j.2.1 j.2.2.1 j.2.2.2
    e' + off z e' = e + off z e := by
  have hr := reading_of_instant z e
  simp only at hr ⊢
  unfold getEpochByJhms
  rw [hr]
  exact resolve_reading z.toZone (e + off z e) M T oA oB hs e rfl (by omega)

/-- … and the same instant whenever that reading is unambiguous in the zone -/
theorem C10_split_recombine_same_instant_partial (z : TZ) (e M T oA oB : Int)
    (hs : Sparse z.toZone (e + off z e) M T oA oB) (hw : -M ≤ off z e ∧ off z e ≤ M)
    (huniq : ∀ e1 e2, e1 + off z e1 = e + off z e → e2 + off z e2 = e + off z e → e1 = e2) :
    let j := getJhmsByEpoch z e
    getEpochByJhms z j.1 j.2.1 j.2.2.1 j.2.2.2 = e := by
  have h := C10_split_recombine_wallclock_partial z e M T oA oB hs hw
  simp only at h ⊢
  exact huniq _ _ h rfl

-- a concrete zone (+01:00, +02:00 from instant 100000 on, back to +01:00 at 200000)
def demoZone : TZ := ⟨3600, [(100000, 7200), (200000, 3600)]⟩
example : getJdByEpoch demoZone 99999 = 2440589 ∧ getJhmsByEpoch demoZone 99999 = (2440589, 4, 46, 39) := by decide
example : getEpochByJhms demoZone 2440589 5 46 40 = 100000 := by decide

/-- the hypothesis is satisfiable: a fixed-offset zone is `Sparse` around every reading -/
example (L : Int) (hL : -1000000000000 ≤ L ∧ L ≤ 1000000000000) :
    Sparse (TZ.toZone ⟨3600, []⟩) L 93600 (2 ^ 62) 3600 3600 := by
  refine ⟨by decide, by decide, by decide, ?_, ?_⟩
  · intro x h1 h2 h3
    simp only [TZ.toZone, TZ.lookup, TZ.lookup.go, omega', alpha]
    have e62 : (2 : Int) ^ 62 = 4611686018427387904 := by decide
    rw [e62]
    refine ⟨trivial, trivial, ?_⟩
    omega
  · intro x h1 h2 h3
    have e62 : (2 : Int) ^ 62 = 4611686018427387904 := by decide
    rw [e62] at h1
    omega

/-! ### the float expression of GetJdByEpoch

`GetJdByEpoch` is `int(math.Floor(float64(J1970) + float64(epoch+offset)/86400.0))`; the model `getJdByEpoch` uses the
integer floor division. Under the standard model of floating-point arithmetic (FloatStd.lean: any rounding function with
relative error ≤ 2^-53, exact on half-integers) the float code returns exactly that integer, for every zone value and
every instant within 4000 years of 1970. -/
theorem C10_jd_by_epoch_float_code_is_model (rnd : Rat → Rat) (h : FloatStd.StdModel rnd) (z : TZ) (e : Int)
    (h0 : -137438953472 < e + off z e) (h1 : e + off z e < 137438953472) :
    FloatStd.jdByEpochR rnd (e + off z e) = getJdByEpoch z e := by
  rw [FloatStd.jdByEpochR_eq rnd h _ h0 h1]
  rfl

end Starcal.Props
