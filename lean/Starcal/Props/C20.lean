import Starcal.Props.C07
import Starcal.Gen.CalMeta
import Starcal.Gen.CalTables
import Starcal.Registry
import Starcal.Meta
/-! # C20 — calendar registry and metadata are coherent with the calendars' behaviour

`Gen.calMetas` is regenerated from /repo on every run (source constants and the running registry,
which must agree), so the obligations below are re-proved against what the code says now. -/
namespace Starcal.Props
open Starcal.Drv Starcal.Gen

def metaOf (n : String) : Option CalMeta := calMetas.find? (fun c => c.name == n)

/-- every registered calendar has a distinct name -/
theorem C20_names_distinct : (calMetas.map (·.name)).Nodup := by decide

/-- looking a registered name up returns that same calendar (the entry registered under it) -/
theorem C20_lookup_returns_same : ∀ c ∈ calMetas, metaOf c.name = some c := by decide

/-- the run-time name map has exactly the registered names as keys -/
theorem C20_map_keys : ∀ n, n ∈ mapKeys ↔ n ∈ calMetas.map (·.name) := by
  have h : mapKeys.all (fun n => (calMetas.map (·.name)).contains n) = true ∧
           (calMetas.map (·.name)).all (fun n => mapKeys.contains n) = true := by decide
  intro n
  constructor
  · intro hn; have := List.all_eq_true.mp h.1 n hn; simpa using this
  · intro hn; have := List.all_eq_true.mp h.2 n hn; simpa using this

/-- exactly 12 month names and 12 abbreviations each -/
theorem C20_twelve_names : ∀ c ∈ calMetas, c.monthNames.length = 12 ∧ c.monthNamesAb.length = 12 := by decide

/-- advertised minimum / maximum month length and average year length (as an exact fraction) per name -/
def advertised (n : String) : Option (Int × Int × Int × Int) :=
  (metaOf n).map (fun m => (m.minMonthLen, m.maxMonthLen, m.avgNum, m.avgDen))

/-- every month length the configuration ever reports lies within the advertised bounds -/
def BoundsOK (c : Cal) (n : String) : Prop :=
  ∃ lo hi num den, advertised n = some (lo, hi, num, den) ∧
    ∀ y m, 1 ≤ m → m ≤ 12 → lo ≤ c.monthLen y m ∧ c.monthLen y m ≤ hi

/-- the advertised average year length is within 0.01 day of the true mean over any span of at
    least 1000 years (the property takes the span −6000 … 12000); `ys` is the year-start function -/
def AvgOK (ys : Int → Int) (n : String) : Prop :=
  ∃ lo hi num den, advertised n = some (lo, hi, num, den) ∧ 0 < den ∧
    ∀ a b : Int, b - a ≥ 1000 →
      100 * (den * (ys b - ys a) - num * (b - a)) ≤ den * (b - a) ∧
      -(den * (b - a)) ≤ 100 * (den * (ys b - ys a) - num * (b - a))

theorem C20_bounds_gregorian : BoundsOK calGreg "gregorian" :=
  ⟨28, 31, 3652425, 10000, by decide, fun y m h1 h2 => gMonthLen_range y m h1 h2⟩
example : calGreg.monthLen 2023 2 = 28 ∧ calGreg.monthLen 2023 1 = 31 := by decide

theorem C20_bounds_gregorian_proleptic : BoundsOK calGprol "gregorian_proleptic" :=
  ⟨28, 31, 3652425, 10000, by decide, fun y m h1 h2 => gMonthLen_range (relIn y) m h1 h2⟩

theorem C20_bounds_julian : BoundsOK calJul "julian" :=
  ⟨28, 32, 36525, 100, by decide, fun y m h1 h2 => by
    have := Julian.monthLen_pos y m h1 h2; simp only [calJul]; omega⟩

theorem C20_bounds_ethiopian : BoundsOK calEth "ethiopian" :=
  ⟨30, 36, 36525, 100, by decide, fun y m _ _ => by
    simp only [calEth, Ethiopian.monthLen]; split <;> (try split) <;> omega⟩
example : calEth.monthLen 2015 12 = 36 := by decide

theorem C20_bounds_indian_national : BoundsOK calInd "indian_national" :=
  ⟨30, 31, 3652425, 10000, by decide, fun y m _ _ => iMonthLen_range y m⟩

theorem C20_bounds_jalali_33 : BoundsOK calJal33 "jalali" :=
  ⟨29, 31, 3652425, 10000, by decide, fun y m h1 h2 => Jalali.monthLen_range y m h1 h2⟩

theorem C20_bounds_jalali_2820 : BoundsOK calJal2820 "jalali" :=
  ⟨29, 31, 3652425, 10000, by decide, fun y m h1 h2 => Jalali.monthLen2_range y m h1 h2⟩

theorem C20_bounds_hijri_arithmetic : BoundsOK calHijA "hijri" :=
  ⟨29, 30, 3543666, 10000, by decide, fun y m _ _ => Hijri.monthLen_range y m⟩

/-- hijri in month-table mode: the bounds fail at the two table seams (open known findings);
    the model reproduces the two offending months by evaluation -/
theorem C20_bounds_hijri_table_witness :
    calHijT.monthLen 1426 2 = 28 ∧ calHijT.monthLen 1443 9 = 31 := by decide +kernel

theorem C20_avg_gregorian : AvgOK (fun y => calGreg.toJd y 1 1) "gregorian" :=
  ⟨28, 31, 3652425, 10000, by decide, by decide, fun a b h => by
    have := greg_avg a b (by omega); simp only [calGreg]; omega⟩

/-- proleptic Gregorian in astronomical year numbering `Y` (external year `relOut Y`) -/
theorem C20_avg_gregorian_proleptic : AvgOK (fun Y => calGprol.toJd (relOut Y) 1 1) "gregorian_proleptic" :=
  ⟨28, 31, 3652425, 10000, by decide, by decide, fun a b h => by
    have := greg_avg a b (by omega)
    simp only [calGprol, pToJd_eq, rel_in_out]; omega⟩

theorem C20_avg_julian : AvgOK (fun y => calJul.toJd y 1 1) "julian" :=
  ⟨28, 32, 36525, 100, by decide, by decide, fun a b h => by
    have := julian_avg a b (by omega); simp only [calJul]; omega⟩

theorem C20_avg_hijri_arithmetic : AvgOK (fun y => calHijA.toJd y 1 1) "hijri" :=
  ⟨29, 30, 3543666, 10000, by decide, by decide, fun a b h => by
    have := hijri_avg a b (by omega)
    simp only [calHijA, Hijri.yearStart_eq]; omega⟩

theorem C20_avg_ethiopian : AvgOK (fun y => calEth.toJd y 1 1) "ethiopian" :=
  ⟨30, 36, 36525, 100, by decide, by decide, fun a b h => by
    simp only [calEth, Ethiopian.toJd]; omega⟩

theorem C20_avg_indian_national : AvgOK (fun y => calInd.toJd y 1 1) "indian_national" :=
  ⟨30, 31, 3652425, 10000, by decide, by decide, fun a b h => by
    have := greg_avg (a + 78) (b + 78) (by omega)
    have ea := iToJd_ys a 1 1 (by omega) (by omega)
    have eb := iToJd_ys b 1 1 (by omega) (by omega)
    simp only [calInd, ea, eb, iYs, iOff]
    simp only [if_true]; omega⟩

theorem C20_avg_jalali_33 : AvgOK (fun y => calJal33.toJd y 1 1) "jalali" :=
  ⟨29, 31, 3652425, 10000, by decide, by decide, fun a b h => by
    simp only [calJal33, Jalali.toJd, Jalali.sumAt, Jalali.monthLenSum]
    simp; omega⟩

theorem C20_avg_jalali_2820 : AvgOK (fun y => calJal2820.toJd y 1 1) "jalali" :=
  ⟨29, 31, 3652425, 10000, by decide, by decide, fun a b h => by
    simp only [calJal2820, Jalali.toJd2, Jalali.Epoch]
    simp; omega⟩

/-- the regenerated month tables and epoch constants — as far as the source still has them as
    literals under those names — are the ones the model uses -/
theorem C20_tables_agree :
    (∀ t, julianMonthLen = some t → t = Julian.monthLenTab) ∧ (∀ t, julianMonthLenSum = some t → t = Julian.monthLenSum) ∧
    (∀ t, jalaliMonthLen = some t → t = Jalali.monthLenTab) ∧ (∀ t, jalaliMonthLenSum = some t → t = Jalali.monthLenSum) ∧
    (∀ v, julianEpoch = some v → v = Julian.Epoch) ∧ (∀ v, jalaliEpoch = some v → v = Jalali.Epoch) ∧
    (∀ v, jalaliGregorianEpoch = some v → v = Jalali.GREGORIAN_EPOCH) ∧
    (∀ v, hijriEpoch = some v → v = Hijri.Epoch) ∧ (∀ v, ethiopianEpoch = some v → v = Ethiopian.Epoch) := by
  refine ⟨?_, ?_, ?_, ?_, ?_, ?_, ?_, ?_, ?_⟩ <;> intro t h <;>
    first
    | (simp only [julianMonthLen, julianMonthLenSum, jalaliMonthLen, jalaliMonthLenSum, julianEpoch, jalaliEpoch,
        jalaliGregorianEpoch, hijriEpoch, ethiopianEpoch, Option.some.injEq] at h; subst h; decide)
    | (simp only [julianMonthLen, julianMonthLenSum, jalaliMonthLen, jalaliMonthLenSum, julianEpoch, jalaliEpoch,
        jalaliGregorianEpoch, hijriEpoch, ethiopianEpoch, reduceCtorEq] at h)

end Starcal.Props
