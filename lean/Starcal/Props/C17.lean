import Starcal.RaceA
import Starcal.Gen.LockSkel
/-! # C17 — thread-safe set: no schedule of concurrent operations can block forever

Model of Go's writer-preferring `sync.RWMutex`: a reader arriving after a writer has announced
itself waits; a writer waits for the readers that hold the lock. A goroutine that re-locks what it
holds blocks on itself exactly as the real mutex does. The lock-event sequences are the ones
recorded from the running implementation through the verif hook (`Gen.lockSkels`; the operations
are those of the `Set` interface by reflection, no reading of the source is involved). -/
namespace Starcal.Props
open Starcal.Lock Starcal.Gen

/-- the lock skeletons of the operations (accesses are always-enabled steps that change nothing a
    lock step depends on, so they are irrelevant to blocking and are left out here) -/
def skeletons : List (List Act) := lockSkels.map (fun e => skeleton e.2.2)

/-- no operation re-acquires a lock it already holds, two-set operations acquire in the fixed
    order, releases match, nothing is held at the end — on the sequences recorded from the code -/
theorem C17_ops_ordered : lockSkels.all (fun e => disc [] (skeleton e.2.2)) = true := by decide

/-- all 18 operations of the set interface were recorded -/
theorem C17_eighteen_operations : (lockSkels.map (·.1)).eraseDups.length = 18 := by decide

theorem skeletons_disc : ∀ c ∈ skeletons, disc [] c = true := by
  intro c hc
  unfold skeletons at hc
  obtain ⟨e, he, rfl⟩ := List.mem_map.mp hc
  exact List.all_eq_true.mp C17_ops_ordered e he

/-- a concurrent program: any number of goroutines, each running any sequence of the 18 operations
    on the two sets (aliased and swapped operands included) -/
def IsLockProgram (progs : List (List (List Act))) : Prop := ∀ calls ∈ progs, ∀ c ∈ calls, c ∈ skeletons

theorem lockProgram_initial (progs : List (List (List Act))) (h : IsLockProgram progs) : Initial (startState progs) :=
  startState_initial progs (fun calls hc c hcc => skeletons_disc c (h calls hc c hcc))

/-- **deadlock freedom**: in every reachable state of every program in which some goroutine has not
    finished, some goroutine can take a step — writers queued or not -/
theorem C17_deadlock_free (progs : List (List (List Act))) (h : IsLockProgram progs) (s : List Thread)
    (hr : Reach (startState progs) s) (hun : ∃ th ∈ s, th.prog ≠ []) : ∃ s', Step s s' :=
  reach_deadlock_free (lockProgram_initial progs h) hr hun

/-- **termination**: every step strictly decreases a natural-number measure, so no execution is
    infinite; with deadlock freedom every maximal execution ends with all operations returned -/
theorem C17_terminates {s s' : List Thread} (h : Step s s') : measure s' < measure s := step_measure h

/-- the defects repaired by `fix:` commits fail the discipline: a nested read lock (ToSlice through
    Cardinality), and receiver-then-argument order under swapped operands -/
example : disc [] [.rlock 0, .rlock 0, .access 0 false, .runlock 0, .access 0 false, .runlock 0] = false := by decide
example : disc [] [.rlock 1, .rlock 0, .access 0 false, .access 1 false, .runlock 1, .runlock 0] = false := by decide
/-- … and the model exhibits the corresponding deadlock: reader holds A, writer announces on A,
    reader's second RLock(A) is not enabled, writer cannot acquire -/
def stuck : List Thread := [⟨[(0, false)], false, [.rlock 0, .runlock 0, .runlock 0]⟩, ⟨[], true, [.wlock 0, .unlock 0]⟩]
example : (stuck.map (tstepB stuck)).all Option.isNone = true := by decide

end Starcal.Props
