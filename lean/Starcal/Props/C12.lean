import Starcal.OccModel
import Starcal.Occur
import Starcal.Props.C11
/-! # C12 — occurrence-set intersection is representation-independent set intersection

**Partial** for the same reason as C11: clauses that relate days to instants hold for zones / days
with regular local midnights (hypotheses stated); the `time` package and tz data are modelled. -/
namespace Starcal.Props
open Starcal.ZoneModel Starcal.OccModel Starcal.Ival

/-- day-set with day-set is plain set intersection -/
theorem C12_jd_jd_inter (z : TZ) (x y : List Int) :
    ∃ r, occInter z (.jds x) (.jds y) = some (.jds r) ∧ r.Nodup ∧ ∀ v, v ∈ r ↔ v ∈ x ∧ v ∈ y := by
  refine ⟨_, rfl, List.Nodup.sublist List.filter_sublist (toSet_nodup x), ?_⟩
  intro v
  simp [List.mem_filter, mem_toSet]

/-- any mix equals intersecting the operands' epoch-interval forms, in which each day stands for its
    interval: the result is canonical and denotes exactly the common instants (C04) -/
theorem C12_mixed_inter_eq_interval_forms (z : TZ) (a b : Occ)
    (hmix : ¬ ∃ x y, a = .jds x ∧ b = .jds y)
    (hwa : ∀ i ∈ occIntervals z a, WFI i) (hwb : ∀ i ∈ occIntervals z b, WFI i) :
    ∃ r, occInter z a b = some (.ivs r) ∧ Canonical r ∧
      ∀ h, memL h r ↔ memL h (occIntervals z a) ∧ memL h (occIntervals z b) := by
  obtain ⟨r, hr, hc, hm⟩ := inter_main [occIntervals z a, occIntervals z b] (by simp)
    (by intro l hl; simp at hl; rcases hl with rfl | rfl <;> assumption)
  refine ⟨r, ?_, hc, ?_⟩
  · unfold occInter
    cases a <;> cases b <;> first | (exfalso; exact hmix ⟨_, _, rfl, rfl⟩) | simp [hr]
  · intro h; rw [hm h]; simp

/-- … regardless of operand order: the two results are the same list -/
theorem C12_inter_comm (z : TZ) (a b : Occ) (ra rb : List Interval)
    (hmix : ¬ ∃ x y, a = .jds x ∧ b = .jds y)
    (hwa : ∀ i ∈ occIntervals z a, WFI i) (hwb : ∀ i ∈ occIntervals z b, WFI i)
    (h1 : occInter z a b = some (.ivs ra)) (h2 : occInter z b a = some (.ivs rb)) : ra = rb := by
  have hmix' : ¬ ∃ x y, b = .jds x ∧ a = .jds y := fun ⟨x, y, e1, e2⟩ => hmix ⟨y, x, e2, e1⟩
  obtain ⟨r1, e1, c1, m1⟩ := C12_mixed_inter_eq_interval_forms z a b hmix hwa hwb
  obtain ⟨r2, e2, c2, m2⟩ := C12_mixed_inter_eq_interval_forms z b a hmix' hwb hwa
  rw [h1] at e1; rw [h2] at e2
  simp at e1 e2; subst e1 e2
  exact canonical_unique _ _ c1 c2 (fun h => by rw [m1 h, m2 h]; exact And.comm)

/-- the days reported for one interval are exactly the days containing at least one of its instants —
    for any zone in which the local date never moves backwards and never advances by more than one
    day per second -/
theorem C12_days_exact_partial (z : TZ)
    (hmono : ∀ a b, a ≤ b → getJdByEpoch z a ≤ getJdByEpoch z b)
    (hstep : ∀ e, getJdByEpoch z (e + 1) ≤ getJdByEpoch z e + 1)
    (i : Interval) (hwf : WFI i) (d : Int) :
    d ∈ daysOfInterval z i ↔ ∃ e, i.start ≤ e ∧ (e < i.stop ∨ (i.closed = true ∧ e = i.stop)) ∧ getJdByEpoch z e = d := by
  have h := Starcal.Occur.days_exact (getJdByEpoch z) hmono hstep i.start i.stop i.closed hwf d
  unfold Starcal.Occur.daysOf at h
  simp only at h
  rw [← h]
  unfold daysOfInterval
  simp only [List.mem_map, List.mem_range]
  constructor
  · rintro ⟨k, hk, rfl⟩
    omega
  · rintro ⟨h1, h2⟩
    refine ⟨(d - getJdByEpoch z i.start).toNat, ?_, ?_⟩ <;> omega

/-- a day set survives the trip through its interval form: the interval of a regular day reports
    exactly that day -/
theorem C12_days_trip_partial (z : TZ) (jd e0 e1 : Int)
    (h0 : MidnightRegular z jd e0) (h1 : MidnightRegular z (jd + 1) e1) (hlt : e0 < e1) :
    daysOfInterval z ⟨(intervalByJd z jd).1, (intervalByJd z jd).2, false⟩ = [jd] := by
  have hi := C11_day_interval_exact_partial z jd e0 e1 h0 h1
  have hs : (intervalByJd z jd).1 = e0 := by
    unfold intervalByJd; simp only; exact getEpochByJd_regular z jd e0 h0
  have he : (intervalByJd z jd).2 = e1 := by
    unfold intervalByJd; simp only; exact getEpochByJd_regular z (jd + 1) e1 h1
  have a := (hi e0).mp (by rw [hs, he]; omega)
  have b := (hi (e1 - 1)).mp (by rw [hs, he]; omega)
  unfold daysOfInterval
  simp only [Bool.false_eq_true, if_false]
  rw [hs, he, a, b]
  simp

/-- the reported first and last day (the loops of GetStartJd / GetEndJd) bracket every day of a
    day set -/
theorem C12_start_end_bracket (v : Int) (l : List Int) :
    ∀ d ∈ v :: l, (v :: l).foldl min v ≤ d ∧ d ≤ (v :: l).foldl max v := by
  have hmin : ∀ (l : List Int) (a : Int), l.foldl min a ≤ a ∧ ∀ d ∈ l, l.foldl min a ≤ d := by
    intro l; induction l with
    | nil => intro a; simp
    | cons x xs ih =>
      intro a
      simp only [List.foldl_cons]
      obtain ⟨h1, h2⟩ := ih (min a x)
      refine ⟨by omega, ?_⟩
      intro d hd
      rcases List.mem_cons.mp hd with rfl | hd
      · omega
      · exact h2 d hd
  have hmax : ∀ (l : List Int) (a : Int), a ≤ l.foldl max a ∧ ∀ d ∈ l, d ≤ l.foldl max a := by
    intro l; induction l with
    | nil => intro a; simp
    | cons x xs ih =>
      intro a
      simp only [List.foldl_cons]
      obtain ⟨h1, h2⟩ := ih (max a x)
      refine ⟨by omega, ?_⟩
      intro d hd
      rcases List.mem_cons.mp hd with rfl | hd
      · omega
      · exact h2 d hd
  intro d hd
  exact ⟨(hmin (v :: l) v).2 d hd, (hmax (v :: l) v).2 d hd⟩

example : occInter (⟨0, []⟩ : TZ) (.jds [2440588, 2440589]) (.ivs [⟨50000, 90000, false⟩]) =
    some (.ivs [⟨50000, 90000, false⟩]) := by decide +kernel

end Starcal.Props
