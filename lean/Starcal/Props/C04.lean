import Starcal.Inter2
/-! # C04 — interval-list intersection is exact set intersection, closed/open ends included

Model: `Ival.intersectMany` = Normalize every operand, merge all points tagged with their
list id, sort by `Less`, run the `openStartList` sweep of `IntersectionOfSomeIntervalLists`
(the MIN_INT64 sentinel is `none`). Any number of operands, any lengths. -/
namespace Starcal.Props
open Starcal.Ival

/-- success, canonical result, and the result denotes exactly the instants that belong to every operand -/
theorem C04_inter_main (ls : List (List Interval)) (hne : ls ≠ []) (hwf : ∀ l ∈ ls, ∀ i ∈ l, WFI i) :
    ∃ r, intersectMany ls = some r ∧ Canonical r ∧ ∀ h, memL h r ↔ ∀ l ∈ ls, memL h l :=
  inter_main ls hne hwf

/-- the result depends only on the intersection of the denoted sets: operand order, grouping,
    order of intervals inside an operand and duplicates do not matter -/
theorem C04_inter_depends_on_sets (ls1 ls2 : List (List Interval)) (h1 : ls1 ≠ []) (h2 : ls2 ≠ [])
    (w1 : ∀ l ∈ ls1, ∀ i ∈ l, WFI i) (w2 : ∀ l ∈ ls2, ∀ i ∈ l, WFI i)
    (heq : ∀ h, (∀ l ∈ ls1, memL h l) ↔ (∀ l ∈ ls2, memL h l))
    (r1 r2 : List Interval) (e1 : intersectMany ls1 = some r1) (e2 : intersectMany ls2 = some r2) :
    r1 = r2 :=
  inter_depends_on_sets ls1 ls2 h1 h2 w1 w2 heq r1 r2 e1 e2

/-- operand order -/
theorem C04_inter_perm (ls1 ls2 : List (List Interval)) (h1 : ls1 ≠ []) (hp : ls1.Perm ls2)
    (w1 : ∀ l ∈ ls1, ∀ i ∈ l, WFI i) (r1 r2 : List Interval)
    (e1 : intersectMany ls1 = some r1) (e2 : intersectMany ls2 = some r2) : r1 = r2 := by
  have h2 : ls2 ≠ [] := fun h => h1 (by rw [h] at hp; exact hp.eq_nil)
  apply inter_depends_on_sets ls1 ls2 h1 h2 w1 (fun l hl => w1 l (hp.mem_iff.mpr hl)) _ r1 r2 e1 e2
  intro h
  constructor
  · intro a l hl; exact a l (hp.mem_iff.mpr hl)
  · intro a l hl; exact a l (hp.mem_iff.mp hl)

/-- grouping: intersecting the first operands first and the result with the rest gives the same list -/
theorem C04_inter_assoc (as bs : List (List Interval)) (ha : as ≠ [])
    (wa : ∀ l ∈ as, ∀ i ∈ l, WFI i) (wb : ∀ l ∈ bs, ∀ i ∈ l, WFI i)
    (ra r1 r2 : List Interval) (ea : intersectMany as = some ra)
    (e1 : intersectMany (ra :: bs) = some r1) (e2 : intersectMany (as ++ bs) = some r2) : r1 = r2 := by
  obtain ⟨ra', ea', ca, ma⟩ := inter_main as ha wa
  rw [ea] at ea'; simp at ea'; subst ea'
  have wra : ∀ l ∈ ra :: bs, ∀ i ∈ l, WFI i := by
    intro l hl
    rcases List.mem_cons.mp hl with h | h
    · subst h; exact ca.2
    · exact wb l h
  have wab : ∀ l ∈ as ++ bs, ∀ i ∈ l, WFI i := by
    intro l hl
    rcases List.mem_append.mp hl with h | h
    · exact wa l h
    · exact wb l h
  apply inter_depends_on_sets (ra :: bs) (as ++ bs) (by simp) (by simp [ha]) wra wab _ r1 r2 e1 e2
  intro h
  constructor
  · intro a l hl
    rcases List.mem_append.mp hl with h' | h'
    · exact (ma h).mp (a ra (by simp)) l h'
    · exact a l (by simp [h'])
  · intro a l hl
    rcases List.mem_cons.mp hl with h' | h'
    · subst h'; exact (ma h).mpr (fun l hl => a l (List.mem_append.mpr (Or.inl hl)))
    · exact a l (List.mem_append.mpr (Or.inr h'))

/-- the operands as they are after the call (the code overwrites the variadic slice with the
    normalised lists) still denote the same sets -/
theorem C04_operands_after (ls ns : List (List Interval)) (hwf : ∀ l ∈ ls, ∀ i ∈ l, WFI i)
    (hn : normAll ls = some ns) :
    ns.length = ls.length ∧ ∀ k (hk : k < ns.length) (hk' : k < ls.length) h, memL h ns[k] ↔ memL h ls[k] := by
  obtain ⟨ns', hns, hlen, _, hmem⟩ := normAll_spec ls hwf
  rw [hn] at hns; simp at hns; subst hns
  exact ⟨hlen, fun k hk hk' h => hmem k hk' hk h⟩

-- a single shared end point yields a one-point interval; touching half-open intervals yield nothing
example : intersectMany [[⟨0, 3, true⟩], [⟨3, 5, false⟩]] = some [⟨3, 3, true⟩] := by decide
example : intersectMany [[⟨0, 3, false⟩], [⟨3, 5, false⟩]] = some [] := by decide
example : intersectMany [[⟨0, 3, true⟩], [⟨0, 3, false⟩]] = some [⟨0, 3, false⟩] := by decide
example : intersectMany [[⟨0, 5, false⟩, ⟨7, 9, true⟩], [⟨3, 8, false⟩], [⟨4, 4, true⟩, ⟨7, 20, false⟩]] =
    some [⟨4, 4, true⟩, ⟨7, 8, false⟩] := by decide

end Starcal.Props
