import Starcal.DivMod
import Starcal.Bisect
/-! # C19 — Div, Mod and Divmod implement floor division for all sign combinations; BisectLeft

`goDiv`/`goMod` are the library's functions as written: Go's truncating `/` and `%`
(`Int.tdiv`, `Int.tmod`), the sign test, the adjustment. Unbounded integers: the single
wrapping pair MinInt / −1 is outside the model, as in the property. -/
namespace Starcal.Props

/-- a = b·q + r, r zero or of the sign of b, |r| < |b| -/
theorem C19_divmod_spec (a b : Int) (hb : b ≠ 0) :
    a = b * goDiv a b + goMod a b ∧
    (goMod a b = 0 ∨ (0 < goMod a b ↔ 0 < b)) ∧
    (goMod a b).natAbs < b.natAbs :=
  goDivMod_spec a b hb

/-- uniqueness: any pair with these three properties is the library's pair (so the result is
    Python's `//` and `%`, and Lean's floor division for a positive divisor) -/
theorem C19_divmod_unique (a b q r : Int) (hb : b ≠ 0) (h1 : a = b * q + r)
    (h2 : r = 0 ∨ (0 < r ↔ 0 < b)) (h3 : r.natAbs < b.natAbs) : q = goDiv a b ∧ r = goMod a b := by
  obtain ⟨g1, g2, g3⟩ := goDivMod_spec a b hb
  generalize goDiv a b = q' at *
  generalize goMod a b = r' at *
  have hd : b * (q - q') = r' - r := by rw [Int.mul_sub]; omega
  have hq : q - q' = 0 := by
    by_cases hz : q - q' = 0
    · exact hz
    · exfalso
      have hrr : (r' - r).natAbs < b.natAbs := by
        rcases h2 with h2 | h2 <;> rcases g2 with g2 | g2 <;> omega
      have hge : b.natAbs ≤ (b * (q - q')).natAbs := by
        rw [Int.natAbs_mul]
        have : 1 ≤ (q - q').natAbs := by omega
        exact Nat.le_mul_of_pos_right _ this
      rw [hd] at hge; omega
  have : q = q' := by omega
  subst this
  exact ⟨rfl, by omega⟩

theorem C19_div_eq_floor (a b : Int) (hb : 0 < b) : goDiv a b = a / b ∧ goMod a b = a % b := by
  have e : a = b * (a / b) + a % b := by
    have := Int.emod_add_mul_ediv a b
    omega
  have h0 := Int.emod_nonneg a (show b ≠ 0 by omega)
  have h1 := Int.emod_lt_of_pos a hb
  have h := C19_divmod_unique a b (a / b) (a % b) (by omega) e (by omega) (by omega)
  exact ⟨h.1.symm, h.2.symm⟩

/-- list search returns the first position whose element is not less than the key -/
theorem C19_bisect_left (a : List Int) (v : Int) (hs : SortedI a) :
    bisectLeft a v ≤ a.length ∧
    (∀ x, x < bisectLeft a v → a.getD x 0 < v) ∧
    (∀ x, bisectLeft a v ≤ x → x < a.length → v ≤ a.getD x 0) :=
  bisectLeft_spec a v hs

theorem C19_intMin (a b : Int) : intMin a b ≤ a ∧ intMin a b ≤ b ∧ (intMin a b = a ∨ intMin a b = b) :=
  intMin_spec a b

example : goDiv (-7) 2 = -4 ∧ goMod (-7) 2 = 1 ∧ goDiv 7 (-2) = -4 ∧ goMod 7 (-2) = -1 := by decide
example : bisectLeft [0, 31, 62, 93] 62 = 2 ∧ bisectLeft [0, 31, 62, 93] 63 = 3 ∧ bisectLeft [] 5 = 0 := by decide

end Starcal.Props
