import Starcal.DivMod
import Starcal.Bisect
/-! # C19 — Div, Mod and Divmod implement floor division for all sign combinations; BisectLeft

`goDiv`/`goMod` are the library's functions as written: Go's truncating `/` and `%`
(`Int.tdiv`, `Int.tmod`), the sign test, the adjustment. Unbounded integers: the single
wrapping pair MinInt / −1 is outside the model, as in the property; for every other 64-bit pair
`C19_no_overflow` shows that no intermediate value leaves the 64-bit range. -/
namespace Starcal.Props

/-- a = b·q + r, r zero or of the sign of b, |r| < |b| -/
theorem C19_divmod_spec (a b : Int) (hb : b ≠ 0) :
    a = b * goDiv a b + goMod a b ∧
    (goMod a b = 0 ∨ (0 < goMod a b ↔ 0 < b)) ∧
    (goMod a b).natAbs < b.natAbs :=
  goDivMod_spec a b hb

/-- uniqueness: any pair with these three properties is the library's pair (so the result is
    Python's `//` and `%`, and Lean's floor division for a positive divisor) -/
theorem C19_divmod_unique (a b q r : Int) (hb : b ≠ 0) (h1 : a = b * q + r)
    (h2 : r = 0 ∨ (0 < r ↔ 0 < b)) (h3 : r.natAbs < b.natAbs) : q = goDiv a b ∧ r = goMod a b := by
  obtain ⟨g1, g2, g3⟩ := goDivMod_spec a b hb
  generalize goDiv a b = q' at *
  generalize goMod a b = r' at *
  have hd : b * (q - q') = r' - r := by rw [Int.mul_sub]; omega
  have hq : q - q' = 0 := by
    by_cases hz : q - q' = 0
    · exact hz
    · exfalso
      have hrr : (r' - r).natAbs < b.natAbs := by
        rcases h2 with h2 | h2 <;> rcases g2 with g2 | g2 <;> omega
      have hge : b.natAbs ≤ (b * (q - q')).natAbs := by
        rw [Int.natAbs_mul]
        have : 1 ≤ (q - q').natAbs := by omega
        exact Nat.le_mul_of_pos_right _ this
      rw [hd] at hge; omega
  have : q = q' := by omega
  subst this
  exact ⟨rfl, by omega⟩

theorem C19_div_eq_floor (a b : Int) (hb : 0 < b) : goDiv a b = a / b ∧ goMod a b = a % b := by
  have e : a = b * (a / b) + a % b := by
    have := Int.emod_add_mul_ediv a b
    omega
  have h0 := Int.emod_nonneg a (show b ≠ 0 by omega)
  have h1 := Int.emod_lt_of_pos a hb
  have h := C19_divmod_unique a b (a / b) (a % b) (by omega) e (by omega) (by omega)
  exact ⟨h.1.symm, h.2.symm⟩

/-- list search returns the first position whose element is not less than the key -/
theorem C19_bisect_left (a : List Int) (v : Int) (hs : SortedI a) :
    bisectLeft a v ≤ a.length ∧
    (∀ x, x < bisectLeft a v → a.getD x 0 < v) ∧
    (∀ x, bisectLeft a v ≤ x → x < a.length → v ≤ a.getD x 0) :=
  bisectLeft_spec a v hs

theorem C19_intMin (a b : Int) : intMin a b ≤ a ∧ intMin a b ≤ b ∧ (intMin a b = a ∨ intMin a b = b) :=
  intMin_spec a b

/-! ### the machine integers

The model computes over unbounded integers, the code over `int` (64 bits). For C19 the property's domain is ALL
64-bit pairs, so "no intermediate value overflows" is part of the claim and is proved here. -/

def I64 (x : Int) : Prop := -9223372036854775808 ≤ x ∧ x ≤ 9223372036854775807

theorem tdiv_bound (a b : Int) (_hb : b ≠ 0) : (Int.tdiv a b).natAbs ≤ a.natAbs := by
  rw [Int.natAbs_tdiv]
  exact Nat.div_le_self _ _

/-- no intermediate value of Div / Mod / Divmod leaves the 64-bit range: for 64-bit a and b ≠ 0, except the pair
    MinInt / -1 the property excludes, `a / b`, `a % b`, and whichever of `a % b + b`, `a / b - 1` the code computes
    are all 64-bit integers — so the machine arithmetic of the real code IS the unbounded arithmetic of the model -/
theorem C19_no_overflow (a b : Int) (ha : I64 a) (hb : I64 b) (hb0 : b ≠ 0)
    (hex : ¬ (a = -9223372036854775808 ∧ b = -1)) :
    I64 (Int.tdiv a b) ∧ I64 (Int.tmod a b) ∧
    (((Int.tmod a b < 0 ∧ b > 0) ∨ (Int.tmod a b > 0 ∧ b < 0)) → I64 (Int.tmod a b + b) ∧ I64 (Int.tdiv a b - 1)) := by
  unfold I64 at *
  have h1 := tdiv_bound a b hb0
  have h3 := tmod_abs_lt a b hb0
  have hd := Int.tmod_add_tdiv_mul a b
  refine ⟨?_, by omega, ?_⟩
  · -- |a / b| ≤ |a|; the only way to reach 2^63 is a = -2^63 with |a / b| = |a|, i.e. b = ±1; b = 1 gives a itself
    by_cases hq : Int.tdiv a b = 9223372036854775808
    · exfalso
      have : a = -9223372036854775808 := by omega
      subst this
      have hm : Int.tmod (-9223372036854775808) b = 0 ∨ True := Or.inr trivial
      -- b * q = a - r with |r| < |b|
      rw [hq] at hd
      have : b = -1 := by
        by_cases hb1 : b = -1
        · exact hb1
        · exfalso
          rcases Int.lt_or_gt_of_ne hb0 with hneg | hpos
          · have : b ≤ -2 := by omega
            omega
          · omega
      exact hex ⟨rfl, this⟩
    · omega
  · intro hc
    constructor
    · rcases hc with ⟨h, h'⟩ | ⟨h, h'⟩ <;> omega
    · -- a / b - 1 ≥ -2^63: a / b = -2^63 needs b = 1 (then a % b = 0, excluded by hc)
      rcases hc with ⟨h, h'⟩ | ⟨h, h'⟩
      · by_cases hq : Int.tdiv a b = -9223372036854775808
        · exfalso; rw [hq] at hd; omega
        · omega
      · by_cases hq : Int.tdiv a b = -9223372036854775808
        · exfalso; rw [hq] at hd; omega
        · omega

example : I64 (Int.tdiv (-9223372036854775808) 1) ∧ ¬ I64 (Int.tdiv (-9223372036854775808) (-1)) := by
  unfold I64; decide

example : goDiv (-7) 2 = -4 ∧ goMod (-7) 2 = 1 ∧ goDiv 7 (-2) = -4 ∧ goMod 7 (-2) = -1 := by decide
example : bisectLeft [0, 31, 62, 93] 62 = 2 ∧ bisectLeft [0, 31, 62, 93] 63 = 3 ∧ bisectLeft [] 5 = 0 := by decide

end Starcal.Props
