import Starcal.Props.CalDefs
import Starcal.Julian
import Starcal.Greg2
import Starcal.Proleptic
import Starcal.Indian2
import Starcal.Ethiopian2
import Starcal.Hijri
import Starcal.Jalali2
import Starcal.Jal2820b
import Starcal.HijriT3
import Starcal.Gen.HijriTable
import Starcal.FloatStdHijri
/-! # C01 — calendar conversion is a bijection (round trips both ways)

One theorem per configuration, each about the record the driver executes. -/
namespace Starcal.Props
open Starcal.Drv

theorem C01_julian : Bijective calJul where
  jd_roundtrip jd := (Julian.jdTo_spec jd).2
  jdTo_wf jd := ⟨by simp [calJul], (Julian.jdTo_spec jd).1⟩
  date_roundtrip t h := by
    have := Julian.jdTo_toJd ⟨t.1, t.2.1, t.2.2⟩ h.2
    simp only [calJul, toJdT]; rw [this]

theorem C01_gregorian : Bijective calGreg where
  jd_roundtrip jd := gToJd_gJdTo jd
  jdTo_wf jd := ⟨by simp [calGreg], gJdTo_WF jd⟩
  date_roundtrip t h := by
    have := gJdTo_gToJd ⟨t.1, t.2.1, t.2.2⟩ h.2
    simp only [calGreg, toJdT]; rw [this]

theorem C01_gregorian_proleptic : Bijective calGprol where
  jd_roundtrip jd := (p_jd_roundtrip jd).2
  jdTo_wf jd := by
    have h := (p_jd_roundtrip jd).1
    exact ⟨fun _ => h.1, h.2⟩
  date_roundtrip t h := by
    have := p_date_roundtrip ⟨t.1, t.2.1, t.2.2⟩ ⟨h.1 rfl, h.2⟩
    simp only [calGprol, toJdT]; rw [this]

theorem C01_indian_national : Bijective calInd where
  jd_roundtrip jd := (iJdTo_spec jd).2
  jdTo_wf jd := ⟨by simp [calInd], (iJdTo_spec jd).1⟩
  date_roundtrip t h := by
    have := iJdTo_iToJd ⟨t.1, t.2.1, t.2.2⟩ h.2
    simp only [calInd, toJdT]; rw [this]

theorem C01_ethiopian : Bijective calEth where
  jd_roundtrip jd := (Ethiopian.jdTo_spec jd).2
  jdTo_wf jd := ⟨by simp [calEth], (Ethiopian.jdTo_spec jd).1⟩
  date_roundtrip t h := by
    have := Ethiopian.jdTo_toJd ⟨t.1, t.2.1, t.2.2⟩ h.2
    simp only [calEth, toJdT]; rw [this]

theorem C01_hijri_arithmetic : Bijective calHijA where
  jd_roundtrip jd := (Hijri.jdTo_spec jd).2
  jdTo_wf jd := ⟨by simp [calHijA], (Hijri.jdTo_spec jd).1⟩
  date_roundtrip t h := by
    have := Hijri.jdTo_toJd ⟨t.1, t.2.1, t.2.2⟩ h.2
    simp only [calHijA, toJdT]; rw [this]

theorem C01_jalali_33 : Bijective calJal33 where
  jd_roundtrip jd := (Jalali.jdTo_spec jd).2
  jdTo_wf jd := ⟨by simp [calJal33], (Jalali.jdTo_spec jd).1⟩
  date_roundtrip t h := by
    have := Jalali.jdTo_toJd ⟨t.1, t.2.1, t.2.2⟩ h.2
    simp only [calJal33, toJdT]; rw [this]

theorem C01_jalali_2820 : Bijective calJal2820 where
  jd_roundtrip jd := (Jalali.jdTo2_spec jd).2
  jdTo_wf jd := ⟨by simp [calJal2820], (Jalali.jdTo2_spec jd).1⟩
  date_roundtrip t h := by
    have := Jalali.jdTo2_toJd2 ⟨t.1, t.2.1, t.2.2⟩ h.2
    simp only [calJal2820, toJdT]; rw [this]

/-! ## hijri in month-table mode (partial: two open known findings at the table's seams) -/

/-- the month table the model uses is the table of the source (regenerated on every run) -/
theorem C01_hijri_table_is_source : Gen.hijriLens = HijriT.lens := by rfl

theorem C01_hijri_table_bounds_are_source :
    Gen.hijriStartJd = HijriT.startJd ∧ Gen.hijriEndJd = HijriT.endJd ∧ Gen.hijriStartDate = (1426, 2, 1) := by
  refine ⟨rfl, ?_, rfl⟩
  rw [HijriT.endJd_val]; rfl

/-- **every day number outside the 29-day start seam round-trips** (far from the table by the
    arithmetic theorem, inside the window by the general table lemmas, the two seam zones day by day
    in the kernel) -/
theorem C01_hijri_table_partial (jd : Int) (h : jd < 2453442 ∨ 2453470 < jd) :
    toJdT calHijT (calHijT.jdTo jd) = jd := by
  have e := HijriT.hijri_table_jd_roundtrip_partial jd h
  generalize hd : HijriT.jdToT jd = d at e
  simp only [calHijT, toJdT, hd]
  rcases d with ⟨y, m, dd⟩
  exact e

/-- the full statement is false of the code: exactly the 29 days 2453442 … 2453470 fail (open
    known finding KF-hijri-table-start-seam; the existing tests pin both halves) -/
theorem C01_hijri_table_start_seam_witness :
    (HijriT.rangeI 2453400 100).filter (fun jd => HijriT.toJdT (HijriT.jdToT jd) != jd) = HijriT.rangeI 2453442 29 :=
  HijriT.start_seam

example : calHijT.jdTo 2453442 = (1426, 2, 1) ∧ calHijT.toJd 1426 2 1 = 2453443 := by decide +kernel

/-! ### hijri's float expressions

`hijri.ToJd` and `JdTo` compute two month numbers in float64. The model above uses their exact integer values; that
the FLOAT code computes those values is proved here under the standard model of floating-point arithmetic: for every
rounding function with relative error ≤ 2^-53 that is exact on half-integers below 2^53 (FloatStd.lean). -/

/-- the float code of hijri.JdTo and ToJd (arithmetic mode), every float operation rounded, IS the integer model -/
theorem C01_hijri_float_code_is_model (rnd : Rat → Rat) (h : FloatStd.StdModel rnd) :
    (∀ jd : Int, -100000000000 < jd → jd < 100000000000 → FloatStd.hJdToR rnd jd = Hijri.jdTo jd) ∧
    (∀ d : Hijri.Date, -1000 < d.month → d.month < 1000 → FloatStd.hToJdR rnd d = Hijri.toJd d) :=
  ⟨fun jd a b => FloatStd.hJdToR_eq rnd h jd a b, fun d a b => FloatStd.hToJdR_eq rnd h d a b⟩

/-- hence C01 for the float code: every day number of the domain round-trips through it -/
theorem C01_hijri_float_roundtrip (rnd : Rat → Rat) (h : FloatStd.StdModel rnd) (jd : Int)
    (j0 : -40000000 ≤ jd) (j1 : jd ≤ 40000000) : FloatStd.hToJdR rnd (FloatStd.hJdToR rnd jd) = jd :=
  FloatStd.hijri_float_roundtrip rnd h jd (by omega) (by omega)

end Starcal.Props
