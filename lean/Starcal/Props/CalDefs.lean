import Starcal.Drv.Cal
/-! Property statements for the calendar properties, phrased over the uniform record
    `Drv.Cal` — the very record the driver executes in the correspondence check. -/
namespace Starcal.Props
open Starcal.Drv

/-- well-formed date of configuration `c`: month 1..12, day 1..length of that month as the
    library reports it (and no year 0 for the proleptic variant) -/
def WF (c : Cal) (t : Int × Int × Int) : Prop :=
  (c.skipYear0 = true → t.1 ≠ 0) ∧ 1 ≤ t.2.1 ∧ t.2.1 ≤ 12 ∧ 1 ≤ t.2.2 ∧ t.2.2 ≤ c.monthLen t.1 t.2.1

def toJdT (c : Cal) (t : Int × Int × Int) : Int := c.toJd t.1 t.2.1 t.2.2

/-- C01 for one configuration, over all of ℤ (which contains [-4·10⁷, 4·10⁷]) -/
structure Bijective (c : Cal) : Prop where
  jd_roundtrip : ∀ jd : Int, toJdT c (c.jdTo jd) = jd
  jdTo_wf : ∀ jd : Int, WF c (c.jdTo jd)
  date_roundtrip : ∀ t, WF c t → c.jdTo (toJdT c t) = t

/-- "no two dates share a day number" -/
theorem Bijective.toJd_injective {c : Cal} (h : Bijective c) (a b : Int × Int × Int)
    (ha : WF c a) (hb : WF c b) (e : toJdT c a = toJdT c b) : a = b := by
  rw [← h.date_roundtrip a ha, ← h.date_roundtrip b hb, e]

/-- "no day number is without exactly one date" -/
theorem Bijective.exists_unique_date {c : Cal} (h : Bijective c) (jd : Int) :
    ∃ t, WF c t ∧ toJdT c t = jd ∧ ∀ t', WF c t' → toJdT c t' = jd → t' = t :=
  ⟨c.jdTo jd, h.jdTo_wf jd, h.jd_roundtrip jd, fun t' hw e => by
    rw [← h.date_roundtrip t' hw, e]⟩

/-- calendar successor using the library's own month lengths (C02) -/
def succ (c : Cal) (t : Int × Int × Int) : Int × Int × Int :=
  if t.2.2 < c.monthLen t.1 t.2.1 then (t.1, t.2.1, t.2.2 + 1)
  else if t.2.1 < 12 then (t.1, t.2.1 + 1, 1)
  else ((if c.skipYear0 = true ∧ t.1 = -1 then 1 else t.1 + 1), 1, 1)

/-- C02 for one configuration -/
structure Consecutive (c : Cal) : Prop where
  succ_step : ∀ jd : Int, c.jdTo (jd + 1) = succ c (c.jdTo jd)
  jdTo_wf : ∀ jd : Int, WF c (c.jdTo jd)

end Starcal.Props
