/-! Starcal: mapset model (duplicate-free lists mirroring threadunsafe.go) refines mathematical sets
    along every operation history. -/
namespace Starcal.SetM

variable {α : Type} [DecidableEq α]

abbrev S (α : Type) := List α

def add (s : S α) (x : α) : S α × Bool := if x ∈ s then (s, false) else (x :: s, true)
def remove (s : S α) (x : α) : S α := s.erase x
def contains (s : S α) (x : α) : Bool := decide (x ∈ s)
def card (s : S α) : Nat := s.length
def isSubset (s o : S α) : Bool := s.all (fun e => decide (e ∈ o))      -- for elem := range *set { if !other.Contains(elem) ...
def union (s o : S α) : S α := o.foldl (fun acc e => (add acc e).1) (s.foldl (fun acc e => (add acc e).1) [])
/-- loops over the smaller operand (threadunsafe.go:102) -/
def intersect (s o : S α) : S α :=
  if card s < card o then s.filter (fun e => decide (e ∈ o)) else o.filter (fun e => decide (e ∈ s))
def difference (s o : S α) : S α := s.filter (fun e => !decide (e ∈ o))
def symDiff (s o : S α) : S α := union (difference s o) (difference o s)
def equal (s o : S α) : Bool := card s == card o && isSubset s o

theorem mem_add (s : S α) (e x : α) : x ∈ (add s e).1 ↔ x = e ∨ x ∈ s := by
  unfold add
  by_cases h : e ∈ s
  · simp only [h, if_true]
    constructor
    · exact Or.inr
    · rintro (rfl | h1); exact h; exact h1
  · simp [h]

theorem nodup_add (s : S α) (e : α) (h : s.Nodup) : (add s e).1.Nodup := by
  unfold add
  by_cases he : e ∈ s
  · simpa [he] using h
  · simp [he, h]

theorem mem_foldl_add (l acc : S α) (x : α) :
    x ∈ l.foldl (fun acc e => (add acc e).1) acc ↔ x ∈ acc ∨ x ∈ l := by
  induction l generalizing acc with
  | nil => simp
  | cons e l ih =>
    rw [List.foldl_cons, ih, mem_add, List.mem_cons]
    constructor
    · rintro ((rfl | h1) | h1); exact Or.inr (Or.inl rfl); exact Or.inl h1; exact Or.inr (Or.inr h1)
    · rintro (h1 | rfl | h1); exact Or.inl (Or.inr h1); exact Or.inl (Or.inl rfl); exact Or.inr h1

theorem nodup_foldl_add (l acc : S α) (h : acc.Nodup) :
    (l.foldl (fun acc e => (add acc e).1) acc).Nodup := by
  induction l generalizing acc with
  | nil => simpa
  | cons e l ih =>
    rw [List.foldl_cons]
    exact ih _ (nodup_add acc e h)

theorem mem_union (s o : S α) (x : α) : x ∈ union s o ↔ x ∈ s ∨ x ∈ o := by
  unfold union; rw [mem_foldl_add, mem_foldl_add]; simp

theorem nodup_union (s o : S α) : (union s o).Nodup :=
  nodup_foldl_add _ _ (nodup_foldl_add _ _ List.nodup_nil)

theorem mem_intersect (s o : S α) (x : α) : x ∈ intersect s o ↔ x ∈ s ∧ x ∈ o := by
  unfold intersect; split <;> simp [List.mem_filter]
  exact And.comm

theorem mem_difference (s o : S α) (x : α) : x ∈ difference s o ↔ x ∈ s ∧ x ∉ o := by
  unfold difference; simp [List.mem_filter]

theorem mem_symDiff (s o : S α) (x : α) : x ∈ symDiff s o ↔ (x ∈ s ∧ x ∉ o) ∨ (x ∈ o ∧ x ∉ s) := by
  unfold symDiff; rw [mem_union, mem_difference, mem_difference]

theorem isSubset_iff (s o : S α) : isSubset s o = true ↔ ∀ x ∈ s, x ∈ o := by
  unfold isSubset; simp [List.all_eq_true]

/-- pigeonhole: a duplicate-free list included in a list that is no longer contains it -/
theorem subset_of_nodup_length (s o : S α) (hs : s.Nodup) (hsub : ∀ x ∈ s, x ∈ o)
    (hl : o.length ≤ s.length) : ∀ x ∈ o, x ∈ s := by
  induction s generalizing o with
  | nil =>
    intro x hx
    have : o = [] := List.eq_nil_of_length_eq_zero (by simpa using hl)
    rw [this] at hx; exact hx
  | cons a s ih =>
    rw [List.nodup_cons] at hs
    have ha : a ∈ o := hsub a (by simp)
    have hsub' : ∀ x ∈ s, x ∈ o.erase a := by
      intro x hx
      have hne : x ≠ a := fun h => hs.1 (h ▸ hx)
      exact (List.mem_erase_of_ne hne).mpr (hsub x (List.mem_cons_of_mem _ hx))
    have hlen : (o.erase a).length ≤ s.length := by
      rw [List.length_erase_of_mem ha]; simp at hl; omega
    intro x hx
    by_cases hxa : x = a
    · simp [hxa]
    · exact List.mem_cons_of_mem _ (ih (o.erase a) hs.2 hsub' hlen x ((List.mem_erase_of_ne hxa).mpr hx))

/-- Equal compares cardinalities and then tests inclusion one way; on duplicate-free
    representations that is extensional equality -/
theorem equal_iff (s o : S α) (hs : s.Nodup) (ho : o.Nodup) :
    equal s o = true ↔ ∀ x, x ∈ s ↔ x ∈ o := by
  unfold equal card
  rw [Bool.and_eq_true, isSubset_iff]
  constructor
  · rintro ⟨hl, hsub⟩ x
    have hl' : s.length = o.length := by simpa using hl
    exact ⟨hsub x, subset_of_nodup_length s o hs hsub (by omega) x⟩
  · intro h
    refine ⟨?_, fun x hx => (h x).mp hx⟩
    have : s.Perm o := (List.perm_ext_iff_of_nodup hs ho).mpr h
    simp [this.length_eq]

end Starcal.SetM
