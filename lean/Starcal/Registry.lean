/-! Starcal: C06 — registry lookup with shadowing, configuration histories, by-name conversion laws
    from per-calendar round trips. Calendars are abstract here (any ToJd/JdTo pair). -/
namespace Starcal.Registry

inductive Res (α : Type) where
  | ok (a : α) | err | panic
deriving Repr

structure Cal (D : Type) where
  name : String
  toJd : D → Res Int          -- may panic (hijri in the default state of the unrepaired code)
  jdTo : Int → Res D

/-- CalTypesMap built by RegisterCalType in order: a later entry with the same name replaces -/
def lookup {D} (reg : List (Cal D)) (n : String) : Option (Cal D) :=
  reg.foldl (fun acc c => if c.name = n then some c else acc) none

def convert {D} (reg : List (Cal D)) (d : D) (src dst : String) : Res D :=
  match lookup reg src, lookup reg dst with
  | some f, some t =>
    match f.toJd d with
    | .ok jd => t.jdTo jd
    | .err => .err
    | .panic => .panic
  | _, _ => .err

/-- with distinct names, looking a registered name up returns that same calendar -/
theorem lookup_self {D} (reg : List (Cal D)) (hnd : (reg.map (·.name)).Nodup) (c : Cal D) (hc : c ∈ reg) :
    lookup reg c.name = some c := by
  unfold lookup
  have gen : ∀ (l : List (Cal D)) (acc : Option (Cal D)), (l.map (·.name)).Nodup →
      (c ∈ l ∨ (acc = some c ∧ ∀ x ∈ l, x.name ≠ c.name)) →
      l.foldl (fun acc x => if x.name = c.name then some x else acc) acc = some c := by
    intro l
    induction l with
    | nil => intro acc _ h; rcases h with h | h; simp at h; simpa using h.1
    | cons x xs ih =>
      intro acc hn h
      simp only [List.map_cons, List.nodup_cons] at hn
      simp only [List.foldl_cons]
      apply ih _ hn.2
      rcases h with h | ⟨h1, h2⟩
      · rcases List.mem_cons.mp h with rfl | h
        · right
          refine ⟨by simp, ?_⟩
          intro y hy hyn
          exact hn.1 (by rw [← hyn]; exact List.mem_map_of_mem hy)
        · left; exact h
      · right
        have hx := h2 x (by simp)
        simp only [hx, if_false]
        exact ⟨h1, fun y hy => h2 y (List.mem_cons_of_mem _ hy)⟩
  exact gen reg none hnd (Or.inl hc)

theorem unknown_name {D} (reg : List (Cal D)) (n : String) (h : ∀ c ∈ reg, c.name ≠ n) : lookup reg n = none := by
  unfold lookup
  have gen : ∀ (l : List (Cal D)), (∀ c ∈ l, c.name ≠ n) →
      l.foldl (fun acc c => if c.name = n then some c else acc) none = none := by
    intro l
    induction l with
    | nil => intro _; rfl
    | cons x xs ih =>
      intro hl
      simp only [List.foldl_cons, hl x (by simp), if_false]
      exact ih (fun c hc => hl c (List.mem_cons_of_mem _ hc))
  exact gen reg h

/-- the duplicate name of the unchanged tree: the first "julian" cannot be reached -/
example : (lookup [⟨"julian", fun (_ : Nat) => .ok 1, fun _ => .ok 0⟩, ⟨"julian", fun _ => .ok 2, fun _ => .ok 0⟩]
    "julian").map (fun c => match c.toJd 0 with | .ok v => v | _ => 0) = some 2 := by decide

/-- conversion laws from the per-calendar round trips -/
theorem conv_comp {D} (reg : List (Cal D)) (a b c : Cal D)
    (ha : lookup reg a.name = some a) (hb : lookup reg b.name = some b) (hc : lookup reg c.name = some c)
    (d : D) (jd : Int) (h1 : a.toJd d = .ok jd) (d2 : D) (h2 : b.jdTo jd = .ok d2)
    (hrt : b.toJd d2 = .ok jd) :
    (match convert reg d a.name b.name with
      | .ok x => convert reg x b.name c.name
      | r => r) = convert reg d a.name c.name := by
  unfold convert
  simp [ha, hb, hc, h1, h2, hrt]

/-! ### configuration histories (hijri) -/

structure Cfg where
  use : Bool
  loaded : Bool
deriving DecidableEq, Repr

def setUse (c : Cfg) (b : Bool) : Cfg := if b then ⟨true, true⟩ else ⟨false, c.loaded⟩
def Inv (c : Cfg) : Prop := c.use = true → c.loaded = true
instance (c : Cfg) : Decidable (Inv c) := by unfold Inv; infer_instance

def initOld : Cfg := ⟨true, false⟩         -- useMonthData = true, monthData = nil
def initNew : Cfg := setUse initOld true    -- with `func init() { SetUseMonthData(useMonthData) }`

example : ¬ Inv initOld := by decide                         -- default-state nil dereference
theorem inv_reachable (hist : List Bool) : Inv (hist.foldl setUse initNew) := by
  have gen : ∀ (h : List Bool) (c : Cfg), Inv c → Inv (h.foldl setUse c) := by
    intro h
    induction h with
    | nil => intro c hc; exact hc
    | cons b bs ih =>
      intro c hc
      apply ih
      unfold setUse Inv at *
      cases b <;> simp
  exact gen hist initNew (by decide)

end Starcal.Registry

#print axioms Starcal.Registry.lookup_self
#print axioms Starcal.Registry.inv_reachable
