import Starcal.Hijri
import Starcal.HTable
/-! Starcal: hijri in table mode with the month table of the unchanged tree (hand-copied from
    monthDataJSON); the seam zones are finite and are settled by `decide`. -/
namespace Starcal.HijriT
open Starcal.Hijri

def startJd : Int := 2453442
def ym0 : Int := 1426 * 12 + 2 - 1
def lens : List Int := [
  29, 30, 29, 30, 30, 30, 30, 29, 30, 29, 29,
  30, 29, 29, 30, 29, 30, 30, 30, 30, 29, 29, 30,
  29, 30, 29, 29, 29, 30, 30, 29, 30, 30, 30, 29,
  30, 29, 30, 29, 29, 29, 30, 30, 29, 30, 30, 29,
  30, 30, 29, 29, 30, 29, 30, 29, 29, 30, 30, 29,
  30, 30, 29, 30, 29, 30, 29, 30, 29, 29, 30, 29,
  30, 30, 29, 30, 30, 30, 29, 29, 30, 29, 30, 29,
  29, 30, 29, 30, 30, 30, 29, 30, 29, 30, 29, 30,
  29, 29, 30, 29, 30, 30, 29, 30, 30, 29, 30, 29,
  29, 30, 29, 30, 29, 30, 29, 30, 30, 30, 29, 30,
  29, 30, 29, 29, 30, 29, 30, 29, 30, 29, 30, 30,
  29, 30, 30, 29, 30, 29, 29, 30, 29, 29, 30, 30,
  29, 30, 30, 30, 29, 30, 29, 29, 30, 29, 29, 30,
  29, 30, 30, 30, 30, 29, 30, 29, 29, 30, 29, 29,
  30, 29, 30, 30, 30, 29, 30, 30, 29, 29, 30, 29,
  29, 30, 29, 30, 30, 29, 30, 30, 29, 30, 29, 30,
  29, 29, 30, 29, 30, 29, 30, 30, 29, 30, 30, 29,
  29, 30, 30, 29, 29, 30, 29, 30]
def endJd : Int := startJd + HTable.sum lens

example : endJd = 2459673 := by decide +kernel        -- as printed by the test's init()
example : lens.all (fun L => decide (1 ≤ L)) = true := by decide +kernel

/-- MonthLenByYm[ym] present? -/
def hasYm (ym : Int) : Bool := decide (ym0 ≤ ym ∧ ym < ym0 + lens.length)

/-- GetJdFromDate -/
def tableToJd (d : Date) : Option Int :=
  let ym := d.year * 12 + d.month - 1
  if hasYm (ym - 1) then some (startJd + HTable.prefixSum lens (ym - ym0).toNat + d.day - 1) else none

/-- GetDateFromJd -/
def tableJdTo (jd : Int) : Option Date :=
  if endJd ≥ jd ∧ jd ≥ startJd then
    (HTable.walkL startJd 1 lens ym0 jd).map (fun p => ⟨p.1 / 12, p.1 % 12 + 1, p.2⟩)
  else none

/-- hijri.ToJd with useMonthData = true -/
def toJdT (d : Date) : Int := (tableToJd d).getD (toJd d)

/-- hijri.JdTo with useMonthData = true: the arithmetic fallback calls the table-aware ToJd -/
def jdToT (jd : Int) : Date :=
  match tableJdTo jd with
  | some d => d
  | none =>
    let year := (30 * (jd - 1 - Epoch) + 10646) / 10631
    let ys := toJdT ⟨year, 1, 1⟩
    let mc := (2 * (jd - ys) + 1 + 58) / 59
    let month := if 12 < mc then 12 else mc
    let day := jd - toJdT ⟨year, month, 1⟩ + 1
    ⟨year, month, day⟩

-- the values pinned by the existing tests, reproduced by the model
example : jdToT 2453442 = ⟨1426, 2, 1⟩ := by decide +kernel
example : toJdT ⟨1426, 2, 1⟩ = 2453443 := by decide +kernel          -- the start-seam inconsistency
example : jdToT 2459703 = ⟨1443, 10, 0⟩ := by decide +kernel          -- end seam: day 0
example : jdToT 2459732 = ⟨1443, 11, 0⟩ := by decide +kernel

def rangeI (lo : Int) (n : Nat) : List Int := (List.range n).map (fun (k : Nat) => lo + (k : Int))

/-- start seam zone: exactly the 29 days 2453442..2453470 fail the round trip -/
theorem start_seam : (rangeI 2453400 100).filter (fun jd => toJdT (jdToT jd) != jd) = rangeI 2453442 29 := by
  decide +kernel


/-- GetMonthLen in table mode is defined as the gap of month starts -/
def monthLenT (y m : Int) : Int :=
  if m = 12 then toJdT ⟨y + 1, 1, 1⟩ - toJdT ⟨y, 12, 1⟩ else toJdT ⟨y, m + 1, 1⟩ - toJdT ⟨y, m, 1⟩

def wfT (d : Date) : Bool :=
  decide (1 ≤ d.month) && decide (d.month ≤ 12) && decide (1 ≤ d.day) && decide (d.day ≤ monthLenT d.year d.month)

def succT (d : Date) : Date :=
  if d.day < monthLenT d.year d.month then ⟨d.year, d.month, d.day + 1⟩
  else if d.month < 12 then ⟨d.year, d.month + 1, 1⟩
  else ⟨d.year + 1, 1, 1⟩


/-- the two seam zones are short; kernel evaluation gives the complete list of days on which
    C01 / C02 fail there (inside the table the general lemma of `HTable.lean` applies, far outside it
    the arithmetic theorems of `Hijri.lean`; a 7 400-day `decide +kernel` over the whole interaction
    zone was tried and times out, so it is not the plan) -/
theorem start_zone_wellformed :
    (rangeI 2453400 100).filter (fun jd => !wfT (jdToT jd)) = [2453470] := by
  decide +kernel

theorem start_zone_successor :
    (rangeI 2453400 100).filter (fun jd => decide (jdToT (jd + 1) ≠ succT (jdToT jd))) =
      [2453441, 2453469] := by
  decide +kernel

theorem end_zone_roundtrip :
    (rangeI 2459650 160).filter (fun jd => toJdT (jdToT jd) != jd) = [] := by
  decide +kernel

/-- the third day, 2459762 (1443/12/00), was missed by the hand-made listing of the Go probe and
    found by evaluating the model; the real code confirms it -/
theorem end_zone_wellformed :
    (rangeI 2459650 160).filter (fun jd => !wfT (jdToT jd)) = [2459703, 2459732, 2459762] := by
  decide +kernel

theorem end_zone_successor :
    (rangeI 2459650 160).filter (fun jd => decide (jdToT (jd + 1) ≠ succT (jdToT jd))) =
      [2459702, 2459731, 2459761] := by
  decide +kernel

end Starcal.HijriT
