import Starcal.Canon
/-! Starcal: faithful model of IntersectionOfSomeIntervalLists (interval.go:358-458) and the
    proof that it denotes the intersection. -/
namespace Starcal.Ival

structure ISt where
  opens : List (Option Int)     -- openStartList; `none` models the MIN_INT64 sentinel
  out : List Interval           -- result, newest first
deriving Repr

/-- `some (max of all)` iff every slot is open (hasNil = false) -/
def allOpen : List (Option Int) → Option Int
  | [] => none
  | [o] => o
  | o :: o' :: os =>
    match o, allOpen (o' :: os) with
    | some a, some b => some (max a b)
    | _, _ => none

/-- one iteration of the loop at interval.go:431-455 -/
def interStep (st : ISt) (p : Point) : Option ISt :=
  if p.isEnd = false then
    match st.opens[p.lid]? with
    | some none => some { st with opens := st.opens.set p.lid (some p.pos) }
    | _ => none                                   -- "internal error": slot already open
  else
    match allOpen st.opens with
    | some start =>
      if start > p.pos then none                  -- "internal error: start - point.Pos"
      else
        some { opens := st.opens.set p.lid none,
               out := if p.pos > start ∨ p.closed = true then ⟨start, p.pos, p.closed⟩ :: st.out
                      else st.out }
    | none => some { st with opens := st.opens.set p.lid none }

def interSweep (ps : List Point) (st : ISt) : Option ISt := ps.foldlM interStep st

/-- points of all operands, operand k tagged with ListId k -/
def allPoints : Nat → List (List Interval) → List Point
  | _, [] => []
  | k, l :: ls => pointsOf k l ++ allPoints (k + 1) ls

def normAll : List (List Interval) → Option (List (List Interval))
  | [] => some []
  | l :: ls => match normalize l, normAll ls with
    | some r, some rs => some (r :: rs)
    | _, _ => none

def intersectMany (ls : List (List Interval)) : Option (List Interval) :=
  match normAll ls with
  | none => none
  | some ns =>
    (interSweep (sortPts (allPoints 0 ns)) ⟨List.replicate ns.length none, []⟩).map
      (fun st => st.out.reverse)

/-! ### slot k always holds the last event of list k -/

def evOf (k : Nat) (acc : Option Int) (p : Point) : Option Int :=
  if p.lid = k then (if p.isEnd then none else some p.pos) else acc

def lastOpen (k : Nat) (A : List Point) : Option Int := A.foldl (evOf k) none

theorem lastOpen_append_singleton (k : Nat) (A : List Point) (p : Point) :
    lastOpen k (A ++ [p]) = evOf k (lastOpen k A) p := by
  simp [lastOpen, List.foldl_append]

theorem interSweep_cons (p : Point) (ps : List Point) (st : ISt) :
    interSweep (p :: ps) st = (interStep st p).bind (interSweep ps) := by
  unfold interSweep; rw [List.foldlM_cons]; rfl

theorem interSweep_append (A B : List Point) (st : ISt) :
    interSweep (A ++ B) st = (interSweep A st).bind (interSweep B) := by
  unfold interSweep; rw [List.foldlM_append]; rfl

def Tracks (n : Nat) (Pre : List Point) (st : ISt) : Prop :=
  st.opens.length = n ∧ ∀ k, k < n → st.opens[k]? = some (lastOpen k Pre)

theorem step_tracks {n : Nat} {Pre : List Point} {st st' : ISt} {p : Point}
    (ht : Tracks n Pre st) (h : interStep st p = some st') : Tracks n (Pre ++ [p]) st' := by
  obtain ⟨hlen, hk⟩ := ht
  unfold interStep at h
  have hset : ∀ v : Option Int, (if p.isEnd then none else some p.pos) = v →
      ∀ o, Tracks n (Pre ++ [p]) ⟨st.opens.set p.lid v, o⟩ := by
    intro v hv o
    refine ⟨by simp [hlen], ?_⟩
    intro k hkn
    rw [lastOpen_append_singleton]
    unfold evOf
    by_cases hpk : p.lid = k
    · subst hpk
      simp [hv, List.getElem?_set, hlen, hkn]
    · simp only [hpk, if_false]
      rw [List.getElem?_set_ne hpk]
      exact hk k hkn
  split at h
  · rename_i hs
    split at h
    · simp at h; subst h
      exact hset _ (by simp [hs]) _
    · simp at h
  · rename_i he
    have he' : p.isEnd = true := by cases hpe : p.isEnd <;> simp_all
    split at h
    · split at h
      · simp at h
      · simp at h; subst h
        exact hset _ (by simp [he']) _
    · simp at h; subst h
      exact hset _ (by simp [he']) _

theorem sweep_tracks {n : Nat} (Q : List Point) (Pre : List Point) (st st' : ISt)
    (ht : Tracks n Pre st) (h : interSweep Q st = some st') : Tracks n (Pre ++ Q) st' := by
  induction Q generalizing Pre st with
  | nil => simp [interSweep] at h; subst h; simpa using ht
  | cons p ps ih =>
    rw [interSweep_cons] at h
    cases hs : interStep st p with
    | none => simp [hs] at h
    | some st1 =>
      simp [hs] at h
      have := ih (Pre ++ [p]) st1 (step_tracks ht hs) h
      simpa using this


/-! ### what is emitted, as a pure function of the processed prefix -/

def slots (n : Nat) (Pre : List Point) : List (Option Int) := (List.range n).map (fun k => lastOpen k Pre)

theorem tracks_opens {n : Nat} {Pre : List Point} {st : ISt} (ht : Tracks n Pre st) :
    st.opens = slots n Pre := by
  apply List.ext_getElem?
  intro k
  by_cases hk : k < n
  · rw [ht.2 k hk]; simp [slots, hk]
  · have h1 : st.opens[k]? = none := by
      rw [List.getElem?_eq_none_iff]; rw [ht.1]; omega
    have h2 : (slots n Pre)[k]? = none := by
      rw [List.getElem?_eq_none_iff]; simp [slots]; omega
    rw [h1, h2]

def emitAt (n : Nat) (Pre : List Point) (p : Point) : List Interval :=
  if p.isEnd = true then
    match allOpen (slots n Pre) with
    | some s => if p.pos > s ∨ p.closed = true then [⟨s, p.pos, p.closed⟩] else []
    | none => []
  else []

theorem step_out {n : Nat} {Pre : List Point} {st st' : ISt} {p : Point}
    (ht : Tracks n Pre st) (h : interStep st p = some st') : st'.out = emitAt n Pre p ++ st.out := by
  unfold interStep at h
  unfold emitAt
  rw [← tracks_opens ht]
  split at h
  · rename_i hs
    split at h
    · simp at h; subst h; simp [hs]
    · simp at h
  · rename_i he
    have he' : p.isEnd = true := by cases hpe : p.isEnd <;> simp_all
    simp only [he', if_true]
    split at h
    · rename_i s hs
      split at h
      · simp at h
      · simp at h; subst h
        simp only
        split <;> simp
    · rename_i hs
      simp at h; subst h
      simp [hs]

theorem sweep_out {n : Nat} (Q : List Point) (Pre : List Point) (st st' : ISt)
    (ht : Tracks n Pre st) (h : interSweep Q st = some st') (i : Interval) :
    i ∈ st'.out ↔ i ∈ st.out ∨ ∃ Q1 p Q2, Q = Q1 ++ p :: Q2 ∧ i ∈ emitAt n (Pre ++ Q1) p := by
  induction Q generalizing Pre st with
  | nil =>
    simp [interSweep] at h; subst h; simp
  | cons p ps ih =>
    rw [interSweep_cons] at h
    cases hs : interStep st p with
    | none => simp [hs] at h
    | some st1 =>
      simp [hs] at h
      rw [ih (Pre ++ [p]) st1 (step_tracks ht hs) h, step_out ht hs]
      constructor
      · rintro (hi | ⟨Q1, q, Q2, e, hi⟩)
        · rcases List.mem_append.mp hi with hi | hi
          · exact Or.inr ⟨[], p, ps, rfl, by simpa using hi⟩
          · exact Or.inl hi
        · exact Or.inr ⟨p :: Q1, q, Q2, by simp [e], by simpa using hi⟩
      · rintro (hi | ⟨Q1, q, Q2, e, hi⟩)
        · exact Or.inl (List.mem_append.mpr (Or.inr hi))
        · cases Q1 with
          | nil =>
            simp at e
            obtain ⟨rfl, rfl⟩ := e
            exact Or.inl (List.mem_append.mpr (Or.inl (by simpa using hi)))
          | cons x Q1' =>
            simp at e
            obtain ⟨rfl, rfl⟩ := e
            exact Or.inr ⟨Q1', q, Q2, rfl, by simpa using hi⟩

/-! ### allOpen -/

theorem allOpen_some {os : List (Option Int)} {s : Int} (h : allOpen os = some s) :
    (∀ k, k < os.length → ∃ v, os[k]? = some (some v) ∧ v ≤ s) := by
  induction os generalizing s with
  | nil => simp [allOpen] at h
  | cons o os ih =>
    cases os with
    | nil =>
      simp [allOpen] at h; subst h
      intro k hk
      have : k = 0 := by simp at hk; omega
      subst this; exact ⟨s, by simp, Int.le_refl _⟩
    | cons o' os' =>
      unfold allOpen at h
      cases o with
      | none => simp at h
      | some a =>
        cases hb : allOpen (o' :: os') with
        | none => simp [hb] at h
        | some b =>
          simp [hb] at h
          intro k hk
          cases k with
          | zero => exact ⟨a, by simp, by omega⟩
          | succ k =>
            obtain ⟨v, hv1, hv2⟩ := ih hb k (by simp at hk ⊢; omega)
            exact ⟨v, by simpa using hv1, by omega⟩

theorem allOpen_of_all {os : List (Option Int)} (hne : os ≠ [])
    (h : ∀ k, k < os.length → ∃ v, os[k]? = some (some v)) (b : Int)
    (hb : ∀ (k : Nat) (v : Int), os[k]? = some (some v) → v ≤ b) :
    ∃ s, allOpen os = some s ∧ s ≤ b := by
  induction os with
  | nil => exact absurd rfl hne
  | cons o os ih =>
    cases os with
    | nil =>
      obtain ⟨v, hv⟩ := h 0 (by simp)
      simp at hv; subst hv
      exact ⟨v, by simp [allOpen], hb 0 v (by simp)⟩
    | cons o' os' =>
      obtain ⟨v, hv⟩ := h 0 (by simp)
      simp at hv; subst hv
      obtain ⟨s', hs', hs'b⟩ := ih (by simp)
        (fun k hk => by
          obtain ⟨w, hw⟩ := h (k + 1) (by simp at hk ⊢; omega)
          exact ⟨w, by simpa using hw⟩)
        (fun k w hw => hb (k + 1) w (by simpa using hw))
      refine ⟨max v s', by simp [allOpen, hs'], ?_⟩
      have := hb 0 v (by simp)
      omega


/-! ### the list-k events occur in the sorted list exactly in the order of `pointsOf k Nₖ` -/

theorem insertPt_perm (p : Point) (X : List Point) : (insertPt p X).Perm (p :: X) := by
  induction X with
  | nil => simp [insertPt]
  | cons x xs ih =>
    unfold insertPt
    split
    · exact List.Perm.refl _
    · exact (List.Perm.cons x ih).trans (List.Perm.swap p x xs)

theorem sortPts_perm (X : List Point) : (sortPts X).Perm X := by
  induction X with
  | nil => simp [sortPts]
  | cons x xs ih => exact (insertPt_perm x _).trans (List.Perm.cons x ih)

theorem sorted_perm_eq (a b : List Point) (ha : Sorted a) (hb : Sorted b) (hp : a.Perm b) : a = b := by
  induction a generalizing b with
  | nil => exact (List.Perm.nil_eq hp)
  | cons x a' ih =>
    cases b with
    | nil => exact absurd hp.symm.nil_eq (by simp)
    | cons y b' =>
      unfold Sorted at ha hb
      rw [List.pairwise_cons] at ha hb
      have hx : x ∈ y :: b' := hp.subset (by simp)
      have hy : y ∈ x :: a' := hp.symm.subset (by simp)
      have hxy : x = y := by
        rcases List.mem_cons.mp hx with h | h
        · exact h
        · rcases List.mem_cons.mp hy with h' | h'
          · exact h'.symm
          · exact le_antisymm (ha.1 y h') (hb.1 x h)
      subst hxy
      congr 1
      exact ih b' ha.2 hb.2 (List.Perm.cons_inv hp)

theorem lid_pointsOf {k : Nat} {l : List Interval} {p : Point} (hp : p ∈ pointsOf k l) : p.lid = k := by
  induction l with
  | nil => simp [pointsOf] at hp
  | cons i l ih =>
    simp only [pointsOf, List.mem_cons] at hp
    rcases hp with rfl | rfl | hp
    · rfl
    · rfl
    · exact ih hp

theorem pos_pointsOf {k : Nat} {l : List Interval} {p : Point} (hp : p ∈ pointsOf k l) :
    ∃ I ∈ l, I.start ≤ p.pos ∨ I.stop ≤ p.pos := by
  induction l with
  | nil => simp [pointsOf] at hp
  | cons i l ih =>
    simp only [pointsOf, List.mem_cons] at hp
    rcases hp with rfl | rfl | hp
    · exact ⟨i, by simp, Or.inl (Int.le_refl _)⟩
    · exact ⟨i, by simp, Or.inr (Int.le_refl _)⟩
    · obtain ⟨I, hI, h⟩ := ih hp
      exact ⟨I, List.mem_cons_of_mem _ hI, h⟩

theorem sorted_pointsOf (k : Nat) (N : List Interval) (hs : Sep N) (ho : ∀ i ∈ N, i.start ≤ i.stop) :
    Sorted (pointsOf k N) := by
  induction N with
  | nil => simp [pointsOf, Sorted]
  | cons I N ih =>
    unfold Sep at hs; rw [List.pairwise_cons] at hs
    have hI := ho I (by simp)
    have later : ∀ q ∈ pointsOf k N, I.stop < q.pos := by
      intro q hq
      obtain ⟨J, hJ, h⟩ := pos_pointsOf hq
      have := hs.1 J hJ
      have := ho J (List.mem_cons_of_mem _ hJ)
      omega
    simp only [pointsOf]
    unfold Sorted
    rw [List.pairwise_cons, List.pairwise_cons]
    refine ⟨?_, ?_, ih hs.2 (fun i hi => ho i (List.mem_cons_of_mem _ hi))⟩
    · intro q hq
      rcases List.mem_cons.mp hq with rfl | hq
      · exact le_start_end I k hI
      · rw [le_iff]; have := later q hq; simp [startPt]; omega
    · intro q hq
      rw [le_iff]; have := later q hq; simp [endPt]; omega

theorem filter_allPoints (k0 : Nat) (ns : List (List Interval)) (j : Nat) (hj : j < ns.length) :
    (allPoints k0 ns).filter (fun p => p.lid == k0 + j) = pointsOf (k0 + j) ns[j] := by
  induction ns generalizing k0 j with
  | nil => simp at hj
  | cons l ls ih =>
    simp only [allPoints, List.filter_append]
    cases j with
    | zero =>
      have h1 : (pointsOf k0 l).filter (fun p => p.lid == k0 + 0) = pointsOf k0 l := by
        rw [List.filter_eq_self]; intro p hp; simp [lid_pointsOf hp]
      have h2 : (allPoints (k0 + 1) ls).filter (fun p => p.lid == k0 + 0) = [] := by
        rw [List.filter_eq_nil_iff]
        intro p hp
        have : ∀ (k1 : Nat) (xs : List (List Interval)) (q : Point), q ∈ allPoints k1 xs → k1 ≤ q.lid := by
          intro k1 xs
          induction xs generalizing k1 with
          | nil => intro q hq; simp [allPoints] at hq
          | cons y ys ihy =>
            intro q hq
            simp only [allPoints, List.mem_append] at hq
            rcases hq with hq | hq
            · rw [lid_pointsOf hq]; exact Nat.le_refl _
            · have := ihy (k1 + 1) q hq; omega
        have := this (k0 + 1) ls p hp
        simp; omega
      rw [h1, h2]; simp
    | succ j =>
      have h1 : (pointsOf k0 l).filter (fun p => p.lid == k0 + (j + 1)) = [] := by
        rw [List.filter_eq_nil_iff]; intro p hp; simp [lid_pointsOf hp]
      have h2 := ih (k0 + 1) j (by simp at hj; omega)
      have e : k0 + 1 + j = k0 + (j + 1) := by omega
      rw [e] at h2
      rw [h1, h2]; simp

theorem lastOpen_filter (k : Nat) (A : List Point) :
    lastOpen k A = lastOpen k (A.filter (fun p => p.lid == k)) := by
  unfold lastOpen
  generalize (none : Option Int) = acc
  induction A generalizing acc with
  | nil => rfl
  | cons a A ih =>
    simp only [List.foldl_cons, List.filter_cons]
    by_cases h : a.lid = k
    · simp [h, ih]
    · have : (a.lid == k) = false := by simp [h]
      simp only [this]
      rw [ih]
      simp [evOf, h]

theorem startPt_mem {k : Nat} {N : List Interval} {J : Interval} (hJ : J ∈ N) :
    startPt J k ∈ pointsOf k N := by
  induction N with
  | nil => simp at hJ
  | cons x xs ih =>
    simp only [pointsOf]
    rcases List.mem_cons.mp hJ with rfl | hJ
    · simp
    · exact List.mem_cons_of_mem _ (List.mem_cons_of_mem _ (ih hJ))

theorem endPt_mem {k : Nat} {N : List Interval} {J : Interval} (hJ : J ∈ N) :
    endPt J k ∈ pointsOf k N := by
  induction N with
  | nil => simp at hJ
  | cons x xs ih =>
    simp only [pointsOf]
    rcases List.mem_cons.mp hJ with rfl | hJ
    · simp
    · exact List.mem_cons_of_mem _ (List.mem_cons_of_mem _ (ih hJ))

theorem before_start_iff (h : Int) (J : Interval) (k : Nat) :
    before h (startPt J k) = true ↔ 2 * J.start ≤ h := by
  unfold before startPt
  simp only [Bool.false_and, Bool.false_eq_true, if_false]
  exact decide_eq_true_iff

theorem memH_iff_before (h : Int) (I : Interval) (k : Nat) :
    memH h I ↔ before h (startPt I k) = true ∧ before h (endPt I k) = false := by
  unfold memH before startPt endPt
  cases hc : I.closed <;> simp <;> omega

/-- F3: at a cut of `pointsOf k N`, the slot is open exactly when h lies in an interval of N,
    and then it holds that interval's start -/
theorem slot_at_cut (h : Int) (k : Nat) (N : List Interval)
    (A B : List Point) (hAB : pointsOf k N = A ++ B)
    (hA : ∀ a ∈ A, before h a = true) (hB : ∀ b ∈ B, before h b = false) (s : Int) :
    lastOpen k A = some s ↔ ∃ I ∈ N, I.start = s ∧ memH h I := by
  induction N generalizing A with
  | nil =>
    simp [pointsOf] at hAB
    simp [hAB.1, lastOpen]
  | cons I N ih =>
    simp only [pointsOf] at hAB
    cases A with
    | nil =>
      simp at hAB
      constructor
      · intro hh; simp [lastOpen] at hh
      · rintro ⟨J, hJ, _, hm⟩
        exfalso
        have hsJ : startPt J k ∈ B := by
          rw [← hAB]; exact startPt_mem (k := k) hJ
        have h1 := hB _ hsJ
        have h2 := ((memH_iff_before h J k).mp hm).1
        rw [h1] at h2; simp at h2
    | cons a A1 =>
      simp at hAB
      obtain ⟨rfl, hAB⟩ := hAB
      cases A1 with
      | nil =>
        simp at hAB
        have hbs := hA (startPt I k) (by simp)
        have hbe := hB (endPt I k) (by rw [← hAB]; simp)
        have hmI : memH h I := (memH_iff_before h I k).mpr ⟨hbs, hbe⟩
        constructor
        · intro hh
          simp [lastOpen, evOf, startPt] at hh
          exact ⟨I, by simp, hh, hmI⟩
        · rintro ⟨J, hJ, hJs, hm⟩
          rcases List.mem_cons.mp hJ with rfl | hJ
          · simp [lastOpen, evOf, startPt, hJs]
          · exfalso
            have h1 := hB (startPt J k) (by rw [← hAB]; exact List.mem_cons_of_mem _ (startPt_mem hJ))
            have h2 := ((memH_iff_before h J k).mp hm).1
            rw [h1] at h2; simp at h2
      | cons a2 A2 =>
        simp at hAB
        obtain ⟨rfl, hAB⟩ := hAB
        have hbe := hA (endPt I k) (by simp)
        have hnI : ¬ memH h I := by
          intro hm
          have := ((memH_iff_before h I k).mp hm).2
          rw [hbe] at this; simp at this
        have e : lastOpen k (startPt I k :: endPt I k :: A2) = lastOpen k A2 := by
          simp [lastOpen, evOf, startPt, endPt]
        rw [e, ih A2 hAB (fun a ha => hA a (by simp [ha]))]
        constructor
        · rintro ⟨J, hJ, h1, h2⟩; exact ⟨J, List.mem_cons_of_mem _ hJ, h1, h2⟩
        · rintro ⟨J, hJ, h1, h2⟩
          rcases List.mem_cons.mp hJ with rfl | hJ
          · exact absurd h2 hnI
          · exact ⟨J, hJ, h1, h2⟩


/-! ### assembly -/

theorem lastOpen_back (h : Int) (k : Nat) (A B1 : List Point) (v : Int)
    (hB : ∀ b ∈ B1, before h b = false) (hv : 2 * v ≤ h)
    (hl : lastOpen k (A ++ B1) = some v) : lastOpen k A = some v := by
  unfold lastOpen at *
  rw [List.foldl_append] at hl
  generalize List.foldl (evOf k) none A = acc at *
  induction B1 generalizing acc with
  | nil => simpa using hl
  | cons b bs ih =>
    simp only [List.foldl_cons] at hl
    have hb := hB b (by simp)
    have := ih (fun x hx => hB x (List.mem_cons_of_mem _ hx)) _ hl
    unfold evOf at this
    by_cases hk : b.lid = k
    · simp only [hk, if_true] at this
      cases hbe : b.isEnd with
      | true => simp [hbe] at this
      | false =>
        simp [hbe] at this
        -- b is a start point at v with 2v ≤ h: it would be before h
        unfold before at hb
        simp [hbe] at hb
        omega
    · simpa [hk] using this

def CanonAll (ns : List (List Interval)) : Prop := ∀ N ∈ ns, Canonical N

theorem slot_cut_sorted (h : Int) (ns : List (List Interval)) (hc : CanonAll ns)
    (A B : List Point) (hP : sortPts (allPoints 0 ns) = A ++ B)
    (hA : ∀ a ∈ A, before h a = true) (hB : ∀ b ∈ B, before h b = false)
    (k : Nat) (hk : k < ns.length) (s : Int) :
    lastOpen k A = some s ↔ ∃ I ∈ ns[k], I.start = s ∧ memH h I := by
  have hcan := hc ns[k] (List.getElem_mem hk)
  have hord : ∀ i ∈ ns[k], i.start ≤ i.stop := fun i hi => by
    have := hcan.2 i hi; unfold WFI at this; omega
  let q : Point → Bool := fun p => p.lid == k
  have hsortedP : Sorted ((sortPts (allPoints 0 ns)).filter q) :=
    List.Pairwise.filter q (sorted_sortPts _)
  have hperm : ((sortPts (allPoints 0 ns)).filter q).Perm (pointsOf k ns[k]) := by
    have h1 := (sortPts_perm (allPoints 0 ns)).filter q
    have h2 := filter_allPoints 0 ns k hk
    simp only [Nat.zero_add] at h2
    rw [h2] at h1; exact h1
  have heq := sorted_perm_eq _ _ hsortedP (sorted_pointsOf k ns[k] hcan.1 hord) hperm
  rw [hP, List.filter_append] at heq
  rw [lastOpen_filter]
  exact slot_at_cut h k ns[k] _ _ heq.symm
    (fun a ha => hA a (List.mem_filter.mp ha).1) (fun b hb => hB b (List.mem_filter.mp hb).1) s

theorem split_at_cut {h : Int} {A B Q1 Q2 : List Point} {p : Point}
    (hA : ∀ a ∈ A, before h a = true) (hp : before h p = false) (e : A ++ B = Q1 ++ p :: Q2) :
    ∃ B1, Q1 = A ++ B1 ∧ B = B1 ++ p :: Q2 := by
  rcases List.append_eq_append_iff.mp e with ⟨a', h1, h2⟩ | ⟨c', h1, h2⟩
  · exact ⟨a', h1, h2⟩
  · cases c' with
    | nil => simp at h1 h2; exact ⟨[], by simp [h1], h2.symm⟩
    | cons c cs =>
      simp at h2
      obtain ⟨rfl, _⟩ := h2
      have := hA p (by rw [h1]; simp)
      rw [hp] at this; simp at this

theorem inter_mem_core (ns : List (List Interval)) (hne : ns ≠ []) (hc : CanonAll ns) (stF : ISt)
    (hF : interSweep (sortPts (allPoints 0 ns)) ⟨List.replicate ns.length none, []⟩ = some stF)
    (h : Int) : memL h stF.out.reverse ↔ ∀ k, (hk : k < ns.length) → memL h ns[k] := by
  have hn : 0 < ns.length := List.length_pos_iff.mpr hne
  have ht0 : Tracks ns.length [] ⟨List.replicate ns.length none, []⟩ :=
    ⟨by simp, fun k hk => by simp [lastOpen, hk]⟩
  have hout := sweep_out _ [] _ stF ht0 hF
  obtain ⟨A, B, hP, hA, hB⟩ := cut h _ (sorted_sortPts (allPoints 0 ns))
  have hslot := slot_cut_sorted h ns hc A B hP hA hB
  have hsB : Sorted B := by
    have := sorted_sortPts (allPoints 0 ns)
    rw [hP] at this
    exact (List.pairwise_append.mp this).2.1
  constructor
  · -- an emitted interval containing h forces every operand to contain h
    rintro ⟨i, hi, hm⟩ k hk
    have hi' : i ∈ stF.out := by simpa using hi
    rcases (hout i).mp hi' with hi' | ⟨Q1, p, Q2, e, hi'⟩
    · simp at hi'
    · simp only [List.nil_append] at hi'
      unfold emitAt at hi'
      split at hi'
      · rename_i hpe
        split at hi'
        · rename_i s hs
          split at hi'
          · simp at hi'; subst hi'
            unfold memH at hm; simp only at hm
            have hpb : before h p = false := by
              unfold before; simp [hpe]
              cases hcl : p.closed <;> simp [hcl] at hm ⊢ <;> omega
            obtain ⟨B1, hQ1, hBB⟩ := split_at_cut hA hpb (hP.symm.trans e)
            obtain ⟨v, hv1, hv2⟩ := allOpen_some hs k (by simp [slots]; exact hk)
            have hv1' : lastOpen k Q1 = some v := by
              simp [slots, hk] at hv1; exact hv1
            rw [hQ1] at hv1'
            have := lastOpen_back h k A B1 v
              (fun b hb => hB b (by rw [hBB]; simp [hb])) (by omega) hv1'
            obtain ⟨I, hI, _, hIm⟩ := (hslot k hk v).mp this
            exact ⟨I, hI, hIm⟩
          · simp at hi'
        · simp at hi'
      · simp at hi'
  · -- if every operand contains h, the first point after the cut is an end point that emits
    intro hall
    have hopen : ∀ k, (hk : k < ns.length) → ∃ v, lastOpen k A = some v ∧ 2 * v ≤ h := by
      intro k hk
      obtain ⟨I, hI, hIm⟩ := hall k hk
      exact ⟨I.start, (hslot k hk I.start).mpr ⟨I, hI, rfl, hIm⟩, hIm.1⟩
    -- B is not empty: the end point of the interval of operand 0 containing h is in it
    obtain ⟨I0, hI0, hI0m⟩ := hall 0 hn
    have hend0 : endPt I0 0 ∈ sortPts (allPoints 0 ns) := by
      rw [mem_sortPts]
      have : endPt I0 0 ∈ (allPoints 0 ns).filter (fun p => p.lid == 0 + 0) := by
        rw [filter_allPoints 0 ns 0 hn]
        exact endPt_mem hI0
      exact (List.mem_filter.mp this).1
    have hend0B : endPt I0 0 ∈ B := by
      rw [hP] at hend0
      rcases List.mem_append.mp hend0 with h1 | h1
      · have := hA _ h1
        rw [((memH_iff_before h I0 0).mp hI0m).2] at this; simp at this
      · exact h1
    cases B with
    | nil => simp at hend0B
    | cons b B' =>
      have hbb : before h b = false := hB b (by simp)
      -- split the successful run at the cut
      rw [hP, interSweep_append] at hF
      cases hSA : interSweep A ⟨List.replicate ns.length none, []⟩ with
      | none => simp [hSA] at hF
      | some stA =>
        simp [hSA] at hF
        have htA : Tracks ns.length A stA := by
          have := sweep_tracks A [] _ stA ht0 hSA; simpa using this
        rw [interSweep_cons] at hF
        cases hSb : interStep stA b with
        | none => simp [hSb] at hF
        | some st1 =>
          -- b is an end point: a start point would find its slot open (or out of range)
          have hbe : b.isEnd = true := by
            cases hbe : b.isEnd with
            | true => rfl
            | false =>
              exfalso
              unfold interStep at hSb
              simp only [hbe, if_true] at hSb
              by_cases hlt : b.lid < ns.length
              · obtain ⟨v, hv, _⟩ := hopen b.lid hlt
                rw [htA.2 b.lid hlt, hv] at hSb
                simp at hSb
              · have : stA.opens[b.lid]? = none := by
                  rw [List.getElem?_eq_none_iff, htA.1]; omega
                rw [this] at hSb; simp at hSb
          -- all slots are open, with values at most h/2
          obtain ⟨s, hs, hsb⟩ := allOpen_of_all (os := slots ns.length A)
            (by simp [slots]; omega)
            (fun k hk => by
              have hk' : k < ns.length := by simpa [slots] using hk
              obtain ⟨v, hv, _⟩ := hopen k hk'
              exact ⟨v, by simp [slots, hk', hv]⟩)
            (h / 2)
            (fun k v hkv => by
              by_cases hk' : k < ns.length
              · obtain ⟨w, hw, hw2⟩ := hopen k hk'
                simp [slots, hk', hw] at hkv
                omega
              · simp [slots, hk'] at hkv)
          have hcond : b.pos > s ∨ b.closed = true := by
            unfold before at hbb
            cases hcl : b.closed with
            | true => exact Or.inr rfl
            | false =>
              simp [hbe, hcl] at hbb
              exact Or.inl (by omega)
          have hemit : (⟨s, b.pos, b.closed⟩ : Interval) ∈ emitAt ns.length A b := by
            unfold emitAt
            simp [hbe, hs, hcond]
          refine ⟨⟨s, b.pos, b.closed⟩, ?_, ?_⟩
          · have := (hout ⟨s, b.pos, b.closed⟩).mpr
              (Or.inr ⟨A, b, B', hP, by simpa using hemit⟩)
            simpa using this
          · unfold memH; simp only
            unfold before at hbb
            cases hcl : b.closed <;> simp [hbe, hcl] at hbb ⊢ <;> omega

end Starcal.Ival
