/-! Starcal: Ethiopian calendar (ethiopian.go) with the planned repair `Div(date.Year, 4)`;
    the unrepaired ToJd is kept as `toJdOld` with a `decide` witness of the defect. -/
namespace Starcal.Ethiopian

structure Date where
  year : Int
  month : Int
  day : Int
deriving DecidableEq, Repr

def Epoch : Int := 1724235

def isLeap (y : Int) : Bool := (y + 1) % 4 == 0

/-- repaired: floor division -/
def toJd (d : Date) : Int := Epoch + 365 * (d.year - 1) + d.year / 4 + (d.month - 1) * 30 + d.day - 15

/-- as written today: Go's truncating `/` -/
def toJdOld (d : Date) : Int :=
  Epoch + 365 * (d.year - 1) + Int.tdiv d.year 4 + (d.month - 1) * 30 + d.day - 15

def monthLen (y m : Int) : Int := if m = 12 then (if isLeap y then 36 else 35) else 30

def jdToWith (tj : Date → Int) (jd : Int) : Date :=
  let quad := (jd - Epoch) / 1461
  let dquad := (jd - Epoch) % 1461
  let yindex := if 3 < dquad / 365 then 3 else dquad / 365
  let year := quad * 4 + yindex + 1
  let yearday := jd - tj ⟨year, 1, 1⟩
  let month := yearday / 30 + 1          -- yearday ≥ 0, so Go's / and % agree with floor
  let day := yearday % 30 + 1
  let (month, day) := if month = 13 then (month - 1, day + 30) else (month, day)
  if month = 12 then
    let mLen : Int := if isLeap year then 36 else 35
    if day > mLen then ⟨year + 1, 1, day - mLen⟩ else ⟨year, month, day⟩
  else ⟨year, month, day⟩

def jdTo := jdToWith toJd
def jdToOld := jdToWith toJdOld

def WF (d : Date) : Prop := 1 ≤ d.month ∧ d.month ≤ 12 ∧ 1 ≤ d.day ∧ d.day ≤ monthLen d.year d.month

/-- the defect in the unrepaired code: a negative-year day does not round-trip (found by the sweep) -/
example : toJdOld (jdToOld (-39999381)) = -39999382 := by decide
/-- and the repaired code does -/
example : toJd (jdTo (-39999381)) = -39999381 := by decide
/-- C03 anchor -/
example : jdTo 1724221 = ⟨1, 1, 1⟩ := by decide

theorem yearStart (q yi : Int) (h0 : 0 ≤ yi) (h3 : yi ≤ 3) :
    toJd ⟨q * 4 + yi + 1, 1, 1⟩ = Epoch + 1461 * q + 365 * yi + (if yi = 3 then 1 else 0) - 14 := by
  unfold toJd
  simp only
  have : (q * 4 + yi + 1) / 4 = q + (if yi = 3 then 1 else 0) := by split <;> omega
  rw [this]; split <;> omega

theorem leap_iff (q yi : Int) (h0 : 0 ≤ yi) (h3 : yi ≤ 3) :
    isLeap (q * 4 + yi + 1) = decide (yi = 2) := by
  unfold isLeap
  by_cases h : yi = 2
  · subst h
    have : (q * 4 + 2 + 1 + 1) % 4 = 0 := by omega
    simp [this]
  · have : (q * 4 + yi + 1 + 1) % 4 ≠ 0 := by omega
    simp [this, h]

theorem toJd_eq (y m d : Int) : toJd ⟨y, m, d⟩ = toJd ⟨y, 1, 1⟩ + (m - 1) * 30 + d - 1 := by
  unfold toJd; simp only; omega

theorem jdTo_spec (jd : Int) : WF (jdTo jd) ∧ toJd (jdTo jd) = jd := by
  unfold jdTo jdToWith
  simp only
  generalize hq : (jd - Epoch) / 1461 = q
  generalize hr : (jd - Epoch) % 1461 = r
  have hr0 : 0 ≤ r ∧ r < 1461 := by omega
  have hjd : jd = Epoch + 1461 * q + r := by omega
  generalize hyi : (if 3 < r / 365 then 3 else r / 365) = yi
  have hyi0 : 0 ≤ yi ∧ yi ≤ 3 ∧ 365 * yi ≤ r ∧ (yi < 3 → r < 365 * yi + 365) := by
    rw [← hyi]; split <;> omega
  rw [yearStart q yi hyi0.1 hyi0.2.1]
  have hleap := leap_iff q yi hyi0.1 hyi0.2.1
  have hnext := yearStart q (yi) hyi0.1 hyi0.2.1
  generalize hyd : jd - (Epoch + 1461 * q + 365 * yi + (if yi = 3 then 1 else 0) - 14) = yd
  have hyd0 : 13 ≤ yd ∧ yd < 379 ∧ yd = r - 365 * yi - (if yi = 3 then 1 else 0) + 14 := by
    split at hyd <;> split <;> omega
  generalize hmo : yd / 30 + 1 = mo
  generalize hda : yd % 30 + 1 = da
  have hmo0 : 1 ≤ mo ∧ mo ≤ 13 ∧ 1 ≤ da ∧ da ≤ 30 ∧ yd = 30 * (mo - 1) + da - 1 := by omega
  -- year length
  have hylen : ∀ ylen : Int, ylen = (if yi = 2 then 366 else 365) →
      toJd ⟨q * 4 + yi + 1 + 1, 1, 1⟩ = toJd ⟨q * 4 + yi + 1, 1, 1⟩ + ylen := by
    intro ylen hy
    unfold toJd; simp only
    have : (q * 4 + yi + 1 + 1) / 4 = (q * 4 + yi + 1) / 4 + (if yi = 2 then 1 else 0) := by
      split <;> omega
    rw [this, hy]; split <;> omega
  by_cases h13 : mo = 13
  · subst h13
    simp only [if_true]
    have e12 : (13:Int) - 1 = 12 := by omega
    simp only [e12, if_true, hleap]
    by_cases hl : yi = 2
    · subst hl
      have hL : isLeap (q * 4 + 2 + 1) = true := by rw [hleap]; simp
      simp only [decide_true, if_true]
      by_cases hov : da + 30 > 36
      · simp only [hov, if_true]
        refine ⟨⟨by simp, by simp, by simp only; omega, by simp [monthLen]; omega⟩, ?_⟩
        have := hylen 366 (by simp)
        rw [toJd_eq, this, yearStart q 2 (by omega) (by omega)]
        simp at hyd0 ⊢; omega
      · simp only [hov, if_false]
        refine ⟨⟨by simp, by simp, by simp only; omega, ?_⟩, ?_⟩
        · simp only [monthLen, if_true, hL]; omega
        · rw [toJd_eq, yearStart q 2 (by omega) (by omega)]
          simp at hyd0 ⊢; omega
    · simp only [hl, decide_false, Bool.false_eq_true, if_false]
      by_cases hov : da + 30 > 35
      · simp only [hov, if_true]
        refine ⟨⟨by simp, by simp, by simp only; omega, by simp [monthLen]; omega⟩, ?_⟩
        have := hylen 365 (by simp [hl])
        rw [toJd_eq, this, yearStart q yi hyi0.1 hyi0.2.1]; split <;> omega
      · simp only [hov, if_false]
        refine ⟨⟨by simp, by simp, by simp only; omega, ?_⟩, ?_⟩
        · simp only [monthLen, if_true, hleap, hl, decide_false, Bool.false_eq_true, if_false]; omega
        · rw [toJd_eq, yearStart q yi hyi0.1 hyi0.2.1]; split <;> omega
  · simp only [h13, if_false]
    by_cases h12 : mo = 12
    · subst h12
      simp only [if_true, hleap]
      have hda35 : ¬ da > (if decide (yi = 2) = true then 36 else 35) := by split <;> omega
      simp only [hda35, if_false]
      refine ⟨⟨by simp, by simp, by simp only; omega, ?_⟩, ?_⟩
      · simp only [monthLen, if_true, hleap]; split <;> omega
      · rw [toJd_eq, yearStart q yi hyi0.1 hyi0.2.1]; split <;> omega
    · simp only [h12, if_false]
      refine ⟨⟨by simp only; omega, by simp only; omega, by simp only; omega, ?_⟩, ?_⟩
      · simp only [monthLen, h12, if_false]; omega
      · rw [toJd_eq, yearStart q yi hyi0.1 hyi0.2.1]; split <;> omega

end Starcal.Ethiopian

#print axioms Starcal.Ethiopian.jdTo_spec
