import Starcal.RaceA
/-! # Atomicity of two-phase, lock-disciplined operations (the linearizability step of C16)

A small-step machine with DATA: threads run operations (action sequences) on shared sets under
reader/writer locks; a read access feeds the set's current value into the thread's local state, a
write access replaces it. If every operation satisfies the access discipline (`discA`) and is
two-phase (no acquisition and no access after its first release), then every execution is
equivalent to running the operations one at a time, each atomically at the moment of its first
release: same final memory, same local results. That moment lies between the operation's first
action and its return, so the serial order is consistent with real time.

The lock here is the plain reader/writer lock (a reader waits for a writer that HOLDS the lock, a
writer waits for every holder). Go's writer-preferring lock only removes schedules (a reader also
waits for an announced writer), so every execution of the machine of `Lock.lean` is an execution of
this one, with the announcement as a stutter step: a safety statement proved here covers it. -/
namespace Starcal.Serial
open Starcal.Lock

def upd {α : Type} (f : Nat → α) (i : Nat) (v : α) : Nat → α := fun j => if j = i then v else f j

@[simp] theorem upd_same {α : Type} (f : Nat → α) (i : Nat) (v : α) : upd f i v i = v := by simp [upd]
theorem upd_other {α : Type} (f : Nat → α) (i j : Nat) (v : α) (h : j ≠ i) : upd f i v j = f j := by simp [upd, h]

/-- what an access does: a read of set `x` holding `d` updates the local state; a write also
    produces the set's new contents -/
structure Sem (D L : Type) where
  rd : L → Nat → D → L
  wr : L → Nat → D → L × D

section
variable {D L : Type}

/-- run an action sequence atomically (lock actions do nothing) -/
def exec (S : Sem D L) : List Act → L → (Nat → D) → L × (Nat → D)
  | [], l, m => (l, m)
  | .access x false :: r, l, m => exec S r (S.rd l x (m x)) m
  | .access x true :: r, l, m => exec S r (S.wr l x (m x)).1 (upd m x (S.wr l x (m x)).2)
  | .rlock _ :: r, l, m => exec S r l m
  | .wlock _ :: r, l, m => exec S r l m
  | .runlock _ :: r, l, m => exec S r l m
  | .unlock _ :: r, l, m => exec S r l m

def acqOf : Act → Option (Nat × Bool)
  | .rlock x => some (x, false)
  | .wlock x => some (x, true)
  | _ => none

def relOf : Act → Option (Nat × Bool)
  | .runlock x => some (x, false)
  | .unlock x => some (x, true)
  | _ => none

def allRel (l : List Act) : Bool := l.all (fun a => (relOf a).isSome)

/-- two-phase: acquisitions and accesses, then at least one release, then only releases -/
def twoPh : List Act → Bool
  | [] => false
  | a :: r => if (relOf a).isSome then allRel r else twoPh r

def touches (l : List Act) (x : Nat) : Prop := ∃ w, Act.access x w ∈ l
def writes (l : List Act) (x : Nat) : Prop := Act.access x true ∈ l
instance (l : List Act) (x : Nat) : Decidable (writes l x) := inferInstanceAs (Decidable (Act.access x true ∈ l))

theorem exec_append (S : Sem D L) (a b : List Act) (l : L) (m : Nat → D) :
    exec S (a ++ b) l m = exec S b (exec S a l m).1 (exec S a l m).2 := by
  induction a generalizing l m with
  | nil => rfl
  | cons x xs ih =>
    cases x with
    | access y w => cases w <;> simp [exec, ih]
    | rlock y => simp [exec, ih]
    | wlock y => simp [exec, ih]
    | runlock y => simp [exec, ih]
    | unlock y => simp [exec, ih]

theorem exec_allRel (S : Sem D L) (c : List Act) (h : allRel c = true) (l : L) (m : Nat → D) : exec S c l m = (l, m) := by
  induction c with
  | nil => rfl
  | cons a r ih =>
    have h' : allRel r = true := by simp [allRel] at h ⊢; exact h.2
    have ha : (relOf a).isSome = true := by simp [allRel] at h; exact h.1
    cases a <;> simp [relOf] at ha <;> simp [exec, ih h']

theorem exec_untouched (S : Sem D L) (c : List Act) (l : L) (m : Nat → D) (x : Nat) (h : ¬ writes c x) :
    (exec S c l m).2 x = m x := by
  induction c generalizing l m with
  | nil => rfl
  | cons a r ih =>
    have hr : ¬ writes r x := fun hw => h (List.mem_cons_of_mem _ hw)
    cases a with
    | access y w =>
      cases w with
      | false => simp [exec, ih _ _ hr]
      | true =>
        have hxy : x ≠ y := by intro e; subst e; exact h (by simp [writes])
        simp [exec, ih _ _ hr, upd, hxy]
    | rlock y => simp [exec, ih _ _ hr]
    | wlock y => simp [exec, ih _ _ hr]
    | runlock y => simp [exec, ih _ _ hr]
    | unlock y => simp [exec, ih _ _ hr]

/-- frame: the effect of a sequence depends only on the sets it touches -/
theorem exec_frame (S : Sem D L) (c : List Act) (l : L) (m1 m2 : Nat → D) (h : ∀ x, touches c x → m1 x = m2 x) :
    (exec S c l m1).1 = (exec S c l m2).1 ∧ ∀ x, touches c x → (exec S c l m1).2 x = (exec S c l m2).2 x := by
  induction c generalizing l m1 m2 with
  | nil => exact ⟨rfl, fun x hx => by obtain ⟨w, hw⟩ := hx; simp at hw⟩
  | cons a r ih =>
    have hsub : ∀ x, touches r x → touches (a :: r) x := fun x ⟨w, hw⟩ => ⟨w, List.mem_cons_of_mem _ hw⟩
    -- a set touched by the head only, not by the rest, keeps the head's value
    cases a with
    | access y w =>
      have hy : m1 y = m2 y := h y ⟨w, by simp⟩
      cases w with
      | false =>
        simp only [exec]
        rw [hy]
        obtain ⟨i1, i2⟩ := ih (S.rd l y (m2 y)) m1 m2 (fun x hx => h x (hsub x hx))
        refine ⟨i1, ?_⟩
        intro x hx
        by_cases hxr : touches r x
        · exact i2 x hxr
        · have nw : ¬ writes r x := fun hw => hxr ⟨true, hw⟩
          rw [exec_untouched S r _ m1 x nw, exec_untouched S r _ m2 x nw]
          exact h x hx
      | true =>
        simp only [exec]
        rw [hy]
        have hagree : ∀ x, touches r x → upd m1 y (S.wr l y (m2 y)).2 x = upd m2 y (S.wr l y (m2 y)).2 x := by
          intro x hx
          by_cases e : x = y
          · subst e; simp
          · simp [upd, e]; exact h x (hsub x hx)
        obtain ⟨i1, i2⟩ := ih (S.wr l y (m2 y)).1 _ _ hagree
        refine ⟨i1, ?_⟩
        intro x hx
        by_cases hxr : touches r x
        · exact i2 x hxr
        · have nw : ¬ writes r x := fun hw => hxr ⟨true, hw⟩
          rw [exec_untouched S r _ _ x nw, exec_untouched S r _ _ x nw]
          by_cases e : x = y
          · subst e; simp
          · simp [upd, e]; exact h x hx
    | rlock y =>
      simp only [exec]
      obtain ⟨i1, i2⟩ := ih l m1 m2 (fun x hx => h x (hsub x hx))
      exact ⟨i1, fun x ⟨w, hw⟩ => i2 x ⟨w, by simpa using hw⟩⟩
    | wlock y =>
      simp only [exec]
      obtain ⟨i1, i2⟩ := ih l m1 m2 (fun x hx => h x (hsub x hx))
      exact ⟨i1, fun x ⟨w, hw⟩ => i2 x ⟨w, by simpa using hw⟩⟩
    | runlock y =>
      simp only [exec]
      obtain ⟨i1, i2⟩ := ih l m1 m2 (fun x hx => h x (hsub x hx))
      exact ⟨i1, fun x ⟨w, hw⟩ => i2 x ⟨w, by simpa using hw⟩⟩
    | unlock y =>
      simp only [exec]
      obtain ⟨i1, i2⟩ := ih l m1 m2 (fun x hx => h x (hsub x hx))
      exact ⟨i1, fun x ⟨w, hw⟩ => i2 x ⟨w, by simpa using hw⟩⟩

/-! ## The concurrent machine -/

structure Th (L : Type) where
  prog : List (List Act)      -- remaining operations; the head is the rest of the current one
  held : List (Nat × Bool)
  loc : L
  -- ghost (never read by the step relation's guards):
  pre : List Act              -- the executed part of the current operation
  loc0 : L                    -- the local state at the start of the current operation
  com : Bool                  -- the current operation has released something

structure St (D L : Type) where
  th : Nat → Th L
  mem : Nat → D
  -- ghost: the atomic machine's memory and the order in which operations took effect
  amem : Nat → D
  sched : List Nat

inductive Step (S : Sem D L) : St D L → St D L → Prop
  | acq (s : St D L) (t : Nat) (a : Act) (c : List Act) (ps : List (List Act)) (x : Nat) (b : Bool) :
      (s.th t).prog = (a :: c) :: ps → acqOf a = some (x, b) →
      (∀ u, u ≠ t → (x, true) ∉ (s.th u).held ∧ (b = true → (x, false) ∉ (s.th u).held)) →
      Step S s { s with th := upd s.th t { s.th t with prog := c :: ps, held := (x, b) :: (s.th t).held, pre := (s.th t).pre ++ [a] } }
  | rel (s : St D L) (t : Nat) (a : Act) (c : List Act) (ps : List (List Act)) (x : Nat) (b : Bool) :
      (s.th t).prog = (a :: c) :: ps → relOf a = some (x, b) →
      Step S s { s with
        th := upd s.th t { s.th t with prog := c :: ps, held := (s.th t).held.erase (x, b), pre := (s.th t).pre ++ [a], com := true },
        amem := if (s.th t).com then s.amem else (exec S (s.th t).pre (s.th t).loc0 s.amem).2,
        sched := if (s.th t).com then s.sched else s.sched ++ [t] }
  | read (s : St D L) (t : Nat) (c : List Act) (ps : List (List Act)) (x : Nat) :
      (s.th t).prog = (.access x false :: c) :: ps →
      Step S s { s with th := upd s.th t { s.th t with prog := c :: ps, loc := S.rd (s.th t).loc x (s.mem x), pre := (s.th t).pre ++ [.access x false] } }
  | write (s : St D L) (t : Nat) (c : List Act) (ps : List (List Act)) (x : Nat) :
      (s.th t).prog = (.access x true :: c) :: ps →
      Step S s { s with
        th := upd s.th t { s.th t with prog := c :: ps, loc := (S.wr (s.th t).loc x (s.mem x)).1, pre := (s.th t).pre ++ [.access x true] },
        mem := upd s.mem x (S.wr (s.th t).loc x (s.mem x)).2 }
  | ret (s : St D L) (t : Nat) (ps : List (List Act)) :
      (s.th t).prog = [] :: ps →
      Step S s { s with th := upd s.th t { s.th t with prog := ps, pre := [], loc0 := (s.th t).loc, com := false } }

inductive Reach (S : Sem D L) : St D L → St D L → Prop
  | refl (s) : Reach S s s
  | step {s s' s''} : Reach S s s' → Step S s' s'' → Reach S s s''

/-! ## The atomic machine -/

structure AS (D L : Type) where
  progs : Nat → List (List Act)
  loc : Nat → L
  mem : Nat → D

/-- thread `t` runs its next operation atomically -/
def runOp (S : Sem D L) (a : AS D L) (t : Nat) : AS D L :=
  match a.progs t with
  | [] => a
  | c :: ps => { progs := upd a.progs t ps, loc := upd a.loc t (exec S c (a.loc t) a.mem).1, mem := (exec S c (a.loc t) a.mem).2 }

def runSerial (S : Sem D L) (a : AS D L) (sched : List Nat) : AS D L := sched.foldl (runOp S) a

/-- the atomic machine's view of a thread: an operation that has taken effect is gone from its
    program and its local result is in place -/
def aprog (th : Th L) : List (List Act) :=
  match th.prog with
  | [] => []
  | c :: ps => if th.com then ps else (th.pre ++ c) :: ps

def aloc (th : Th L) : L := if th.com then th.loc else th.loc0

/-! ## Invariants -/

/-- per-thread static shape -/
def Shape (th : Th L) : Prop :=
  match th.prog with
  | [] => th.held = [] ∧ th.com = false ∧ th.pre = [] ∧ th.loc0 = th.loc
  | c :: ps => discA th.held c = true ∧ (if th.com then allRel c = true else twoPh c = true) ∧
      ∀ d ∈ ps, discA [] d = true ∧ twoPh d = true

/-- what an uncommitted operation has touched so far it still holds, in the required mode -/
def Holds (th : Th L) : Prop :=
  th.com = false → ∀ x w, Act.access x w ∈ th.pre → (x, true) ∈ th.held ∨ (w = false ∧ (x, false) ∈ th.held)

def Excl (s : St D L) : Prop :=
  ∀ t u x b, t ≠ u → (x, true) ∈ (s.th t).held → (x, b) ∉ (s.th u).held

/-- an uncommitted operation, replayed atomically on the atomic memory, gives the thread's local
    state and exactly the concrete contents of the sets it has written -/
def Sim (S : Sem D L) (s : St D L) (t : Nat) : Prop :=
  (s.th t).com = false →
    (exec S (s.th t).pre (s.th t).loc0 s.amem).1 = (s.th t).loc ∧
    ∀ x, (exec S (s.th t).pre (s.th t).loc0 s.amem).2 x = if writes (s.th t).pre x then s.mem x else s.amem x

/-- the two memories agree on every set no uncommitted operation has written -/
def Agree (s : St D L) : Prop :=
  ∀ x, (∀ t, (s.th t).com = false → ¬ writes (s.th t).pre x) → s.mem x = s.amem x

def Lin (S : Sem D L) (a0 : AS D L) (s : St D L) : Prop :=
  runSerial S a0 s.sched = { progs := fun t => aprog (s.th t), loc := fun t => aloc (s.th t), mem := s.amem }

structure Inv (S : Sem D L) (a0 : AS D L) (s : St D L) : Prop where
  shape : ∀ t, Shape (s.th t)
  holds : ∀ t, Holds (s.th t)
  excl : Excl s
  sim : ∀ t, Sim S s t
  agree : Agree s
  lin : Lin S a0 s

/-! ## Small facts about actions -/

theorem rel_none_of_acq {a : Act} {p : Nat × Bool} (h : acqOf a = some p) : relOf a = none := by
  cases a <;> simp [acqOf] at h <;> rfl

theorem not_access_of_acq {a : Act} {p : Nat × Bool} (h : acqOf a = some p) (x : Nat) (w : Bool) : a ≠ .access x w := by
  intro e; subst e; simp [acqOf] at h

theorem not_access_of_rel {a : Act} {p : Nat × Bool} (h : relOf a = some p) (x : Nat) (w : Bool) : a ≠ .access x w := by
  intro e; subst e; simp [relOf] at h

theorem discA_acq {a : Act} {x : Nat} {b : Bool} (h : acqOf a = some (x, b)) (H : List (Nat × Bool)) (c : List Act) :
    discA H (a :: c) = discA ((x, b) :: H) c := by
  cases a <;> simp [acqOf] at h <;> (obtain ⟨rfl, rfl⟩ := h; rfl)

theorem discA_rel {a : Act} {x : Nat} {b : Bool} (h : relOf a = some (x, b)) (H : List (Nat × Bool)) (c : List Act) :
    discA H (a :: c) = (H.contains (x, b) && discA (H.erase (x, b)) c) := by
  cases a <;> simp [relOf] at h <;> (obtain ⟨rfl, rfl⟩ := h; rfl)

theorem twoPh_cons_nonrel {a : Act} (h : relOf a = none) (c : List Act) : twoPh (a :: c) = twoPh c := by
  simp [twoPh, h]

theorem twoPh_cons_rel {a : Act} {p : Nat × Bool} (h : relOf a = some p) (c : List Act) : twoPh (a :: c) = allRel c := by
  simp [twoPh, h]

theorem allRel_cons (a : Act) (c : List Act) : allRel (a :: c) = ((relOf a).isSome && allRel c) := by
  simp [allRel]

theorem exec_snoc_lock (S : Sem D L) (pre : List Act) (a : Act) (h : ∀ x w, a ≠ .access x w) (l : L) (m : Nat → D) :
    exec S (pre ++ [a]) l m = exec S pre l m := by
  rw [exec_append]
  cases a with
  | access x w => exact absurd rfl (h x w)
  | rlock _ => rfl
  | wlock _ => rfl
  | runlock _ => rfl
  | unlock _ => rfl

theorem writes_snoc (pre : List Act) (a : Act) (x : Nat) : writes (pre ++ [a]) x ↔ writes pre x ∨ a = .access x true := by
  simp [writes, eq_comm]

theorem writes_snoc_lock (pre : List Act) (a : Act) (h : ∀ x w, a ≠ .access x w) (x : Nat) : writes (pre ++ [a]) x ↔ writes pre x := by
  rw [writes_snoc]
  constructor
  · rintro (h1 | h1)
    · exact h1
    · exact absurd h1 (h x true)
  · exact Or.inl

/-! ## Preservation -/

theorem inv_acq (S : Sem D L) (a0 : AS D L) (s : St D L) (h : Inv S a0 s) (t : Nat) (a : Act) (c : List Act)
    (ps : List (List Act)) (x : Nat) (b : Bool) (hp : (s.th t).prog = (a :: c) :: ps) (ha : acqOf a = some (x, b))
    (hen : ∀ u, u ≠ t → (x, true) ∉ (s.th u).held ∧ (b = true → (x, false) ∉ (s.th u).held)) :
    Inv S a0 { s with th := upd s.th t { s.th t with prog := c :: ps, held := (x, b) :: (s.th t).held, pre := (s.th t).pre ++ [a] } } := by
  have hsh := h.shape t
  unfold Shape at hsh
  rw [hp] at hsh
  obtain ⟨hd, hph, hps⟩ := hsh
  have hrn := rel_none_of_acq ha
  have hna := not_access_of_acq ha
  have hcom : (s.th t).com = false := by
    cases hc : (s.th t).com with
    | false => rfl
    | true => rw [hc] at hph; simp [allRel_cons, hrn] at hph
  rw [hcom] at hph
  simp only [Bool.false_eq_true, if_false] at hph
  constructor
  · intro u
    by_cases hu : u = t
    · subst hu
      simp only [upd_same]
      unfold Shape
      simp only [hcom, Bool.false_eq_true, if_false]
      exact ⟨by rw [← discA_acq ha]; exact hd, by rw [← twoPh_cons_nonrel hrn]; exact hph, hps⟩
    · simp only [upd_other _ _ _ _ hu]; exact h.shape u
  · intro u
    by_cases hu : u = t
    · subst hu
      simp only [upd_same]
      intro _ y w hy
      rcases List.mem_append.mp hy with hy | hy
      · rcases h.holds u hcom y w hy with h1 | ⟨h1, h2⟩
        · exact Or.inl (List.mem_cons_of_mem _ h1)
        · exact Or.inr ⟨h1, List.mem_cons_of_mem _ h2⟩
      · simp at hy; exact absurd hy.symm (hna y w)
    · simp only [upd_other _ _ _ _ hu]; exact h.holds u
  · intro t1 t2 y b' hne hy
    by_cases h1 : t1 = t
    · subst h1
      have h2 : t2 ≠ t1 := fun e => hne e.symm
      simp only [upd_same] at hy
      simp only [upd_other _ _ _ _ h2]
      rcases List.mem_cons.mp hy with e | hy
      · simp only [Prod.mk.injEq] at e
        obtain ⟨rfl, rfl⟩ := e
        cases b' with
        | true => exact (hen t2 h2).1
        | false => exact (hen t2 h2).2 rfl
      · exact h.excl t1 t2 y b' hne hy
    · simp only [upd_other _ _ _ _ h1] at hy
      by_cases h2 : t2 = t
      · subst h2
        simp only [upd_same]
        intro hm
        rcases List.mem_cons.mp hm with e | hm
        · simp only [Prod.mk.injEq] at e
          obtain ⟨rfl, rfl⟩ := e
          exact (hen t1 h1).1 hy
        · exact h.excl t1 t2 y b' hne hy hm
      · simp only [upd_other _ _ _ _ h2]; exact h.excl t1 t2 y b' hne hy
  · intro u
    by_cases hu : u = t
    · subst hu
      unfold Sim
      simp only [upd_same]
      intro _
      rw [exec_snoc_lock S _ a hna]
      obtain ⟨s1, s2⟩ := h.sim u hcom
      refine ⟨s1, ?_⟩
      intro y
      rw [s2 y]
      simp only [writes_snoc_lock _ a hna y]
    · unfold Sim; simp only [upd_other _ _ _ _ hu]; exact h.sim u
  · intro y hy
    apply h.agree y
    intro u hcu hw
    by_cases hu : u = t
    · subst hu
      have := hy u (by simp only [upd_same]; exact hcu)
      simp only [upd_same] at this
      exact this ((writes_snoc_lock _ a hna y).mpr hw)
    · have := hy u (by simp only [upd_other _ _ _ _ hu]; exact hcu)
      simp only [upd_other _ _ _ _ hu] at this
      exact this hw
  · have hl := h.lin
    unfold Lin at hl ⊢
    simp only
    rw [hl]
    congr 1
    · funext u
      by_cases hu : u = t
      · subst hu
        simp only [upd_same]
        unfold aprog
        simp only [hp, hcom, Bool.false_eq_true, if_false, List.append_assoc, List.singleton_append]
      · simp only [upd_other _ _ _ _ hu]
    · funext u
      by_cases hu : u = t
      · subst hu; simp only [upd_same]; unfold aloc; rfl
      · simp only [upd_other _ _ _ _ hu]

theorem discA_access (H : List (Nat × Bool)) (x : Nat) (w : Bool) (c : List Act) :
    discA H (.access x w :: c) = ((H.contains (x, true) || (!w && H.contains (x, false))) && discA H c) := rfl

/-- the value an uncommitted operation sees in a set it holds is the value its atomic replay sees -/
theorem sim_reads_mem (S : Sem D L) (a0 : AS D L) (s : St D L) (h : Inv S a0 s) (t : Nat) (hcom : (s.th t).com = false)
    (x : Nat) (hheld : ∃ b, (x, b) ∈ (s.th t).held) :
    (exec S (s.th t).pre (s.th t).loc0 s.amem).2 x = s.mem x := by
  obtain ⟨_, s2⟩ := h.sim t hcom
  rw [s2 x]
  split
  · rfl
  · rename_i hnw
    symm
    apply h.agree x
    intro u hcu hw
    by_cases hu : u = t
    · subst hu; exact hnw hw
    · rcases h.holds u hcu x true hw with h1 | ⟨h1, _⟩
      · obtain ⟨b, hb⟩ := hheld
        exact h.excl u t x b hu h1 hb
      · simp at h1

theorem inv_access (S : Sem D L) (a0 : AS D L) (s : St D L) (h : Inv S a0 s) (t : Nat) (w : Bool) (c : List Act)
    (ps : List (List Act)) (x : Nat) (hp : (s.th t).prog = (.access x w :: c) :: ps) :
    Inv S a0 { s with
      th := upd s.th t { s.th t with
        prog := c :: ps
        loc := (if w then (S.wr (s.th t).loc x (s.mem x)).1 else S.rd (s.th t).loc x (s.mem x))
        pre := (s.th t).pre ++ [.access x w] },
      mem := (if w then upd s.mem x (S.wr (s.th t).loc x (s.mem x)).2 else s.mem) } := by
  have hsh := h.shape t
  unfold Shape at hsh
  rw [hp] at hsh
  obtain ⟨hd, hph, hps⟩ := hsh
  have hcom : (s.th t).com = false := by
    cases hc : (s.th t).com with
    | false => rfl
    | true => rw [hc] at hph; simp [allRel_cons, relOf] at hph
  rw [hcom] at hph
  simp only [Bool.false_eq_true, if_false] at hph
  rw [discA_access, Bool.and_eq_true] at hd
  obtain ⟨hhead, hd⟩ := hd
  have hheld : (x, true) ∈ (s.th t).held ∨ (w = false ∧ (x, false) ∈ (s.th t).held) := by
    simp at hhead
    rcases hhead with h1 | ⟨h1, h2⟩
    · exact Or.inl h1
    · exact Or.inr ⟨h1, h2⟩
  have hheld' : ∃ b, (x, b) ∈ (s.th t).held := by
    rcases hheld with h1 | ⟨_, h1⟩
    · exact ⟨true, h1⟩
    · exact ⟨false, h1⟩
  have hval := sim_reads_mem S a0 s h t hcom x hheld'
  obtain ⟨s1, s2⟩ := h.sim t hcom
  have hwr : w = true → (x, true) ∈ (s.th t).held := by
    intro hw
    rcases hheld with h1 | ⟨h1, _⟩
    · exact h1
    · rw [hw] at h1; simp at h1
  constructor
  · intro u
    by_cases hu : u = t
    · subst hu
      simp only [upd_same]
      unfold Shape
      simp only [hcom, Bool.false_eq_true, if_false]
      exact ⟨hd, by rw [← twoPh_cons_nonrel (a := .access x w) rfl]; exact hph, hps⟩
    · simp only [upd_other _ _ _ _ hu]; exact h.shape u
  · intro u
    by_cases hu : u = t
    · subst hu
      simp only [upd_same]
      intro _ y w' hy
      rcases List.mem_append.mp hy with hy | hy
      · exact h.holds u hcom y w' hy
      · simp at hy
        obtain ⟨rfl, rfl⟩ := hy
        exact hheld
    · simp only [upd_other _ _ _ _ hu]; exact h.holds u
  · intro t1 t2 y b' hne hy
    have e1 : ∀ v, ((upd s.th t { s.th t with
        prog := c :: ps
        loc := (if w then (S.wr (s.th t).loc x (s.mem x)).1 else S.rd (s.th t).loc x (s.mem x))
        pre := (s.th t).pre ++ [.access x w] }) v).held = (s.th v).held := by
      intro v
      by_cases hv : v = t
      · subst hv; simp only [upd_same]
      · simp only [upd_other _ _ _ _ hv]
    simp only [e1] at hy ⊢
    exact h.excl t1 t2 y b' hne hy
  · intro u
    by_cases hu : u = t
    · subst hu
      unfold Sim
      simp only [upd_same]
      intro _
      rw [exec_append]
      cases w with
      | false =>
        simp only [exec, Bool.false_eq_true, if_false]
        rw [hval, s1]
        refine ⟨rfl, ?_⟩
        intro y
        rw [s2 y]
        have : writes ((s.th u).pre ++ [.access x false]) y ↔ writes (s.th u).pre y := by
          rw [writes_snoc]; simp
        simp only [this]
      | true =>
        simp only [exec, if_true]
        rw [hval, s1]
        refine ⟨rfl, ?_⟩
        intro y
        by_cases hy : y = x
        · subst hy
          have : writes ((s.th u).pre ++ [.access y true]) y := by rw [writes_snoc]; exact Or.inr rfl
          simp [this]
        · have : writes ((s.th u).pre ++ [.access x true]) y ↔ writes (s.th u).pre y := by
            rw [writes_snoc]
            constructor
            · rintro (h1 | h1)
              · exact h1
              · simp only [Act.access.injEq, and_true] at h1; exact absurd h1.symm hy
            · exact Or.inl
          simp only [upd, hy, if_false, this]
          exact s2 y
    · unfold Sim
      simp only [upd_other _ _ _ _ hu]
      intro hcu
      obtain ⟨u1, u2⟩ := h.sim u hcu
      refine ⟨u1, ?_⟩
      intro y
      rw [u2 y]
      cases w with
      | false => simp
      | true =>
        simp only [if_true]
        by_cases hy : y = x
        · subst hy
          split
          · rename_i hw
            exfalso
            rcases h.holds u hcu y true hw with h1 | ⟨h1, _⟩
            · exact h.excl u t y true hu h1 (hwr rfl)
            · simp at h1
          · rfl
        · simp [upd, hy]
  · intro y hy
    have key : ∀ u, (s.th u).com = false → writes (s.th u).pre y → False := by
      intro u hcu hw
      by_cases hu : u = t
      · subst hu
        have := hy u (by simp only [upd_same]; exact hcu)
        simp only [upd_same] at this
        exact this ((writes_snoc _ _ y).mpr (Or.inl hw))
      · have := hy u (by simp only [upd_other _ _ _ _ hu]; exact hcu)
        simp only [upd_other _ _ _ _ hu] at this
        exact this hw
    cases w with
    | false => simp only [Bool.false_eq_true, if_false]; exact h.agree y (fun u hcu hw => key u hcu hw)
    | true =>
      simp only [if_true]
      by_cases hyx : y = x
      · subst hyx
        exfalso
        have := hy t (by simp only [upd_same]; exact hcom)
        simp only [upd_same] at this
        exact this ((writes_snoc _ _ y).mpr (Or.inr rfl))
      · simp only [upd, hyx, if_false]
        exact h.agree y (fun u hcu hw => key u hcu hw)
  · have hl := h.lin
    unfold Lin at hl ⊢
    simp only
    rw [hl]
    congr 1
    · funext u
      by_cases hu : u = t
      · subst hu
        simp only [upd_same]
        unfold aprog
        simp only [hp, hcom, Bool.false_eq_true, if_false, List.append_assoc, List.singleton_append]
      · simp only [upd_other _ _ _ _ hu]
    · funext u
      by_cases hu : u = t
      · subst hu; simp only [upd_same]; unfold aloc; simp only [hcom]; rfl
      · simp only [upd_other _ _ _ _ hu]

theorem touches_holds {th : Th L} (hh : Holds th) (hc : th.com = false) {x : Nat} (ht : touches th.pre x) :
    ∃ b, (x, b) ∈ th.held := by
  obtain ⟨w, hw⟩ := ht
  rcases hh hc x w hw with h1 | ⟨_, h1⟩
  · exact ⟨true, h1⟩
  · exact ⟨false, h1⟩

theorem inv_rel (S : Sem D L) (a0 : AS D L) (s : St D L) (h : Inv S a0 s) (t : Nat) (a : Act) (c : List Act)
    (ps : List (List Act)) (x : Nat) (b : Bool) (hp : (s.th t).prog = (a :: c) :: ps) (ha : relOf a = some (x, b)) :
    Inv S a0 { s with
        th := upd s.th t { s.th t with prog := c :: ps, held := (s.th t).held.erase (x, b), pre := (s.th t).pre ++ [a], com := true },
        amem := if (s.th t).com then s.amem else (exec S (s.th t).pre (s.th t).loc0 s.amem).2,
        sched := if (s.th t).com then s.sched else s.sched ++ [t] } := by
  have hsh := h.shape t
  unfold Shape at hsh
  rw [hp] at hsh
  obtain ⟨hd, hph, hps⟩ := hsh
  rw [discA_rel ha, Bool.and_eq_true] at hd
  have hallc : allRel c = true := by
    cases hc : (s.th t).com with
    | false => rw [hc] at hph; simp only [Bool.false_eq_true, if_false] at hph; rw [twoPh_cons_rel ha] at hph; exact hph
    | true => rw [hc] at hph; simp only [if_true, allRel_cons, Bool.and_eq_true] at hph; exact hph.2
  have hallac : allRel (a :: c) = true := by rw [allRel_cons, ha, hallc]; rfl
  have hheldsub : ∀ p, p ∈ (s.th t).held.erase (x, b) → p ∈ (s.th t).held := fun p hp => List.mem_of_mem_erase hp
  -- the memory of the atomic machine after this step, and what it is on each set
  have hamem : ∀ y, (if (s.th t).com then s.amem else (exec S (s.th t).pre (s.th t).loc0 s.amem).2) y =
      if (s.th t).com = false ∧ writes (s.th t).pre y then s.mem y else s.amem y := by
    intro y
    cases hc : (s.th t).com with
    | true => simp
    | false =>
      simp only [Bool.false_eq_true, if_false, true_and]
      exact (h.sim t hc).2 y
  -- a set touched by another uncommitted operation keeps its atomic value
  have hkeep : ∀ u, u ≠ t → (s.th u).com = false → ∀ y, touches (s.th u).pre y →
      (if (s.th t).com then s.amem else (exec S (s.th t).pre (s.th t).loc0 s.amem).2) y = s.amem y := by
    intro u hu hcu y hty
    rw [hamem y]
    split
    · rename_i hcw
      exfalso
      obtain ⟨b', hb'⟩ := touches_holds (h.holds u) hcu hty
      rcases h.holds t hcw.1 y true hcw.2 with h1 | ⟨h1, _⟩
      · exact h.excl t u y b' (fun e => hu e.symm) h1 hb'
      · simp at h1
    · rfl
  constructor
  · intro u
    by_cases hu : u = t
    · subst hu
      simp only [upd_same]
      unfold Shape
      simp only [if_true]
      exact ⟨hd.2, hallc, hps⟩
    · simp only [upd_other _ _ _ _ hu]; exact h.shape u
  · intro u
    by_cases hu : u = t
    · subst hu
      simp only [upd_same]
      intro hc; simp at hc
    · simp only [upd_other _ _ _ _ hu]; exact h.holds u
  · intro t1 t2 y b' hne hy
    have e1 : ∀ v p, p ∈ ((upd s.th t { s.th t with prog := c :: ps, held := (s.th t).held.erase (x, b), pre := (s.th t).pre ++ [a], com := true }) v).held →
        p ∈ (s.th v).held := by
      intro v p hp
      by_cases hv : v = t
      · subst hv; simp only [upd_same] at hp; exact hheldsub p hp
      · simp only [upd_other _ _ _ _ hv] at hp; exact hp
    intro hm
    exact h.excl t1 t2 y b' hne (e1 _ _ hy) (e1 _ _ hm)
  · intro u
    by_cases hu : u = t
    · subst hu
      unfold Sim
      simp only [upd_same]
      intro hc; simp at hc
    · unfold Sim
      simp only [upd_other _ _ _ _ hu]
      intro hcu
      obtain ⟨u1, u2⟩ := h.sim u hcu
      obtain ⟨f1, f2⟩ := exec_frame S (s.th u).pre (s.th u).loc0 _ s.amem (hkeep u hu hcu)
      refine ⟨by rw [f1]; exact u1, ?_⟩
      intro y
      by_cases hty : touches (s.th u).pre y
      · rw [f2 y hty, u2 y, hkeep u hu hcu y hty]
      · have hnw : ¬ writes (s.th u).pre y := fun hw => hty ⟨true, hw⟩
        rw [exec_untouched S _ _ _ y hnw]
        simp only [hnw, if_false]
  · intro y hy
    simp only
    rw [hamem y]
    split
    · rfl
    · rename_i hcw
      apply h.agree y
      intro u hcu hw
      by_cases hu : u = t
      · subst hu; exact hcw ⟨hcu, hw⟩
      · have := hy u (by simp only [upd_other _ _ _ _ hu]; exact hcu)
        simp only [upd_other _ _ _ _ hu] at this
        exact this hw
  · have hl := h.lin
    unfold Lin at hl ⊢
    simp only
    cases hc : (s.th t).com with
    | true =>
      simp only [if_true]
      rw [hl]
      congr 1
      · funext u
        by_cases hu : u = t
        · subst hu
          simp only [upd_same]
          unfold aprog
          simp only [hp, hc, if_true]
        · simp only [upd_other _ _ _ _ hu]
      · funext u
        by_cases hu : u = t
        · subst hu; simp only [upd_same]; unfold aloc; simp only [hc, if_true]
        · simp only [upd_other _ _ _ _ hu]
    | false =>
      simp only [Bool.false_eq_true, if_false]
      unfold runSerial at hl ⊢
      rw [List.foldl_append, hl]
      simp only [List.foldl_cons, List.foldl_nil]
      unfold runOp
      have hap : aprog (s.th t) = ((s.th t).pre ++ a :: c) :: ps := by
        unfold aprog; simp only [hp, hc, Bool.false_eq_true, if_false]
      have hal : aloc (s.th t) = (s.th t).loc0 := by unfold aloc; simp only [hc, Bool.false_eq_true, if_false]
      simp only [hap, hal]
      have hex : exec S ((s.th t).pre ++ a :: c) (s.th t).loc0 s.amem = exec S (s.th t).pre (s.th t).loc0 s.amem := by
        rw [exec_append, exec_allRel S (a :: c) hallac]
      rw [hex]
      obtain ⟨s1, _⟩ := h.sim t hc
      congr 1
      · funext u
        by_cases hu : u = t
        · subst hu
          simp only [upd_same]
          unfold aprog
          simp only [if_true]
        · simp only [upd_other _ _ _ _ hu]
      · funext u
        by_cases hu : u = t
        · subst hu; simp only [upd_same]; unfold aloc; simp only [if_true]; exact s1
        · simp only [upd_other _ _ _ _ hu]

theorem inv_ret (S : Sem D L) (a0 : AS D L) (s : St D L) (h : Inv S a0 s) (t : Nat) (ps : List (List Act))
    (hp : (s.th t).prog = [] :: ps) :
    Inv S a0 { s with th := upd s.th t { s.th t with prog := ps, pre := [], loc0 := (s.th t).loc, com := false } } := by
  have hsh := h.shape t
  unfold Shape at hsh
  rw [hp] at hsh
  obtain ⟨hd, hph, hps⟩ := hsh
  have hheld : (s.th t).held = [] := by simpa [discA] using hd
  have hcom : (s.th t).com = true := by
    cases hc : (s.th t).com with
    | true => rfl
    | false => rw [hc] at hph; simp [twoPh] at hph
  constructor
  · intro u
    by_cases hu : u = t
    · subst hu
      simp only [upd_same]
      unfold Shape
      cases ps with
      | nil => exact ⟨hheld, rfl, rfl, rfl⟩
      | cons c' ps' =>
        simp only [Bool.false_eq_true, if_false]
        obtain ⟨h1, h2⟩ := hps c' (by simp)
        exact ⟨by rw [hheld]; exact h1, h2, fun d hd' => hps d (List.mem_cons_of_mem _ hd')⟩
    · simp only [upd_other _ _ _ _ hu]; exact h.shape u
  · intro u
    by_cases hu : u = t
    · subst hu
      simp only [upd_same]
      intro _ y w hy
      simp at hy
    · simp only [upd_other _ _ _ _ hu]; exact h.holds u
  · intro t1 t2 y b' hne hy
    have e1 : ∀ v, ((upd s.th t { s.th t with prog := ps, pre := [], loc0 := (s.th t).loc, com := false }) v).held = (s.th v).held := by
      intro v
      by_cases hv : v = t
      · subst hv; simp only [upd_same]
      · simp only [upd_other _ _ _ _ hv]
    simp only [e1] at hy ⊢
    exact h.excl t1 t2 y b' hne hy
  · intro u
    by_cases hu : u = t
    · subst hu
      unfold Sim
      simp only [upd_same]
      intro _
      refine ⟨rfl, ?_⟩
      intro y
      have : ¬ writes [] y := by simp [writes]
      simp only [exec, this, if_false]
    · unfold Sim; simp only [upd_other _ _ _ _ hu]; exact h.sim u
  · intro y hy
    apply h.agree y
    intro u hcu hw
    by_cases hu : u = t
    · subst hu; rw [hcom] at hcu; simp at hcu
    · have := hy u (by simp only [upd_other _ _ _ _ hu]; exact hcu)
      simp only [upd_other _ _ _ _ hu] at this
      exact this hw
  · have hl := h.lin
    unfold Lin at hl ⊢
    simp only
    rw [hl]
    congr 1
    · funext u
      by_cases hu : u = t
      · subst hu
        simp only [upd_same]
        unfold aprog
        simp only [hp, hcom, if_true]
        cases ps with
        | nil => rfl
        | cons c' ps' => simp
      · simp only [upd_other _ _ _ _ hu]
    · funext u
      by_cases hu : u = t
      · subst hu; simp only [upd_same]; unfold aloc; simp only [hcom, if_true, Bool.false_eq_true, if_false]
      · simp only [upd_other _ _ _ _ hu]

theorem inv_step (S : Sem D L) (a0 : AS D L) {s s' : St D L} (h : Inv S a0 s) (hs : Step S s s') : Inv S a0 s' := by
  cases hs with
  | acq t a c ps x b hp ha hen => exact inv_acq S a0 s h t a c ps x b hp ha hen
  | rel t a c ps x b hp ha => exact inv_rel S a0 s h t a c ps x b hp ha
  | read t c ps x hp =>
    have := inv_access S a0 s h t false c ps x hp
    simpa using this
  | write t c ps x hp =>
    have := inv_access S a0 s h t true c ps x hp
    simpa using this
  | ret t ps hp => exact inv_ret S a0 s h t ps hp

theorem inv_reach (S : Sem D L) (a0 : AS D L) {s s' : St D L} (h : Inv S a0 s) (hr : Reach S s s') : Inv S a0 s' := by
  induction hr with
  | refl => exact h
  | step _ hs ih => exact inv_step S a0 ih hs

/-- the initial state: nothing held, nothing executed, both memories equal -/
def init (progs : Nat → List (List Act)) (l0 : Nat → L) (m0 : Nat → D) : St D L :=
  { th := fun t => { prog := progs t, held := [], loc := l0 t, pre := [], loc0 := l0 t, com := false },
    mem := m0, amem := m0, sched := [] }

theorem inv_init (S : Sem D L) (progs : Nat → List (List Act)) (l0 : Nat → L) (m0 : Nat → D)
    (hp : ∀ t, ∀ c ∈ progs t, discA [] c = true ∧ twoPh c = true) :
    Inv S { progs := progs, loc := l0, mem := m0 } (init progs l0 m0) := by
  constructor
  · intro t
    unfold Shape init
    simp only
    cases hpt : progs t with
    | nil => simp
    | cons c ps =>
      simp only [Bool.false_eq_true, if_false]
      have := hp t
      rw [hpt] at this
      exact ⟨(this c (by simp)).1, (this c (by simp)).2, fun d hd => this d (List.mem_cons_of_mem _ hd)⟩
  · intro t _ y w hy
    simp [init] at hy
  · intro t u y b _ hy
    simp [init] at hy
  · intro t _
    simp only [init, exec]
    refine ⟨trivial, ?_⟩
    intro y
    have : ¬ writes [] y := by simp [writes]
    simp only [this, if_false]
  · intro y _
    rfl
  · unfold Lin runSerial
    simp only [init, List.foldl_nil]
    congr 1
    funext t
    unfold aprog
    simp only
    cases progs t with
    | nil => rfl
    | cons c ps => simp

/-- **Atomicity.** If every operation of every thread satisfies the access discipline and is
    two-phase, then in every state in which all threads have finished, the memory and every
    thread's local results are those of the atomic machine running the same operations one at a
    time in the order in which they took effect (`sched`: the order of their first releases). -/
theorem serializable (S : Sem D L) (progs : Nat → List (List Act)) (l0 : Nat → L) (m0 : Nat → D)
    (hp : ∀ t, ∀ c ∈ progs t, discA [] c = true ∧ twoPh c = true)
    (s : St D L) (hr : Reach S (init progs l0 m0) s) (hdone : ∀ t, (s.th t).prog = []) :
    runSerial S { progs := progs, loc := l0, mem := m0 } s.sched =
      { progs := fun _ => [], loc := fun t => (s.th t).loc, mem := s.mem } := by
  have h := inv_reach S _ (inv_init S progs l0 m0 hp) hr
  have hl := h.lin
  unfold Lin at hl
  rw [hl]
  have hsh : ∀ t, (s.th t).held = [] ∧ (s.th t).com = false ∧ (s.th t).pre = [] ∧ (s.th t).loc0 = (s.th t).loc := by
    intro t
    have := h.shape t
    unfold Shape at this
    rw [hdone t] at this
    exact this
  congr 1
  · funext t; unfold aprog; rw [hdone t]
  · funext t; unfold aloc; rw [(hsh t).2.1]; simp only [Bool.false_eq_true, if_false]; exact (hsh t).2.2.2
  · funext x
    symm
    apply h.agree x
    intro t _ hw
    rw [(hsh t).2.2.1] at hw
    simp [writes] at hw

/-! ## The order is consistent with real time -/

theorem runOp_progs (S : Sem D L) (a : AS D L) (t u : Nat) :
    (runOp S a t).progs u = if u = t then (a.progs u).drop 1 else a.progs u := by
  unfold runOp
  by_cases hu : u = t
  · subst hu
    cases h : a.progs u with
    | nil => simp [h]
    | cons c ps => simp [h]
  · cases h : a.progs t with
    | nil => simp [hu]
    | cons c ps => simp [hu, upd]

theorem runSerial_progs (S : Sem D L) (a : AS D L) (sched : List Nat) (u : Nat) :
    (runSerial S a sched).progs u = (a.progs u).drop (sched.count u) := by
  unfold runSerial
  induction sched generalizing a with
  | nil => simp
  | cons t r ih =>
    simp only [List.foldl_cons]
    rw [ih, runOp_progs]
    by_cases hu : u = t
    · subst hu; simp [List.count_cons_self, Nat.add_comm]
    · have : (t == u) = false := by simp; exact fun e => hu e.symm
      simp [hu, List.count_cons, this]

/-- the operations of a thread that have taken effect are exactly its first `count` operations:
    what remains for the atomic machine is the thread's program minus that prefix -/
theorem committed_prefix (S : Sem D L) (a0 : AS D L) (s : St D L) (h : Inv S a0 s) (t : Nat) :
    aprog (s.th t) = (a0.progs t).drop (s.sched.count t) := by
  have hl := h.lin
  unfold Lin at hl
  have := runSerial_progs S a0 s.sched t
  rw [hl] at this
  exact this

/-- … and that remainder is the thread's remaining program, give or take the current operation:
    an operation that has not started yet (it is behind the head of `prog`) has not taken effect,
    an operation that has returned (it is no longer in `prog`) has. So each operation takes effect
    between its first action and its return. -/
theorem aprog_window (th : Th L) :
    aprog th = th.prog.tail ∨ (aprog th).tail = th.prog.tail ∧ (aprog th).length = th.prog.length := by
  unfold aprog
  cases th.prog with
  | nil => exact Or.inl rfl
  | cons c ps =>
    simp only
    cases th.com with
    | true => exact Or.inl rfl
    | false => exact Or.inr ⟨rfl, rfl⟩

/-- the order of effect only grows at its end -/
theorem sched_prefix (S : Sem D L) {s s' : St D L} (hr : Reach S s s') : ∃ l, s'.sched = s.sched ++ l := by
  induction hr with
  | refl => exact ⟨[], by simp⟩
  | step _ hs ih =>
    obtain ⟨l, hl⟩ := ih
    cases hs with
    | acq => exact ⟨l, hl⟩
    | rel t a c ps x b hp ha =>
      simp only
      split
      · exact ⟨l, hl⟩
      · exact ⟨l ++ [t], by rw [hl, List.append_assoc]⟩
    | read => exact ⟨l, hl⟩
    | write => exact ⟨l, hl⟩
    | ret => exact ⟨l, hl⟩

end
end Starcal.Serial
