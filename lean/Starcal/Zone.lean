/-! Starcal: Go's time.Date zone resolution (two lookups) over an abstract zone, and the
    conditions under which it returns an instant with the requested wall-clock reading. -/
namespace Starcal.Zone

/-- a zone: for every instant the offset in force and the bounds of its period -/
structure Zone where
  off : Int → Int
  start : Int → Int
  stop : Int → Int

/-- time.Date: `unix` is the wall-clock reading as if it were UTC -/
def resolve (z : Zone) (L : Int) : Int :=
  let o := z.off L
  if o ≠ 0 then
    let utc := L - o
    let o' := if utc < z.start L ∨ utc ≥ z.stop L then z.off utc else o
    L - o'
  else L

/-- around L (within M seconds) the zone has at most one transition, at T, from oA to oB -/
structure Sparse (z : Zone) (L M T oA oB : Int) : Prop where
  hM : 0 ≤ M
  boundA : -M ≤ oA ∧ oA ≤ M
  boundB : -M ≤ oB ∧ oB ≤ M
  before : ∀ x, L - M ≤ x → x < T → x ≤ L + M → z.off x = oA ∧ z.stop x = T ∧ z.start x ≤ L - M
  after : ∀ x, T ≤ x → x ≤ L + M → L - M ≤ x → z.off x = oB ∧ z.start x = T ∧ L + M < z.stop x

/-- if some instant e (inside the window) shows the reading L, the resolved instant shows L too -/
theorem resolve_reading (z : Zone) (L M T oA oB : Int) (hs : Sparse z L M T oA oB)
    (e : Int) (he : e + z.off e = L) (hew : L - M ≤ e ∧ e ≤ L + M) :
    resolve z L + z.off (resolve z L) = L := by
  obtain ⟨hM, hbA, hbB, hbef, haft⟩ := hs
  unfold resolve
  simp only
  by_cases hLT : L < T
  · obtain ⟨h1, h2, h3⟩ := hbef L (by omega) hLT (by omega)
    rw [h1, h2]
    by_cases h0 : oA = 0
    · simp [h0]; rw [h0] at h1; omega
    · simp only [ne_eq, h0, not_false_eq_true, if_true]
      by_cases hv : L - oA < T
      · -- utc is valid for the period found
        have : ¬ (L - oA < z.start L ∨ L - oA ≥ T) := by omega
        simp only [this, if_false]
        have := (hbef (L - oA) (by omega) hv (by omega)).1
        omega
      · have hc : L - oA < z.start L ∨ L - oA ≥ T := Or.inr (by omega)
        simp only [hc, if_true]
        obtain ⟨g1, _, _⟩ := haft (L - oA) (by omega) (by omega) (by omega)
        rw [g1]
        -- the reading exists: e cannot be before T
        by_cases heT : e < T
        · have := (hbef e hew.1 heT hew.2).1; omega
        · have := (haft e (by omega) hew.2 hew.1).1
          have hr : L - oB = e := by omega
          rw [hr, this]; omega
  · obtain ⟨h1, h2, h3⟩ := haft L (by omega) (by omega) (by omega)
    rw [h1, h2]
    by_cases h0 : oB = 0
    · simp [h0]; rw [h0] at h1; omega
    · simp only [ne_eq, h0, not_false_eq_true, if_true]
      by_cases hv : T ≤ L - oB
      · have : ¬ (L - oB < T ∨ L - oB ≥ z.stop L) := by omega
        simp only [this, if_false]
        have := (haft (L - oB) hv (by omega) (by omega)).1
        omega
      · have hc : L - oB < T ∨ L - oB ≥ z.stop L := Or.inl (by omega)
        simp only [hc, if_true]
        obtain ⟨g1, _, _⟩ := hbef (L - oB) (by omega) (by omega) (by omega)
        rw [g1]
        by_cases heT : e < T
        · have := (hbef e hew.1 heT hew.2).1
          have hr : L - oA = e := by omega
          rw [hr, this]; omega
        · have := (haft e (by omega) hew.2 hew.1).1; omega

/-- C11 core: if local time crosses the midnight readings L and L' exactly once (at e0, e1), the
    half-open interval [e0, e1) is exactly the set of instants whose local day is that day -/
theorem day_interval (off : Int → Int) (L e0 e1 : Int)
    (h0 : ∀ e, e0 ≤ e ↔ L ≤ e + off e) (h1 : ∀ e, e1 ≤ e ↔ L + 86400 ≤ e + off e) (e : Int) :
    (e0 ≤ e ∧ e < e1) ↔ (L ≤ e + off e ∧ e + off e < L + 86400) := by
  have a := h0 e
  have b := h1 e
  omega

/-- the unrestricted statement is false: fall-back across midnight (01:00 → 00:00 at T = 0),
    Go resolves the repeated midnight to the second occurrence -/
def fallback : Zone where
  off := fun x => if x < 0 then 3600 else 0
  start := fun x => if x < 0 then -1000000 else 0
  stop := fun x => if x < 0 then 0 else 1000000

example : resolve fallback 0 = 0 := by decide            -- second occurrence of local 00:00
example : (-3600 : Int) + fallback.off (-3600) = 0 := by decide   -- first occurrence is at -3600
example : (-1800 : Int) + fallback.off (-1800) = 1800 := by decide -- local 00:30 of the new day, before the "start"

end Starcal.Zone
