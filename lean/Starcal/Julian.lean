/-! Starcal: complete C01/C02/C07 pattern for the Julian calendar (julian.go). -/
namespace Starcal.Julian

structure Date where
  year : Int
  month : Int
  day : Int
deriving DecidableEq, Repr

def Epoch : Int := 1721058
def monthLenSum : List Int := [0, 31, 59, 90, 120, 151, 181, 212, 243, 273, 304, 334, 365]
def monthLenTab : List Int := [31, 28, 31, 30, 31, 30, 31, 31, 30, 31, 30, 31]

def isLeap (y : Int) : Bool := y % 4 == 0      -- Go: year%4 == 0 (sign-agnostic)

/-- julian.go getYearDays; month 1..13 -/
def getYearDays (month : Int) (leap : Bool) : Int :=
  let yd := monthLenSum.getD (month - 1).toNat 0
  if leap && decide (month < 3) then yd - 1 else yd

/-- julian.go getMonthDayFromYdays: `for month < 12 && yDays > getYearDays(month+1, leap) { month++ }` -/
def findMonth (yDays : Int) (leap : Bool) (month : Int) (fuel : Nat) : Int :=
  match fuel with
  | 0 => month
  | fuel + 1 =>
    if month < 12 ∧ yDays > getYearDays (month + 1) leap then findMonth yDays leap (month + 1) fuel
    else month

def getMonthDay (yDays : Int) (leap : Bool) : Int × Int :=
  let m := findMonth yDays leap 1 11
  (m, yDays - getYearDays m leap)

def toJd (d : Date) : Int :=
  let q := d.year / 4
  let r := d.year % 4
  Epoch + 1461 * q + 365 * r + getYearDays d.month (r == 0) + d.day

def jdTo (jd : Int) : Date :=
  let q := (jd - Epoch) / 1461
  let qd := (jd - Epoch) % 1461
  if qd = 0 then ⟨4 * q, 1, 1⟩
  else
    let ym := (qd - 1) / 365
    let yd := (qd - 1) % 365 + 1
    let md := getMonthDay yd (ym == 0)
    ⟨4 * q + ym, md.1, md.2⟩

def monthLen (y m : Int) : Int :=
  if m = 2 then (if isLeap y then 29 else 28) else monthLenTab.getD (m - 1).toNat 0

def WF (d : Date) : Prop := 1 ≤ d.month ∧ d.month ≤ 12 ∧ 1 ≤ d.day ∧ d.day ≤ monthLen d.year d.month

def succ (d : Date) : Date :=
  if d.day < monthLen d.year d.month then ⟨d.year, d.month, d.day + 1⟩
  else if d.month < 12 then ⟨d.year, d.month + 1, 1⟩
  else ⟨d.year + 1, 1, 1⟩

/-- cumulative days before month m (1-based day-of-year offset) in the code's own encoding -/
theorem month_cases {m : Int} (h1 : 1 ≤ m) (h2 : m ≤ 12) :
    m = 1 ∨ m = 2 ∨ m = 3 ∨ m = 4 ∨ m = 5 ∨ m = 6 ∨ m = 7 ∨ m = 8 ∨ m = 9 ∨ m = 10 ∨ m = 11 ∨ m = 12 := by
  omega

/-- one step of the cumulative table, in the code's own encoding -/
theorem gyd_step (leap : Bool) (m : Int) (hm1 : 1 ≤ m) (hm2 : m ≤ 12) :
    getYearDays (m + 1) leap = getYearDays m leap + monthLen (if leap then 0 else 1) m := by
  rcases month_cases hm1 hm2 with h|h|h|h|h|h|h|h|h|h|h|h <;> subst h <;> cases leap <;> decide

theorem monthLen_pos (y m : Int) (hm1 : 1 ≤ m) (hm2 : m ≤ 12) : 28 ≤ monthLen y m ∧ monthLen y m ≤ 31 := by
  rcases month_cases hm1 hm2 with h|h|h|h|h|h|h|h|h|h|h|h <;> subst h <;>
    simp [monthLen, monthLenTab] <;> split <;> omega

theorem gyd_mono (leap : Bool) (a : Int) (n : Nat) (ha : 1 ≤ a) (hb : a + n ≤ 13) :
    getYearDays a leap ≤ getYearDays (a + n) leap := by
  induction n with
  | zero => simp
  | succ n ih =>
    have h1 := ih (by omega)
    have h2 := gyd_step leap (a + n) (by omega) (by omega)
    have h3 := monthLen_pos (if leap then 0 else 1) (a + n) (by omega) (by omega)
    have e : a + ((n : Int) + 1) = a + n + 1 := by omega
    simp only [Int.natCast_add, Int.natCast_one] at *
    rw [e, h2]; omega

/-- the search loop returns the month whose cumulative bracket contains yDays -/
theorem findMonth_spec (yDays : Int) (leap : Bool) (m : Int) (hm2 : m ≤ 12)
    (hlo : ∀ j, j < m → 1 ≤ j → yDays > getYearDays (j + 1) leap)
    (hhi : m < 12 → yDays ≤ getYearDays (m + 1) leap)
    (fuel : Nat) (k : Int) (hk : k ≤ m) (hk1 : 1 ≤ k) (hf : m - k ≤ fuel) :
    findMonth yDays leap k fuel = m := by
  induction fuel generalizing k with
  | zero => simp [findMonth]; omega
  | succ fuel ih =>
    unfold findMonth
    by_cases hkm : k = m
    · subst hkm
      have : ¬ (k < 12 ∧ yDays > getYearDays (k + 1) leap) := by
        intro ⟨h1, h2⟩; have := hhi h1; omega
      simp [this]
    · have hlt : k < m := by omega
      have : k < 12 ∧ yDays > getYearDays (k + 1) leap := ⟨by omega, hlo k hlt hk1⟩
      simp [this]
      exact ih (k + 1) (by omega) (by omega) (by omega)

theorem getMonthDay_spec (leap : Bool) (m d : Int) (hm1 : 1 ≤ m) (hm2 : m ≤ 12)
    (hd1 : 1 ≤ d) (hd2 : d ≤ monthLen (if leap then 0 else 1) m) :
    getMonthDay (getYearDays m leap + d) leap = (m, d) := by
  have hf : findMonth (getYearDays m leap + d) leap 1 11 = m := by
    apply findMonth_spec _ _ m hm2 _ _ 11 1 hm1 (by omega) (by omega)
    · intro j hj hj1
      obtain ⟨n, hn⟩ : ∃ n : Nat, m = (j + 1) + n := ⟨(m - (j + 1)).toNat, by omega⟩
      have := gyd_mono leap (j + 1) n (by omega) (by omega)
      rw [← hn] at this; omega
    · intro _
      rw [gyd_step leap m hm1 hm2]; omega
  simp only [getMonthDay, hf]
  congr 1
  omega


/-! ### (B) jdTo lands on a well-formed date whose day number is jd -/

theorem leap_of_ymode (q r : Int) (hr0 : 0 ≤ r) (hr3 : r ≤ 3) :
    isLeap (4 * q + r) = (r == 0) := by
  unfold isLeap
  have : (4 * q + r) % 4 = r := by omega
  rw [this]

theorem monthLen_leapflag (y m : Int) : monthLen y m = monthLen (if isLeap y then 0 else 1) m := by
  unfold monthLen isLeap
  by_cases h : y % 4 = 0 <;> simp [h]

/-- every day index of a year lies in exactly one month bracket (leap years are 0-based in the
    code's encoding, common years 1-based) -/
theorem yday_month (leap : Bool) (yd : Int) (h1 : (if leap then 0 else 1) ≤ yd) (h2 : yd ≤ 365) :
    ∃ m d, 1 ≤ m ∧ m ≤ 12 ∧ 1 ≤ d ∧ d ≤ monthLen (if leap then 0 else 1) m ∧
      yd = getYearDays m leap + d := by
  cases leap
  · simp only [Bool.false_eq_true, if_false] at *
    have : yd ≤ 31 ∨ (31 < yd ∧ yd ≤ 59) ∨ (59 < yd ∧ yd ≤ 90) ∨ (90 < yd ∧ yd ≤ 120) ∨
        (120 < yd ∧ yd ≤ 151) ∨ (151 < yd ∧ yd ≤ 181) ∨ (181 < yd ∧ yd ≤ 212) ∨ (212 < yd ∧ yd ≤ 243) ∨
        (243 < yd ∧ yd ≤ 273) ∨ (273 < yd ∧ yd ≤ 304) ∨ (304 < yd ∧ yd ≤ 334) ∨ 334 < yd := by omega
    rcases this with h|h|h|h|h|h|h|h|h|h|h|h
    · exact ⟨1, yd - 0, by simp [monthLen, monthLenTab, getYearDays, monthLenSum]; omega⟩
    · exact ⟨2, yd - 31, by simp [monthLen, isLeap, getYearDays, monthLenSum]; omega⟩
    · exact ⟨3, yd - 59, by simp [monthLen, monthLenTab, getYearDays, monthLenSum]; omega⟩
    · exact ⟨4, yd - 90, by simp [monthLen, monthLenTab, getYearDays, monthLenSum]; omega⟩
    · exact ⟨5, yd - 120, by simp [monthLen, monthLenTab, getYearDays, monthLenSum]; omega⟩
    · exact ⟨6, yd - 151, by simp [monthLen, monthLenTab, getYearDays, monthLenSum]; omega⟩
    · exact ⟨7, yd - 181, by simp [monthLen, monthLenTab, getYearDays, monthLenSum]; omega⟩
    · exact ⟨8, yd - 212, by simp [monthLen, monthLenTab, getYearDays, monthLenSum]; omega⟩
    · exact ⟨9, yd - 243, by simp [monthLen, monthLenTab, getYearDays, monthLenSum]; omega⟩
    · exact ⟨10, yd - 273, by simp [monthLen, monthLenTab, getYearDays, monthLenSum]; omega⟩
    · exact ⟨11, yd - 304, by simp [monthLen, monthLenTab, getYearDays, monthLenSum]; omega⟩
    · exact ⟨12, yd - 334, by simp [monthLen, monthLenTab, getYearDays, monthLenSum]; omega⟩
  · simp only [if_true] at *
    have : yd ≤ 30 ∨ (30 < yd ∧ yd ≤ 59) ∨ (59 < yd ∧ yd ≤ 90) ∨ (90 < yd ∧ yd ≤ 120) ∨
        (120 < yd ∧ yd ≤ 151) ∨ (151 < yd ∧ yd ≤ 181) ∨ (181 < yd ∧ yd ≤ 212) ∨ (212 < yd ∧ yd ≤ 243) ∨
        (243 < yd ∧ yd ≤ 273) ∨ (273 < yd ∧ yd ≤ 304) ∨ (304 < yd ∧ yd ≤ 334) ∨ 334 < yd := by omega
    rcases this with h|h|h|h|h|h|h|h|h|h|h|h
    · exact ⟨1, yd + 1, by simp [monthLen, monthLenTab, getYearDays, monthLenSum]; omega⟩
    · exact ⟨2, yd - 30, by simp [monthLen, isLeap, getYearDays, monthLenSum]; omega⟩
    · exact ⟨3, yd - 59, by simp [monthLen, monthLenTab, getYearDays, monthLenSum]; omega⟩
    · exact ⟨4, yd - 90, by simp [monthLen, monthLenTab, getYearDays, monthLenSum]; omega⟩
    · exact ⟨5, yd - 120, by simp [monthLen, monthLenTab, getYearDays, monthLenSum]; omega⟩
    · exact ⟨6, yd - 151, by simp [monthLen, monthLenTab, getYearDays, monthLenSum]; omega⟩
    · exact ⟨7, yd - 181, by simp [monthLen, monthLenTab, getYearDays, monthLenSum]; omega⟩
    · exact ⟨8, yd - 212, by simp [monthLen, monthLenTab, getYearDays, monthLenSum]; omega⟩
    · exact ⟨9, yd - 243, by simp [monthLen, monthLenTab, getYearDays, monthLenSum]; omega⟩
    · exact ⟨10, yd - 273, by simp [monthLen, monthLenTab, getYearDays, monthLenSum]; omega⟩
    · exact ⟨11, yd - 304, by simp [monthLen, monthLenTab, getYearDays, monthLenSum]; omega⟩
    · exact ⟨12, yd - 334, by simp [monthLen, monthLenTab, getYearDays, monthLenSum]; omega⟩

/-- conversely a well-formed (month, day) has a day index in range -/
theorem gyd_day_bounds (leap : Bool) (m d : Int) (hm1 : 1 ≤ m) (hm2 : m ≤ 12)
    (hd1 : 1 ≤ d) (hd2 : d ≤ monthLen (if leap then 0 else 1) m) :
    (if leap then 0 else 1) ≤ getYearDays m leap + d ∧ getYearDays m leap + d ≤ 365 ∧
    (getYearDays m leap + d = 0 → m = 1 ∧ d = 1) := by
  rcases month_cases hm1 hm2 with h|h|h|h|h|h|h|h|h|h|h|h <;> subst h <;> cases leap <;>
    simp [monthLen, isLeap, monthLenTab] at hd2 <;>
    simp [getYearDays, monthLenSum] <;> omega

theorem jdTo_spec (jd : Int) : WF (jdTo jd) ∧ toJd (jdTo jd) = jd := by
  unfold jdTo
  simp only []
  generalize hq : (jd - Epoch) / 1461 = q
  generalize hqd : (jd - Epoch) % 1461 = qd
  have hjd : jd = Epoch + 1461 * q + qd := by omega
  have hqd0 : 0 ≤ qd ∧ qd < 1461 := by omega
  by_cases h0 : qd = 0
  · simp only [h0, if_true]
    refine ⟨by simp [WF, monthLen, monthLenTab], ?_⟩
    unfold toJd
    have e1 : (4 * q) / 4 = q := by omega
    have e2 : (4 * q) % 4 = 0 := by omega
    simp only [e1, e2]
    simp [getYearDays, monthLenSum]; omega
  · simp only [h0, if_false]
    generalize hym : (qd - 1) / 365 = ym
    generalize hyd : (qd - 1) % 365 + 1 = yd
    have hr : 0 ≤ ym ∧ ym ≤ 3 := by omega
    have hy : 1 ≤ yd ∧ yd ≤ 365 := by omega
    have hqd' : qd = 365 * ym + yd := by omega
    obtain ⟨m, d, hm1, hm2, hd1, hd2, hyd'⟩ := yday_month (ym == 0) yd (by split <;> omega) hy.2
    have hmd := getMonthDay_spec (ym == 0) m d hm1 hm2 hd1 hd2
    rw [← hyd'] at hmd
    rw [hmd]
    simp only
    have hleap := leap_of_ymode q ym hr.1 hr.2
    refine ⟨⟨hm1, hm2, hd1, ?_⟩, ?_⟩
    · simp only
      rw [monthLen_leapflag, hleap]; exact hd2
    · unfold toJd
      have e1 : (4 * q + ym) / 4 = q := by omega
      have e2 : (4 * q + ym) % 4 = ym := by omega
      simp only [e1, e2]
      omega

theorem jdTo_toJd (dt : Date) (hwf : WF dt) : jdTo (toJd dt) = dt := by
  rcases dt with ⟨y, m, d⟩
  obtain ⟨hm1, hm2, hd1, hd2⟩ := hwf
  simp only at hm1 hm2 hd1 hd2
  generalize hq : y / 4 = q at *
  generalize hr : y % 4 = r at *
  have hy : y = 4 * q + r := by omega
  have hr03 : 0 ≤ r ∧ r ≤ 3 := by omega
  have hleap := leap_of_ymode q r hr03.1 hr03.2
  rw [monthLen_leapflag, hy, hleap] at hd2
  obtain ⟨b1, b2, b3⟩ := gyd_day_bounds (r == 0) m d hm1 hm2 hd1 hd2
  unfold toJd jdTo
  simp only [hq, hr]
  generalize hg : getYearDays m (r == 0) = g at *
  have hb1 : (if (r == 0) = true then (0:Int) else 1) = if r = 0 then 0 else 1 := by
    by_cases h : r = 0 <;> simp [h]
  rw [hb1] at b1
  have en : (Epoch + 1461 * q + 365 * r + g + d - Epoch) / 1461 = q := by split at b1 <;> omega
  have em : (Epoch + 1461 * q + 365 * r + g + d - Epoch) % 1461 = 365 * r + g + d := by
    split at b1 <;> omega
  rw [en, em]
  by_cases h0 : 365 * r + g + d = 0
  · have hr0 : r = 0 := by split at b1 <;> omega
    have := b3 (by omega)
    simp only [h0, if_true]
    rw [this.1, this.2, hy, hr0]; simp
  · simp only [h0, if_false]
    have e1 : (365 * r + g + d - 1) / 365 = r := by split at b1 <;> omega
    have e2 : (365 * r + g + d - 1) % 365 + 1 = g + d := by split at b1 <;> omega
    rw [e1, e2, ← hg, getMonthDay_spec (r == 0) m d hm1 hm2 hd1 hd2, hy]


/-! ### (A) the successor of a well-formed date is the next day number; C07 facts -/

theorem toJd_succ (dt : Date) (hwf : WF dt) : WF (succ dt) ∧ toJd (succ dt) = toJd dt + 1 := by
  rcases dt with ⟨y, m, d⟩
  obtain ⟨hm1, hm2, hd1, hd2⟩ := hwf
  simp only at hm1 hm2 hd1 hd2
  unfold succ
  simp only
  by_cases hlt : d < monthLen y m
  · simp only [hlt, if_true]
    exact ⟨⟨hm1, hm2, by simp only; omega, by simp only; omega⟩, by unfold toJd; simp only; omega⟩
  · have hd : d = monthLen y m := by omega
    simp only [hlt, if_false]
    by_cases hm : m < 12
    · simp only [hm, if_true]
      have hpos := monthLen_pos y (m + 1) (by omega) (by omega)
      refine ⟨⟨by simp only; omega, by simp only; omega, by simp, by simp only; omega⟩, ?_⟩
      unfold toJd
      simp only
      generalize hq : y / 4 = q
      generalize hr : y % 4 = r
      have hr03 : 0 ≤ r ∧ r ≤ 3 := by omega
      have hy : y = 4 * q + r := by omega
      have hstep := gyd_step (r == 0) m hm1 hm2
      have hl : isLeap y = (r == 0) := by rw [hy]; exact leap_of_ymode q r hr03.1 hr03.2
      rw [← hl, ← monthLen_leapflag] at hstep
      rw [← hl, hstep, hd]; omega
    · have hm12 : m = 12 := by omega
      subst hm12
      simp only [hm, if_false]
      refine ⟨⟨by simp, by simp, by simp, by simp [monthLen, monthLenTab]⟩, ?_⟩
      have hd31 : d = 31 := by rw [hd]; simp [monthLen, monthLenTab]
      subst hd31
      unfold toJd
      simp only
      generalize hq : y / 4 = q
      generalize hr : y % 4 = r
      have hr03 : 0 ≤ r ∧ r ≤ 3 := by omega
      by_cases h3 : r = 3
      · have e1 : (y + 1) / 4 = q + 1 := by omega
        have e2 : (y + 1) % 4 = 0 := by omega
        rw [e1, e2, h3]
        simp [getYearDays, monthLenSum]; omega
      · have e1 : (y + 1) / 4 = q := by omega
        have e2 : (y + 1) % 4 = r + 1 := by omega
        rw [e1, e2]
        have : (r + 1 == 0) = false := by simp; omega
        rw [this]
        simp [getYearDays, monthLenSum]; omega

/-- C02: consecutive day numbers are consecutive dates -/
theorem succ_step (jd : Int) : jdTo (jd + 1) = succ (jdTo jd) := by
  obtain ⟨hwf, hjd⟩ := jdTo_spec jd
  obtain ⟨hwf', hs⟩ := toJd_succ (jdTo jd) hwf
  have := jdTo_toJd (succ (jdTo jd)) hwf'
  rw [hs, hjd] at this
  exact this

/-- C07: month length is the gap between month starts; year length; leap iff long -/
theorem month_gap (y m : Int) (hm1 : 1 ≤ m) (hm2 : m ≤ 11) :
    toJd ⟨y, m + 1, 1⟩ - toJd ⟨y, m, 1⟩ = monthLen y m := by
  have h := toJd_succ ⟨y, m, monthLen y m⟩
    ⟨hm1, by simp only; omega, (by have := monthLen_pos y m hm1 (by omega); simp only; omega), by simp⟩
  unfold succ at h
  simp only [Int.lt_irrefl, if_false] at h
  have hm : m < 12 := by omega
  simp only [hm, if_true] at h
  have h2 := h.2
  unfold toJd at h2 ⊢
  simp only at h2 ⊢
  omega

theorem year_len (y : Int) :
    toJd ⟨y + 1, 1, 1⟩ - toJd ⟨y, 1, 1⟩ = (if isLeap y then 366 else 365) := by
  unfold toJd isLeap
  simp only
  generalize hq : y / 4 = q
  generalize hr : y % 4 = r
  have hr03 : 0 ≤ r ∧ r ≤ 3 := by omega
  by_cases h3 : r = 3
  · have e1 : (y + 1) / 4 = q + 1 := by omega
    have e2 : (y + 1) % 4 = 0 := by omega
    rw [e1, e2, h3]; simp [getYearDays, monthLenSum]; omega
  · have e1 : (y + 1) / 4 = q := by omega
    have e2 : (y + 1) % 4 = r + 1 := by omega
    rw [e1, e2]
    have hne : (r + 1 == 0) = false := by simp; omega
    rw [hne]
    by_cases h0 : r = 0
    · subst h0; simp [getYearDays, monthLenSum]; omega
    · have : (r == 0) = false := by simp [h0]
      rw [this]; simp [getYearDays, monthLenSum, h0]; omega

/-- C03 anchor: day 0 is 1 January −4712 -/
theorem anchor : jdTo 0 = ⟨-4712, 1, 1⟩ := by decide

end Starcal.Julian
