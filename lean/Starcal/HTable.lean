/-! Starcal: the hijri month-table walk (MonthData.GetDateFromJd / GetJdFromDate, hijri.go:129-182)
    for an arbitrary table of positive month lengths. -/
namespace Starcal.HTable

/-- the loop of GetDateFromJd on the remaining months `ls` (ls.head? is MonthLenByYm[ym]; a missing
    key reads as 0 in Go, and then the loop never ends: `none`) -/
def walkL (startJd d0 : Int) : List Int → Int → Int → Option (Int × Int)
  | [], ym, jd => if jd > startJd then none else some (ym, d0)
  | L :: rest, ym, jd =>
    if jd > startJd then
      let jdm0 := jd - L
      if jdm0 ≤ startJd - d0 then some (ym, d0 + jd - startJd)
      else if startJd - d0 < jdm0 ∧ jdm0 ≤ startJd then some (ym + 1, d0 + jd - startJd - L)
      else walkL startJd d0 rest (ym + 1) (jd - L)
    else some (ym, d0)

/-- position of day offset `rem` in the month list: (months skipped, day of month) -/
def pos : List Int → Int → Int × Int
  | [], rem => (0, rem + 1)
  | L :: rest, rem => if rem < L then (0, rem + 1) else ((pos rest (rem - L)).1 + 1, (pos rest (rem - L)).2)

def sum : List Int → Int
  | [] => 0
  | L :: rest => L + sum rest

theorem walk_pos (startJd : Int) (ls : List Int) (hpos : ∀ L ∈ ls, 1 ≤ L) (ym rem : Int)
    (h0 : 0 ≤ rem) (h1 : rem ≤ sum ls) :
    walkL startJd 1 ls ym (startJd + rem) = some (ym + (pos ls rem).1, (pos ls rem).2) := by
  induction ls generalizing ym rem with
  | nil =>
    simp [sum] at h1
    have : rem = 0 := by omega
    subst this
    simp [walkL, pos]
  | cons L rest ih =>
    have hL := hpos L (by simp)
    unfold walkL pos
    by_cases hr : rem = 0
    · subst hr
      have : ¬ (startJd + 0 > startJd) := by omega
      have h2 : (0:Int) < L := by omega
      simp [this, h2]
    · have hgt : startJd + rem > startJd := by omega
      simp only [hgt, if_true]
      by_cases hlt : rem < L
      · have c1 : startJd + rem - L ≤ startJd - 1 := by omega
        simp only [c1, if_true, hlt]
        congr 1; simp; omega
      · have c1 : ¬ (startJd + rem - L ≤ startJd - 1) := by omega
        simp only [c1, if_false, hlt]
        by_cases heq : rem = L
        · have c2 : startJd - 1 < startJd + rem - L ∧ startJd + rem - L ≤ startJd := by omega
          simp only [c2, and_self, if_true]
          subst heq
          have e : rem - rem = 0 := by omega
          rw [e]
          cases rest with
          | nil => simp [pos]; omega
          | cons M r2 =>
            have hM := hpos M (by simp)
            have : (0:Int) < M := by omega
            simp [pos, this]; omega
        · have c2 : ¬ (startJd - 1 < startJd + rem - L ∧ startJd + rem - L ≤ startJd) := by omega
          simp only [c2, if_false]
          have e : startJd + rem - L = startJd + (rem - L) := by omega
          rw [e, ih (fun M hM => hpos M (List.mem_cons_of_mem _ hM)) (ym + 1) (rem - L) (by omega)
            (by simp [sum] at h1; omega)]
          congr 1; simp; omega

def prefixSum (ls : List Int) (i : Nat) : Int := sum (ls.take i)

/-- the day offset produced by GetJdFromDate for month index i and day k lands back on (i, k) -/
theorem pos_prefix (ls : List Int) (hpos : ∀ L ∈ ls, 1 ≤ L) (i : Nat) (k : Int) (hi : i ≤ ls.length)
    (hk1 : 1 ≤ k) (hk2 : k ≤ (ls[i]?).getD 1) :
    pos ls (prefixSum ls i + k - 1) = ((i : Int), k) := by
  induction ls generalizing i with
  | nil =>
    have : i = 0 := by simpa using hi
    subst this
    simp [prefixSum, sum] at hk2 ⊢
    simp [pos]
  | cons L rest ih =>
    have hL := hpos L (by simp)
    cases i with
    | zero =>
      simp [prefixSum, sum] at hk2 ⊢
      have : k - 1 < L := by omega
      simp [pos, this]
    | succ i =>
      have hps : prefixSum (L :: rest) (i + 1) = L + prefixSum rest i := by simp [prefixSum, sum]
      rw [hps]
      have hp0 : 0 ≤ prefixSum rest i := by
        have : ∀ (l : List Int), (∀ x ∈ l, 1 ≤ x) → 0 ≤ sum l := by
          intro l hl
          induction l with
          | nil => simp [sum]
          | cons a l ihl =>
            have := hl a (by simp)
            have := ihl (fun x hx => hl x (List.mem_cons_of_mem _ hx))
            simp [sum]; omega
        exact this _ (fun x hx => hpos x (List.mem_cons_of_mem _ (List.mem_of_mem_take hx)))
      have hnlt : ¬ (L + prefixSum rest i + k - 1 < L) := by omega
      unfold pos
      simp only [hnlt, if_false]
      have e : L + prefixSum rest i + k - 1 - L = prefixSum rest i + k - 1 := by omega
      rw [e, ih (fun M hM => hpos M (List.mem_cons_of_mem _ hM)) i (by simpa using hi) (by simpa using hk2)]
      simp

/-- table round trip: for every month index i ≤ n and day k of that month (k = 1 when i = n),
    walking the day number `startJd + prefix i + k - 1` returns (ym0 + i, k) -/
theorem table_roundtrip (startJd ym0 : Int) (ls : List Int) (hpos : ∀ L ∈ ls, 1 ≤ L)
    (i : Nat) (k : Int) (hi : i ≤ ls.length) (hk1 : 1 ≤ k) (hk2 : k ≤ (ls[i]?).getD 1) :
    walkL startJd 1 ls ym0 (startJd + (prefixSum ls i + k - 1)) = some (ym0 + i, k) := by
  have hp := pos_prefix ls hpos i k hi hk1 hk2
  have hsum : prefixSum ls i + k - 1 ≤ sum ls := by
    -- prefix i + (k-1) ≤ prefix i + ls[i] ≤ sum
    have gen : ∀ (l : List Int) (j : Nat) (c : Int), (∀ x ∈ l, 1 ≤ x) → j ≤ l.length → c ≤ (l[j]?).getD 1 → 1 ≤ c →
        sum (l.take j) + c - 1 ≤ sum l := by
      intro l
      induction l with
      | nil => intro j c _ hj hc hc1; simp at hj; subst hj; simp [sum] at hc ⊢; omega
      | cons a l ihl =>
        intro j c hl hj hc hc1
        cases j with
        | zero => 
          simp [sum] at hc ⊢
          have : ∀ (l : List Int), (∀ x ∈ l, 1 ≤ x) → 0 ≤ sum l := by
            intro l hl
            induction l with
            | nil => simp [sum]
            | cons a l ihl2 =>
              have := hl a (by simp)
              have := ihl2 (fun x hx => hl x (List.mem_cons_of_mem _ hx))
              simp [sum]; omega
          have := this l (fun x hx => hl x (List.mem_cons_of_mem _ hx))
          omega
        | succ j =>
          have := ihl j c (fun x hx => hl x (List.mem_cons_of_mem _ hx)) (by simpa using hj) (by simpa using hc) hc1
          simp [sum]; omega
    exact gen ls i k hpos hi hk2 hk1
  have h0 : 0 ≤ prefixSum ls i + k - 1 := by
    have : ∀ (l : List Int), (∀ x ∈ l, 1 ≤ x) → 0 ≤ sum l := by
      intro l hl
      induction l with
      | nil => simp [sum]
      | cons a l ihl =>
        have := hl a (by simp)
        have := ihl (fun x hx => hl x (List.mem_cons_of_mem _ hx))
        simp [sum]; omega
    have := this (ls.take i) (fun x hx => hpos x (List.mem_of_mem_take hx))
    unfold prefixSum; omega
  rw [walk_pos startJd ls hpos ym0 _ h0 hsum, hp]

end Starcal.HTable

#print axioms Starcal.HTable.table_roundtrip
