import Starcal.Ethiopian
/-! Starcal: Ethiopian (repaired) — the other round trip via injectivity, successor step, C02. -/
namespace Starcal.Ethiopian

def ys (y : Int) : Int := Epoch + 365 * (y - 1) + y / 4 - 14

theorem toJd_ys (y m d : Int) : toJd ⟨y, m, d⟩ = ys y + (m - 1) * 30 + d - 1 := by
  unfold toJd ys; simp only; omega

theorem ys_next (y : Int) : ys (y + 1) = ys y + (if isLeap y then 366 else 365) := by
  unfold ys isLeap
  by_cases h : (y + 1) % 4 = 0
  · simp [h]; omega
  · simp [h]; omega

theorem ys_mono (a b : Int) (h : a ≤ b) : ys a ≤ ys b := by
  unfold ys; omega

/-- position in the year of a well-formed date -/
theorem yd_bounds (y m d : Int) (h : WF ⟨y, m, d⟩) :
    0 ≤ (m - 1) * 30 + d - 1 ∧ (m - 1) * 30 + d - 1 < (if isLeap y then 366 else 365) := by
  obtain ⟨h1, h2, h3, h4⟩ := h
  simp only at h1 h2 h3 h4
  unfold monthLen at h4
  by_cases h12 : m = 12
  · subst h12
    simp only [if_true] at h4
    split at h4 <;> rename_i hl <;> simp [hl] <;> omega
  · simp only [h12, if_false] at h4
    split <;> omega

theorem toJd_inj (a b : Date) (ha : WF a) (hb : WF b) (h : toJd a = toJd b) : a = b := by
  rcases a with ⟨y1, m1, d1⟩
  rcases b with ⟨y2, m2, d2⟩
  have ba := yd_bounds y1 m1 d1 ha
  have bb := yd_bounds y2 m2 d2 hb
  rw [toJd_ys, toJd_ys] at h
  have n1 := ys_next y1
  have n2 := ys_next y2
  have hy : y1 = y2 := by
    rcases Int.lt_trichotomy y1 y2 with hlt | heq | hgt
    · have := ys_mono (y1 + 1) y2 (by omega)
      split at n1 <;> split at ba <;> simp_all <;> omega
    · exact heq
    · have := ys_mono (y2 + 1) y1 (by omega)
      split at n2 <;> split at bb <;> simp_all <;> omega
  subst hy
  obtain ⟨a1, a2, a3, a4⟩ := ha
  obtain ⟨b1, b2, b3, b4⟩ := hb
  simp only at a1 a2 a3 a4 b1 b2 b3 b4
  have hm : m1 = m2 := by
    unfold monthLen at a4 b4
    by_cases e1 : m1 = 12 <;> by_cases e2 : m2 = 12 <;> simp [e1, e2] at a4 b4 <;> omega
  subst hm
  have : d1 = d2 := by omega
  subst this
  rfl

/-- (B′) from (B) and injectivity -/
theorem jdTo_toJd (dt : Date) (hwf : WF dt) : jdTo (toJd dt) = dt := by
  obtain ⟨h1, h2⟩ := jdTo_spec (toJd dt)
  exact toJd_inj _ _ h1 hwf h2

def succ (d : Date) : Date :=
  if d.day < monthLen d.year d.month then ⟨d.year, d.month, d.day + 1⟩
  else if d.month < 12 then ⟨d.year, d.month + 1, 1⟩
  else ⟨d.year + 1, 1, 1⟩

theorem toJd_succ (dt : Date) (hwf : WF dt) : WF (succ dt) ∧ toJd (succ dt) = toJd dt + 1 := by
  rcases dt with ⟨y, m, d⟩
  obtain ⟨hm1, hm2, hd1, hd2⟩ := hwf
  simp only at hm1 hm2 hd1 hd2
  unfold succ
  simp only
  by_cases hlt : d < monthLen y m
  · simp only [hlt, if_true]
    exact ⟨⟨hm1, hm2, by simp only; omega, by simp only; omega⟩, by rw [toJd_ys, toJd_ys]; omega⟩
  · have hd : d = monthLen y m := by omega
    simp only [hlt, if_false]
    by_cases hm : m < 12
    · simp only [hm, if_true]
      have h12 : m ≠ 12 := by omega
      have hlen : monthLen y m = 30 := by simp [monthLen, h12]
      refine ⟨⟨by simp only; omega, by simp only; omega, by simp, ?_⟩, ?_⟩
      · simp only [monthLen]; split <;> (try split) <;> omega
      · rw [toJd_ys, toJd_ys]; omega
    · have hm12 : m = 12 := by omega
      subst hm12
      simp only [hm, if_false]
      refine ⟨⟨by simp, by simp, by simp, by simp [monthLen]⟩, ?_⟩
      rw [toJd_ys, toJd_ys, ys_next]
      simp only [monthLen, if_true] at hd
      split at hd <;> rename_i hl <;> simp [hl] <;> omega

theorem succ_step (jd : Int) : jdTo (jd + 1) = succ (jdTo jd) := by
  obtain ⟨hwf, hjd⟩ := jdTo_spec jd
  obtain ⟨hwf', hs⟩ := toJd_succ (jdTo jd) hwf
  have := jdTo_toJd (succ (jdTo jd)) hwf'
  rw [hs, hjd] at this
  exact this

end Starcal.Ethiopian

#print axioms Starcal.Ethiopian.succ_step
