import Starcal.GoSem
/-! Starcal.RatCeil: exact values of the two float expressions of hijri.go, over rationals:
    `ceil(29.5 * k) = (59k+1)/2` and `ceil((jd + 0.5 - ys)/29.5) = ⌈(2(jd-ys)+1)/59⌉` as integer floor divisions. -/
namespace Starcal.RatCeil
open Starcal

theorem ceil_eq_of {x : Rat} {n : Int} (h1 : ((n - 1 : Int) : Rat) < x) (h2 : x ≤ (n : Rat)) : x.ceil = n := by
  have a := Rat.ceil_le_iff.mpr h2
  have b := Rat.lt_ceil_iff.mpr h1
  omega

theorem ftoi_intCast (n : Int) : GoSem.ftoi (n : Rat) = n := by
  unfold GoSem.ftoi; split <;> simp [Rat.floor_intCast]

/-- `ceil(29.5 * k)` exactly -/
theorem ceil_half59 (k : Int) : Rat.ceil (((59 : Rat) / 2) * ((k : Int) : Rat)) = (59 * k + 1) / 2 := by
  apply ceil_eq_of
  · have h : ((59 * k + 1) / 2 - 1) * 2 < 59 * k := by omega
    have h' : (((((59 * k + 1) / 2 - 1) * 2 : Int)) : Rat) < ((59 * k : Int) : Rat) := Rat.intCast_lt_intCast.mpr h
    simp only [Rat.intCast_mul, Rat.intCast_sub, Rat.intCast_ofNat] at h' ⊢
    grind
  · have h : 59 * k ≤ ((59 * k + 1) / 2) * 2 := by omega
    have h' : ((59 * k : Int) : Rat) ≤ ((((59 * k + 1) / 2) * 2 : Int) : Rat) := Rat.intCast_le_intCast.mpr h
    simp only [Rat.intCast_mul, Rat.intCast_ofNat] at h' ⊢
    grind

/-- `ceil((jd + 0.5 - ys) / 29.5)` exactly -/
theorem ceil_month (jd ys : Int) :
    Rat.ceil ((((jd : Int) : Rat) + (1 : Rat) / 2 - ((ys : Int) : Rat)) / ((59 : Rat) / 2)) = (2 * (jd - ys) + 1 + 58) / 59 := by
  apply ceil_eq_of
  · have h : ((2 * (jd - ys) + 1 + 58) / 59 - 1) * 59 < 2 * (jd - ys) + 1 := by omega
    have h' := Rat.intCast_lt_intCast.mpr h
    simp only [Rat.intCast_mul, Rat.intCast_sub, Rat.intCast_add, Rat.intCast_ofNat] at h' ⊢
    grind
  · have h : 2 * (jd - ys) + 1 ≤ ((2 * (jd - ys) + 1 + 58) / 59) * 59 := by omega
    have h' := Rat.intCast_le_intCast.mpr h
    simp only [Rat.intCast_mul, Rat.intCast_sub, Rat.intCast_add, Rat.intCast_ofNat] at h' ⊢
    grind

end Starcal.RatCeil
