import Starcal.GoSem
import Starcal.Bisect
import Starcal.Greg
/-! Starcal.SrcExt: functions the source translator does not read and maps to hand-written definitions
    (tied to the code by the correspondence check only):
    * `lib.NewDate` (a constructor);
    * `sort.Search` (Go's standard library: its binary search, transcribed; `utils.BisectLeft` itself is translated);
    * `sort.Sort` by a translated `Less` (`sortWith`);
    * the gregorian calendar, which in this library *is* Go's `time` package (the model of Greg.lean). -/
namespace Starcal.SrcExt
open Starcal

/-- lib.NewDate (date.go) -/
def lib_NewDate (y m d : Int) : Option GoSem.Date := some ⟨y, m, d⟩

/-- lib.NewHMS (hms.go) -/
def lib_NewHMS (h m s : Int) : Option GoSem.HMS := some ⟨h, m, s⟩

/-- `sort.Search(n, f)`: the binary search of Go's standard library, transcribed —
    `i, j := 0, n; for i < j { h := int(uint(i+j) >> 1); if !f(h) { i = h + 1 } else { j = h } }; return i`
    (the fuel n + 1 exceeds the number of iterations, ⌈log₂ n⌉ + 1; a closure that panics makes the search panic) -/
def searchM (f : Int → Option Bool) : Nat → Int → Int → Option Int
  | 0, i, _ => some i
  | fuel + 1, i, j =>
    if i < j then do
      let h := (i + j) / 2
      if !(← f h) then searchM f fuel (h + 1) j else searchM f fuel i h
    else some i

def sort_Search (n : Int) (f : Int → Option Bool) : Option Int := searchM f (n.toNat + 1) 0 n

/-- gregorian.IsLeap -/
def gregorian_IsLeap (y : Int) : Option Bool := some (gIsLeap y)
/-- gregorian.ToJd -/
def gregorian_ToJd (d : GoSem.Date) : Option Int := some (gToJd ⟨d.Year, d.Month, d.Day⟩)
/-- gregorian.JdTo -/
def gregorian_JdTo (jd : Int) : Option GoSem.Date := let d := gJdTo jd; some ⟨d.year, d.month, d.day⟩

/-- `sort.Sort` of a slice by the package's own `Less(i, j)`, which the translator renders as a function of the slice
    and two indices: insertion sort, comparing two elements by `less [a, b] 0 1`. ASSUMED: `Less` looks at nothing
    but the two elements, and `sort.Sort` returns a sorted permutation; when `Less` is a total order without ties
    (for `IntervalPointList.Less`: SrcTie/Interval.lean and Ival.lean) that list is unique, so any correct sort
    returns it. A `Less` that panics makes the sort panic. -/
def insertWith {α : Type} (less : List α → Int → Int → Option Bool) (x : α) : List α → Option (List α)
  | [] => some [x]
  | q :: qs => do
    if !(← less [q, x] 0 1) then pure (x :: q :: qs) else pure (q :: (← insertWith less x qs))

def sortWith {α : Type} (less : List α → Int → Int → Option Bool) : List α → Option (List α)
  | [] => some []
  | p :: ps => do insertWith less p (← sortWith less ps)

end Starcal.SrcExt
