import Starcal.Jalali
/-! Starcal: Jalali 33-year algorithm, the other round trip and the successor step. -/
namespace Starcal.Jalali

def succ (d : Date) : Date :=
  if d.day < monthLen d.year d.month then ⟨d.year, d.month, d.day + 1⟩
  else if d.month < 12 then ⟨d.year, d.month + 1, 1⟩
  else ⟨d.year + 1, 1, 1⟩

/-- cycle coordinates of a year -/
theorem year_coords (y : Int) : ∃ np jym : Int, y = 979 + 33 * np + jym ∧ 0 ≤ jym ∧ jym ≤ 32 :=
  ⟨(y - 979) / 33, (y - 979) % 33, by omega, by omega, by omega⟩

theorem monthLen12 (y : Int) : monthLen y 12 = if isLeap y then 30 else 29 := by simp [monthLen]

/-- day-of-year bounds of a well-formed date -/
theorem yday_bounds (y m d : Int) (hm1 : 1 ≤ m) (hm2 : m ≤ 12) (hd1 : 1 ≤ d) (hd2 : d ≤ monthLen y m) :
    1 ≤ sumAt (m - 1) + d ∧ sumAt (m - 1) + d ≤ (if isLeap y then 366 else 365) ∧
    d ≤ sumAt m - sumAt (m - 1) := by
  by_cases h11 : m ≤ 11
  · have h := monthLen_eq y m hm1 h11
    have hs := (sum_step m hm1 hm2)
    have hmono := sum_mono m (11 - m).toNat (by omega) (by omega)
    have e : m + ((11 - m).toNat : Int) = 11 := by omega
    rw [e] at hmono
    have h11v : sumAt 11 = 336 := by decide
    have h0 := sum_mono 0 (m - 1).toNat (by omega) (by omega)
    have e0 : (0:Int) + ((m - 1).toNat : Int) = m - 1 := by omega
    rw [e0] at h0
    have h00 : sumAt 0 = 0 := by decide
    refine ⟨by omega, ?_, by omega⟩
    split <;> omega
  · have hm : m = 12 := by omega
    subst hm
    have h11v : sumAt (12 - 1) = 336 := by decide
    have h12v : sumAt 12 = 366 := by decide
    rw [monthLen12] at hd2
    refine ⟨by omega, ?_, ?_⟩
    · split at hd2 <;> simp_all <;> omega
    · split at hd2 <;> omega

theorem jdTo_toJd (dt : Date) (hwf : WF dt) : jdTo (toJd dt) = dt := by
  rcases dt with ⟨y, m, d⟩
  obtain ⟨hm1, hm2, hd1, hd2⟩ := hwf
  simp only at hm1 hm2 hd1 hd2
  obtain ⟨np, jym, hy, hj0, hj1⟩ := year_coords y
  subst hy
  obtain ⟨hy1, hy2, hy3⟩ := yday_bounds _ m d hm1 hm2 hd1 hd2
  have hleap := isLeap_cycle np jym hj0 hj1
  rw [toJd_cycle np jym m d hj0 hj1]
  -- decompose jym = 4 yf + yp
  generalize hyf : jym / 4 = yf
  generalize hyp : jym % 4 = yp
  have hjy : jym = 4 * yf + yp := by omega
  have hyf0 : 0 ≤ yf ∧ yf ≤ 8 ∧ 0 ≤ yp ∧ yp ≤ 3 ∧ (yf = 8 → yp = 0) := by omega
  generalize hyd : sumAt (m - 1) + d = yd at *
  have hlen : yd ≤ (if yp = 0 ∧ yf < 8 then 366 else 365) := by
    rw [hleap] at hy2
    by_cases hc : jym % 4 = 0 ∧ jym < 32
    · have : yp = 0 ∧ yf < 8 := by omega
      simp [hc, this] at hy2 ⊢; exact hy2
    · have : ¬ (yp = 0 ∧ yf < 8) := by omega
      simp [hc, this] at hy2 ⊢; exact hy2
  unfold jdTo
  simp only
  have hn : 12053 * np + 365 * jym + (jym + 3) / 4 + sumAt (m - 1) + d - 1 + 584101 + GREGORIAN_EPOCH -
      GREGORIAN_EPOCH - 584101 = 12053 * np + (1461 * yf + 365 * yp + (if yp = 0 then 0 else 1) + yd - 1) := by
    split <;> omega
  rw [hn]
  generalize hr : 1461 * yf + 365 * yp + (if yp = 0 then 0 else 1) + yd - 1 = r
  have hr0 : 0 ≤ r ∧ r < 12053 := by
    split at hr <;> split at hlen <;> omega
  have e1 : (12053 * np + r) / 12053 = np := by omega
  have e2 : (12053 * np + r) % 12053 = r := by omega
  rw [e1, e2]
  have e3 : r / 1461 = yf := by split at hr <;> split at hlen <;> omega
  have e4 : r % 1461 = 365 * yp + (if yp = 0 then 0 else 1) + yd - 1 := by
    split at hr <;> split at hlen <;> split <;> omega
  rw [e3, e4]
  have hmd := getMonthDay_spec m d hm1 hm2 hd1 hy3
  rw [hyd] at hmd
  by_cases hp0 : yp = 0
  · have hlt : ¬ (365 * yp + (if yp = 0 then 0 else 1) + yd - 1 ≥ 366) := by
      simp [hp0]; split at hlen <;> omega
    simp only [hlt, if_false]
    have : 365 * yp + (if yp = 0 then 0 else 1) + yd - 1 + 1 = yd := by simp [hp0]
    rw [this, hmd]
    congr 1; omega
  · have hge : 365 * yp + (if yp = 0 then 0 else 1) + yd - 1 ≥ 366 := by simp [hp0]; omega
    simp only [hge, if_true]
    have e5 : (365 * yp + (if yp = 0 then 0 else 1) + yd - 1 - 1) / 365 = yp := by
      simp [hp0]; split at hlen <;> omega
    have e6 : (365 * yp + (if yp = 0 then 0 else 1) + yd - 1 - 1) % 365 + 1 = yd := by
      simp [hp0]; split at hlen <;> omega
    rw [e5, e6, hmd]
    congr 1; omega


theorem monthLen_range (y m : Int) (h1 : 1 ≤ m) (h2 : m ≤ 12) : 29 ≤ monthLen y m ∧ monthLen y m ≤ 31 := by
  by_cases h11 : m ≤ 11
  · rw [monthLen_eq y m h1 h11]
    have := sum_step m h1 h2
    rcases month_cases h1 h2 with h|h|h|h|h|h|h|h|h|h|h|h <;> subst h <;> decide
  · have : m = 12 := by omega
    subst this; rw [monthLen12]; split <;> omega

theorem toJd_succ (dt : Date) (hwf : WF dt) : WF (succ dt) ∧ toJd (succ dt) = toJd dt + 1 := by
  rcases dt with ⟨y, m, d⟩
  obtain ⟨hm1, hm2, hd1, hd2⟩ := hwf
  simp only at hm1 hm2 hd1 hd2
  obtain ⟨np, jym, hy, hj0, hj1⟩ := year_coords y
  unfold succ
  simp only
  by_cases hlt : d < monthLen y m
  · simp only [hlt, if_true]
    refine ⟨⟨hm1, hm2, by simp only; omega, by simp only; omega⟩, ?_⟩
    unfold toJd; simp only; omega
  · have hd : d = monthLen y m := by omega
    simp only [hlt, if_false]
    by_cases hm : m < 12
    · simp only [hm, if_true]
      have hr := monthLen_range y (m + 1) (by omega) (by omega)
      refine ⟨⟨by simp only; omega, by simp only; omega, by simp, by simp only; omega⟩, ?_⟩
      have hml := monthLen_eq y m hm1 (by omega)
      unfold toJd; simp only
      have e : m + 1 - 1 = m := by omega
      rw [e, hd, hml]; omega
    · have hm12 : m = 12 := by omega
      subst hm12
      simp only [hm, if_false]
      have hr := monthLen_range (y + 1) 1 (by omega) (by omega)
      refine ⟨⟨by simp, by simp, by simp, by simp only; omega⟩, ?_⟩
      subst hy
      have hleap := isLeap_cycle np jym hj0 hj1
      rw [monthLen12, hleap] at hd
      rw [toJd_cycle np jym 12 d hj0 hj1]
      have h11v : sumAt (12 - 1) = 336 := by decide
      have h0v : sumAt (1 - 1) = 0 := by decide
      by_cases h32 : jym = 32
      · subst h32
        have e : 979 + 33 * np + 32 + 1 = 979 + 33 * (np + 1) + 0 := by omega
        rw [e, toJd_cycle (np + 1) 0 1 1 (by omega) (by omega), h11v, h0v]
        simp at hd; omega
      · have e : 979 + 33 * np + jym + 1 = 979 + 33 * np + (jym + 1) := by omega
        rw [e, toJd_cycle np (jym + 1) 1 1 (by omega) (by omega), h11v, h0v]
        by_cases h4 : jym % 4 = 0
        · have : jym % 4 = 0 ∧ jym < 32 := ⟨h4, by omega⟩
          simp [this] at hd; omega
        · have : ¬ (jym % 4 = 0 ∧ jym < 32) := fun h => h4 h.1
          simp [this] at hd; omega

theorem succ_step (jd : Int) : jdTo (jd + 1) = succ (jdTo jd) := by
  obtain ⟨hwf, hjd⟩ := jdTo_spec jd
  obtain ⟨hwf', hs⟩ := toJd_succ (jdTo jd) hwf
  have := jdTo_toJd (succ (jdTo jd)) hwf'
  rw [hs, hjd] at this
  exact this

/-- C03 anchor: 1 Farvardin 1400 is day 2459295 -/
theorem anchor : jdTo 2459295 = ⟨1400, 1, 1⟩ := by decide

end Starcal.Jalali

#print axioms Starcal.Jalali.succ_step
