import Starcal.HijriT
/-! Starcal: hijri table mode inside the table window (every day from the second table month on, up
    to EndJd): `ToJd (JdTo jd) = jd`, by the general table lemmas — no enumeration. -/
namespace Starcal.HTable

/-- `pos` is inverted by the prefix sum -/
theorem pos_inverse (ls : List Int) (hpos : ∀ L ∈ ls, 1 ≤ L) (rem : Int) (h0 : 0 ≤ rem) (h1 : rem ≤ sum ls) :
    ∃ i : Nat, (pos ls rem).1 = i ∧ i ≤ ls.length ∧ 1 ≤ (pos ls rem).2 ∧
      prefixSum ls i + (pos ls rem).2 - 1 = rem := by
  induction ls generalizing rem with
  | nil =>
    simp [sum] at h1
    have : rem = 0 := by omega
    subst this
    exact ⟨0, by simp [pos], by simp, by simp [pos], by simp [pos, prefixSum, sum]⟩
  | cons L rest ih =>
    have hL := hpos L (by simp)
    unfold pos
    by_cases hlt : rem < L
    · simp only [hlt, if_true]
      exact ⟨0, by simp, by simp, by omega, by simp [prefixSum, sum]⟩
    · simp only [hlt, if_false]
      obtain ⟨i, hi1, hi2, hi3, hi4⟩ := ih (fun M hM => hpos M (List.mem_cons_of_mem _ hM)) (rem - L)
        (by omega) (by simp [sum] at h1; omega)
      refine ⟨i + 1, by rw [hi1]; simp, by simp; omega, hi3, ?_⟩
      have : prefixSum (L :: rest) (i + 1) = L + prefixSum rest i := by simp [prefixSum, sum]
      rw [this]; omega

theorem pos_fst_nonneg (ls : List Int) (rem : Int) : 0 ≤ (pos ls rem).1 := by
  induction ls generalizing rem with
  | nil => simp [pos]
  | cons L rest ih =>
    unfold pos
    split
    · simp
    · have := ih (rem - L); simp only; omega

end Starcal.HTable

namespace Starcal.HijriT
open Starcal.Hijri Starcal.HTable

theorem lens_pos : ∀ L ∈ lens, 1 ≤ L := by decide +kernel

/-- inside the window, from the second table month on, the table serves both directions -/
theorem table_window_roundtrip (jd : Int) (h1 : startJd + 29 ≤ jd) (h2 : jd ≤ endJd) :
    toJdT (jdToT jd) = jd := by
  have hrem0 : 0 ≤ jd - startJd := by omega
  have hrem1 : jd - startJd ≤ sum lens := by unfold endJd at h2; omega
  obtain ⟨i, hi1, hi2, hi3, hi4⟩ := pos_inverse lens lens_pos (jd - startJd) hrem0 hrem1
  have hwalk := walk_pos startJd lens lens_pos ym0 (jd - startJd) hrem0 hrem1
  have e : startJd + (jd - startJd) = jd := by omega
  rw [e] at hwalk
  -- the first table month has 29 days, so the month index is at least 1
  have hi_pos : 1 ≤ i := by
    cases i with
    | zero =>
      exfalso
      have h0 : prefixSum lens 0 = 0 := by simp [prefixSum, sum]
      rw [h0] at hi4
      have hfirst : (pos lens (jd - startJd)).1 = 0 := by simpa using hi1
      have : ¬ (jd - startJd < 29) := by omega
      have hl : lens = 29 :: lens.tail := by decide +kernel
      rw [hl] at hfirst
      unfold pos at hfirst
      simp only [this, if_false] at hfirst
      have := pos_fst_nonneg lens.tail (jd - startJd - 29)
      omega
    | succ i => omega
  generalize hk : (pos lens (jd - startJd)).2 = k at *
  rw [hi1] at hwalk
  have hjdTo : jdToT jd = ⟨(ym0 + i) / 12, (ym0 + i) % 12 + 1, k⟩ := by
    unfold jdToT tableJdTo
    have : endJd ≥ jd ∧ jd ≥ startJd := by omega
    simp only [this, and_self, if_true, hwalk, Option.map_some]
  rw [hjdTo]
  unfold toJdT tableToJd
  simp only
  have hym : (ym0 + ↑i) / 12 * 12 + ((ym0 + ↑i) % 12 + 1) - 1 = ym0 + i := by omega
  rw [hym]
  have hhas : hasYm (ym0 + ↑i - 1) = true := by
    unfold hasYm; simp; omega
  rw [hhas]
  simp only [if_true, Option.getD_some]
  have : (ym0 + (i : Int) - ym0).toNat = i := by omega
  rw [this]; omega

end Starcal.HijriT

#print axioms Starcal.HijriT.table_window_roundtrip
