import Starcal.Text
/-! Starcal: interval.parseInterval with explicit panic branches (Go slice expressions),
    before and after the planned repair; totality theorem for the repaired version. -/
namespace Starcal

inductive Res (α : Type) where
  | ok (a : α) | err | panic
deriving Repr, DecidableEq

structure Ival where
  start : Int
  stop : Int
  closed : Bool
deriving Repr, DecidableEq

/-- strconv.ParseInt(s, 10, 0) without the int64 range check (not relevant to panics) -/
def parseInt (s : List Char) : Option Int :=
  match s with
  | '-' :: ds => (parseNat ds).map (fun n => -(n : Int))
  | '+' :: ds => (parseNat ds).map (fun n => (n : Int))
  | ds => (parseNat ds).map (fun n => (n : Int))

def indexOfDash : List Char → Option Nat
  | [] => none
  | c :: cs => if c = '-' then some 0 else (indexOfDash cs).map (· + 1)

/-- Go `s[i:j]`: panics unless i ≤ j ≤ len -/
def slice (s : List Char) (i j : Nat) : Res (List Char) :=
  if i ≤ j ∧ j ≤ s.length then .ok ((s.take j).drop i) else .panic

/-- `fixed = false`: the code as it is; `fixed = true`: with `if str == "" { return err }` -/
def parseIntervalAux (fixed : Bool) : Nat → List Char → Res Ival
  | 0, _ => .err
  | fuel + 1, str0 =>
    let closedEnd := str0.getLast? == some ']'
    let str := if closedEnd then str0.dropLast else str0        -- str[:len(str)-1], len ≥ 1 here
    if fixed && str.isEmpty then .err
    else if "-(".toList.isPrefixOf str then
      if str.getLast? != some ')' then .err
      else
        match slice str 2 (str.length - 1) with                   -- str[2 : len(str)-1]
        | .panic => .panic
        | .err => .err
        | .ok inner =>
          match parseIntervalAux fixed fuel inner with
          | .ok i => .ok ⟨-i.start, -i.stop, i.closed⟩
          | r => r
    else
      match slice str 1 str.length with                           -- str[1:]
      | .panic => .panic
      | .err => .err
      | .ok rest =>
        match indexOfDash rest with
        | none =>
          match parseInt str with
          | some n => .ok ⟨n, n, true⟩
          | none => .err
        | some k =>
          match slice str 0 (k + 1), slice str (k + 2) str.length with   -- str[:k+1], str[k+2:]
          | .ok a, .ok b =>
            match parseInt a, parseInt b with
            | some x, some y => .ok ⟨x, y, closedEnd || x == y⟩
            | _, _ => .err
          | _, _ => .panic

def parseInterval (fixed : Bool) (s : List Char) : Res Ival := parseIntervalAux fixed (s.length + 1) s

-- the unchanged code panics on the empty token, on "]" and on "-()"
example : parseInterval false "".toList = .panic := by decide
example : parseInterval false "]".toList = .panic := by decide
example : parseInterval false "-()".toList = .panic := by decide
example : parseInterval true "-()".toList = .err := by decide
example : parseInterval true "-(70-50])".toList = .ok ⟨-70, -50, true⟩ := by decide
example : parseInterval true "-3-5".toList = .ok ⟨-3, 5, false⟩ := by decide

theorem indexOfDash_lt {s : List Char} {k : Nat} (h : indexOfDash s = some k) : k < s.length := by
  induction s generalizing k with
  | nil => simp [indexOfDash] at h
  | cons c cs ih =>
    unfold indexOfDash at h
    split at h
    · simp at h; subst h; simp
    · cases hi : indexOfDash cs with
      | none => simp [hi] at h
      | some j =>
        simp [hi] at h; subst h
        have := ih hi; simp; omega

theorem prefix_suffix_len (str : List Char) (hp : "-(".toList.isPrefixOf str = true)
    (hs : str.getLast? = some ')') : 3 ≤ str.length := by
  match str, hp, hs with
  | [_, _], hp, hs =>
    simp [List.isPrefixOf] at hp
    obtain ⟨rfl, rfl⟩ := hp
    simp at hs
  | _ :: _ :: _ :: _, _, _ => simp
  | [_], hp, _ => simp [List.isPrefixOf] at hp
  | [], hp, _ => simp [List.isPrefixOf] at hp

/-- C09 (repaired code): no input string makes parseInterval panic -/
theorem parseIntervalAux_total (fuel : Nat) (s : List Char) : parseIntervalAux true fuel s ≠ .panic := by
  induction fuel generalizing s with
  | zero => simp [parseIntervalAux]
  | succ fuel ih =>
    unfold parseIntervalAux
    simp only []
    generalize hstr : (if (s.getLast? == some ']') = true then s.dropLast else s) = str
    split
    · simp
    · rename_i hne
      split
      · rename_i hp
        split
        · simp
        · rename_i hs
          have hs' : str.getLast? = some ')' := by simpa using hs
          have hlen := prefix_suffix_len str hp hs'
          have : slice str 2 (str.length - 1) = .ok ((str.take (str.length - 1)).drop 2) := by
            unfold slice; rw [if_pos]; omega
          rw [this]
          simp only
          have := ih ((str.take (str.length - 1)).drop 2)
          split <;> simp_all
      · have hne' : str ≠ [] := by
          intro h; simp [h] at hne
        have h1 : slice str 1 str.length = .ok (str.drop 1) := by
          unfold slice
          have : 1 ≤ str.length := by
            cases str with
            | nil => exact absurd rfl hne'
            | cons _ _ => simp
          rw [if_pos ⟨this, Nat.le_refl _⟩]; simp
        rw [h1]
        simp only
        split
        · split <;> simp
        · rename_i k hk
          have hk' := indexOfDash_lt hk
          simp at hk'
          have h2 : slice str 0 (k + 1) = .ok (str.take (k + 1)) := by
            unfold slice; rw [if_pos]; simp; omega
          have h3 : slice str (k + 2) str.length = .ok (str.drop (k + 2)) := by
            unfold slice; rw [if_pos]; simp; omega
          rw [h2, h3]
          simp only
          split <;> simp

theorem parseInterval_total (s : List Char) : parseInterval true s ≠ .panic :=
  parseIntervalAux_total _ s

end Starcal
