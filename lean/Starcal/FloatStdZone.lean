import Starcal.FloatStd
/-! Starcal.FloatStdZone: utils.GetJdByEpoch's float64 expression under the standard model of floating-point arithmetic. -/
namespace Starcal.FloatStd
open Starcal

/-- utils.GetJdByEpoch / GetFloatJdByEpoch as the float code computes them: `floor(float64(J1970) + float64(x)/86400.0)`
    with x = epoch + offset, every operation rounded -/
def jdByEpochR (rnd : Rat → Rat) (x : Int) : Int :=
  (rnd ((2440588 : Rat) + rnd (((x : Int) : Rat) / 86400))).floor

/-- under the standard model the float code returns exactly `J1970 + ⌊x / 86400⌋` for every local second count
    |x| < 2^37 (instants within 4000 years of 1970) -/
theorem jdByEpochR_eq (rnd : Rat → Rat) (h : StdModel rnd) (x : Int) (x0 : -137438953472 < x) (x1 : x < 137438953472) :
    jdByEpochR rnd x = 2440588 + x / 86400 := by
  unfold jdByEpochR
  generalize hq : x / 86400 = q
  generalize hr : x % 86400 = r
  have hx : x = 86400 * q + r := by omega
  have hr0 : 0 ≤ r ∧ r < 86400 := by omega
  have hq0 : -1590730 < q ∧ q < 1590730 := by omega
  by_cases hz : r = 0
  · -- exact quotient: an integer, computed exactly; the sum is an integer, computed exactly
    have e1 : ((x : Int) : Rat) / 86400 = (((2 * q : Int)) : Rat) / 2 := by
      rw [hx, hz]; simp only [Rat.intCast_add, Rat.intCast_mul, Rat.intCast_ofNat]; grind
    rw [e1, h.exact_half (2 * q) (by omega) (by omega)]
    have e2 : (2440588 : Rat) + (((2 * q : Int)) : Rat) / 2 = (((2 * (2440588 + q) : Int)) : Rat) / 2 := by
      simp only [Rat.intCast_add, Rat.intCast_mul, Rat.intCast_ofNat]; grind
    rw [e2, h.exact_half (2 * (2440588 + q)) (by omega) (by omega)]
    have e3 : (((2 * (2440588 + q) : Int)) : Rat) / 2 = (((2440588 + q : Int)) : Rat) := by
      simp only [Rat.intCast_add, Rat.intCast_mul, Rat.intCast_ofNat]; grind
    rw [e3, Rat.floor_intCast]
  · -- q + 1/86400 ≤ v ≤ q + 1 - 1/86400
    have cx : ((x : Int) : Rat) = 86400 * ((q : Int) : Rat) + ((r : Int) : Rat) := by
      rw [hx]; simp only [Rat.intCast_add, Rat.intCast_mul, Rat.intCast_ofNat]
    have cr0 : (1 : Rat) ≤ ((r : Int) : Rat) := by
      have := Rat.intCast_le_intCast.mpr (show (1 : Int) ≤ r by omega); simpa using this
    have cr1 : ((r : Int) : Rat) ≤ 86399 := by
      have := Rat.intCast_le_intCast.mpr (show r ≤ (86399 : Int) by omega); simpa using this
    have cq0 : (-1590730 : Rat) ≤ ((q : Int) : Rat) := by
      have := Rat.intCast_le_intCast.mpr (show (-1590730 : Int) ≤ q by omega); simpa using this
    have cq1 : ((q : Int) : Rat) ≤ 1590730 := by
      have := Rat.intCast_le_intCast.mpr (show q ≤ (1590730 : Int) by omega); simpa using this
    generalize hv : ((x : Int) : Rat) / 86400 = v
    have hvx : ((x : Int) : Rat) = v * 86400 := by grind
    have v0 : -1590731 ≤ v ∧ v ≤ 1590731 := by grind
    have ev := h.abs_err_signed v 1590731 v0.1 v0.2 (by grind)
    have u1 : 1590731 * u ≤ 1 / 1000000000 := by unfold u; grind
    generalize rnd v = c at *
    have s0 : 0 ≤ (2440588 : Rat) + c ∧ (2440588 : Rat) + c ≤ 5000000 := by grind
    have es := h.abs_err ((2440588 : Rat) + c) 5000000 s0.1 s0.2 (by grind)
    have u2 : 5000000 * u ≤ 1 / 1000000000 := by unfold u; grind
    apply floor_eq_of
    · simp only [Rat.intCast_add, Rat.intCast_ofNat]; grind
    · simp only [Rat.intCast_add, Rat.intCast_ofNat]; grind

end Starcal.FloatStd
