/-! Starcal: time-of-day conversions (C18): integer part, and the fractional-hour functions over Rat. -/
namespace Starcal.FHour

structure HMS where
  hour : Int
  minute : Int
  second : Int
deriving DecidableEq, Repr

def valid (x : HMS) : Prop := 0 ≤ x.hour ∧ x.hour < 24 ∧ 0 ≤ x.minute ∧ x.minute < 60 ∧ 0 ≤ x.second ∧ x.second < 60

def totalSeconds (x : HMS) : Int := x.hour * 3600 + x.minute * 60 + x.second

/-- utils.GetHmsBySeconds as written: minute field not reduced -/
def hmsBySecondsOld (s : Int) : HMS := ⟨(s / 3600) % 256, (s / 60) % 256, (s % 60) % 256⟩
/-- with the planned repair -/
def hmsBySeconds (s : Int) : HMS := ⟨(s / 3600) % 256, (s / 60 % 60) % 256, (s % 60) % 256⟩

example : hmsBySecondsOld 3600 = ⟨1, 60, 0⟩ := by decide     -- the defect: 01:60:00

theorem seconds_roundtrip (x : HMS) (h : valid x) : hmsBySeconds (totalSeconds x) = x := by
  rcases x with ⟨a, b, c⟩
  unfold valid at h; simp only at h
  unfold hmsBySeconds totalSeconds
  simp only
  congr 1 <;> omega

theorem hms_of_seconds (s : Int) (h0 : 0 ≤ s) (h1 : s < 86400) :
    valid (hmsBySeconds s) ∧ totalSeconds (hmsBySeconds s) = s := by
  unfold hmsBySeconds totalSeconds valid
  simp only
  refine ⟨⟨by omega, by omega, by omega, by omega, by omega, by omega⟩, by omega⟩

/-- HMS.GetFloatHour over exact rationals -/
def floatHour (x : HMS) : Rat := (x.hour : Rat) + (x.minute : Rat) / 60 + (x.second : Rat) / 3600

/-- FloatHourToHMS after the planned repair: round to the nearest second, then split -/
def ofFloatHour (q : Rat) : HMS :=
  let total := (q * 3600 + 1 / 2).floor
  ⟨total / 3600, total / 60 % 60, total % 60⟩

theorem floatHour_seconds (x : HMS) : floatHour x * 3600 = ((totalSeconds x : Int) : Rat) := by
  unfold floatHour totalSeconds
  grind


theorem floor_half (n : Int) : ((n : Rat) + 1 / 2).floor = n := by
  apply Int.le_antisymm
  · have : ((n : Rat) + 1 / 2).floor < n + 1 := by
      rw [Rat.floor_lt_iff]
      have : ((n + 1 : Int) : Rat) = (n : Rat) + 1 := by simp [Rat.intCast_add]
      rw [this]; grind
    omega
  · rw [Rat.le_floor_iff]; grind

/-- C18: fractional hours of a valid time of day convert back to the same time (exact rationals) -/
theorem floathour_roundtrip (x : HMS) (h : valid x) : ofFloatHour (floatHour x) = x := by
  unfold ofFloatHour
  simp only
  rw [floatHour_seconds, floor_half]
  rcases x with ⟨a, b, c⟩
  unfold valid at h; simp only at h
  unfold totalSeconds
  simp only
  congr 1 <;> omega

/-- C18: for any fractional hour the returned time is within half a second (hence one second) -/
theorem within_half_second (q : Rat) :
    let t := (q * 3600 + 1 / 2).floor
    ((t : Int) : Rat) - q * 3600 ≤ 1 / 2 ∧ q * 3600 - ((t : Int) : Rat) < 1 / 2 := by
  simp only
  have h1 := Rat.floor_le (q * 3600 + 1 / 2)
  have h2 := Rat.lt_floor_add_one (q * 3600 + 1 / 2)
  have e : (((q * 3600 + 1 / 2).floor + 1 : Int) : Rat) = ((q * 3600 + 1 / 2).floor : Rat) + 1 := by
    simp [Rat.intCast_add]
  rw [e] at h2
  constructor <;> grind

theorem total_split (t : Int) (h0 : 0 ≤ t) :
    totalSeconds ⟨t / 3600, t / 60 % 60, t % 60⟩ = t := by
  unfold totalSeconds; simp only; omega

end Starcal.FHour

#print axioms Starcal.FHour.floathour_roundtrip
#print axioms Starcal.FHour.within_half_second
