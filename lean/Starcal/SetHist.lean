import Starcal.SetM
/-! Starcal: C15 history theorem — every step of every operation history satisfies its
    membership-level specification, and the duplicate-free invariant holds in every reachable state. -/
namespace Starcal.SetM

variable {α : Type} [DecidableEq α]

inductive Op (α : Type) where
  | add (r : Nat) (x : α) | remove (r : Nat) (x : α) | clear (r : Nat)
  | union (d a b : Nat) | inter (d a b : Nat) | diff (d a b : Nat) | sym (d a b : Nat) | clone (d a : Nat)
  | contains (r : Nat) (x : α) | card (r : Nat) | subset (a b : Nat) | equal (a b : Nat)

inductive Out where
  | none | bool (b : Bool) | nat (n : Nat)
deriving DecidableEq, Repr

abbrev St (α : Type) := Nat → List α

def upd (s : St α) (r : Nat) (v : List α) : St α := fun k => if k = r then v else s k

def step (s : St α) : Op α → St α × Out
  | .add r x => (upd s r (add (s r) x).1, .bool (add (s r) x).2)
  | .remove r x => (upd s r (remove (s r) x), .none)
  | .clear r => (upd s r [], .none)
  | .union d a b => (upd s d (union (s a) (s b)), .none)
  | .inter d a b => (upd s d (intersect (s a) (s b)), .none)
  | .diff d a b => (upd s d (difference (s a) (s b)), .none)
  | .sym d a b => (upd s d (symDiff (s a) (s b)), .none)
  | .clone d a => (upd s d ((s a).foldl (fun acc e => (add acc e).1) []), .none)
  | .contains r x => (s, .bool (contains (s r) x))
  | .card r => (s, .nat (card (s r)))
  | .subset a b => (s, .bool (isSubset (s a) (s b)))
  | .equal a b => (s, .bool (equal (s a) (s b)))

/-- the mathematical specification of one step, in terms of membership only -/
def Spec (pre : St α) (op : Op α) (out : Out) (post : St α) : Prop :=
  match op with
  | .add r x => out = .bool (decide (x ∉ pre r)) ∧ (∀ y, y ∈ post r ↔ y = x ∨ y ∈ pre r) ∧ ∀ k, k ≠ r → post k = pre k
  | .remove r x => (∀ y, y ∈ post r ↔ y ∈ pre r ∧ y ≠ x) ∧ ∀ k, k ≠ r → post k = pre k
  | .clear r => (∀ y, y ∉ post r) ∧ ∀ k, k ≠ r → post k = pre k
  | .union d a b => (∀ y, y ∈ post d ↔ y ∈ pre a ∨ y ∈ pre b) ∧ ∀ k, k ≠ d → post k = pre k
  | .inter d a b => (∀ y, y ∈ post d ↔ y ∈ pre a ∧ y ∈ pre b) ∧ ∀ k, k ≠ d → post k = pre k
  | .diff d a b => (∀ y, y ∈ post d ↔ y ∈ pre a ∧ y ∉ pre b) ∧ ∀ k, k ≠ d → post k = pre k
  | .sym d a b => (∀ y, y ∈ post d ↔ (y ∈ pre a ∧ y ∉ pre b) ∨ (y ∈ pre b ∧ y ∉ pre a)) ∧ ∀ k, k ≠ d → post k = pre k
  | .clone d a => (∀ y, y ∈ post d ↔ y ∈ pre a) ∧ ∀ k, k ≠ d → post k = pre k
  | .contains r x => out = .bool (decide (x ∈ pre r)) ∧ post = pre
  | .card r => out = .nat (pre r).length ∧ post = pre
  | .subset a b => (out = .bool true ↔ ∀ y ∈ pre a, y ∈ pre b) ∧ post = pre
  | .equal a b => (out = .bool true ↔ ∀ y, y ∈ pre a ↔ y ∈ pre b) ∧ post = pre

def Inv (s : St α) : Prop := ∀ k, (s k).Nodup

theorem upd_same (s : St α) (r : Nat) (v : List α) : upd s r v r = v := by simp [upd]
theorem upd_other (s : St α) (r : Nat) (v : List α) (k : Nat) (h : k ≠ r) : upd s r v k = s k := by simp [upd, h]

theorem inv_upd (s : St α) (r : Nat) (v : List α) (hs : Inv s) (hv : v.Nodup) : Inv (upd s r v) := by
  intro k; unfold upd; split <;> simp_all [Inv]

theorem nodup_filter' (l : List α) (p : α → Bool) (h : l.Nodup) : (l.filter p).Nodup :=
  List.Nodup.sublist List.filter_sublist h

/-- one step: the invariant is preserved and the specification holds -/
theorem step_correct (s : St α) (hs : Inv s) (op : Op α) :
    Inv (step s op).1 ∧ Spec s op (step s op).2 (step s op).1 := by
  cases op with
  | add r x =>
    refine ⟨inv_upd _ _ _ hs (nodup_add _ _ (hs r)), ?_, ?_, fun k hk => upd_other _ _ _ _ hk⟩
    · simp only [step, add]; by_cases h : x ∈ s r <;> simp [h]
    · intro y; simp only [step, upd_same]; exact mem_add _ _ _
  | remove r x =>
    refine ⟨inv_upd _ _ _ hs ((hs r).erase x), ?_, fun k hk => upd_other _ _ _ _ hk⟩
    intro y; simp only [step, upd_same, remove]
    exact (hs r).mem_erase_iff.trans (by constructor <;> (rintro ⟨a, b⟩; exact ⟨b, a⟩))
  | clear r =>
    exact ⟨inv_upd _ _ _ hs List.nodup_nil, by intro y; simp [step, upd_same], fun k hk => upd_other _ _ _ _ hk⟩
  | union d a b =>
    exact ⟨inv_upd _ _ _ hs (nodup_union _ _), by intro y; simp only [step, upd_same]; exact mem_union _ _ _,
      fun k hk => upd_other _ _ _ _ hk⟩
  | inter d a b =>
    refine ⟨inv_upd _ _ _ hs ?_, by intro y; simp only [step, upd_same]; exact mem_intersect _ _ _,
      fun k hk => upd_other _ _ _ _ hk⟩
    unfold intersect; split
    · exact nodup_filter' _ _ (hs a)
    · exact nodup_filter' _ _ (hs b)
  | diff d a b =>
    exact ⟨inv_upd _ _ _ hs (nodup_filter' _ _ (hs a)),
      by intro y; simp only [step, upd_same]; exact mem_difference _ _ _, fun k hk => upd_other _ _ _ _ hk⟩
  | sym d a b =>
    exact ⟨inv_upd _ _ _ hs (nodup_union _ _), by intro y; simp only [step, upd_same]; exact mem_symDiff _ _ _,
      fun k hk => upd_other _ _ _ _ hk⟩
  | clone d a =>
    refine ⟨inv_upd _ _ _ hs (nodup_foldl_add _ _ List.nodup_nil), ?_, fun k hk => upd_other _ _ _ _ hk⟩
    intro y; simp only [step, upd_same]; rw [mem_foldl_add]; simp
  | contains r x => exact ⟨hs, by simp [step, contains], rfl⟩
  | card r => exact ⟨hs, by simp [step, card], rfl⟩
  | subset a b =>
    refine ⟨hs, ?_, rfl⟩
    simp only [step]
    rw [← isSubset_iff]
    constructor
    · intro h; simpa using h
    · intro h; simp [h]
  | equal a b =>
    refine ⟨hs, ?_, rfl⟩
    simp only [step]
    rw [← equal_iff _ _ (hs a) (hs b)]
    constructor
    · intro h; simpa using h
    · intro h; simp [h]

/-- run a history, recording every step -/
def run : St α → List (Op α) → List (St α × Op α × Out × St α)
  | _, [] => []
  | s, op :: ops => (s, op, (step s op).2, (step s op).1) :: run (step s op).1 ops

/-- **C15**: every step of every history from a duplicate-free state (e.g. all registers empty)
    meets the mathematical specification -/
theorem history_correct (s : St α) (hs : Inv s) (ops : List (Op α)) :
    ∀ e ∈ run s ops, Inv e.1 ∧ Spec e.1 e.2.1 e.2.2.1 e.2.2.2 ∧ Inv e.2.2.2 := by
  induction ops generalizing s with
  | nil => simp [run]
  | cons op ops ih =>
    obtain ⟨h1, h2⟩ := step_correct s hs op
    intro e he
    simp only [run, List.mem_cons] at he
    rcases he with rfl | he
    · exact ⟨hs, h2, h1⟩
    · exact ih _ h1 e he

end Starcal.SetM

#print axioms Starcal.SetM.history_correct
