namespace Starcal

def digitChar (n : Nat) : Char := Char.ofNat (48 + n)

/-- decimal digits, most significant first (fmt %d of a non-negative int) -/
def showNatAux : Nat → Nat → List Char → List Char
  | 0, _, acc => acc
  | fuel+1, n, acc =>
    if n < 10 then digitChar n :: acc
    else showNatAux fuel (n / 10) (digitChar (n % 10) :: acc)

def showNat (n : Nat) : List Char := showNatAux (n+1) n []

def digitVal? (c : Char) : Option Nat :=
  if 48 ≤ c.toNat ∧ c.toNat ≤ 57 then some (c.toNat - 48) else none

/-- strconv.ParseUint-like: non-empty, digits only -/
def parseDigits : List Char → Nat → Option Nat
  | [], acc => some acc
  | c :: cs, acc => match digitVal? c with
    | some d => parseDigits cs (acc * 10 + d)
    | none => none

def parseNat (s : List Char) : Option Nat := if s.isEmpty then none else parseDigits s 0

theorem digitVal_digitChar (n : Nat) (h : n < 10) : digitVal? (digitChar n) = some n := by
  have : n = 0 ∨ n = 1 ∨ n = 2 ∨ n = 3 ∨ n = 4 ∨ n = 5 ∨ n = 6 ∨ n = 7 ∨ n = 8 ∨ n = 9 := by omega
  rcases this with h|h|h|h|h|h|h|h|h|h <;> subst h <;> decide

theorem parseDigits_append (a b : List Char) (acc : Nat) :
    parseDigits (a ++ b) acc = (parseDigits a acc).bind (fun x => parseDigits b x) := by
  induction a generalizing acc with
  | nil => simp [parseDigits]
  | cons c cs ih =>
    simp only [List.cons_append, parseDigits]
    cases digitVal? c with
    | none => simp
    | some d => simp [ih]

theorem showNatAux_spec (fuel n : Nat) (acc : List Char) (hf : n < fuel) :
    ∃ ds, showNatAux fuel n acc = ds ++ acc ∧ ds ≠ [] ∧ ∀ k, parseDigits ds k = some (k * 10 ^ ds.length + n) := by
  induction fuel generalizing n acc with
  | zero => omega
  | succ fuel ih =>
    unfold showNatAux
    split
    · rename_i h
      refine ⟨[digitChar n], rfl, by simp, ?_⟩
      intro k
      simp [parseDigits, digitVal_digitChar n h]
    · rename_i h
      obtain ⟨ds, h1, h2, h3⟩ := ih (n / 10) (digitChar (n % 10) :: acc) (by omega)
      refine ⟨ds ++ [digitChar (n % 10)], by simp [h1], by simp, ?_⟩
      intro k
      rw [parseDigits_append, h3]
      simp only [Option.bind_some, parseDigits, digitVal_digitChar (n % 10) (by omega), List.length_append, List.length_singleton]
      congr 1
      rw [Nat.pow_succ]
      have := Nat.div_add_mod n 10
      rw [Nat.add_mul, Nat.mul_assoc]
      omega

theorem parseNat_showNat (n : Nat) : parseNat (showNat n) = some n := by
  obtain ⟨ds, h1, h2, h3⟩ := showNatAux_spec (n+1) n [] (by omega)
  unfold parseNat showNat
  rw [h1]
  simp only [List.append_nil]
  have : ds.isEmpty = false := by cases ds <;> simp_all
  simp [this, h3 0]

end Starcal
