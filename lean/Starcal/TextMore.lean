import Starcal.PMore
import Starcal.IvalText
/-! The remaining text forms of date.go / hms.go / utils (ParseDateList, ParseDateHMS, ParseHMSRange,
    ParseIntList, ParseDuration on plain decimals, the WeekMonth JSON object) and the printers
    HMS.String, DHMS.String, DateHMS.String. `none` is a returned error; none of these Go functions
    contains an index, slice or type-assertion expression outside a length guard, so the model has
    no panic branch for them (tied by the exhaustive short-string stream under recover()). -/
namespace Starcal

def DateV.isValid (d : DateV) : Bool :=
  decide (d.month > 0) && decide (d.month < 13) && decide (d.day > 0) && decide (d.day < 40)

/-- the loop of ParseDateList: first failing part decides -/
def parseDateParts : List (List Char) → Option (List DateV)
  | [] => some []
  | p :: ps =>
    match parseDate narrowNew p with
    | some d => (parseDateParts ps).map (d :: ·)
    | none => none

def parseDateList (s : List Char) : Option (List DateV) := parseDateParts (splitOn ' ' s)

def parseDateHMS (s : List Char) : Option (DateV × HMS) :=
  match splitOn ' ' s with
  | [p0, p1] =>
    match parseDate narrowNew p0 with
    | some d => (parseHMS narrowNew p1).map (fun h => (d, h))
    | none => none
  | _ => none

def parseHMSRange (s : List Char) : Option (HMS × HMS) :=
  match splitOn ' ' s with
  | [p0, p1] =>
    match parseHMS narrowNew p0 with
    | some a => (parseHMS narrowNew p1).map (fun b => (a, b))
    | none => none
  | _ => none

def parseIntParts : List (List Char) → Option (List Int)
  | [] => some []
  | p :: ps =>
    match parseInt p with
    | some n => (parseIntParts ps).map (n :: ·)
    | none => none

/-- utils.ParseIntList -/
def parseIntList (s : List Char) : Option (List Int) := parseIntParts (splitOn ' ' s)

/-- HMS.String: "%.2d:%.2d:%.2d" -/
def showHMS (x : HMS) : List Char :=
  showPad 2 x.hour ++ (':' :: (showPad 2 x.minute ++ (':' :: showPad 2 x.second)))

/-- DHMS.String: "%d %s" -/
def showDHMS (days : Int) (x : HMS) : List Char := showInt days ++ (' ' :: showHMS x)

/-- DateHMS.String -/
def showDateHMS (d : DateV) (x : HMS) : List Char := showDate d ++ (' ' :: showHMS x)

/-! ### ParseDuration on plain decimals

`strconv.ParseFloat` accepts much more (hex floats, Inf, NaN, exponents, underscores after a
base prefix); the model covers `[+-]?digits[.digits]` and `[+-]?.digits` only and the driver
answers `unmodelled` otherwise. The value is the exact rational; the harness compares the Go
float64 with its correctly rounded image. -/

def allDigits (s : List Char) : Bool := s.all Char.isDigit

def pow10 : Nat → Nat
  | 0 => 1
  | n + 1 => 10 * pow10 n

/-- value of `digits[.digits]` as a fraction (numerator, denominator = 10^k) -/
def parseDecimalBody (s : List Char) : Option (Nat × Nat) :=
  match splitOn '.' s with
  | [ip] => if ip.isEmpty || !allDigits ip then none else (parseNat ip).map (fun n => (n, 1))
  | [ip, fp] =>
    if (ip.isEmpty && fp.isEmpty) || !allDigits ip || !allDigits fp then none
    else
      match (if ip.isEmpty then some 0 else parseNat ip), (if fp.isEmpty then some 0 else parseNat fp) with
      | some a, some b => some (a * pow10 fp.length + b, pow10 fp.length)
      | _, _ => none
  | _ => none

/-- sign, numerator, denominator -/
def parseDecimal (s : List Char) : Option (Bool × Nat × Nat) :=
  match s with
  | '-' :: r => (parseDecimalBody r).map (fun p => (true, p.1, p.2))
  | '+' :: r => (parseDecimalBody r).map (fun p => (false, p.1, p.2))
  | r => (parseDecimalBody r).map (fun p => (false, p.1, p.2))

def unitSeconds (u : List Char) : Option Int :=
  if u = ['s'] then some 1 else if u = ['m'] then some 60 else if u = ['h'] then some 3600
  else if u = ['d'] then some 86400 else if u = ['w'] then some 604800 else none

structure DurationV where
  neg : Bool
  num : Nat
  den : Nat
  unit : List Char
  seconds : Int
deriving DecidableEq, Repr

/-- `none` = error; the caller decides beforehand whether the number is inside the modelled grammar -/
def parseDuration (s : List Char) : Option DurationV :=
  match splitOn ' ' s with
  | [p0, p1] =>
    match parseDecimal p0 with
    | some (neg, n, d) => (unitSeconds p1).map (fun sec => ⟨neg, n, d, p1, sec⟩)
    | none => none
  | _ => none

/-- Duration.IsValid: `Value >= 0` (−0 counts as ≥ 0, as in IEEE) -/
def DurationV.isValid (x : DurationV) : Bool := !x.neg || x.num == 0

end Starcal
